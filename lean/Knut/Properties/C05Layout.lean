import Knut.Spec.LayoutSpec
import Knut.Proofs.LayoutFactor
import Knut.Proofs.LayoutPrint
import Knut.Proofs.LayoutTree
import Knut.Properties.C05Verdict
import Knut.Properties.C05Inserts
import Knut.Properties.C05Valued
/-!
# C05, end to end — the layout of the journal over files does not matter

`Layout.journalOf fs root` (`Spec/LayoutSpec.lean`) is the directive list `knut check|balance|print` work on: the files
the recursive include loader returns for the file system `fs` (`Model/Loader.lean`, parser model of C07), each
elaborated by `model.FromStream` (`Commands.elabFile`, accrual expansion included), concatenated in the loader's order.

* `C05_run_factors` – `Cmd.run c fs f = onJournal c f (journalOf fs f.path)` for `check`, `balance`, `print`: the
  commands see the file system through `journalOf` only.
* `C05_layout_verdict`, `C05_layout_balance`, `C05_layout_balance_valued`, `C05_layout_print`, `C05_layout_print_exact` –
  two file systems (any include trees, any paths) whose journals are permutations of each other give the same `check`
  verdict, byte-identical `balance` output for every flag vector (valued: under `PricesDistinct`), and printed journals
  that differ at most in the order within a (day, kind) block (`Layout.PrintEquiv`; `C05_compare_equal_prints_alike`:
  transactions that compare equal are printed alike up to their `@performance` line); if the relative order within
  every (date, kind) block is the same, the printed bytes are identical.  No well-formedness hypothesis is left:
  `C05_layout_wf` – every journal that loads satisfies `DirsWF` (the account registry's check in `transaction.Create`).
* `C05_layout_arrival` – the files may arrive from the loader goroutines in any order (C19): the journal is a
  permutation of the depth-first one, so everything above holds for every schedule.
* `C05_split` – the hypothesis made concrete (constructive side): a *layout* `t : LTree` is an include tree of files, each
  with a path and a list of items, an item being a directive or an `include` of a child file under some spelling of its
  path.  Distribute the directives of `ds` in ANY way over the files of ANY such tree (`t.reading.Perm ds`), write
  every file with the functions of `journal.Print` (`Layout.dirText`, one `include "…"` line per child): on every
  file system that holds these files under their paths (`C05_split_fs`: the one made of exactly these files does)
  `journalOf` succeeds, and yields the directives file by file, depth first — a permutation of `ds`.  Hypotheses: the directives are printable (`PrintableDir`, C09: what `journal.Print` writes
  so that the scanner reads it back), every include spelling resolves — by `path.Join(filepath.Dir(includer), spelling)`
  — to the path of the included file, and the cleaned paths of the files are pairwise different.
  `C05_split_reports`: hence two layouts of the same directives give the same verdict, the same balance bytes, and
  print-equivalent journals.  A closed instance with three files in two directories against one file in reverse order
  closes the file.
-/
namespace Knut.C05
open Knut Knut.Loader Knut.Commands Knut.Layout Knut.InsertsPerm Knut.JournalPrinter Knut.FromSyntax

/-- **the commands factor through `journalOf`** -/
theorem C05_run_factors (c : Command) (hc : c = .check ∨ c = .balance ∨ c = .print) (fs : FileSys) (f : Flags) :
    Cmd.run c fs f = onJournal c f (journalOf fs f.path) := by
  rcases hc with rfl | rfl | rfl
  · exact run_check_eq fs f
  · exact run_balance_eq fs f
  · exact run_print_eq fs f

/-- `journal.FromPath` of the command model is `journalOf` -/
theorem C05_journalOf_is_fromPath (fs : FileSys) (root : Path) : fromPath fs root = journalOf fs root := rfl

/-- every journal that loads books on accounts with an account type only -/
theorem C05_layout_wf (fs : FileSys) (root : Path) (ds : List Directive) (h : journalOf fs root = .ok ds) : DirsWF ds :=
  journalOf_wf fs root ds h

/-- **the verdict of `knut check` does not depend on the layout**: same outcome class with or without `--write`
(the assertions `--write` prints are not claimed), and the same outcome without it -/
theorem C05_layout_verdict (fs fs' : FileSys) (f f' : Flags) (ds ds' : List Directive)
    (h : journalOf fs f.path = .ok ds) (h' : journalOf fs' f'.path = .ok ds') (hp : ds.Perm ds') :
    (Cmd.run .check fs f).cls = (Cmd.run .check fs' f').cls ∧
    (f.write = false → f'.write = false → Cmd.run .check fs f = Cmd.run .check fs' f') := by
  rw [run_check_eq, run_check_eq, h, h']
  simp only [checkOn]
  have hv := C05_verdict_perm ds ds' hp
  rw [← checkWrite_isOk_run, ← checkWrite_isOk_run] at hv
  cases h1 : checkWrite {} (Builder.ofList ds).build with
  | error e =>
    cases h2 : checkWrite {} (Builder.ofList ds').build with
    | error e' => exact ⟨rfl, fun _ _ => rfl⟩
    | ok as' => rw [h1, h2] at hv; cases hv
  | ok as =>
    cases h2 : checkWrite {} (Builder.ofList ds').build with
    | error e' => rw [h1, h2] at hv; cases hv
    | ok as' =>
      refine ⟨?_, ?_⟩
      · cases f.write <;> cases f'.write <;> simp only [if_true, if_false, Bool.false_eq_true, CmdOutcome.cls]
      · intro hw hw'; simp only [hw, hw', if_false, Bool.false_eq_true]

/-- **not a byte of an unvalued balance report depends on the layout**, for every flag vector -/
theorem C05_layout_balance (fs fs' : FileSys) (f f' : Flags) (ds ds' : List Directive)
    (h : journalOf fs f.path = .ok ds) (h' : journalOf fs' f'.path = .ok ds') (hp : ds.Perm ds')
    (hf : f'.balance = f.balance) (hv : commodityFlag f.balance.valuation = .ok none) :
    Cmd.run .balance fs f = Cmd.run .balance fs' f' := by
  rw [run_balance_eq, run_balance_eq, h, h', hf]
  simp only [balanceOn, hv]
  exact C05_balance_output_perm _ rfl ds ds' hp (journalOf_wf fs f.path ds h)

/-- **not a byte of any balance report, valued or not, depends on the layout**, for every flag vector, provided no date
carries two price directives for one pair of commodities (`C05_two_prices_one_day_order_matters`: needed) -/
theorem C05_layout_balance_valued (fs fs' : FileSys) (f f' : Flags) (ds ds' : List Directive)
    (h : journalOf fs f.path = .ok ds) (h' : journalOf fs' f'.path = .ok ds') (hp : ds.Perm ds')
    (hf : f'.balance = f.balance) (hpr : PricesDistinct ds) :
    Cmd.run .balance fs f = Cmd.run .balance fs' f' := by
  rw [run_balance_eq, run_balance_eq, h, h', hf]
  simp only [balanceOn]
  cases commodityFlag f.balance.valuation with
  | error o => rfl
  | ok v => exact C05_balance_output_perm_valued _ ds ds' hp (journalOf_wf fs f.path ds h) hpr

/-- **`knut print` shows the same journal up to the order within a (day, kind) block**: both runs are rejected by the
checker, or both print — the journals `j`, `j'` built from the two directive lists — and `j`, `j'` have the same days,
per day the same prices, openings, assertions, closings and transactions as multisets, the same column width, and the
sorted transaction sequences agree position by position up to `transaction.Compare` (`Layout.PrintEquiv`) -/
theorem C05_layout_print (fs fs' : FileSys) (f f' : Flags) (ds ds' : List Directive)
    (h : journalOf fs f.path = .ok ds) (h' : journalOf fs' f'.path = .ok ds') (hp : ds.Perm ds') :
    (Cmd.run .print fs f = .error "processing" ∧ Cmd.run .print fs' f' = .error "processing") ∨
    (Cmd.run .print fs f = .ok (print (Builder.ofList ds).build) ∧
     Cmd.run .print fs' f' = .ok (print (Builder.ofList ds').build) ∧
     PrintEquiv (Builder.ofList ds).build (Builder.ofList ds').build) := by
  rw [run_print_eq, run_print_eq, h, h']
  simp only [printOn]
  have hv := C05_verdict_perm ds ds' hp
  cases h1 : Check.run (Builder.ofList ds).build with
  | error e =>
    cases h2 : Check.run (Builder.ofList ds').build with
    | error e' => exact Or.inl ⟨rfl, rfl⟩
    | ok st' => rw [h1, h2] at hv; cases hv
  | ok st =>
    cases h2 : Check.run (Builder.ofList ds').build with
    | error e' => rw [h1, h2] at hv; cases hv
    | ok st' => exact Or.inr ⟨rfl, rfl, printEquiv_of_perm ds ds' hp⟩

/-- what `PrintEquiv` leaves open for the transactions, at text level: two transactions `transaction.Compare` does
not distinguish are printed alike except for their `@performance` line (the comparison looks at date, description and
postings). So between two layouts the block of transactions of a day changes at most by exchanging `@performance` lines
among transactions that are otherwise printed identically. -/
theorem C05_compare_equal_prints_alike (t u : Transaction) (h : cmpTx t u = .eq) (pad : Nat) :
    printTx pad { t with targets := none } = printTx pad { u with targets := none } := cmpTx_eq_print h pad

/-- **if the directives of every (date, kind) block keep their relative order, `knut print` writes the same bytes**:
the printed journal is a function of the per-date, per-kind sequences — the only thing a layout can change in it is
the relative order of directives that share date and kind -/
theorem C05_layout_print_exact (fs fs' : FileSys) (f f' : Flags) (ds ds' : List Directive)
    (h : journalOf fs f.path = .ok ds) (h' : journalOf fs' f'.path = .ok ds') (hp : ds.Perm ds')
    (hord : ∀ y, collect txKind ds y = collect txKind ds' y ∧ collect openKind ds y = collect openKind ds' y ∧
      collect closeKind ds y = collect closeKind ds' y ∧ collect priceKind ds y = collect priceKind ds' y ∧
      collect assertKind ds y = collect assertKind ds' y) :
    Cmd.run .print fs f = Cmd.run .print fs' f' := by
  rw [run_print_eq, run_print_eq, h, h']
  simp only [printOn, build_eq_of_collect ds ds' hp hord]

/-- **any arrival order of the files** (the loader goroutines deliver them in schedule order, C19): elaborating the
loaded files in another order gives a permutation of the journal, so all of the above holds for every schedule -/
theorem C05_layout_arrival (files files' : List LoadedFile) (hp : files.Perm files') (ds : List Directive)
    (h : journalOfFiles files = .ok ds) : ∃ ds', journalOfFiles files' = .ok ds' ∧ ds.Perm ds' :=
  journalOfFiles_perm hp h

/-! ## The constructive side: any distribution of the directives over any include tree -/

/-- **split**: the directives of `ds` distributed in any way over the files of an include tree and written with the
printer's functions are loaded back as a permutation of `ds` — explicitly: file by file, depth first — from every
file system that holds these files under their paths (other files may lie around) -/
theorem C05_split (pad : Nat) (t : LTree) (ds : List Directive) (fs : FileSys)
    (hfs : ∀ n ∈ t.nodes, fs.read n.1 = some (fileBytes (n.2.text pad)))
    (hassign : t.reading.Perm ds) (hdirs : ∀ x ∈ ds, PrintableDir x)
    (hedges : ∀ e ∈ t.edges, '"' ∉ e.2.1.toList ∧ resolve e.1 e.2.1 = e.2.2)
    (hpaths : (t.nodes.map (fun n => pathClean n.1)).Nodup) :
    journalOf fs t.path = .ok t.journal ∧ t.journal.Perm ds := by
  have hperm : t.journal.Perm ds := (journal_perm_reading t).trans hassign
  exact ⟨journalOf_layout pad t fs hfs (fun x hx => hdirs x (hperm.mem_iff.mp hx)) hedges hpaths, hperm⟩

/-- such a file system exists: the one made of exactly the files of the layout (`LTree.fs`) -/
theorem C05_split_fs (pad : Nat) (t : LTree) (hpaths : (t.nodes.map (fun n => pathClean n.1)).Nodup) :
    ∀ n ∈ t.nodes, (t.fs pad).read n.1 = some (fileBytes (n.2.text pad)) := fs_reads pad t hpaths

/-- the exclusion of same-day price clashes is a property of the multiset of directives -/
theorem C05_prices_distinct_perm {ds ds' : List Directive} (hp : ds.Perm ds') (h : PricesDistinct ds) : PricesDistinct ds' := by
  intro y
  exact InsertsPermValued.pairsDistinct_perm (((hp.filterMap _).map _)) (h y)

/-- **two layouts of the same directives**: whatever the two include trees, the paths, the distribution of the
directives over the files and the column widths, `check` gives the same verdict, `balance` the same bytes for every
flag vector (under `PricesDistinct`), and `print` journals that differ at most within (day, kind) blocks -/
theorem C05_split_reports (pad pad' : Nat) (t t' : LTree) (ds : List Directive)
    (hassign : t.reading.Perm ds) (hassign' : t'.reading.Perm ds) (hdirs : ∀ x ∈ ds, PrintableDir x)
    (hedges : ∀ e ∈ t.edges, '"' ∉ e.2.1.toList ∧ resolve e.1 e.2.1 = e.2.2)
    (hedges' : ∀ e ∈ t'.edges, '"' ∉ e.2.1.toList ∧ resolve e.1 e.2.1 = e.2.2)
    (hpaths : (t.nodes.map (fun n => pathClean n.1)).Nodup) (hpaths' : (t'.nodes.map (fun n => pathClean n.1)).Nodup)
    (f f' : Flags) (hf : f.path = t.path) (hf' : f'.path = t'.path) :
    (Cmd.run .check (t.fs pad) f).cls = (Cmd.run .check (t'.fs pad') f').cls ∧
    (f'.balance = f.balance → PricesDistinct ds → Cmd.run .balance (t.fs pad) f = Cmd.run .balance (t'.fs pad') f') ∧
    ((Cmd.run .print (t.fs pad) f = .error "processing" ∧ Cmd.run .print (t'.fs pad') f' = .error "processing") ∨
     (Cmd.run .print (t.fs pad) f = .ok (print (Builder.ofList t.journal).build) ∧
      Cmd.run .print (t'.fs pad') f' = .ok (print (Builder.ofList t'.journal).build) ∧
      PrintEquiv (Builder.ofList t.journal).build (Builder.ofList t'.journal).build)) := by
  obtain ⟨h, hp⟩ := C05_split pad t ds _ (C05_split_fs pad t hpaths) hassign hdirs hedges hpaths
  obtain ⟨h', hp'⟩ := C05_split pad' t' ds _ (C05_split_fs pad' t' hpaths') hassign' hdirs hedges' hpaths'
  rw [← hf] at h
  rw [← hf'] at h'
  have hpp : t.journal.Perm t'.journal := hp.trans hp'.symm
  exact ⟨(C05_layout_verdict _ _ f f' _ _ h h' hpp).1,
    fun hb hpr => C05_layout_balance_valued _ _ f f' _ _ h h' hpp hb (C05_prices_distinct_perm hp.symm hpr),
    C05_layout_print _ _ f f' _ _ h h' hpp⟩

/-! ## Non-vacuity: three files in two directories against one file in reverse order

`main.knut` holds an `open`, includes `./inc/a.knut` and ends with a transaction; `inc/a.knut` holds a transaction,
includes `b.knut` — resolved relative to its own directory: `inc/b.knut` — and an `open`; `inc/b.knut` holds a
transaction and an `open`.  The directives are those of `xDirs` (`Properties/C05Inserts.lean`: three accounts, three
transactions in two months).  `all.knut` holds the same directives in reverse order. -/

def exB : LTree := .node "inc/b.knut" (.ofList [.inl (xDirs[4]!), .inl (xDirs[0]!)])
def exA : LTree := .node "inc/a.knut" (.ofList [.inl (xDirs[5]!), .inr ("b.knut", exB), .inl (xDirs[1]!)])
def exTree : LTree := .node "main.knut" (.ofList [.inl (xDirs[2]!), .inr ("./inc/a.knut", exA), .inl (xDirs[3]!)])
def exOne : LTree := .node "all.knut" (.ofList (xDirs.reverse.map .inl))

theorem xDirs_printable : ∀ x ∈ xDirs, PrintableDir x := by decide +kernel

/-- the three files on disk, character for character what an editor shows (day number 1 is 0001-01-02) -/
example : exTree.nodes.map (fun n => (n.1, (n.2.text 14).toList)) =
    [("main.knut", "0001-01-02 open Expenses:Food\ninclude \"./inc/a.knut\"\n0001-01-03 \"salary\"\nIncome:Salary  Assets:Bank           100 CHF\n\n".toList),
     ("inc/a.knut", "0001-02-10 \"food\"\nAssets:Bank    Expenses:Food           5 CHF\n\ninclude \"b.knut\"\n0001-01-02 open Income:Salary\n".toList),
     ("inc/b.knut", "0001-01-03 \"food\"\nAssets:Bank    Expenses:Food          30 CHF\n\n0001-01-02 open Assets:Bank\n".toList)] := by
  decide +kernel

/-- `C05_split` applies to the three-file layout: the loader follows `./inc/a.knut` and, from there, `b.knut` -/
theorem exTree_journal : journalOf (exTree.fs 14) "main.knut" = .ok exTree.journal ∧ exTree.journal.Perm xDirs :=
  C05_split 14 exTree xDirs _ (C05_split_fs 14 exTree (by decide +kernel)) (by decide +kernel) xDirs_printable (by decide +kernel)
    (by decide +kernel)

theorem exOne_journal : journalOf (exOne.fs 0) "all.knut" = .ok exOne.journal ∧ exOne.journal.Perm xDirs :=
  C05_split 0 exOne xDirs _ (C05_split_fs 0 exOne (by decide +kernel)) (by decide +kernel) xDirs_printable (by decide +kernel)
    (by decide +kernel)

/-- the loaded order is file by file, depth first: neither the order of `xDirs` nor its reverse -/
example : exTree.journal = [xDirs[2]!, xDirs[3]!, xDirs[5]!, xDirs[1]!, xDirs[4]!, xDirs[0]!] ∧
    exTree.reading = [xDirs[2]!, xDirs[5]!, xDirs[4]!, xDirs[0]!, xDirs[1]!, xDirs[3]!] ∧
    exOne.journal = xDirs.reverse := by decide +kernel

/-- the layout theorems apply: same verdict (both accepted) … -/
example : Cmd.run .check (exTree.fs 14) { path := "main.knut" } = Cmd.run .check (exOne.fs 0) { path := "all.knut" } :=
  (C05_layout_verdict _ _ { path := "main.knut" } { path := "all.knut" } _ _ exTree_journal.1 exOne_journal.1
    (exTree_journal.2.trans exOne_journal.2.symm)).2 rfl rfl

example : (Cmd.run .check (exTree.fs 14) { path := "main.knut" }).cls = .ok := by
  rw [run_check_eq, exTree_journal.1]
  decide +kernel

/-- … the same bytes of the monthly balance report (`xFlags`) … -/
example : Cmd.run .balance (exTree.fs 14) { path := "main.knut", balance := xFlags } =
    Cmd.run .balance (exOne.fs 0) { path := "all.knut", balance := xFlags } :=
  C05_layout_balance _ _ { path := "main.knut", balance := xFlags } { path := "all.knut", balance := xFlags } _ _
    exTree_journal.1 exOne_journal.1 (exTree_journal.2.trans exOne_journal.2.symm) rfl rfl

/-- … and of the valued one (no price directives: `PricesDistinct` holds trivially) … -/
example : Cmd.run .balance (exTree.fs 14) { path := "main.knut", balance := { xFlags with valuation := some "CHF" } } =
    Cmd.run .balance (exOne.fs 0) { path := "all.knut", balance := { xFlags with valuation := some "CHF" } } :=
  C05_layout_balance_valued _ _ { path := "main.knut", balance := { xFlags with valuation := some "CHF" } }
    { path := "all.knut", balance := { xFlags with valuation := some "CHF" } } _ _
    exTree_journal.1 exOne_journal.1 (exTree_journal.2.trans exOne_journal.2.symm) rfl
    (pricesDistinct_of_pairwise (by decide +kernel))

/-- … and print-equivalent journals: both runs print (the journal is accepted), and what they print differs at most
within (day, kind) blocks -/
example : Cmd.run .print (exTree.fs 14) { path := "main.knut" } = .ok (print (Builder.ofList exTree.journal).build) ∧
    Cmd.run .print (exOne.fs 0) { path := "all.knut" } = .ok (print (Builder.ofList exOne.journal).build) ∧
    PrintEquiv (Builder.ofList exTree.journal).build (Builder.ofList exOne.journal).build := by
  rcases C05_layout_print _ _ { path := "main.knut" } { path := "all.knut" } _ _ exTree_journal.1 exOne_journal.1
    (exTree_journal.2.trans exOne_journal.2.symm) with h | h
  · exfalso
    have h1 := h.1
    rw [run_print_eq, exTree_journal.1] at h1
    simp only [printOn] at h1
    have : (Check.run (Builder.ofList exTree.journal).build).isOk = true := by decide +kernel
    cases hc : Check.run (Builder.ofList exTree.journal).build with
    | error e => rw [hc] at this; cases this
    | ok st => rw [hc] at h1; cases h1
  · exact h

/-- the two built journals are not equal — the two transactions of day 2 arrive in different orders — so `PrintEquiv`,
not equality of the journals, is what holds in general -/
example : (Builder.ofList exTree.journal).build ≠ (Builder.ofList exOne.journal).build := by decide +kernel

/-- the same file under another name in another directory, written with another column width: the exact variant
applies, `print` writes the same bytes -/
def exOne' : LTree := .node "elsewhere/journal.knut" exOne.items

theorem exOne'_journal : journalOf (exOne'.fs 30) "elsewhere/journal.knut" = .ok exOne'.journal ∧ exOne'.journal.Perm xDirs :=
  C05_split 30 exOne' xDirs _ (C05_split_fs 30 exOne' (by decide +kernel)) (by decide +kernel) xDirs_printable (by decide +kernel)
    (by decide +kernel)

example : Cmd.run .print (exOne.fs 0) { path := "all.knut" } = Cmd.run .print (exOne'.fs 30) { path := "elsewhere/journal.knut" } :=
  C05_layout_print_exact _ _ { path := "all.knut" } { path := "elsewhere/journal.knut" } _ _ exOne_journal.1 exOne'_journal.1
    (List.Perm.refl _) (fun _ => ⟨rfl, rfl, rfl, rfl, rfl⟩)

/-- two transactions that differ in their `@performance` targets only compare equal (and are distinct) -/
example : cmpTx ⟨2, "buy", postingBuild xBank xFood "CHF" 30, some ["CHF"]⟩ ⟨2, "buy", postingBuild xBank xFood "CHF" 30, none⟩ = .eq ∧
    (⟨2, "buy", postingBuild xBank xFood "CHF" 30, some ["CHF"]⟩ : Transaction) ≠ ⟨2, "buy", postingBuild xBank xFood "CHF" 30, none⟩ := by
  decide +kernel

/-- the split theorem for two layouts at once -/
example (f f' : Flags) (hf : f.path = "main.knut") (hf' : f'.path = "all.knut") :
    (Cmd.run .check (exTree.fs 14) f).cls = (Cmd.run .check (exOne.fs 0) f').cls :=
  (C05_split_reports 14 0 exTree exOne xDirs (by decide +kernel) (by decide +kernel) xDirs_printable (by decide +kernel)
    (by decide +kernel) (by decide +kernel) (by decide +kernel) f f' hf hf').1

/-- files may arrive in any order: the reverse arrival order of the three files still yields a permutation -/
example (files : List LoadedFile) (ds : List Directive) (h : journalOfFiles files = .ok ds) :
    ∃ ds', journalOfFiles files.reverse = .ok ds' ∧ ds.Perm ds' :=
  C05_layout_arrival files files.reverse (List.reverse_perm files).symm ds h

/-- every loaded journal is well-formed: here the three-file one -/
example : DirsWF exTree.journal := C05_layout_wf _ _ _ exTree_journal.1

/-- the factorisation, instantiated -/
example : Cmd.run .print (exTree.fs 14) { path := "main.knut" } = printOn exTree.journal := by
  rw [C05_run_factors .print (Or.inr (Or.inr rfl))]
  show onJournal .print _ (journalOf (exTree.fs 14) "main.knut") = _
  rw [exTree_journal.1]
  rfl

/-- the exclusion of price clashes transfers along permutations: here from `xDirs` to the loaded order -/
example : PricesDistinct exTree.journal :=
  C05_prices_distinct_perm exTree_journal.2.symm (pricesDistinct_of_pairwise (by decide +kernel))

end Knut.C05
