import Knut.FactsAgree.TransImportSwisscard
import Knut.FactsAgree.TransImportSupercardRun
/-!
# `ch.swisscard`, run level: the translated `readLine` folded as `parser.parse` folds it = `Import.Swisscard.run`

`cmd/importer/swisscard/swisscard.go`:

```go
func (p *parser) parse() error {
	p.reader.TrimLeadingSpace = true
	for {
		err := p.readLine()
		if err == io.EOF { return nil }
		if err != nil { return err }
	}
}
```

`parse` is NOT translated (an endless `for` around a reader): `loop` below is its hand-written transcription, folding the TRANSLATED
`swisscard.parser.readLine` (`Generated/TransImportSwisscard.lean`, regenerated on every run) over what the `encoding/csv.Reader`
delivers.  The reader stays an `ext`; what is read by hand: it runs with `FieldsPerRecord = 0`, so the first record fixes the field
count `n` and every later record of another length comes together with `csv.ErrFieldCount` (`deliveries`); when the list is used up the
reader delivers `io.EOF`.  `Commodities().Get("CHF")` always returns the interned commodity (`ext2`), `TBDAccount()` the one interned
account `ext3`.

**`run_agrees`**: for every list of records, from a parser whose builder stands for a model builder `b`:
`Swisscard.run = ok ds` ↦ `parse` returns nil and the builder stands for `b` with `ds` added in order; `error` ↦ `parse` returns an
error; `panic` ↦ `parse` panics (Go's index panic in `r[0]` on a record without fields — which `encoding/csv` never delivers — or in
`r[1]` on a one-field record that matches the date pattern).  Full agreement, no `outOfFuel`.
-/
namespace Knut.FactsAgree.TransImportSwisscardRun
open Knut Knut.GoSem
open Knut.Generated.Go
open Knut.FactsAgree.TransAccount Knut.FactsAgree.TransPosting Knut.FactsAgree.TransJournal Knut.FactsAgree.TransImportSwisscard
open Knut.FactsAgree.TransImportSupercardRun (eof errFieldCount deliverN foldl_add_append)

/-- the successive results of `p.reader.Read()` on a file whose records are `recs` with `FieldsPerRecord = 0`: the length of the
first record is required of all -/
def deliveries (recs : List (List String)) : List (List String × Option Error) :=
  recs.map (deliverN ((recs.head?.map List.length).getD 0))

/-- the `for` loop of `parse`: `reads` = the results of the reader still to come, `io.EOF` after them -/
def loop (ext2 : commodity.Commodity × Option Error) (ext3 : account.Account) :
    swisscard.parser → List (List String × Option Error) → GoSem.Outcome (swisscard.parser × Option Error)
  | p, [] =>
    GoSem.Outcome.bind (swisscard.parser.readLine p ([], some eof) ext2 ext3) (fun (p', err) =>
      if err = some eof then .ok (p', none) else .ok (p', err))
  | p, rd :: reads =>
    GoSem.Outcome.bind (swisscard.parser.readLine p rd ext2 ext3) (fun (p', err) =>
      if err = some eof then .ok (p', none)
      else if err.isSome then .ok (p', err)
      else loop ext2 ext3 p' reads)

/-- the loop of `parse` on the deliveries of `rows` (required length `n`) is `mapRows (row acct n) rows` -/
theorem loop_agrees (cur : String → Bool) (acct : Knut.Account) (n : Nat) (ext2 : commodity.Commodity × Option Error)
    (ext3 : account.Account) (h2 : ext2 = (commodityGo cur "CHF", none)) (h3 : ext3 = accountGo Import.tbd) :
    ∀ (rows : List Import.Rec) (p : swisscard.parser) (b : Knut.Builder), BEquiv cur p.builder b → p.account = accountGo acct →
    match Import.mapRows (Import.Swisscard.row acct n) rows with
    | .ok ds => ∃ p', loop ext2 ext3 p (rows.map (deliverN n)) = .ok (p', none) ∧ p'.account = p.account ∧
        BEquiv cur p'.builder (ds.foldl Knut.Builder.add b)
    | .error => ∃ p' e, loop ext2 ext3 p (rows.map (deliverN n)) = .ok (p', some e)
    | .panic => ∃ m, loop ext2 ext3 p (rows.map (deliverN n)) = .panic m := by
  intro rows
  induction rows with
  | nil =>
    intro p b hb _
    refine ⟨p, ?_, rfl, hb⟩
    simp [loop, readLine_reader_error, GoSem.Outcome.bind]
  | cons r rows ih =>
    intro p b hb hacct
    unfold Import.mapRows
    by_cases hn : r.length = n
    · have hrow := readLine_agrees cur p b acct r hb hacct ext2 ext3 h2 h3
      rw [hn] at hrow
      have hdel : deliverN n r = (r, none) := by simp [deliverN, hn]
      cases hrw : Import.Swisscard.row acct n r with
      | ok ds =>
        rw [hrw] at hrow
        obtain ⟨p1, hp1, hacc1, hb1⟩ := hrow
        have ih' := ih p1 _ hb1 (hacc1.trans hacct)
        have hl : loop ext2 ext3 p ((r :: rows).map (deliverN n)) = loop ext2 ext3 p1 (rows.map (deliverN n)) := by
          simp only [List.map_cons, hdel]
          rw [loop]
          simp only [hp1, GoSem.Outcome.bind]
          simp
        rw [hl]
        cases hm : Import.mapRows (Import.Swisscard.row acct n) rows with
        | ok ds' =>
          rw [hm] at ih'
          obtain ⟨p', hp', hacc', hb'⟩ := ih'
          refine ⟨p', hp', hacc'.trans hacc1, ?_⟩
          simpa [foldl_add_append] using hb'
        | error => rw [hm] at ih'; exact ih'
        | panic => rw [hm] at ih'; exact ih'
      | error =>
        rw [hrw] at hrow
        obtain ⟨e, hee, he⟩ := hrow
        show ∃ p' e, _ = _
        have hee' : e ≠ eof := hee
        refine ⟨p, e, ?_⟩
        simp only [List.map_cons, hdel]
        rw [loop]
        simp only [he, GoSem.Outcome.bind]
        simp [hee']
      | panic =>
        rw [hrw] at hrow
        obtain ⟨m, hm⟩ := hrow
        show ∃ m, _ = _
        refine ⟨m, ?_⟩
        simp only [List.map_cons, hdel]
        rw [loop]
        simp only [hm, GoSem.Outcome.bind]
    · -- another field count than the first record's: the reader's `csv.ErrFieldCount`
      have hrw : Import.Swisscard.row acct n r = .error := by simp [Import.Swisscard.row, hn]
      rw [hrw]
      show ∃ p' e, _ = _
      have hdel : deliverN n r = (r, some errFieldCount) := by simp [deliverN, hn]
      refine ⟨p, errFieldCount, ?_⟩
      simp only [List.map_cons, hdel]
      rw [loop, readLine_reader_error]
      have : errFieldCount ≠ eof := by decide
      simp [GoSem.Outcome.bind, this]

/-- **`parser.parse`** of `ch.swisscard` over the records of a file = `Import.Swisscard.run` -/
theorem run_agrees (cur : String → Bool) (acct : Knut.Account) (ext2 : commodity.Commodity × Option Error) (ext3 : account.Account)
    (h2 : ext2 = (commodityGo cur "CHF", none)) (h3 : ext3 = accountGo Import.tbd)
    (recs : List Import.Rec) (p : swisscard.parser) (b : Knut.Builder) (hb : BEquiv cur p.builder b) (hacct : p.account = accountGo acct) :
    match Import.Swisscard.run acct recs with
    | .ok ds => ∃ p', loop ext2 ext3 p (deliveries recs) = .ok (p', none) ∧ p'.account = p.account ∧
        BEquiv cur p'.builder (ds.foldl Knut.Builder.add b)
    | .error => ∃ p' e, loop ext2 ext3 p (deliveries recs) = .ok (p', some e)
    | .panic => ∃ m, loop ext2 ext3 p (deliveries recs) = .panic m :=
  loop_agrees cur acct _ ext2 ext3 h2 h3 recs p b hb hacct

/-- a statement: a title line, a booking, a line whose second field is no date — all of eleven fields -/
def sample : List Import.Rec :=
  [["Transaction date", "Booking date", "Text", "Amount", "a", "b", "c", "d", "e", "f", "g"],
   ["01.02.2023", "02.02.2023", " Coop ", "CHF1'234.50", "", "Food", "", "", "", "x", "y"],
   ["01.02.2023", "", "Total", "", "", "", "", "", "", "", ""]]

/-- non-vacuity: the sample statement from the fresh builder: one transaction -/
example : ∃ ds, Import.Swisscard.run ⟨["Liabilities", "Card"]⟩ sample = .ok ds ∧ ds.length = 1 ∧
    ∃ p', loop (commodityGo (fun _ => true) "CHF", none) (accountGo Import.tbd) ⟨accountGo ⟨["Liabilities", "Card"]⟩, journal.New⟩
        (deliveries sample) = .ok (p', none) ∧
      BEquiv (fun _ => true) p'.builder (Knut.Builder.ofList ds) := by
  have h := run_agrees (fun _ => true) ⟨["Liabilities", "Card"]⟩ (commodityGo (fun _ => true) "CHF", none) (accountGo Import.tbd)
    rfl rfl sample ⟨accountGo ⟨["Liabilities", "Card"]⟩, journal.New⟩ {} (New_agrees _) rfl
  have hok : (match Import.Swisscard.run ⟨["Liabilities", "Card"]⟩ sample with | .ok ds => ds.length == 1 | _ => false) = true := by
    decide +kernel
  revert h hok
  cases Import.Swisscard.run ⟨["Liabilities", "Card"]⟩ sample with
  | ok ds => exact fun h hok => ⟨ds, rfl, by simpa using hok, h.imp fun p' h => ⟨h.1, h.2.2⟩⟩
  | error => simp
  | panic => simp

/-- non-vacuity of the panic clause: a one-field record that matches the date pattern -/
example : ∃ m, loop (commodityGo (fun _ => true) "CHF", none) (accountGo Import.tbd) ⟨accountGo ⟨["Liabilities", "Card"]⟩, journal.New⟩
    (deliveries [["01.02.2023"]]) = .panic m := by
  have h := run_agrees (fun _ => true) ⟨["Liabilities", "Card"]⟩ (commodityGo (fun _ => true) "CHF", none) (accountGo Import.tbd)
    rfl rfl [["01.02.2023"]] ⟨accountGo ⟨["Liabilities", "Card"]⟩, journal.New⟩ {} (New_agrees _) rfl
  have hp : Import.Swisscard.run ⟨["Liabilities", "Card"]⟩ [["01.02.2023"]] = .panic := by decide +kernel
  rw [hp] at h
  exact h

end Knut.FactsAgree.TransImportSwisscardRun
