import Knut.Generated.TransCreateModel
import Knut.FactsAgree.TransParser4
import Knut.FactsAgree.TransJournal
import Knut.Model.FromSyntax
import Knut.Model.Import.Common
/-!
# The translated MODEL LAYER conversion (syntax tree → model directives) agrees with `Model/FromSyntax.lean`, part 1

`directives.Date.Parse`, `directives.Decimal.Parse`, `open.Create`, `close.Create`, `price.Create`, `assertion.Create`, `posting.Create`,
regenerated from /repo on every run into `Knut/Generated/TransCreate*.lean` (`harness/trans_units_create.go`: the syntax tree as the
structures of the syntax-layer translator, the registry calls as function parameters `ext…`, `Range.Extract` through `GoSem/Bridge.lean`,
`time.Parse` / `decimal.NewFromString` in `GoSem/Parse.lean`).  Part 2 (`TransCreate2.lean`): `transaction.Create`, `model.ParseDirective`.

The theorems are about the Go tree `go… text path x` of ANY model tree `x` (not only parsed ones: `ParseFile_agrees` says that the parser
returns such a tree), under explicit hypotheses about the texts of the fields, which are what the grammar guarantees:

* `TextOK`: the range lies in the file and its bytes are valid UTF-8 (otherwise Go's `Extract` panics, resp. the string has no meaning in
  the model layer's reading: `Bridge.extract`);
* `AccountOK`: the segments after the first are alphanumeric and not empty — the model (`Account.wf`) checks the account type only, the
  registry (`Import.validAccount`) every segment;
* `CommodityOK`: alphanumeric and not empty — the model does not check commodities, the registry (`Import.validCommodity`) does;
* `DecimalOK`: the model's reading of the text (`FromSyntax.decimal`: ASCII digits, `parseDec` = `-?digits(.digits)?`) and
  `decimal.NewFromString` agree on it — `NewFromString` accepts more (`1.`, `.5`, `1e3`); `decimalOK_of_model` (with
  `newFromString_of_parseDec`): it holds of every text the model reads, in files of at most 2 GiB (`NewFromString` rejects more than
  2^31 fractional digits: the exponent is an `int32`).

The registry functions are fixed to `regAccount` / `regCommodity cur`: the model of `account.Registry.Get` / `commodity.Registry.Get`
(`Import.validAccount`, `Import.validCommodity`; one pointer per name is one value per name; `cur` = the names tagged as currencies).

| Go | theorem | model |
|---|---|---|
| prelude `Time.ParseISO`, `Decimal.NewFromString` | `parseDate_model`, `newFromString_model` | `FromSyntax.parseDate`, `Import.newFromString` (the copies are the originals) |
| `decimal.NewFromString` on the grammar's decimals | `newFromString_of_parseDec`, `decimalOK_of_model`, `NewFromString_agrees` | `Dec.parseDec` |
| `Range.Extract` read as text | `Extract_ok`, `extract_ok` | `FromSyntax.fieldStr` |
| `Date.Parse`, `Decimal.Parse` | `Date_Parse_agrees`, `Decimal_Parse_agrees` | `FromSyntax.date`, `FromSyntax.decimal` |
| registry | `regAccount_agrees`, `regCommodity_agrees` | `FromSyntax.account` (valid iff `wf`, under `AccountOK`) |
| `open.Create`, `close.Create`, `price.Create` | `open_Create_agrees`, `close_Create_agrees`, `price_Create_agrees` | `FromSyntax.item` (same directive, else an error) |
| `assertion.Create` (+ loop) | `assertion_range1_agrees`, `assertion_Create_agrees` | `date`, `mapM balanceM` |
| `posting.Create` (+ loop) | `posting_range1_agrees`, `posting_Create_agrees` | `mapM FromSyntax.booking`, `Accrual.postingsOf` |
-/
namespace Knut.FactsAgree.TransCreate
open Knut Knut.GoSem
open Knut.Generated.Go
open Knut.FactsAgree.TransScanner Knut.FactsAgree.TransParser
open Knut.FactsAgree.TransAccount Knut.FactsAgree.TransPosting

/-! ### the prelude copies are the model's definitions -/

theorem asciiDigit_model : Parse.asciiDigit = FromSyntax.asciiDigit := rfl
theorem digitsVal_model : Parse.digitsVal = FromSyntax.digitsVal := rfl
theorem daysIn_model : Parse.daysIn = FromSyntax.daysIn := rfl

/-- the prelude's `time.Parse("2006-01-02", ·)` on bytes is the loader model's `parseDate` -/
theorem parseDate_model (bs : List UInt8) : Parse.parseDate bs = FromSyntax.parseDate bs := by
  unfold Parse.parseDate FromSyntax.parseDate
  rw [asciiDigit_model, digitsVal_model, daysIn_model]
  rfl

theorem isDig_model : Parse.isDig = Import.isDig := rfl
theorem charsVal_model : Parse.charsVal = Import.digitsVal := rfl
theorem parseSignedInt_model : Parse.parseSignedInt = Import.parseSignedInt := by
  funext cs
  unfold Parse.parseSignedInt Import.parseSignedInt
  rw [isDig_model, charsVal_model]
  rfl
theorem scale10_model : Parse.scale10 = Import.scale10 := rfl

/-- the prelude's `decimal.NewFromString` is the importer models' `newFromString` -/
theorem newFromString_model (s : String) : Parse.newFromString s = Import.newFromString s := by
  unfold Parse.newFromString Import.newFromString
  rw [parseSignedInt_model, scale10_model]
  rfl


/-! ### `Range.Extract`, read as a text -/

/-- `Range.Extract` of a range of the tree that lies inside the text -/
theorem Extract_ok {text : Bytes} {path : String} {r : Syntax.Range} {bs : Bytes} (h : r.extract text = some bs) :
    directives.Range.Extract (goRange text path r) = .ok bs := by
  unfold Syntax.Range.extract at h
  split at h
  · rename_i hb
    simp only [Option.some.injEq] at h
    unfold directives.Range.Extract goRange slice
    have h' : ¬ ((r.start : Int) < 0 ∨ (r.stop : Int) < (r.start : Int) ∨ (text.length : Int) < (r.stop : Int)) := by omega
    simp only [h', if_false, Outcome.bind, Int.toNat_natCast, List.drop_take, h]
  · simp at h

/-- a field whose bytes are a text: `Range.Extract` read in the model layer's reading -/
theorem extract_ok {text : Bytes} {path : String} {r : Syntax.Range} {s : String} (h : FromSyntax.fieldStr text r = some s) :
    Bridge.extract (goRange text path r) = .ok s := by
  unfold FromSyntax.fieldStr FromSyntax.field at h
  cases hb : r.extract text with
  | none => simp [hb] at h
  | some bs =>
    simp only [hb, Option.bind_some, FromSyntax.utf8] at h
    unfold Bridge.extract
    rw [Extract_ok hb]
    simp only [Outcome.bind, Bridge.text, h]

/-- the bytes of a field that is a text are the bytes of that text -/
theorem bytes_of_utf8 {bs : Bytes} {s : String} (h : FromSyntax.utf8 bs = some s) : s.toByteArray.data.toList = bs := by
  unfold FromSyntax.utf8 String.fromUTF8? at h
  split at h
  · simp only [Option.some.injEq] at h
    rw [← h]
    rfl
  · simp at h


/-! ### `decimal.NewFromString` on the decimals of the journal grammar -/

section decimals
open Knut.Import

theorem dig_props {c : Char} (h : isDig c = true) : c ≠ 'E' ∧ c ≠ 'e' ∧ c ≠ '.' ∧ c ≠ '-' ∧ c ≠ '+' := by
  refine ⟨?_, ?_, ?_, ?_, ?_⟩ <;> (intro e; subst e; revert h; decide)

def signOf (neg : Bool) : List Char := if neg then ['-'] else []
def fracOf (frac : Bool) (fp : List Char) : List Char := if frac then '.' :: fp else []

/-- `parseDec` after the sign -/
def decCore (neg : Bool) (cs : List Char) : Option Rat :=
  let ip := cs.takeWhile isDig
  let rest := cs.dropWhile isDig
  if ip.isEmpty then none else
  match rest with
  | [] =>
    let v : Int := digitsVal ip
    some ((if neg then -v else v : Int) : Rat)
  | '.' :: fp =>
    if fp.isEmpty || !fp.all isDig then none else
    let v : Int := digitsVal (ip ++ fp)
    some (mkRat (if neg then -v else v) (10 ^ fp.length))
  | _ => none

/-- `parseDec`: the optional sign, then `decCore` -/
theorem parseDec_core {s : String} {q : Rat} (h : Dec.parseDec s = some q) :
    (∃ rest, s.toList = '-' :: rest ∧ decCore true rest = some q) ∨
    ((∀ rest, s.toList ≠ '-' :: rest) ∧ decCore false s.toList = some q) := by
  unfold Dec.parseDec at h
  simp only [] at h
  split at h
  · rename_i rest e
    exact Or.inl ⟨rest, e, h⟩
  · rename_i hne
    exact Or.inr ⟨fun rest e => hne rest e, h⟩

theorem takeWhile_all {α : Type} (p : α → Bool) : ∀ (l : List α) (c : α), c ∈ l.takeWhile p → p c = true
  | [], _, h => by simp at h
  | a :: l, c, h => by
    by_cases ha : p a = true
    · simp only [List.takeWhile_cons, ha, if_true, List.mem_cons] at h
      rcases h with h | h
      · rw [h]; exact ha
      · exact takeWhile_all p l c h
    · simp [List.takeWhile_cons, ha] at h

theorem decCore_shape {neg : Bool} {cs : List Char} {q : Rat} (h : decCore neg cs = some q) :
    ∃ (frac : Bool) (ip fp : List Char), cs = ip ++ fracOf frac fp ∧ ip ≠ [] ∧
      (∀ c ∈ ip, isDig c = true) ∧ (∀ c ∈ fp, isDig c = true) ∧ (frac = true → fp ≠ []) ∧ (frac = false → fp = []) ∧
      q = if frac then mkRat (if neg then -(digitsVal (ip ++ fp) : Int) else (digitsVal (ip ++ fp) : Int)) (10 ^ fp.length)
          else (((if neg then -(digitsVal ip : Int) else (digitsVal ip : Int)) : Int) : Rat) := by
  unfold decCore at h
  simp only at h
  have hsplit : cs = cs.takeWhile isDig ++ cs.dropWhile isDig := (List.takeWhile_append_dropWhile).symm
  have hip : ∀ c ∈ cs.takeWhile isDig, isDig c = true := takeWhile_all isDig cs
  split at h
  · simp at h
  · rename_i hne
    split at h
    · rename_i hrest
      refine ⟨false, cs.takeWhile isDig, [], ?_, ?_, hip, by simp, by simp, by simp, ?_⟩
      · rw [hrest] at hsplit; simpa [fracOf] using hsplit
      · intro e; simp [e] at hne
      · simp only [Option.some.injEq] at h; simp [← h]
    · rename_i fp hrest
      split at h
      · simp at h
      · rename_i hfp
        simp only [Bool.or_eq_true, Bool.not_eq_true', not_or, Bool.not_eq_true, Bool.not_eq_false] at hfp
        refine ⟨true, cs.takeWhile isDig, fp, ?_, ?_, hip, ?_, ?_, by simp, ?_⟩
        · rw [hrest] at hsplit; simpa [fracOf] using hsplit
        · intro e; simp [e] at hne
        · intro c hc; exact List.all_eq_true.mp hfp.2 c hc
        · intro _ e; simp [e] at hfp
        · simp only [Option.some.injEq] at h; simp [← h]
    · simp at h


theorem digs_filter_ne {l : List Char} (h : ∀ c ∈ l, isDig c = true) : l.filter (· != '.') = l :=
  List.filter_eq_self.mpr (fun c hc => by have := (dig_props (h c hc)).2.2.1; simpa using this)

theorem digs_filter_eq {l : List Char} (h : ∀ c ∈ l, isDig c = true) : l.filter (· == '.') = [] :=
  List.filter_eq_nil_iff.mpr (fun c hc => by have := (dig_props (h c hc)).2.2.1; simpa using this)

theorem digs_noE {l : List Char} (h : ∀ c ∈ l, isDig c = true) : ∀ c ∈ l, (c != 'E' && c != 'e') = true := fun c hc => by
  have := dig_props (h c hc); simp [this.1, this.2.1]

theorem digs_noDot {l : List Char} (h : ∀ c ∈ l, isDig c = true) : ∀ c ∈ l, (c != '.') = true := fun c hc => by
  have := dig_props (h c hc); simp [this.2.2.1]

theorem parseSignedInt_digs {l : List Char} (hne : l ≠ []) (h : ∀ c ∈ l, isDig c = true) :
    parseSignedInt l = some (digitsVal l : Int) ∧ parseSignedInt ('-' :: l) = some (-(digitsVal l : Int)) := by
  obtain ⟨c, rest, rfl⟩ := List.exists_cons_of_ne_nil hne
  have hc := dig_props (h c (by simp))
  have hall : (c :: rest).all isDig = true := List.all_eq_true.mpr h
  constructor
  · unfold parseSignedInt
    have h1 : ((c :: rest).head? == some '-') = false := by simp [hc.2.2.2.1]
    simp only [h1]
    split
    · rename_i r e; simp only [List.cons.injEq] at e; exact absurd e.1 hc.2.2.2.1
    · rename_i r e; simp only [List.cons.injEq] at e; exact absurd e.1 hc.2.2.2.2
    · simp [hall]
  · unfold parseSignedInt
    simp [hall]


theorem takeWhile_self {α : Type} {p : α → Bool} : ∀ {l : List α}, (∀ c ∈ l, p c = true) → l.takeWhile p = l ∧ l.dropWhile p = []
  | [], _ => ⟨rfl, rfl⟩
  | a :: l, h => by
    have ha : p a = true := h a (by simp)
    have ih := takeWhile_self (l := l) (fun c hc => h c (by simp [hc]))
    simp [List.takeWhile_cons, List.dropWhile_cons, ha, ih.1, ih.2]

/-- `decimal.NewFromString` on `-?digits(.digits)?` -/
theorem newFromString_shape {s : String} {neg frac : Bool} {ip fp : List Char}
    (hs : s.toList = signOf neg ++ ip ++ fracOf frac fp) (hip : ip ≠ []) (hi : ∀ c ∈ ip, isDig c = true)
    (hf : ∀ c ∈ fp, isDig c = true) (h0 : frac = false → fp = []) (hlen : fp.length ≤ 2147483648) :
    newFromString s = some (if frac then mkRat (if neg then -(digitsVal (ip ++ fp) : Int) else (digitsVal (ip ++ fp) : Int)) (10 ^ fp.length)
          else (((if neg then -(digitsVal ip : Int) else (digitsVal ip : Int)) : Int) : Rat)) := by
  have hif : ∀ c ∈ ip ++ fp, isDig c = true := by
    intro c hc; rcases List.mem_append.mp hc with h | h
    · exact hi c h
    · exact hf c h
  have hne : ip ++ fp ≠ [] := by simp [hip]
  have hsign : ∀ c ∈ signOf neg, (c != 'E' && c != 'e') = true ∧ (c != '.') = true := by
    intro c hc; cases neg <;> simp [signOf] at hc; subst hc; decide
  have hallE : ∀ c ∈ signOf neg ++ ip ++ fracOf frac fp, (c != 'E' && c != 'e') = true := by
    intro c hc
    simp only [List.mem_append] at hc
    rcases hc with (h | h) | h
    · exact (hsign c h).1
    · exact digs_noE hi c h
    · cases frac
      · simp [fracOf] at h
      · simp only [fracOf, if_true, List.mem_cons] at h
        rcases h with h | h
        · subst h; decide
        · exact digs_noE hf c h
  unfold newFromString
  rw [hs]
  simp only [(takeWhile_self hallE).1, (takeWhile_self hallE).2]
  have hsf : (signOf neg).filter (· == '.') = [] := by cases neg <;> simp [signOf]
  have hsf' : (signOf neg).filter (· != '.') = signOf neg := by cases neg <;> simp [signOf]
  have hdrop : ∀ tl, (signOf neg ++ ip ++ tl).dropWhile (· != '.') = tl.dropWhile (· != '.') := by
    intro tl
    rw [List.dropWhile_append_of_pos]
    intro c hc
    rcases List.mem_append.mp hc with h | h
    · exact (hsign c h).2
    · exact digs_noDot hi c h
  have hdrop0 : (signOf neg ++ ip).dropWhile (· != '.') = [] := by
    apply (takeWhile_self _).2
    intro c hc
    rcases List.mem_append.mp hc with h | h
    · exact (hsign c h).2
    · exact digs_noDot hi c h
  cases frac
  · have hfp : fp = [] := h0 rfl
    subst hfp
    simp only [fracOf, Bool.false_eq_true, if_false, List.append_nil, List.filter_append, hsf, digs_filter_eq hi, hsf',
      digs_filter_ne hi, List.length_nil, hdrop0]
    have hp := parseSignedInt_digs hip hi
    cases neg
    · simp [signOf, hp.1, int32Min, int32Max, scale10]
    · simp [signOf, hp.2, int32Min, int32Max, scale10]
  · have hd : ('.' :: fp).dropWhile (· != '.') = '.' :: fp := by simp [List.dropWhile_cons]
    have hcnt : ((signOf neg ++ ip ++ '.' :: fp).filter (· == '.')).length = 1 := by
      simp [List.filter_append, hsf, digs_filter_eq hi, List.filter_cons, digs_filter_eq hf]
    have hint : (signOf neg ++ ip ++ '.' :: fp).filter (· != '.') = signOf neg ++ (ip ++ fp) := by
      simp [List.filter_append, hsf', digs_filter_ne hi, List.filter_cons, digs_filter_ne hf]
    simp only [fracOf, if_true, hcnt, hint, hdrop, hd]
    have hp := parseSignedInt_digs hne hif
    have hb : ¬ ((0 : Int) - (fp.length : Int) < int32Min) := by simp only [int32Min]; omega
    have hb2 : ¬ (int32Max < (0 : Int) - (fp.length : Int)) := by simp only [int32Max]; omega
    have he : ¬ (0 ≤ (0 : Int) - (fp.length : Int)) ∨ fp.length = 0 := by omega
    have e1 : (-((0 : Int) - (fp.length : Int))).toNat = fp.length := by omega
    have fin : ∀ v : Int, (if (0 : Int) ≤ 0 - (fp.length : Int) then ((v * 10 ^ ((0 : Int) - (fp.length : Int)).toNat : Int) : Rat)
        else mkRat v (10 ^ (-((0 : Int) - (fp.length : Int))).toNat)) = mkRat v (10 ^ fp.length) := by
      intro v
      by_cases hz : fp.length = 0
      · simp [hz, Rat.mkRat_one]
      · have : ¬ ((0 : Int) ≤ 0 - (fp.length : Int)) := by omega
        simp only [this, if_false, e1]
    cases neg
    · simp only [signOf, Bool.false_eq_true, if_false, List.nil_append, hp.1]
      simp only [hb, hb2, scale10, if_false, Bool.or_false, decide_false, fin]
      simp
    · simp only [signOf, if_true, List.singleton_append, List.cons_append, List.nil_append, hp.2]
      simp only [hb, hb2, scale10, if_false, Bool.or_false, decide_false, fin]
      simp


/-- on the decimals of the journal grammar (`-?digits(.digits)?`, what the model's `parseDec` accepts) `decimal.NewFromString` returns the
value `parseDec` computes (the `int32` bound of the exponent allows 2^31 fractional digits) -/
theorem newFromString_of_parseDec {s : String} {q : Rat} (h : Dec.parseDec s = some q) (hlen : s.toList.length ≤ 2147483648) :
    newFromString s = some q := by
  rcases parseDec_core h with ⟨rest, hs, hc⟩ | ⟨_, hc⟩
  · obtain ⟨frac, ip, fp, hr, hip, hi, hf, _, h0, hq⟩ := decCore_shape hc
    have hs' : s.toList = signOf true ++ ip ++ fracOf frac fp := by rw [hs, hr]; simp [signOf]
    have hl : fp.length ≤ 2147483648 := by
      rw [hs'] at hlen
      cases frac
      · simp [h0 rfl]
      · simp only [signOf, fracOf, if_true, List.length_append, List.length_cons] at hlen
        omega
    rw [newFromString_shape hs' hip hi hf h0 hl, hq]
  · obtain ⟨frac, ip, fp, hr, hip, hi, hf, _, h0, hq⟩ := decCore_shape hc
    have hs' : s.toList = signOf false ++ ip ++ fracOf frac fp := by rw [hr]; simp [signOf]
    have hl : fp.length ≤ 2147483648 := by
      rw [hs'] at hlen
      cases frac
      · simp [h0 rfl]
      · simp only [signOf, fracOf, if_true, List.length_append, List.length_cons] at hlen
        omega
    rw [newFromString_shape hs' hip hi hf h0 hl, hq]


end decimals

/-! ### the registries, dates, decimals -/

/-- `account.Registry.Get(name)`: the account of the name (one pointer per name: a value), or the error for a name whose first segment
is no account type or that has an empty or non-alphanumeric segment (`Import.validAccount`, the model of the registry's check) -/
def regAccountName (s : String) : account.Account × Option Error :=
  if Import.validAccount (Account.ofName s) then (accountGo (Account.ofName s), none)
  else (GoZero.zero, some ⟨"account %s has an invalid account type %s"⟩)

/-- `account.Registry.Create(a)` = `Get(a.Extract())` -/
def regAccount (a : directives.Account) : account.Account × Option Error :=
  match Bridge.extract a.Range with
  | .ok s => regAccountName s
  | _ => (GoZero.zero, some ⟨Bridge.outside⟩)

/-- `commodity.Registry.Get(name)`; `cur` = the names tagged as currencies -/
def regCommodityName (cur : String → Bool) (s : String) : commodity.Commodity × Option Error :=
  if Import.validCommodity s then (commodityGo cur s, none) else (GoZero.zero, some ⟨"invalid commodity name %q"⟩)

/-- `commodity.Registry.Create(c)` = `Get(c.Extract())` -/
def regCommodity (cur : String → Bool) (c : directives.Commodity) : commodity.Commodity × Option Error :=
  match Bridge.extract c.Range with
  | .ok s => regCommodityName cur s
  | _ => (GoZero.zero, some ⟨Bridge.outside⟩)

/-- the bytes of the range are a text (inside the file, valid UTF-8) -/
def TextOK (text : Bytes) (r : Syntax.Range) : Prop := (FromSyntax.fieldStr text r).isSome = true

/-- an account name whose segments after the first are alphanumeric and not empty (what `parseAccount` accepts): the model checks the
account type only -/
def AccountOK (text : Bytes) (a : Syntax.Account) : Prop :=
  ∃ s, FromSyntax.fieldStr text a.range = some s ∧
    ((Account.ofName s).wf = true → Import.validAccount (Account.ofName s) = true)

/-- a commodity name that is alphanumeric and not empty (what `parseCommodity` accepts): the model does not check it -/
def CommodityOK (text : Bytes) (c : Syntax.Commodity) : Prop :=
  ∃ s, FromSyntax.fieldStr text c.range = some s ∧ Import.validCommodity s = true

/-- a decimal text on which the model's reading (`FromSyntax.decimal`: ASCII digits, `parseDec`) and `decimal.NewFromString` agree:
the same value or both fail.  True of `-?digits(.digits)?` in ASCII digits (`decimalOK_of_model`: what the model reads) and of what
the grammar admits beyond (`parseDecimal` accepts every Unicode digit: both fail); not of `1.`, `.5`, `1e3`, which only
`NewFromString` reads -/
def DecimalOK (text : Bytes) (d : Syntax.Decimal) : Prop :=
  ∃ s, FromSyntax.fieldStr text d.range = some s ∧ Parse.newFromString s = FromSyntax.decimal text d.range

theorem validAccount_wf (a : Knut.Account) (h : Import.validAccount a = true) : a.wf = true := by
  unfold Import.validAccount at h
  unfold Account.wf Account.type?
  cases hs : a.segments with
  | nil => simp [hs] at h
  | cons t rest => simp only [hs, Bool.and_eq_true] at h ⊢; exact h.1

theorem regAccount_agrees {text : Bytes} {path : String} {a : Syntax.Account} (h : AccountOK text a) :
    regAccount (goAccount text path a) = match FromSyntax.account text a with
      | some acc => (accountGo acc, none)
      | none => (GoZero.zero, some ⟨"account %s has an invalid account type %s"⟩) := by
  obtain ⟨s, hs, hv⟩ := h
  unfold regAccount goAccount FromSyntax.account
  simp only [extract_ok hs, hs, Option.bind_eq_bind, Option.bind_some, regAccountName]
  by_cases hw : (Account.ofName s).wf = true
  · simp [hw, hv hw]
  · have : ¬ Import.validAccount (Account.ofName s) = true := fun h' => hw (validAccount_wf _ h')
    simp [hw, this]

theorem regCommodity_agrees {text : Bytes} {path : String} {c : Syntax.Commodity} {cur : String → Bool} {s : String}
    (hs : FromSyntax.fieldStr text c.range = some s) (hv : Import.validCommodity s = true) :
    regCommodity cur (goCommodity text path c) = (commodityGo cur s, none) := by
  unfold regCommodity goCommodity
  simp [extract_ok hs, regCommodityName, hv]

theorem ParseISO_eq {bs : Bytes} {s : String} (hs : FromSyntax.utf8 bs = some s) :
    Time.ParseISO s = match FromSyntax.parseDate bs with
      | some d => (d, none)
      | none => (0, some ⟨"time.Parse"⟩) := by
  unfold Time.ParseISO
  rw [bytes_of_utf8 hs, parseDate_model]
  rfl

/-- `directives.Date.Parse`: `time.Parse` on the extracted text is the model's `date` -/
theorem Date_Parse_agrees {text : Bytes} {path : String} {d : Syntax.Date} (h : TextOK text d.range) :
    directives.Date.Parse (goDate text path d) = .ok (match FromSyntax.date text d with
      | some n => (n, none)
      | none => (0, some ⟨"parsing date"⟩)) := by
  unfold TextOK at h
  obtain ⟨s, hs⟩ := Option.isSome_iff_exists.mp h
  unfold directives.Date.Parse goDate
  simp only [extract_ok hs, Outcome.bind]
  unfold FromSyntax.fieldStr at hs
  unfold FromSyntax.date
  cases hb : FromSyntax.field text d.range with
  | none => simp [hb] at hs
  | some bs =>
    simp only [hb, Option.bind_some] at hs ⊢
    rw [ParseISO_eq hs]
    cases FromSyntax.parseDate bs <;> simp

theorem flatMap_len (cs : List Char) : cs.length ≤ (cs.flatMap String.utf8EncodeChar).length := by
  induction cs with
  | nil => simp
  | cons c rest ih =>
    simp only [List.flatMap_cons, List.length_append, List.length_cons, String.length_utf8EncodeChar]
    have := Char.utf8Size_pos c
    omega

theorem chars_le_bytes (s : String) : s.toList.length ≤ s.toByteArray.data.toList.length := by
  have h : s.toByteArray = (String.ofList s.toList).toByteArray := by rw [String.ofList_toList]
  rw [h, String.toByteArray_ofList]
  have : (List.utf8Encode s.toList).data.toList = s.toList.flatMap String.utf8EncodeChar := by
    simp [List.utf8Encode]
  rw [this]
  exact flatMap_len _

theorem extract_length {text : Bytes} {r : Syntax.Range} {bs : Bytes} (h : r.extract text = some bs) : bs.length ≤ text.length := by
  unfold Syntax.Range.extract at h
  split at h
  · simp only [Option.some.injEq] at h
    rw [← h]
    simp only [List.length_take, List.length_drop]
    omega
  · simp at h

/-- the text of a decimal the model reads: `decimal.NewFromString` returns the same value (files of at most 2 GiB: the `int32` bound on
the number of fractional digits) -/
theorem decimalOK_of_model {text : Bytes} {d : Syntax.Decimal} (h : (FromSyntax.decimal text d.range).isSome = true)
    (hlen : text.length ≤ 2147483648) : DecimalOK text d := by
  obtain ⟨q, h⟩ := Option.isSome_iff_exists.mp h
  have h0 := h
  unfold FromSyntax.decimal at h
  cases hb : FromSyntax.field text d.range with
  | none => simp [hb] at h
  | some bs =>
    simp only [hb, Option.bind_eq_bind, Option.bind_some] at h
    split at h
    · cases hu : FromSyntax.utf8 bs with
      | none => simp [hu] at h
      | some s =>
        simp only [hu, Option.bind_some] at h
        refine ⟨s, by simp [FromSyntax.fieldStr, hb, hu], ?_⟩
        have hl : s.toList.length ≤ 2147483648 := by
          have h1 := chars_le_bytes s
          rw [bytes_of_utf8 hu] at h1
          have h2 := extract_length (by simpa [FromSyntax.field] using hb : d.range.extract text = some bs)
          omega
        rw [h0, newFromString_model, newFromString_of_parseDec h hl]
    · simp at h

/-- `decimal.NewFromString` on the extracted text of a decimal -/
theorem NewFromString_agrees {text : Bytes} {d : Syntax.Decimal} (h : DecimalOK text d) :
    ∃ s, FromSyntax.fieldStr text d.range = some s ∧ Decimal.NewFromString s = match FromSyntax.decimal text d.range with
      | some q => (q, none)
      | none => (0, some ⟨"can't convert %s to decimal"⟩) := by
  obtain ⟨s, hs, hq⟩ := h
  refine ⟨s, hs, ?_⟩
  unfold Decimal.NewFromString
  rw [hq]
  cases FromSyntax.decimal text d.range <;> rfl

/-- `directives.Decimal.Parse` -/
theorem Decimal_Parse_agrees {text : Bytes} {path : String} {d : Syntax.Decimal} (h : DecimalOK text d) :
    directives.Decimal.Parse (goDecimal text path d) = .ok (match FromSyntax.decimal text d.range with
      | some q => (q, none)
      | none => (0, some ⟨"parsing date"⟩)) := by
  obtain ⟨s, hs, hq⟩ := NewFromString_agrees h
  unfold directives.Decimal.Parse goDecimal
  simp only [extract_ok hs, Outcome.bind, hq]
  cases FromSyntax.decimal text d.range <;> simp

/-! ### `open.Create`, `close.Create`, `price.Create` -/

open Knut.FactsAgree.TransCheck (openGo closeGo balanceGo)
open Knut.FactsAgree.TransProcess (priceGo)

/-- the call returned an error (next to a value that the callers do not use) -/
def IsErr {α : Type} (o : GoSem.Outcome (α × Option Error)) : Prop := ∃ v e, o = .ok (v, some e)

/-- `open.Create`: the account through the registry, then the date -/
theorem open_Create_agrees {text : Bytes} {path : String} (o : Syntax.Open) (ha : AccountOK text o.account)
    (hd : TextOK text o.date.range) :
    match FromSyntax.account text o.account, FromSyntax.date text o.date with
    | some a, some dt => open_.Create (goOpen text path o) regAccount = .ok (openGo Ref.node ⟨dt, a⟩, none)
    | _, _ => IsErr (open_.Create (goOpen text path o) regAccount) := by
  unfold open_.Create goOpen
  simp only [regAccount_agrees ha, Date_Parse_agrees hd]
  cases FromSyntax.account text o.account with
  | none => exact ⟨_, _, by simp; exact ⟨rfl, rfl⟩⟩
  | some a =>
    cases FromSyntax.date text o.date with
    | none => exact ⟨_, _, by simp [Outcome.bind]; exact ⟨rfl, rfl⟩⟩
    | some dt => simp [Outcome.bind, openGo]

/-- `close.Create` -/
theorem close_Create_agrees {text : Bytes} {path : String} (c : Syntax.Close) (ha : AccountOK text c.account)
    (hd : TextOK text c.date.range) :
    match FromSyntax.account text c.account, FromSyntax.date text c.date with
    | some a, some dt => close.Create (goClose text path c) regAccount = .ok (closeGo Ref.node ⟨dt, a⟩, none)
    | _, _ => IsErr (close.Create (goClose text path c) regAccount) := by
  unfold close.Create goClose
  simp only [regAccount_agrees ha, Date_Parse_agrees hd]
  cases FromSyntax.account text c.account with
  | none => exact ⟨_, _, by simp; exact ⟨rfl, rfl⟩⟩
  | some a =>
    cases FromSyntax.date text c.date with
    | none => exact ⟨_, _, by simp [Outcome.bind]; exact ⟨rfl, rfl⟩⟩
    | some dt => simp [Outcome.bind, closeGo]


theorem isErr_ok {α : Type} (v : α) (e : Error) : IsErr (GoSem.Outcome.ok (v, some e)) := ⟨v, e, rfl⟩

/-- `price.Create`: date, commodity, price, target -/
theorem price_Create_agrees {text : Bytes} {path : String} (cur : String → Bool) (p : Syntax.Price)
    (hd : TextOK text p.date.range) (hc : CommodityOK text p.commodity) (ht : CommodityOK text p.target)
    (hp : DecimalOK text p.price) :
    match FromSyntax.item text ⟨p.range, .price p⟩ with
    | some (.price m) => price.Create (goPrice text path p) (regCommodity cur) (regCommodity cur) = .ok (priceGo cur Ref.node m, none)
    | _ => IsErr (price.Create (goPrice text path p) (regCommodity cur) (regCommodity cur)) := by
  obtain ⟨c, hc1, hc2⟩ := hc
  obtain ⟨t, ht1, ht2⟩ := ht
  unfold price.Create goPrice FromSyntax.item
  simp only [Date_Parse_agrees hd, regCommodity_agrees hc1 hc2, regCommodity_agrees ht1 ht2, Decimal_Parse_agrees hp, hc1, ht1]
  cases FromSyntax.date text p.date with
  | none => simp [Outcome.bind]; exact isErr_ok _ _
  | some dt =>
    cases FromSyntax.decimal text p.price.range with
    | none => simp [Outcome.bind]; exact isErr_ok _ _
    | some q => simp [Outcome.bind, priceGo, TransPrice.cGo, commodityGo]

/-! ### `assertion.Create` -/

/-- one balance of an assertion in the model (`FromSyntax.item`) -/
def balanceM (text : Bytes) (b : Syntax.Balance) : Option Knut.Balance := do
  let acc ← FromSyntax.account text b.account
  let q ← FromSyntax.decimal text b.quantity.range
  let c ← FromSyntax.fieldStr text b.commodity.range
  pure (⟨acc, q, c⟩ : Knut.Balance)

def BalanceOK (text : Bytes) (b : Syntax.Balance) : Prop :=
  AccountOK text b.account ∧ DecimalOK text b.quantity ∧ CommodityOK text b.commodity

/-- the loop of `assertion.Create` -/
theorem assertion_range1_agrees {text : Bytes} {path : String} (cur : String → Bool) (a : directives.Assertion) :
    ∀ (items : List Syntax.Balance) (acc : List assertion.Balance), (∀ b ∈ items, BalanceOK text b) →
      match items.mapM (balanceM text) with
      | some bals => assertion.Create.range1 regAccount (regCommodity cur) a (items.map (goBalance text path)) acc
          = .ok (Flow.next (acc ++ bals.map (balanceGo cur Ref.node)))
      | none => ∃ e, assertion.Create.range1 regAccount (regCommodity cur) a (items.map (goBalance text path)) acc
          = .ok (Flow.ret (GoZero.zero, some e)) := by
  intro items
  induction items with
  | nil => intro acc _; simp [assertion.Create.range1]
  | cons b rest ih =>
    intro acc hok
    obtain ⟨ha, hq, hc⟩ := hok b (by simp)
    obtain ⟨c, hc1, hc2⟩ := hc
    have ih' := fun acc' => ih acc' (fun b' hb' => hok b' (by simp [hb']))
    simp only [List.map_cons, assertion.Create.range1, List.mapM_cons, balanceM, goBalance, regAccount_agrees ha,
      Decimal_Parse_agrees hq, regCommodity_agrees hc1 hc2, hc1]
    cases FromSyntax.account text b.account with
    | none => simp
    | some acc0 =>
      cases FromSyntax.decimal text b.quantity.range with
      | none => simp [Outcome.bind]
      | some q =>
      simp only [Option.isSome_none, Bool.false_eq_true, if_false, Outcome.bind, Option.bind_some]
      have := ih' (acc ++ [balanceGo cur Ref.node ⟨acc0, q, c⟩])
      cases hm : List.mapM (balanceM text) rest with
      | none =>
        simp only [hm] at this ⊢
        simpa [balanceGo] using this
      | some bals =>
        simp only [hm] at this ⊢
        simpa [balanceGo] using this


/-- `assertion.Create`: the date, then every balance (account through the registry, quantity, commodity) in order -/
theorem assertion_Create_agrees {text : Bytes} {path : String} (cur : String → Bool) (a : Syntax.Assertion)
    (hd : TextOK text a.date.range) (hb : ∀ b ∈ a.balances, BalanceOK text b) :
    match FromSyntax.date text a.date, a.balances.mapM (balanceM text) with
    | some dt, some bals => assertion.Create (goAssertion text path a) regAccount (regCommodity cur)
        = .ok (⟨Ref.node, dt, bals.map (balanceGo cur Ref.node)⟩, none)
    | _, _ => IsErr (assertion.Create (goAssertion text path a) regAccount (regCommodity cur)) := by
  unfold assertion.Create
  simp only [goAssertion, Date_Parse_agrees hd]
  cases FromSyntax.date text a.date with
  | none => simp [Outcome.bind]; exact isErr_ok _ _
  | some dt =>
    have hl := assertion_range1_agrees (path := path) cur
      ⟨goRange text path a.range, goDate text path a.date, a.balances.map (goBalance text path)⟩ a.balances [] hb
    cases hm : a.balances.mapM (balanceM text) with
    | none =>
      simp only [hm] at hl
      obtain ⟨e, he⟩ := hl
      simp only [Outcome.bind, Option.isSome_none, Bool.false_eq_true, if_false, he]
      exact isErr_ok _ _
    | some bals =>
      simp only [hm] at hl
      simp [Outcome.bind, hl]

/-! ### `posting.Create` -/

def BookingOK (text : Bytes) (b : Syntax.Booking) : Prop :=
  AccountOK text b.credit ∧ AccountOK text b.debit ∧ DecimalOK text b.quantity ∧ CommodityOK text b.commodity

/-- the loop of `posting.Create` -/
theorem posting_range1_agrees {text : Bytes} {path : String} (cur : String → Bool) (bs0 : List directives.Booking) :
    ∀ (items : List Syntax.Booking) (idx : Int) (acc : posting.Builders), (∀ b ∈ items, BookingOK text b) →
      match items.mapM (FromSyntax.booking text) with
      | some bks => posting.Create.range1 regAccount regAccount (regCommodity cur) bs0 (items.map (goBooking text path)) idx acc
          = .ok (Flow.next (acc ++ bks.map (builderGo cur Ref.node)))
      | none => ∃ e, posting.Create.range1 regAccount regAccount (regCommodity cur) bs0 (items.map (goBooking text path)) idx acc
          = .ok (Flow.ret ([], some e)) := by
  intro items
  induction items with
  | nil => intro idx acc _; simp [posting.Create.range1]
  | cons b rest ih =>
    intro idx acc hok
    obtain ⟨hcr, hdr, hq, hc⟩ := hok b (by simp)
    obtain ⟨c, hc1, hc2⟩ := hc
    obtain ⟨qs, hqs, hnq⟩ := NewFromString_agrees hq
    have ih' := fun idx' acc' => ih idx' acc' (fun b' hb' => hok b' (by simp [hb']))
    simp only [List.map_cons, posting.Create.range1, List.mapM_cons, FromSyntax.booking, goBooking, goDecimal, regAccount_agrees hcr,
      regAccount_agrees hdr, extract_ok hqs, regCommodity_agrees hc1 hc2, hc1]
    cases FromSyntax.account text b.credit with
    | none => simp
    | some cr =>
      cases FromSyntax.account text b.debit with
      | none => simp
      | some dr =>
        cases hqq : FromSyntax.decimal text b.quantity.range with
        | none => simp [hqq] at hnq; simp [Outcome.bind, hnq]
        | some q =>
        simp only [hqq] at hnq
        simp only [Option.isSome_none, Bool.false_eq_true, if_false, Outcome.bind, hnq]
        have := ih' (idx + 1) (acc ++ [builderGo cur Ref.node ⟨cr, dr, q, c⟩])
        cases hm : List.mapM (FromSyntax.booking text) rest with
        | none =>
          simp only [hm] at this ⊢
          simpa [builderGo] using this
        | some bks =>
          simp only [hm] at this ⊢
          simpa [builderGo] using this

/-- `posting.Create`: every booking through the registries and `decimal.NewFromString`, then `Builders.Build`: the posting pairs of
all bookings in order (`Accrual.postingsOf`); an invalid account is the error -/
theorem posting_Create_agrees {text : Bytes} {path : String} (cur : String → Bool) (bs : List Syntax.Booking)
    (hb : ∀ b ∈ bs, BookingOK text b) :
    match bs.mapM (FromSyntax.booking text) with
    | some bks => posting.Create (bs.map (goBooking text path)) regAccount regAccount (regCommodity cur)
        = .ok ((Accrual.postingsOf bks).map (postingGo cur Ref.node), none)
    | none => ∃ e, posting.Create (bs.map (goBooking text path)) regAccount regAccount (regCommodity cur) = .ok ([], some e) := by
  unfold posting.Create
  have hl := posting_range1_agrees (path := path) cur (bs.map (goBooking text path)) bs 0 [] hb
  cases hm : bs.mapM (FromSyntax.booking text) with
  | none =>
    simp only [hm] at hl
    obtain ⟨e, he⟩ := hl
    exact ⟨e, by simp [zero_list, he, Outcome.bind]⟩
  | some bks =>
    simp only [hm] at hl
    simp [zero_list, hl, Outcome.bind, Builders_Build_agrees]


/-! ### the calls behind the `ext` parameters (source text), pinned: their arguments are not part of the translated terms -/

example : open_.Create.externals = ["ext1 = reg.Accounts().Create(o.Account) [as a function of its 1 arguments]"] := rfl
example : close.Create.externals = ["ext1 = reg.Accounts().Create(c.Account) [as a function of its 1 arguments]"] := rfl
example : price.Create.externals = ["ext1 = reg.Commodities().Create(p.Commodity) [as a function of its 1 arguments]",
  "ext2 = reg.Commodities().Create(p.Target) [as a function of its 1 arguments]"] := rfl
example : assertion.Create.externals = ["ext1 = reg.Accounts().Create(bal.Account) [as a function of its 1 arguments]",
  "ext2 = reg.Commodities().Create(bal.Commodity) [as a function of its 1 arguments]"] := rfl
example : posting.Create.externals = ["ext1 = reg.Accounts().Create(b.Credit) [as a function of its 1 arguments]",
  "ext2 = reg.Accounts().Create(b.Debit) [as a function of its 1 arguments]",
  "ext3 = reg.Commodities().Create(b.Commodity) [as a function of its 1 arguments]"] := rfl

/-! ### non-vacuity -/

/-- the model's `parseDec` reads the grammar's decimals only; `decimal.NewFromString` accepts more -/
example : Decimal.NewFromString "1." = (1, none) ∧ Dec.parseDec "1." = none := by decide +kernel

end Knut.FactsAgree.TransCreate
