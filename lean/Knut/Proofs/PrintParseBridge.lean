import Knut.Proofs.PrintParseReplay
import Knut.Model.FromSyntax
/-!
# Lean `String`s as scanner input (bridge for the journal printer round trip, C09)

The journal printer model produces a Lean `String`; the parser model reads bytes. `strBytes s` is the UTF-8
encoding of `s` (`String.toUTF8`), and decoding it with the scanner's `decodeRune` gives one token per
character (`charTok`): the inverse of `String.utf8EncodeChar`, proved here for every `Char` by arithmetic
on the byte values (no bit-blasting).
-/
namespace Knut.Utf8

theorem and_mask (n k : Nat) : n &&& (2 ^ k - 1) = n % 2 ^ k := Nat.and_two_pow_sub_one_eq_mod n k

theorem or_hi (x : Nat) (k a : Nat) (h : x < 2 ^ k) : x ||| 2 ^ k * a = 2 ^ k * a + x := by
  rw [Nat.or_comm, ← Nat.two_pow_add_eq_or_of_lt h]

theorem cont_byte (v : UInt32) : ((v.toUInt8 &&& 0x3f ||| 0x80 : UInt8)).toNat = 128 + v.toNat % 64 := by
  simp only [UInt8.toNat_or, UInt8.toNat_and, UInt32.toNat_toUInt8]
  have e1 : (63 : UInt8).toNat = 2 ^ 6 - 1 := rfl
  have e2 : (128 : UInt8).toNat = 2 ^ 6 * 2 := rfl
  rw [e1, and_mask, e2, or_hi _ 6 2 (Nat.mod_lt _ (by decide))]
  omega

theorem lead_byte (v : UInt32) (k a : Nat) (m hi : UInt8) (hm : m.toNat = 2 ^ k - 1) (hh : hi.toNat = 2 ^ k * a) (hk : k ≤ 8) :
    ((v.toUInt8 &&& m ||| hi : UInt8)).toNat = 2 ^ k * a + v.toNat % 2 ^ k := by
  simp only [UInt8.toNat_or, UInt8.toNat_and, UInt32.toNat_toUInt8]
  rw [hm, and_mask, hh, or_hi _ k a (Nat.mod_lt _ (Nat.two_pow_pos k))]
  congr 1
  have : 2 ^ k ∣ 256 := by
    have : (256 : Nat) = 2 ^ 8 := rfl
    rw [this]; exact Nat.pow_dvd_pow 2 hk
  exact Nat.mod_mod_of_dvd _ this

theorem char_range (c : Char) : c.toNat < 0xd800 ∨ (0xdfff < c.toNat ∧ c.toNat < 0x110000) := by
  have := c.valid
  simpa [UInt32.isValidChar, Nat.isValidChar] using this

/-- the token of a character: its code point and its UTF-8 encoding -/
def charTok (c : Char) : Tok := ⟨c.toNat, String.utf8EncodeChar c⟩

theorem shr6 (v : UInt32) : (v >>> 6).toNat = v.toNat / 64 := by
  simp [UInt32.toNat_shiftRight, Nat.shiftRight_eq_div_pow]
theorem shr12 (v : UInt32) : (v >>> 12).toNat = v.toNat / 4096 := by
  simp [UInt32.toNat_shiftRight, Nat.shiftRight_eq_div_pow]
theorem shr18 (v : UInt32) : (v >>> 18).toNat = v.toNat / 262144 := by
  simp [UInt32.toNat_shiftRight, Nat.shiftRight_eq_div_pow]

theorem decodeRune_charTok (c : Char) (rest : List UInt8) :
    decodeRune (String.utf8EncodeChar c ++ rest) = charTok c := by
  have hn : c.val.toNat = c.toNat := rfl
  rcases c.utf8Size_eq with h | h | h | h
  · have hv : c.toNat ≤ 127 := by
      have := Char.utf8Size_eq_one_iff.mp h
      simpa [UInt32.le_iff_toNat_le] using this
    have e := String.utf8EncodeChar_eq_singleton h
    have hb : c.val.toUInt8.toNat = c.toNat := by rw [UInt32.toNat_toUInt8, hn]; omega
    simp only [charTok, e, List.cons_append, List.nil_append, decodeRune, hb]
    simp [show c.toNat < 128 by omega]
  · have hv : 127 < c.toNat ∧ c.toNat ≤ 0x7ff := by
      have := Char.utf8Size_eq_two_iff.mp h
      simpa [UInt32.lt_iff_toNat_lt, UInt32.le_iff_toNat_le] using this
    have e := String.utf8EncodeChar_eq_cons_cons h
    have b0 : ((c.val >>> 6).toUInt8 &&& 0x1f ||| 0xc0 : UInt8).toNat = 192 + c.toNat / 64 := by
      have := lead_byte (c.val >>> 6) 5 6 0x1f 0xc0 rfl rfl (by decide)
      rw [this, shr6, hn]; omega
    have b1 := cont_byte c.val
    rw [hn] at b1
    simp only [charTok, e, List.cons_append, List.nil_append, decodeRune, b0, b1, isCont]
    have c1 : ¬ (192 + c.toNat / 64 < 128) := by omega
    have c2 : ¬ (192 + c.toNat / 64 < 194) := by omega
    have c3 : 192 + c.toNat / 64 < 224 := by omega
    simp only [c1, c2, c3, if_false, if_true]
    have c4 : (decide (128 ≤ 128 + c.toNat % 64) && decide (128 + c.toNat % 64 ≤ 191)) = true := by
      simp; omega
    simp only [c4, if_true, Tok.mk.injEq, and_true]
    omega
  · have hv : 0x7ff < c.toNat ∧ c.toNat ≤ 0xffff := by
      have := Char.utf8Size_eq_three_iff.mp h
      simpa [UInt32.lt_iff_toNat_lt, UInt32.le_iff_toNat_le] using this
    have hr := char_range c
    have e := String.utf8EncodeChar_eq_cons_cons_cons h
    have b0 : ((c.val >>> 12).toUInt8 &&& 0x0f ||| 0xe0 : UInt8).toNat = 224 + c.toNat / 4096 := by
      have := lead_byte (c.val >>> 12) 4 14 0x0f 0xe0 rfl rfl (by decide)
      rw [this, shr12, hn]; omega
    have b1 := cont_byte (c.val >>> 6)
    rw [shr6, hn] at b1
    have b2 := cont_byte c.val
    rw [hn] at b2
    simp only [charTok, e, List.cons_append, List.nil_append, decodeRune, b0, b1, b2, isCont, accept3]
    have c1 : ¬ (224 + c.toNat / 4096 < 128) := by omega
    have c2 : ¬ (224 + c.toNat / 4096 < 194) := by omega
    have c3 : ¬ (224 + c.toNat / 4096 < 224) := by omega
    have c4 : 224 + c.toNat / 4096 < 240 := by omega
    simp only [c1, c2, c3, c4, if_false, if_true]
    have c5 : (decide ((if 224 + c.toNat / 4096 = 224 then 160 else 128) ≤ 128 + c.toNat / 64 % 64) &&
        decide (128 + c.toNat / 64 % 64 ≤ if 224 + c.toNat / 4096 = 237 then 159 else 191)) = true := by
      simp only [Bool.and_eq_true, decide_eq_true_eq]
      constructor
      · split <;> omega
      · split <;> omega
    have c6 : (decide (128 ≤ 128 + c.toNat % 64) && decide (128 + c.toNat % 64 ≤ 191)) = true := by
      simp; omega
    simp only [c5, c6, if_true, Tok.mk.injEq, and_true]
    omega
  · have hv : 0xffff < c.toNat := by
      have := Char.utf8Size_eq_four_iff.mp h
      simpa [UInt32.lt_iff_toNat_lt] using this
    have hr := char_range c
    have e := String.utf8EncodeChar_eq_cons_cons_cons_cons h
    have b0 : ((c.val >>> 18).toUInt8 &&& 0x07 ||| 0xf0 : UInt8).toNat = 240 + c.toNat / 262144 := by
      have := lead_byte (c.val >>> 18) 3 30 0x07 0xf0 rfl rfl (by decide)
      rw [this, shr18, hn]; omega
    have b1 := cont_byte (c.val >>> 12)
    rw [shr12, hn] at b1
    have b2 := cont_byte (c.val >>> 6)
    rw [shr6, hn] at b2
    have b3 := cont_byte c.val
    rw [hn] at b3
    simp only [charTok, e, List.cons_append, List.nil_append, decodeRune, b0, b1, b2, b3, isCont, accept4]
    have c1 : ¬ (240 + c.toNat / 262144 < 128) := by omega
    have c2 : ¬ (240 + c.toNat / 262144 < 194) := by omega
    have c3 : ¬ (240 + c.toNat / 262144 < 224) := by omega
    have c4 : ¬ (240 + c.toNat / 262144 < 240) := by omega
    have c4' : 240 + c.toNat / 262144 < 245 := by omega
    simp only [c1, c2, c3, c4, c4', if_false, if_true]
    have c5 : (decide ((if 240 + c.toNat / 262144 = 240 then 144 else 128) ≤ 128 + c.toNat / 4096 % 64) &&
        decide (128 + c.toNat / 4096 % 64 ≤ if 240 + c.toNat / 262144 = 244 then 143 else 191)) = true := by
      simp only [Bool.and_eq_true, decide_eq_true_eq]
      constructor
      · split <;> omega
      · split <;> omega
    have c6 : (decide (128 ≤ 128 + c.toNat / 64 % 64) && decide (128 + c.toNat / 64 % 64 ≤ 191)) = true := by
      simp; omega
    have c7 : (decide (128 ≤ 128 + c.toNat % 64) && decide (128 + c.toNat % 64 ≤ 191)) = true := by
      simp; omega
    simp only [c5, c6, c7, if_true, Tok.mk.injEq, and_true]
    omega

theorem charTok_canon (c : Char) : (charTok c).canon :=
  ⟨fun rest => decodeRune_charTok c rest, by simp [charTok, String.length_utf8EncodeChar]; exact c.utf8Size_pos⟩

theorem charTok_valid (c : Char) : (charTok c).invalid = false := by
  simp only [Tok.invalid, charTok, String.length_utf8EncodeChar, Bool.and_eq_false_iff, beq_eq_false_iff_ne]
  by_cases h : c.toNat = runeError
  · right
    intro h1
    have := Char.utf8Size_eq_one_iff.mp h1
    simp only [UInt32.le_iff_toNat_le] at this
    have e : c.val.toNat = c.toNat := rfl
    rw [e, h] at this
    simp [runeError] at this
  · left; exact h

theorem charTok_ascii (c : Char) (h : c.toNat < 128) : charTok c = tk c.toNat := by
  have h1 : c.utf8Size = 1 := Char.utf8Size_eq_one_iff.mpr (by
    simp only [UInt32.le_iff_toNat_le]; show c.toNat ≤ 127; omega)
  simp only [charTok, tk, String.utf8EncodeChar_eq_singleton h1, Tok.mk.injEq, true_and, List.cons.injEq, and_true]
  apply UInt8.toNat_inj.mp
  rw [UInt32.toNat_toUInt8]
  have e : c.val.toNat = c.toNat := rfl
  simp [e]

/-- the tokens of a list of characters -/
def charsToks (cs : List Char) : List Tok := cs.map charTok

/-- UTF-8 encoding of a string (`String.toUTF8`) as a byte list -/
def strBytes (s : String) : List UInt8 := s.toList.flatMap String.utf8EncodeChar

def strToks (s : String) : List Tok := charsToks s.toList

theorem flat_charsToks (cs : List Char) : flat (charsToks cs) = cs.flatMap String.utf8EncodeChar := by
  induction cs with
  | nil => rfl
  | cons c cs ih => simp [charsToks, charTok, List.flatMap_cons] at ih ⊢; rw [← ih]

theorem flat_strToks (s : String) : flat (strToks s) = strBytes s := flat_charsToks _

theorem canon_charsToks (cs : List Char) : ∀ t ∈ charsToks cs, t.canon := by
  intro t ht
  simp only [charsToks, List.mem_map] at ht
  obtain ⟨c, _, rfl⟩ := ht
  exact charTok_canon c

theorem valid_charsToks (cs : List Char) : ∀ t ∈ charsToks cs, t.invalid = false := by
  intro t ht
  simp only [charsToks, List.mem_map] at ht
  obtain ⟨c, _, rfl⟩ := ht
  exact charTok_valid c

/-- the scanner sees a `String` as the sequence of its characters -/
theorem decodeAll_strBytes (s : String) : decodeAll (strBytes s) = strToks s := by
  rw [← flat_strToks]
  exact decodeAll_flat _ (canon_charsToks _)

theorem strBytes_toUTF8 (s : String) : s.toUTF8.data.toList = strBytes s := by
  have : s.toByteArray = s.toList.utf8Encode := by simp
  show s.toByteArray.data.toList = _
  rw [this]
  simp [List.utf8Encode, strBytes]

theorem charsToks_append (a b : List Char) : charsToks (a ++ b) = charsToks a ++ charsToks b := by
  simp [charsToks]

theorem strToks_append (s t : String) : strToks (s ++ t) = strToks s ++ strToks t := by
  simp [strToks, String.toList_append, charsToks_append]

end Knut.Utf8

namespace Knut.FromSyntax
open Knut.Utf8

theorem fromUTF8?_toByteArray (s : String) : String.fromUTF8? s.toByteArray = some s := by
  unfold String.fromUTF8?
  have h : s.toByteArray.IsValidUTF8 := s.isValidUTF8
  rw [dif_pos h]
  rfl

/-- the bytes of a list of characters decode to that list -/
theorem utf8_chars (cs : List Char) : utf8 (flat (charsToks cs)) = some (String.ofList cs) := by
  rw [flat_charsToks]
  unfold utf8
  have : (⟨(cs.flatMap String.utf8EncodeChar).toArray⟩ : ByteArray) = (String.ofList cs).toByteArray := by
    rw [String.toByteArray_ofList]
    apply ByteArray.ext
    simp [List.utf8Encode]
  rw [this]
  exact fromUTF8?_toByteArray _

theorem utf8_str (s : String) : utf8 (flat (strToks s)) = some s := by
  have := utf8_chars s.toList
  rwa [String.ofList_toList] at this

end Knut.FromSyntax
