import Knut.Properties.C01Go3
import Knut.Properties.C02Go2
/-!
# C02 (the ledger clause) on the generated definitions, with the query that `knut balance` builds — no hypothesis about `Where`/`Select`

`Properties/C02Go.lean` states `C02_ledger_cells_query_go_partial` under `C01Go.QueryFor cur cfg q w s` ("how `cmd/commands/balance.go`
sets up `Where` and `Select`") and `Properties/C02Go2.lean` states `C02_ledger_cells_process_go` under `ParOK cur cfg P q` with its field
`query : PostingOK cfg cur q`.  For the query the command builds (the translated fragment `commands.balanceRunner.execute.query`) both are
theorems: `TransBalanceCmdGo.balance_QueryFor`, `TransBalanceCmd.query_posting_model`.  This module instantiates them, as
`Properties/C01Go3.lean` does for C01; the statements mention only the FLAGS (`FlagsOK`), the partition of `cfg.periods`, the two
registry functions of the fragment, and — process level — the parameters of the other processors (`C01Go3.StagesOK`) and the initial
captured states (`C01Go3.balanceInit`).  The report is laid out over the same partition that `Filter` and `Select` use.

* `C02_ledger_cells_balance_query_go_partial` — `C02Go.C02_ledger_cells_query_go_partial` for the command's query; still PARTIAL in
  `hrel` (composed over the journal in the next theorem);
* **`C02_ledger_cells_balance_go`** — `C02Go2.C02_ledger_cells_process_go` for the command's query and initial states: whenever the
  sequential run of the translated stages over the Go journal succeeds, the cells `SumBy` computes at any node of the report that the
  log of the translated `Query.Into` leaves are the LEDGER entries of the journal booked on that path (no valuation, no closing).
-/
namespace Knut.C02Go3
open Knut Knut.GoSem Knut.Balance
open Knut.Generated.Go Knut.FactsAgree
open Knut.FactsAgree.TransAmountsSum Knut.FactsAgree.TransReport Knut.FactsAgree.TransRender Knut.FactsAgree.TransProcessAll
open Knut.FactsAgree.TransMapping Knut.FactsAgree.TransBalanceCmd
open Knut.FactsAgree.TransAccount (accountGo)
open Knut.FactsAgree.TransProcess (CEquiv)
open Knut.C01Go3 (StagesOK ParOK_of_stages balanceInit)

/-- **without closing, the cells of a row are the ledger's**, with the log that the translated `Query.Into` produces for the query
that `execute` builds from the flags.  Partial in `hrel` only (see `C02Go.C02_ledger_cells_query_go_partial`). -/
theorem C02_ledger_cells_balance_query_go_partial (cur : String → Bool) (al : Bool) (byCommodity : Bool)
    (cfg : BalCfg) (hv : cfg.valuation = none) (hc : cfg.close = false) (days : List Day) (hd : C02.DaysConsistent days)
    (st : BalState) (hrun : Balance.run cfg days = .ok st) (all : List Knut.Transaction) (hall : C01Go.runTxs cfg {} days = .ok all)
    (valuation : commodity.Commodity) (span : Knut.Period) (iv : Knut.Interval)
    (remapFs : List (String → Bool)) (swap : account.Account → account.Account)
    (m : account.Mapping) (getPath : List String → account.Account)
    (accs : Option (List (String → Bool))) (comFs : List (String → Bool))
    (hfl : FlagsOK cfg valuation remapFs m accs comFs)
    (hsorted : List.Pairwise (fun p q : Knut.Period => p.stop ≤ q.stop) cfg.periods) (hstop : ∀ p ∈ cfg.periods, p.stop ≠ 0)
    (hreg : ∀ b : Knut.Account, getPath b.segments = accountGo b)
    (hswap : ∀ b : Knut.Account, swap (accountGo b) = accountGo (swapType b))
    (tgs : List transaction.Transaction) (hrel : Knut.FactsAgree.TransProcess.AllRel (Knut.FactsAgree.TransProcess.TRel cur) tgs all) :
    ∃ q, commands.balanceRunner.execute.query valuation (TransDate.partitionGo ⟨span, iv, cfg.periods⟩) (regsGo remapFs) swap m getPath
          (accs.map regsGo) (regsGo comFs) = GoSem.Outcome.ok q ∧
      ∃ qs, C01Go.queryAllGo (journal.Query.Into.init q) tgs = .ok (qs, none) ∧
      ((∀ e ∈ qs.c, e.1.Commodity = Knut.FactsAgree.TransPosting.commodityGo cur e.1.Commodity.name ∧ e.1.Commodity.name ≠ "") →
       (∀ e ∈ qs.c, e.1.Account = GoZero.zero ∨ ∃ a : Knut.Account, e.1.Account = Knut.FactsAgree.TransAccount.accountGo a) →
        ∀ (p : List String) (n : Node),
          MNode.nodeAt? (C02Go.treeOf al (C02Go.reportOf (TransDate.partitionGo ⟨span, iv, cfg.periods⟩) qs.c)) p = some n →
          ∀ (order1 order2 : List amounts.Key), order1.Perm (AMap.keys n.Value.Amounts) →
            (∀ x, (∃ k ∈ AMap.keys n.Value.Amounts, mfR byCommodity k = x) → x ∈ order2) →
            ∃ vals, amounts.Amounts.SumBy n.Value.Amounts none (pureFn (mfR byCommodity)) order1 order2 = GoSem.Outcome.ok vals ∧
              ∀ (c : Option Knut.Commodity), (∀ s, c = some s → s ≠ "") → ∀ d : Int, d ≠ 0 →
                AMap.get vals (amounts.DateCommodityKey d (comGo cur c)) 0 =
                  BalanceReport.cellAt (((Spec.ledgerEntries cfg days).filter (fun x => x.account.isAL == al)).filter
                    (fun x => decide (x.account.segments = p))) byCommodity c d) := by
  obtain ⟨q, hq, hfor⟩ := Knut.FactsAgree.TransBalanceCmdGo.balance_QueryFor cfg cur valuation span iv remapFs swap m getPath accs comFs
    hfl hsorted hstop hreg hswap
  exact ⟨q, hq, C02Go.C02_ledger_cells_query_go_partial cur _ al byCommodity cfg hv hc days hd st hrun all hall q _ _ hfor tgs hrel⟩

/-- **without closing, the cells of a row are the ledger's, on the translated pipeline of `knut balance` over a whole journal**, the
query being the one `execute` builds from the flags -/
theorem C02_ledger_cells_balance_go (cur : String → Bool) (cfg : BalCfg) (iv : Knut.Interval) (P : BalPar) (hS : StagesOK cur cfg iv P)
    (valuation : commodity.Commodity) (remapFs : List (String → Bool)) (swap : account.Account → account.Account)
    (m : account.Mapping) (getPath : List String → account.Account)
    (accs : Option (List (String → Bool))) (comFs : List (String → Bool))
    (hfl : FlagsOK cfg valuation remapFs m accs comFs)
    (hsorted : List.Pairwise (fun p q : Knut.Period => p.stop ≤ q.stop) cfg.periods) (hstop : ∀ p ∈ cfg.periods, p.stop ≠ 0)
    (hreg : RegistryPath getPath) (hswap : RegistrySwap swap)
    (gf : journal.Filter.State) (gc : journal.CloseAccounts.State)
    (gdays : List journal.Day) (days : List Day)
    (hdays : DaysRel cur gdays days) (hwf : ∀ d ∈ days, ∀ t ∈ d.transactions, ∀ p ∈ t.postings, p.account.wf = true)
    (hv : cfg.valuation = none) (hc : cfg.close = false) (hd : C02.DaysConsistent days) (al : Bool) (byCommodity : Bool) :
    ∃ q, commands.balanceRunner.execute.query valuation P.part (regsGo remapFs) swap m getPath (accs.map regsGo) (regsGo comFs)
          = GoSem.Outcome.ok q ∧
      ∀ out : List journal.Day, processAllBalance P (balanceInit gf gc q) gdays = some out →
      ∃ G' st, runDays (fusedBalance P) (fusedInit (balanceInit gf gc q)) gdays = .ok (G', out) ∧ Balance.run cfg days = .ok st ∧
      ((∀ e ∈ G'.2.c, e.1.Commodity = Knut.FactsAgree.TransPosting.commodityGo cur e.1.Commodity.name ∧ e.1.Commodity.name ≠ "") →
       (∀ e ∈ G'.2.c, e.1.Account = GoZero.zero ∨ ∃ a : Knut.Account, e.1.Account = Knut.FactsAgree.TransAccount.accountGo a) →
        ∀ (p : List String) (n : Node), MNode.nodeAt? (C02Go.treeOf al (C02Go.reportOf P.part G'.2.c)) p = some n →
          ∀ (order1 order2 : List amounts.Key), order1.Perm (AMap.keys n.Value.Amounts) →
            (∀ x, (∃ k ∈ AMap.keys n.Value.Amounts, mfR byCommodity k = x) → x ∈ order2) →
            ∃ vals, amounts.Amounts.SumBy n.Value.Amounts none (pureFn (mfR byCommodity)) order1 order2 = GoSem.Outcome.ok vals ∧
              ∀ (c : Option Knut.Commodity), (∀ s, c = some s → s ≠ "") → ∀ d : Int, d ≠ 0 →
                AMap.get vals (amounts.DateCommodityKey d (comGo cur c)) 0 =
                  BalanceReport.cellAt (((Spec.ledgerEntries cfg days).filter (fun x => x.account.isAL == al)).filter
                    (fun x => decide (x.account.segments = p))) byCommodity c d) := by
  obtain ⟨q, hq, hinit, hpost⟩ := query_posting_model cfg cur valuation cfg.span iv remapFs swap m getPath accs comFs hfl hsorted hstop
    hreg hswap
  rw [← hS.part] at hq
  refine ⟨q, hq, fun out hgo => ?_⟩
  have hI : BalInv cur cfg q (fusedInit (balanceInit gf gc q)) {} := by
    unfold balanceInit
    rw [hinit]
    exact BalInv_init cur cfg q gf gc (fun h => by rw [hc] at h; cases h)
  exact C02Go2.C02_ledger_cells_process_go cur cfg P q (ParOK_of_stages hS hpost) _ hI gdays days hdays hwf out hgo hv hc hd P.part al
    byCommodity

/-! ### Non-vacuity: the empty journal — the six stages succeed from the command's initial states -/
example (P : BalPar) (q : journal.Query) (gf : journal.Filter.State) (gc : journal.CloseAccounts.State) :
    processAllBalance P (balanceInit gf gc q) [] = some [] := by
  rw [processAllBalance_eq]; rfl

end Knut.C02Go3
