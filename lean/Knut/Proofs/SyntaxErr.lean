import Knut.Proofs.SyntaxScan
import Knut.Spec.SyntaxTree
/-!
# Errors point into the text (helper lemmas for C07)

`Fwd lo r`: the call with result `r` ended at an offset `≥ lo`, and if it failed, every link of the error chain
carries a range `start ≤ stop ≤` that final offset. Proved for every scanner and parser function by the same
chain of `Fwd.bind` steps as the definitions.
-/
namespace Knut.Syntax
open Knut.Utf8 Knut.Spec.Syntax
set_option linter.unusedVariables false

theorem within_iff {lo hi : Nat} {r : Range} : within lo hi r = true ↔ lo ≤ r.start ∧ r.start ≤ r.stop ∧ r.stop ≤ hi := by
  simp [within, and_assoc]

theorem errOK_nil (hi : Nat) : errOK hi [] = true := rfl

theorem errOK_append {hi : Nat} {e1 e2 : Err} : errOK hi (e1 ++ e2) = true ↔ errOK hi e1 = true ∧ errOK hi e2 = true := by
  simp [errOK, List.all_append]

theorem errOK_single_at {hi : Nat} {m : String} {r : Range} :
    errOK hi [Frame.at m r] = true ↔ r.start ≤ r.stop ∧ r.stop ≤ hi := by
  simp [errOK, frameOK, within_iff]

theorem errOK_cons_at {hi : Nat} {m : String} {r : Range} {e : Err} :
    errOK hi (Frame.at m r :: e) = true ↔ (r.start ≤ r.stop ∧ r.stop ≤ hi) ∧ errOK hi e = true := by
  simp [errOK, frameOK, within_iff]

theorem errOK_mono {hi hi' : Nat} {e : Err} (h : errOK hi e = true) (hle : hi ≤ hi') : errOK hi' e = true := by
  simp only [errOK, List.all_eq_true] at h ⊢
  intro f hf
  have := h f hf
  cases f with
  | «at» m r => simp only [frameOK, within_iff] at this ⊢; omega
  | zero => rfl
  | eof => rfl

/-- ends at or after `lo`; a failure carries only ranges inside `[0, final offset]` -/
def Fwd {α} (lo : Nat) (r : Res α) : Prop :=
  (∀ e s', r = .err e s' → lo ≤ s'.off ∧ errOK s'.off e = true) ∧ (∀ a s', r = .ok a s' → lo ≤ s'.off)

theorem Fwd.weaken {α} {lo lo' : Nat} {r : Res α} (h : Fwd lo r) (hle : lo' ≤ lo) : Fwd lo' r :=
  ⟨fun e s' he => ⟨Nat.le_trans hle (h.1 e s' he).1, (h.1 e s' he).2⟩, fun a s' ha => Nat.le_trans hle (h.2 a s' ha)⟩

theorem Fwd.ok {α} (lo : Nat) (a : α) (s : St) (h : lo ≤ s.off) : Fwd lo (Res.ok a s) :=
  ⟨fun _ _ he => (by cases he), fun _ _ ha => (by cases ha; exact h)⟩

theorem Fwd.bind {α β} {lo : Nat} {r : Res α} {onErr : Err → St → Err} {f : α → St → Res β}
    (h1 : Fwd lo r)
    (h2 : ∀ e s', lo ≤ s'.off → errOK s'.off e = true → errOK s'.off (onErr e s') = true)
    (h3 : ∀ a s1, lo ≤ s1.off → Fwd lo (f a s1)) : Fwd lo (r.bind onErr f) := by
  cases r with
  | ok a s1 => exact h3 a s1 (h1.2 a s1 rfl)
  | err e s1 =>
    have := h1.1 e s1 rfl
    refine ⟨fun e' s' he => ?_, fun _ _ ha => by cases ha⟩
    simp only [Res.bind] at he
    injection he with he1 he2
    subst he1 he2
    exact ⟨this.1, h2 e s1 this.1 this.2⟩

/-- `Scope.Annotate` of a scope opened at or before `lo` keeps the error inside the text -/
theorem annotate_ok {desc : String} {start lo : Nat} (hs : start ≤ lo) :
    ∀ e s', lo ≤ s'.off → errOK s'.off e = true → errOK s'.off (annotate desc start e s') = true := by
  intro e s' hlo he
  simp only [annotate, errOK_append, errOK_single_at, rng]
  exact ⟨he, by omega, Nat.le_refl _⟩

theorem id_ok {lo : Nat} : ∀ e (s' : St), lo ≤ s'.off → errOK s'.off e = true → errOK s'.off ((fun e _ => e) e s') = true :=
  fun _ _ _ h => h

theorem advanceTok_fwd (off : Nat) (t : Tok) (rest : List Tok) : Fwd off (advanceTok off t rest) := by
  unfold advanceTok
  cases rest with
  | nil => exact Fwd.ok _ _ _ (by simp)
  | cons u r =>
    simp only
    split
    · refine ⟨fun e s' he => ?_, fun _ _ ha => by cases ha⟩
      injection he with he1 he2
      subst he1 he2
      simp [errOK_single_at]
    · exact Fwd.ok _ _ _ (by simp)

theorem advance_fwd (s : St) : Fwd s.off (advance s) := by
  unfold advance
  split
  · refine ⟨fun e s' he => ?_, fun _ _ ha => by cases ha⟩
    injection he with he1 he2
    subst he1 he2
    simp [errOK_single_at]
  · exact advanceTok_fwd _ _ _

theorem readWhileL_fwd (p : Nat → Bool) (start off : Nat) (toks : List Tok) (hs : start ≤ off) :
    Fwd off (readWhileL p start off toks) := by
  induction toks generalizing off with
  | nil => exact Fwd.ok _ _ _ (Nat.le_refl _)
  | cons t rest ih =>
    rw [readWhileL]
    split
    · have ha := advanceTok_fwd off t rest
      split
      · exact (ih (off + t.bytes.length) (by omega)).weaken (by omega)
      · rename_i e s' heq
        have := ha.1 e s' heq
        refine ⟨fun e' s'' he => ?_, fun _ _ h => by cases h⟩
        injection he with he1 he2
        subst he1 he2
        refine ⟨this.1, ?_⟩
        simp only [errOK_append, errOK_single_at, rng]
        exact ⟨this.2, by omega, Nat.le_refl _⟩
    · exact Fwd.ok _ _ _ (Nat.le_refl _)

theorem readWhile_fwd (p : Nat → Bool) (s : St) : Fwd s.off (readWhile p s) :=
  readWhileL_fwd p s.off s.off s.toks (Nat.le_refl _)

theorem err_here {α} (m : String) (s : St) : Fwd s.off (Res.err [Frame.at m (rng s.off s)] s : Res α) := by
  refine ⟨fun e s' he => ?_, fun _ _ h => by cases h⟩
  injection he with he1 he2
  subst he1 he2
  simp [errOK_single_at, rng]

theorem readWhile1_fwd (desc : String) (p : Nat → Bool) (s : St) : Fwd s.off (readWhile1 desc p s) := by
  unfold readWhile1
  split
  · exact err_here _ _
  · split
    · exact err_here _ _
    · exact readWhileL_fwd p s.off s.off s.toks (Nat.le_refl _)

theorem advance_wrap_fwd (s : St) (m : String) :
    Fwd s.off (match advance s with
      | .ok _ s' => Res.ok (rng s.off s') s'
      | .err e s' => .err (e ++ [Frame.at m (rng s.off s')]) s') := by
  have ha := advance_fwd s
  split
  · rename_i u s' heq
    exact Fwd.ok _ _ _ (ha.2 _ _ heq)
  · rename_i e s' heq
    have := ha.1 e s' heq
    refine ⟨fun e' s'' he => ?_, fun _ _ h => by cases h⟩
    injection he with he1 he2
    subst he1 he2
    refine ⟨this.1, ?_⟩
    simp only [errOK_append, errOK_single_at, rng]
    exact ⟨this.2, this.1, Nat.le_refl _⟩

theorem readCharacter_fwd (r : Nat) (s : St) : Fwd s.off (readCharacter r s) := by
  unfold readCharacter
  split
  · exact err_here _ _
  · split
    · exact err_here _ _
    · exact advance_wrap_fwd s _

theorem readCharacterWith_fwd (desc : String) (p : Nat → Bool) (s : St) : Fwd s.off (readCharacterWith desc p s) := by
  unfold readCharacterWith
  split
  · exact err_here _ _
  · split
    · exact err_here _ _
    · exact advance_wrap_fwd s _

theorem readStringL_fwd (str : String) (start : Nat) (chs : List Nat) (s : St) (hs : start ≤ s.off) :
    Fwd s.off (readStringL str start chs s) := by
  induction chs generalizing s with
  | nil => exact Fwd.ok _ _ _ (Nat.le_refl _)
  | cons ch chs ih =>
    simp only [readStringL]
    split
    · refine ⟨fun e s' he => ?_, fun _ _ h => by cases h⟩
      injection he with he1 he2
      subst he1 he2
      simp only [errOK_single_at, rng]
      exact ⟨Nat.le_refl _, hs, Nat.le_refl _⟩
    · have ha := advance_fwd s
      split
      · rename_i u s' heq
        have := ha.2 _ _ heq
        exact (ih s' (by omega)).weaken this
      · rename_i e s' heq
        have := ha.1 e s' heq
        refine ⟨fun e' s'' he => ?_, fun _ _ h => by cases h⟩
        injection he with he1 he2
        subst he1 he2
        refine ⟨this.1, ?_⟩
        simp only [errOK_append, errOK_single_at, rng]
        exact ⟨this.2, by omega, Nat.le_refl _⟩

theorem readString_fwd (str : String) (s : St) : Fwd s.off (readString str s) :=
  readStringL_fwd str s.off _ s (Nat.le_refl _)

theorem readAltL_fwd (all : List String) (s : St) (ss : List String) : Fwd s.off (readAltL all s ss) := by
  induction ss with
  | nil => exact err_here _ _
  | cons t ts ih =>
    unfold readAltL
    split
    · rename_i r s' heq
      exact Fwd.ok _ _ _ ((readString_fwd t s).2 _ _ heq)
    · exact ih

theorem readAlternative_fwd (ss : List String) (s : St) : Fwd s.off (readAlternative ss s) := by
  unfold readAlternative
  split
  · exact err_here _ _
  · exact readAltL_fwd ss s ss

end Knut.Syntax

namespace Knut.Syntax
open Knut.Utf8 Knut.Spec.Syntax
set_option linter.unusedVariables false

/-- an explicit `match` on a sub-call inside a loop: the failing branch with the scope's decoration -/
theorem fwd_err_annot {α β} {lo start : Nat} {desc : String} {r : Res α} {e : Err} {s1 : St}
    (h : Fwd lo r) (he : r = .err e s1) (hs : start ≤ lo) :
    Fwd lo (Res.err (annotate desc start e s1) s1 : Res β) := by
  have := h.1 e s1 he
  refine ⟨fun e' s' h' => ?_, fun _ _ h' => by cases h'⟩
  injection h' with h1 h2
  subst h1 h2
  exact ⟨this.1, annotate_ok hs e s1 this.1 this.2⟩

theorem readComment_fwd (s : St) : Fwd s.off (readComment s) := by
  unfold readComment
  refine Fwd.bind (readAlternative_fwd _ _) (annotate_ok (Nat.le_refl _)) fun _ s1 h1 => ?_
  refine Fwd.bind ((readWhile_fwd _ s1).weaken h1) (annotate_ok (Nat.le_refl _)) fun _ s2 h2 => ?_
  exact Fwd.ok _ _ _ h2

theorem readWhitespace1_fwd (s : St) : Fwd s.off (readWhitespace1 s) := by
  unfold readWhitespace1
  split
  · exact err_here _ _
  · exact readWhile_fwd _ _

theorem readRestOfWhitespaceLine_fwd (s : St) : Fwd s.off (readRestOfWhitespaceLine s) := by
  unfold readRestOfWhitespaceLine
  refine Fwd.bind (readWhile_fwd _ _) (annotate_ok (Nat.le_refl _)) fun _ s1 h1 => ?_
  split
  · exact Fwd.ok _ _ _ h1
  · refine Fwd.bind ((readCharacter_fwd _ s1).weaken h1) (annotate_ok (Nat.le_refl _)) fun _ s2 h2 => ?_
    exact Fwd.ok _ _ _ h2

theorem parseDate_fwd (s : St) : Fwd s.off (parseDate s) := by
  unfold parseDate
  simp only
  refine Fwd.bind (readCharacterWith_fwd _ _ _) (annotate_ok (Nat.le_refl _)) fun _ s1 h1 => ?_
  refine Fwd.bind ((readCharacterWith_fwd _ _ s1).weaken h1) (annotate_ok (Nat.le_refl _)) fun _ s1 h1 => ?_
  refine Fwd.bind ((readCharacterWith_fwd _ _ s1).weaken h1) (annotate_ok (Nat.le_refl _)) fun _ s1 h1 => ?_
  refine Fwd.bind ((readCharacterWith_fwd _ _ s1).weaken h1) (annotate_ok (Nat.le_refl _)) fun _ s1 h1 => ?_
  refine Fwd.bind ((readCharacter_fwd _ s1).weaken h1) (annotate_ok (Nat.le_refl _)) fun _ s1 h1 => ?_
  refine Fwd.bind ((readCharacterWith_fwd _ _ s1).weaken h1) (annotate_ok (Nat.le_refl _)) fun _ s1 h1 => ?_
  refine Fwd.bind ((readCharacterWith_fwd _ _ s1).weaken h1) (annotate_ok (Nat.le_refl _)) fun _ s1 h1 => ?_
  refine Fwd.bind ((readCharacter_fwd _ s1).weaken h1) (annotate_ok (Nat.le_refl _)) fun _ s1 h1 => ?_
  refine Fwd.bind ((readCharacterWith_fwd _ _ s1).weaken h1) (annotate_ok (Nat.le_refl _)) fun _ s1 h1 => ?_
  refine Fwd.bind ((readCharacterWith_fwd _ _ s1).weaken h1) (annotate_ok (Nat.le_refl _)) fun _ s1 h1 => ?_
  exact Fwd.ok _ _ _ h1

theorem parseQuotedString_fwd (s : St) : Fwd s.off (parseQuotedString s) := by
  unfold parseQuotedString
  refine Fwd.bind (readCharacter_fwd _ _) (annotate_ok (Nat.le_refl _)) fun _ s1 h1 => ?_
  refine Fwd.bind ((readWhile_fwd _ s1).weaken h1) (annotate_ok (Nat.le_refl _)) fun _ s1 h1 => ?_
  refine Fwd.bind ((readCharacter_fwd _ s1).weaken h1) (annotate_ok (Nat.le_refl _)) fun _ s1 h1 => ?_
  exact Fwd.ok _ _ _ h1

theorem parseCommodity_fwd (s : St) : Fwd s.off (parseCommodity s) := by
  unfold parseCommodity
  refine Fwd.bind (readWhile1_fwd _ _ _) (annotate_ok (Nat.le_refl _)) fun _ s1 h1 => ?_
  exact Fwd.ok _ _ _ h1

theorem parseDecimal_fwd (s : St) : Fwd s.off (parseDecimal s) := by
  unfold parseDecimal
  refine Fwd.bind ?_ id_ok fun _ s1 h1 => ?_
  · split
    · refine Fwd.bind (readCharacter_fwd _ _) (annotate_ok (Nat.le_refl _)) fun _ s1 h1 => ?_
      exact Fwd.ok _ _ _ h1
    · exact Fwd.ok _ _ _ (Nat.le_refl _)
  · refine Fwd.bind ((readWhile1_fwd _ _ s1).weaken h1) (annotate_ok (Nat.le_refl _)) fun _ s1 h1 => ?_
    split
    · exact Fwd.ok _ _ _ h1
    · refine Fwd.bind ((readCharacter_fwd _ s1).weaken h1) (annotate_ok (Nat.le_refl _)) fun _ s1 h1 => ?_
      refine Fwd.bind ((readWhile1_fwd _ _ s1).weaken h1) (annotate_ok (Nat.le_refl _)) fun _ s1 h1 => ?_
      exact Fwd.ok _ _ _ h1

theorem accountLoop_fwd (start : Nat) (s : St) (hs : start ≤ s.off) : Fwd s.off (accountLoop start s) := by
  fun_induction accountLoop start s with
  | case1 s h => exact Fwd.ok _ _ _ (Nat.le_refl _)
  | case2 s h e s1 h1 => exact fwd_err_annot (readCharacter_fwd _ _) h1 hs
  | case3 s h x s1 h1 e s2 h2 =>
    have o1 := (readCharacter_fwd 58 s).2 _ _ h1
    exact fwd_err_annot ((readWhile1_fwd _ _ s1).weaken o1) h2 hs
  | case4 s h x s1 h1 y s2 h2 ih =>
    have o1 := (readCharacter_fwd 58 s).2 _ _ h1
    have o2 := (readWhile1_fwd _ _ s1).2 _ _ h2
    exact (ih (by omega)).weaken (by omega)

theorem parseAccount_fwd (s : St) : Fwd s.off (parseAccount s) := by
  unfold parseAccount
  simp only
  split
  · refine Fwd.bind (readCharacter_fwd _ _) (annotate_ok (Nat.le_refl _)) fun _ s1 h1 => ?_
    refine Fwd.bind ((readWhile1_fwd _ _ s1).weaken h1) (annotate_ok (Nat.le_refl _)) fun _ s1 h1 => ?_
    exact Fwd.ok _ _ _ h1
  · refine Fwd.bind (readWhile1_fwd _ _ _) (annotate_ok (Nat.le_refl _)) fun _ s1 h1 => ?_
    exact (accountLoop_fwd _ s1 h1).weaken h1

theorem parseBooking_fwd (s : St) : Fwd s.off (parseBooking s) := by
  unfold parseBooking
  refine Fwd.bind (parseAccount_fwd _) (annotate_ok (Nat.le_refl _)) fun _ s1 h1 => ?_
  refine Fwd.bind ((readWhile1_fwd _ _ s1).weaken h1) (annotate_ok (Nat.le_refl _)) fun _ s1 h1 => ?_
  refine Fwd.bind ((parseAccount_fwd s1).weaken h1) (annotate_ok (Nat.le_refl _)) fun _ s1 h1 => ?_
  refine Fwd.bind ((readWhile1_fwd _ _ s1).weaken h1) (annotate_ok (Nat.le_refl _)) fun _ s1 h1 => ?_
  refine Fwd.bind ((parseDecimal_fwd s1).weaken h1) (annotate_ok (Nat.le_refl _)) fun _ s1 h1 => ?_
  refine Fwd.bind ((readWhile1_fwd _ _ s1).weaken h1) (annotate_ok (Nat.le_refl _)) fun _ s1 h1 => ?_
  refine Fwd.bind ((parseCommodity_fwd s1).weaken h1) (annotate_ok (Nat.le_refl _)) fun _ s1 h1 => ?_
  exact Fwd.ok _ _ _ h1

theorem parseBalance_fwd (s : St) : Fwd s.off (parseBalance s) := by
  unfold parseBalance
  refine Fwd.bind (parseAccount_fwd _) (annotate_ok (Nat.le_refl _)) fun _ s1 h1 => ?_
  refine Fwd.bind ((readWhitespace1_fwd s1).weaken h1) (annotate_ok (Nat.le_refl _)) fun _ s1 h1 => ?_
  refine Fwd.bind ((parseDecimal_fwd s1).weaken h1) (annotate_ok (Nat.le_refl _)) fun _ s1 h1 => ?_
  refine Fwd.bind ((readWhitespace1_fwd s1).weaken h1) (annotate_ok (Nat.le_refl _)) fun _ s1 h1 => ?_
  refine Fwd.bind ((parseCommodity_fwd s1).weaken h1) (annotate_ok (Nat.le_refl _)) fun _ s1 h1 => ?_
  exact Fwd.ok _ _ _ h1

theorem parseInterval_fwd (s : St) : Fwd s.off (parseInterval s) := by
  unfold parseInterval
  refine Fwd.bind (readAlternative_fwd _ _) (annotate_ok (Nat.le_refl _)) fun _ s1 h1 => ?_
  exact Fwd.ok _ _ _ h1

theorem parseAccrual_fwd (s : St) : Fwd s.off (parseAccrual s) := by
  unfold parseAccrual
  refine Fwd.bind (readWhitespace1_fwd _) (annotate_ok (Nat.le_refl _)) fun _ s1 h1 => ?_
  refine Fwd.bind ((parseInterval_fwd s1).weaken h1) (annotate_ok (Nat.le_refl _)) fun _ s1 h1 => ?_
  refine Fwd.bind ((readWhitespace1_fwd s1).weaken h1) (annotate_ok (Nat.le_refl _)) fun _ s1 h1 => ?_
  refine Fwd.bind ((parseDate_fwd s1).weaken h1) (annotate_ok (Nat.le_refl _)) fun _ s1 h1 => ?_
  refine Fwd.bind ((readWhitespace1_fwd s1).weaken h1) (annotate_ok (Nat.le_refl _)) fun _ s1 h1 => ?_
  refine Fwd.bind ((parseDate_fwd s1).weaken h1) (annotate_ok (Nat.le_refl _)) fun _ s1 h1 => ?_
  refine Fwd.bind ((readWhitespace1_fwd s1).weaken h1) (annotate_ok (Nat.le_refl _)) fun _ s1 h1 => ?_
  refine Fwd.bind ((parseAccount_fwd s1).weaken h1) (annotate_ok (Nat.le_refl _)) fun _ s1 h1 => ?_
  exact Fwd.ok _ _ _ h1

theorem perfLoop_fwd (start : Nat) (acc : List Commodity) (s : St) (hs : start ≤ s.off) :
    Fwd s.off (perfLoop start acc s) := by
  fun_induction perfLoop start acc s with
  | case1 acc s h => exact Fwd.ok _ _ _ (Nat.le_refl _)
  | case2 acc s h e s1 h1 => exact fwd_err_annot (readCharacter_fwd _ _) h1 hs
  | case3 acc s h x s1 h1 e s2 h2 =>
    have o1 := (readCharacter_fwd 44 s).2 _ _ h1
    exact fwd_err_annot ((readWhile_fwd _ s1).weaken o1) h2 hs
  | case4 acc s h x s1 h1 y s2 h2 e s3 h3 =>
    have o1 := (readCharacter_fwd 44 s).2 _ _ h1
    have o2 := (readWhile_fwd _ s1).2 _ _ h2
    exact fwd_err_annot ((parseCommodity_fwd s2).weaken (Nat.le_trans o1 o2)) h3 hs
  | case5 acc s h x s1 h1 y s2 h2 c s3 h3 e s4 h4 =>
    have o1 := (readCharacter_fwd 44 s).2 _ _ h1
    have o2 := (readWhile_fwd _ s1).2 _ _ h2
    have o3 := (parseCommodity_fwd s2).2 _ _ h3
    exact fwd_err_annot ((readWhile_fwd _ s3).weaken (by omega)) h4 hs
  | case6 acc s h x s1 h1 y s2 h2 c s3 h3 z s4 h4 ih =>
    have o1 := (readCharacter_fwd 44 s).2 _ _ h1
    have o2 := (readWhile_fwd _ s1).2 _ _ h2
    have o3 := (parseCommodity_fwd s2).2 _ _ h3
    have o4 := (readWhile_fwd _ s3).2 _ _ h4
    exact (ih (by omega)).weaken (by omega)

theorem parsePerformance_fwd (s : St) : Fwd s.off (parsePerformance s) := by
  unfold parsePerformance
  refine Fwd.bind (readCharacter_fwd _ _) (annotate_ok (Nat.le_refl _)) fun _ s1 h1 => ?_
  refine Fwd.bind ((readWhile_fwd _ s1).weaken h1) (annotate_ok (Nat.le_refl _)) fun _ s1 h1 => ?_
  refine Fwd.bind ?_ id_ok fun _ s2 h2 => ?_
  · split
    · refine Fwd.bind ((parseCommodity_fwd s1).weaken h1) (annotate_ok (Nat.le_refl _)) fun _ s1 h1 => ?_
      refine Fwd.bind ((readWhile_fwd _ s1).weaken h1) (annotate_ok (Nat.le_refl _)) fun _ s1 h1 => ?_
      exact Fwd.ok _ _ _ h1
    · exact Fwd.ok _ _ _ h1
  · refine Fwd.bind ((perfLoop_fwd _ _ s2 h2).weaken h2) id_ok fun _ s1 h1 => ?_
    refine Fwd.bind ((readCharacter_fwd _ s1).weaken h1) (annotate_ok (Nat.le_refl _)) fun _ s1 h1 => ?_
    exact Fwd.ok _ _ _ h1

theorem addonStep_fwd (start : Nat) (perf : Performance) (accr : Accrual) (r : Range) (kw : String) (s : St)
    (hs : start ≤ s.off) (hr : r.start ≤ r.stop ∧ r.stop ≤ s.off) :
    Fwd s.off (addonStep start perf accr r kw s) := by
  unfold addonStep
  simp only
  have dup : ∀ m, Fwd s.off (Res.err (annotate "parsing addons" start [Frame.at m r] s) s : Res (Performance × Accrual)) := by
    intro m
    refine ⟨fun e' s' h' => ?_, fun _ _ h' => by cases h'⟩
    injection h' with h1 h2
    subst h1 h2
    refine ⟨Nat.le_refl _, annotate_ok hs _ _ (Nat.le_refl _) ?_⟩
    simp only [errOK_single_at]
    exact hr
  split
  · split
    · exact dup _
    · refine Fwd.bind (parsePerformance_fwd _) (annotate_ok hs) fun _ s1 h1 => ?_
      exact Fwd.ok _ _ _ h1
  · split
    · split
      · exact dup _
      · refine Fwd.bind (parseAccrual_fwd _) (annotate_ok hs) fun _ s1 h1 => ?_
        exact Fwd.ok _ _ _ h1
    · exact Fwd.ok _ _ _ (Nat.le_refl _)

theorem addonsLoop_fwd (start : Nat) (perf : Performance) (accr : Accrual) (s : St) (hs : start ≤ s.off) :
    Fwd s.off (addonsLoop start perf accr s) := by
  fun_induction addonsLoop start perf accr s with
  | case1 perf accr s e s1 h1 => exact fwd_err_annot (readAlternative_fwd _ _) h1 hs
  | case2 perf accr s r kw s1 h1 e s2 h2 =>
    have o1 := (readAlternative_fwd _ s).2 _ _ h1
    obtain ⟨_, c, hc, _, hr⟩ := readAlternative_ok' h1
    have := (addonStep_fwd start perf accr r kw s1 (by omega) (by rw [hr]; simp; omega)).1 e s2 h2
    refine ⟨fun e' s' h' => ?_, fun _ _ h' => by cases h'⟩
    injection h' with a1 a2
    subst a1 a2
    exact ⟨by omega, this.2⟩
  | case3 perf accr s r kw s1 h1 perf' accr' s2 h2 e s3 h3 =>
    have o1 := (readAlternative_fwd _ s).2 _ _ h1
    obtain ⟨_, c, hc, _, hr⟩ := readAlternative_ok' h1
    have o2 := (addonStep_fwd start perf accr r kw s1 (by omega) (by rw [hr]; simp; omega)).2 _ _ h2
    have o3 := ((readRestOfWhitespaceLine_fwd s2).1 _ _ h3).1
    refine ⟨fun e' s' h' => ?_, fun _ _ h' => by cases h'⟩
    injection h' with a1 a2
    subst a1 a2
    exact ⟨by omega, annotate_ok (lo := s.off) hs _ _ (by omega) rfl⟩
  | case4 perf accr s r kw s1 h1 perf' accr' s2 h2 x s3 h3 hc =>
    have o1 := (readAlternative_fwd _ s).2 _ _ h1
    obtain ⟨_, c, hc, _, hr⟩ := readAlternative_ok' h1
    have o2 := (addonStep_fwd start perf accr r kw s1 (by omega) (by rw [hr]; simp; omega)).2 _ _ h2
    have o3 := (readRestOfWhitespaceLine_fwd s2).2 _ _ h3
    exact Fwd.ok _ _ _ (by omega)
  | case5 perf accr s r kw s1 h1 perf' accr' s2 h2 x s3 h3 hc ih =>
    have o1 := (readAlternative_fwd _ s).2 _ _ h1
    obtain ⟨_, c, hc, _, hr⟩ := readAlternative_ok' h1
    have o2 := (addonStep_fwd start perf accr r kw s1 (by omega) (by rw [hr]; simp; omega)).2 _ _ h2
    have o3 := (readRestOfWhitespaceLine_fwd s2).2 _ _ h3
    exact (ih (by omega)).weaken (by omega)

theorem parseAddons_fwd (s : St) : Fwd s.off (parseAddons s) := addonsLoop_fwd _ _ _ _ (Nat.le_refl _)

theorem bookingsLoop_fwd (start : Nat) (acc : List Booking) (s : St) (hs : start ≤ s.off) :
    Fwd s.off (bookingsLoop start acc s) := by
  fun_induction bookingsLoop start acc s with
  | case1 acc s e s1 h1 => exact fwd_err_annot (parseBooking_fwd _) h1 hs
  | case2 acc s b s1 h1 e s2 h2 =>
    have o1 := (parseBooking_fwd s).2 _ _ h1
    exact fwd_err_annot ((readRestOfWhitespaceLine_fwd s1).weaken o1) h2 hs
  | case3 acc s b s1 h1 x s2 h2 hc =>
    have o1 := (parseBooking_fwd s).2 _ _ h1
    have o2 := (readRestOfWhitespaceLine_fwd s1).2 _ _ h2
    exact Fwd.ok _ _ _ (by omega)
  | case4 acc s b s1 h1 x s2 h2 hc ih =>
    have o1 := (parseBooking_fwd s).2 _ _ h1
    have o2 := (readRestOfWhitespaceLine_fwd s1).2 _ _ h2
    exact (ih (by omega)).weaken (by omega)

theorem parseTransaction_fwd (start : Nat) (date : Date) (addons : Addons) (s : St) (hs : start ≤ s.off) :
    Fwd s.off (parseTransaction start date addons s) := by
  unfold parseTransaction
  refine Fwd.bind (parseQuotedString_fwd _) (annotate_ok hs) fun _ s1 h1 => ?_
  refine Fwd.bind ((readRestOfWhitespaceLine_fwd s1).weaken h1) (annotate_ok hs) fun _ s1 h1 => ?_
  refine Fwd.bind ((bookingsLoop_fwd _ _ s1 (by omega)).weaken h1) id_ok fun _ s1 h1 => ?_
  exact Fwd.ok _ _ _ h1

theorem parseOpen_fwd (start : Nat) (date : Date) (s : St) (hs : start ≤ s.off) : Fwd s.off (parseOpen start date s) := by
  unfold parseOpen
  refine Fwd.bind (parseAccount_fwd _) (annotate_ok hs) fun _ s1 h1 => ?_
  exact Fwd.ok _ _ _ h1

theorem parseClose_fwd (start : Nat) (date : Date) (s : St) (hs : start ≤ s.off) : Fwd s.off (parseClose start date s) := by
  unfold parseClose
  refine Fwd.bind (parseAccount_fwd _) (annotate_ok hs) fun _ s1 h1 => ?_
  exact Fwd.ok _ _ _ h1

theorem balancesLoop_fwd (start : Nat) (acc : List Balance) (s : St) (hs : start ≤ s.off) :
    Fwd s.off (balancesLoop start acc s) := by
  fun_induction balancesLoop start acc s with
  | case1 acc s e s1 h1 => exact fwd_err_annot (parseBalance_fwd _) h1 hs
  | case2 acc s b s1 h1 e s2 h2 =>
    have o1 := (parseBalance_fwd s).2 _ _ h1
    exact fwd_err_annot ((readRestOfWhitespaceLine_fwd s1).weaken o1) h2 hs
  | case3 acc s b s1 h1 x s2 h2 hc =>
    have o1 := (parseBalance_fwd s).2 _ _ h1
    have o2 := (readRestOfWhitespaceLine_fwd s1).2 _ _ h2
    exact Fwd.ok _ _ _ (by omega)
  | case4 acc s b s1 h1 x s2 h2 hc ih =>
    have o1 := (parseBalance_fwd s).2 _ _ h1
    have o2 := (readRestOfWhitespaceLine_fwd s1).2 _ _ h2
    exact (ih (by omega)).weaken (by omega)

theorem parseAssertion_fwd (start : Nat) (date : Date) (s : St) (hs : start ≤ s.off) :
    Fwd s.off (parseAssertion start date s) := by
  unfold parseAssertion
  simp only
  split
  · refine Fwd.bind (readRestOfWhitespaceLine_fwd _) (annotate_ok hs) fun _ s1 h1 => ?_
    refine Fwd.bind ((balancesLoop_fwd _ _ s1 (by omega)).weaken h1) id_ok fun _ s1 h1 => ?_
    exact Fwd.ok _ _ _ h1
  · refine Fwd.bind (parseBalance_fwd _) (annotate_ok hs) fun _ s1 h1 => ?_
    exact Fwd.ok _ _ _ h1

theorem parsePrice_fwd (start : Nat) (date : Date) (s : St) (hs : start ≤ s.off) : Fwd s.off (parsePrice start date s) := by
  unfold parsePrice
  refine Fwd.bind (parseCommodity_fwd _) (annotate_ok hs) fun _ s1 h1 => ?_
  refine Fwd.bind ((readWhitespace1_fwd s1).weaken h1) (annotate_ok hs) fun _ s1 h1 => ?_
  refine Fwd.bind ((parseDecimal_fwd s1).weaken h1) (annotate_ok hs) fun _ s1 h1 => ?_
  refine Fwd.bind ((readWhitespace1_fwd s1).weaken h1) (annotate_ok hs) fun _ s1 h1 => ?_
  refine Fwd.bind ((parseCommodity_fwd s1).weaken h1) id_ok fun _ s1 h1 => ?_
  exact Fwd.ok _ _ _ h1

theorem parseInclude_fwd (s : St) : Fwd s.off (parseInclude s) := by
  unfold parseInclude
  refine Fwd.bind (readString_fwd _ _) (annotate_ok (Nat.le_refl _)) fun _ s1 h1 => ?_
  refine Fwd.bind ((readWhitespace1_fwd s1).weaken h1) (annotate_ok (Nat.le_refl _)) fun _ s1 h1 => ?_
  refine Fwd.bind ((parseQuotedString_fwd s1).weaken h1) (annotate_ok (Nat.le_refl _)) fun _ s1 h1 => ?_
  exact Fwd.ok _ _ _ h1

theorem parseKeyword_fwd (start : Nat) (date : Date) (kw : String) (s : St) (hs : start ≤ s.off) :
    Fwd s.off (parseKeyword start date kw s) := by
  unfold parseKeyword
  simp only
  split
  · exact Fwd.bind (parseOpen_fwd _ _ _ hs) (annotate_ok hs) fun _ s1 h1 => Fwd.ok _ _ _ h1
  · split
    · exact Fwd.bind (parseClose_fwd _ _ _ hs) (annotate_ok hs) fun _ s1 h1 => Fwd.ok _ _ _ h1
    · split
      · exact Fwd.bind (parseAssertion_fwd _ _ _ hs) (annotate_ok hs) fun _ s1 h1 => Fwd.ok _ _ _ h1
      · exact Fwd.bind (parsePrice_fwd _ _ _ hs) (annotate_ok hs) fun _ s1 h1 => Fwd.ok _ _ _ h1

theorem parseDirectiveBody_fwd (start : Nat) (addons : Addons) (s : St) (hs : start ≤ s.off) :
    Fwd s.off (parseDirectiveBody start addons s) := by
  unfold parseDirectiveBody
  simp only
  split
  · refine Fwd.bind (parseInclude_fwd _) (annotate_ok hs) fun _ s1 h1 => ?_
    exact Fwd.ok _ _ _ h1
  · refine Fwd.bind (parseDate_fwd _) (annotate_ok hs) fun _ s1 h1 => ?_
    refine Fwd.bind ((readWhitespace1_fwd s1).weaken h1) (annotate_ok hs) fun _ s1 h1 => ?_
    split
    · refine Fwd.bind ((parseTransaction_fwd _ _ _ s1 (by omega)).weaken h1) (annotate_ok hs) fun _ s1 h1 => ?_
      exact Fwd.ok _ _ _ h1
    · refine Fwd.bind ((readAlternative_fwd _ s1).weaken h1) (annotate_ok hs) fun x s1 h1 => ?_
      refine Fwd.bind ((readWhitespace1_fwd s1).weaken h1) (annotate_ok hs) fun _ s1 h1 => ?_
      exact (parseKeyword_fwd _ _ _ s1 (by omega)).weaken h1

theorem parseDirective_fwd (s : St) : Fwd s.off (parseDirective s) := by
  unfold parseDirective
  refine Fwd.bind ?_ id_ok fun _ s1 h1 => ?_
  · split
    · refine Fwd.bind (parseAddons_fwd _) (annotate_ok (Nat.le_refl _)) fun _ s1 h1 => ?_
      exact Fwd.ok _ _ _ h1
    · exact Fwd.ok _ _ _ (Nat.le_refl _)
  · refine Fwd.bind ((parseDirectiveBody_fwd _ _ s1 h1).weaken h1) id_ok fun _ s2 h2 => ?_
    exact Fwd.ok _ _ _ h2

theorem fileItem_fwd (s : St) : Fwd s.off (fileItem s) := by
  unfold fileItem
  split
  · exact Fwd.bind (readComment_fwd _) id_ok fun _ s1 h1 => Fwd.ok _ _ _ h1
  · split
    · exact Fwd.bind (parseDirective_fwd _) id_ok fun _ s1 h1 => Fwd.ok _ _ _ h1
    · exact Fwd.ok _ _ _ (Nat.le_refl _)

theorem fileLoop_fwd (path : String) (start : Nat) (acc : List Directive) (s : St) (hs : start ≤ s.off) :
    Fwd s.off (fileLoop path start acc s) := by
  fun_induction fileLoop path start acc s with
  | case1 acc s hE => exact Fwd.ok _ _ _ (Nat.le_refl _)
  | case2 acc s hE e s1 h1 => exact fwd_err_annot (fileItem_fwd _) h1 hs
  | case3 acc s hE d s1 h1 hE1 =>
    exact Fwd.ok _ _ _ ((fileItem_fwd s).2 _ _ h1)
  | case4 acc s hE d s1 h1 hE1 e s2 h2 =>
    have o1 := (fileItem_fwd s).2 _ _ h1
    exact fwd_err_annot ((readRestOfWhitespaceLine_fwd s1).weaken o1) h2 hs
  | case5 acc s hE d s1 h1 hE1 x s2 h2 ih =>
    have o1 := (fileItem_fwd s).2 _ _ h1
    have o2 := (readRestOfWhitespaceLine_fwd s1).2 _ _ h2
    exact (ih (by omega)).weaken (by omega)

theorem parseFile_fwd (path : String) (s : St) : Fwd s.off (parseFile path s) :=
  fileLoop_fwd path s.off [] s (Nat.le_refl _)

end Knut.Syntax
