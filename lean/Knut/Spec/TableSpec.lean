import Knut.Model.Table
/-!
# Executable property predicates for C17 (rendered balance tables)

Everything here speaks about *observable* data only: the table handed to the renderer (cells with
their amounts and texts), the flags (`--digits`, `--thousands`) and the rendered text / CSV.  The
monitor evaluates these predicates on the output of the real code; `Properties/C17.lean` proves
them of the model for all inputs.
-/
namespace Knut.Table.Spec
open Knut.Dec Knut.Table

/-! ## numbers -/

/-- remove the thousands separators -/
def stripCommas (s : List Char) : List Char := s.filter (fun c => c != ',')

/-- the independent digit grouper: after a digit a comma follows iff the number of digits still to
come is a positive multiple of three -/
def groupLeft : List Char → List Char
  | [] => []
  | d :: ds => if ds.length % 3 = 0 ∧ ds ≠ [] then d :: ',' :: groupLeft ds else d :: groupLeft ds

def unsigned : List Char → List Char
  | '-' :: t => t
  | t => t

/-- integer part: non-empty, digits grouped by `groupLeft`; fraction: digits only (no separators) -/
def groupedOK (body : List Char) : Bool :=
  let b := unsigned body
  let ip := b.takeWhile (fun c => c != '.')
  let fp := b.dropWhile (fun c => c != '.')
  let ds := stripCommas ip
  !ds.isEmpty && ds.all isDigit && ip == groupLeft ds &&
  (match fp with
   | [] => true
   | _ :: f => !f.isEmpty && f.all isDigit)

/-- exactly `digits` fractional digits for `digits > 0`, no decimal point otherwise -/
def fracOK (digits : Int) (body : List Char) : Bool :=
  let fp := body.dropWhile (fun c => c != '.')
  if 0 < digits then fp.length == digits.toNat + 1 else fp.isEmpty

/-- what the property sentence asks a numeric cell to show: the amount (divided by 1000 with
`--thousands`, *exactly*) rounded half away from zero to `digits` places -/
def exactTarget (r : Renderer) (d : Rat) : Rat :=
  roundPlaces r.round (if r.thousands then d / 1000 else d)

/-- what the code computes: `Shift(-3)` is exact, so this is `exactTarget` (definitionally) -/
def codeTarget (r : Renderer) (d : Rat) : Rat := roundPlaces r.round (scaled r d)

/-- a numeric cell text `body` shows the value `target`: without separators it parses to `target`,
it starts with `-` iff that value is negative, digits are grouped in threes, fraction length is as
requested -/
def numShownAs (digits : Int) (target : Rat) (body : List Char) : Bool :=
  match parseDec (String.ofList (stripCommas body)) with
  | some v =>
    decide (v = target) && ((body.head? == some '-') == decide (v < 0)) && groupedOK body && fracOK digits body
  | none => false

/-- amounts for which `d / 1000` has at most 16 decimal places (so that `Div` is exact) -/
def thousandsExact (d : Rat) : Bool := decide (((d * 10 ^ 13).den) = 1)

/-! ## cells and lines -/

def allSpaces (s : List Char) : Bool := s.all (fun c => c == ' ')

/-- `s` is `content` padded with blanks on both sides -/
def paddedText (content s : List Char) : Bool :=
  (List.range (s.length + 1)).any (fun a =>
    s == List.replicate a ' ' ++ content ++ List.replicate (s.length - a - content.length) ' ')

/-- the text `s` of a column slot shows the cell `c`; `exact` selects the property's target
(`exactTarget`) or the code's (`codeTarget`) for numbers -/
def cellShows (exact : Bool) (r : Renderer) (c : Cell) (s : List Char) : Bool :=
  match c with
  | .empty => allSpaces s
  | .sep => s.all (fun c => c == '-')
  | .text content _ _ => paddedText content s
  | .num d =>
    if d = 0 then allSpaces s
    else
      let body := s.dropWhile (fun c => c == ' ')
      !body.isEmpty && numShownAs r.round (if exact then exactTarget r d else codeTarget r d) body

def leadOK (s : List Char) : Bool := s == "| ".toList || s == "+-".toList
def midOK (s : List Char) : Bool :=
  s == " | ".toList || s == "-+-".toList || s == "-+ ".toList || s == " +-".toList
def trailOK (s : List Char) : Bool := s == " |".toList || s == "-+".toList

/-- `s` = slot₀ sep slot₁ sep … slotₙ₋₁ trail with slot widths `W` and every slot showing its cell -/
def conformsCells (exact : Bool) (r : Renderer) : List Cell → List Nat → List Char → Bool
  | [c], w :: _, s => cellShows exact r c (s.take w) && trailOK (s.drop w)
  | c :: c' :: cs, w :: ws, s =>
    cellShows exact r c (s.take w) && midOK ((s.drop w).take 3) &&
      conformsCells exact r (c' :: cs) ws ((s.drop w).drop 3)
  | _, _, _ => false

/-- a line is a two-character lead, then the slots -/
def conformsRow (exact : Bool) (r : Renderer) (W : List Nat) (row : List Cell) (line : List Char) : Bool :=
  leadOK (line.take 2) && conformsCells exact r row W (line.drop 2)

def conformsAll (exact : Bool) (r : Renderer) (W : List Nat) : List (List Cell) → List (List Char) → Bool
  | [], [] => true
  | row :: rows, l :: ls => conformsRow exact r W row l && conformsAll exact r W rows ls
  | _, _ => false

/-- **rectangular**: all lines have the same number of runes -/
def rectLines : List (List Char) → Bool
  | [] => true
  | l :: rest => rest.all (fun x => x.length == l.length)

def isSepChar (c : Char) : Bool := c == '|' || c == '+'

def sepAt (l : List Char) (p : Nat) : Bool :=
  match l[p]? with
  | some c => isSepChar c
  | none => false

/-- the positions at which *every* line carries a column separator character -/
def commonSep : List (List Char) → List Nat
  | [] => []
  | l :: ls => (List.range l.length).filter (fun p => (l :: ls).all (fun x => sepAt x p))

/-- **vertically aligned**: a table with `n` columns has (at least) `n + 1` character columns that
hold a separator (`|` or `+`) on every line -/
def alignedOK (n : Nat) (ls : List (List Char)) : Bool :=
  ls.isEmpty || decide (n + 1 ≤ (commonSep ls).length)

/-- column widths read off the output: distances between the common separator columns -/
def inferW (n : Nat) (ls : List (List Char)) : Option (List Nat) :=
  let ps := commonSep ls
  if ps.length = n + 1 then some (List.zipWith (fun a b => b - a - 3) ps ps.tail) else none

/-! ## text output as a whole -/

/-- `strings.Split(s, "\n")` -/
def splitOnNL : List Char → List (List Char)
  | [] => [[]]
  | c :: cs =>
    match splitOnNL cs with
    | [] => [[]]
    | l :: ls => if c = '\n' then [] :: l :: ls else (c :: l) :: ls

/-- the table lines of a rendered text: every line ends in "\n" and an empty line ends the table -/
def tableLines (out : List Char) : Option (List (List Char)) :=
  let parts := splitOnNL out
  if 2 ≤ parts.length ∧ parts.getLast? = some [] ∧ parts.dropLast.getLast? = some [] then
    some parts.dropLast.dropLast
  else none

/-- rows all have `n` cells, `1 ≤ n ≤ width` (the balance report fills every row to the table width) -/
def uniform (n : Nat) (t : Table) : Bool :=
  decide (1 ≤ n) && decide (n ≤ t.width) && t.rows.all (fun row => row.length == n)

def cellPlain : Cell → Bool
  | .text s _ ind => decide (0 ≤ ind) && !s.contains '\n'
  | _ => true

/-- text cells have a non-negative indent and no line break -/
def plain (t : Table) : Bool := t.rows.all (fun row => row.all cellPlain)

/-- the whole text predicate with a given witness `W` for the column widths -/
def textOKWith (exact : Bool) (r : Renderer) (t : Table) (n : Nat) (W : List Nat) (ls : List (List Char)) : Bool :=
  rectLines ls && alignedOK n ls && conformsAll exact r W t.rows ls

/-! ## CSV -/

/-- a CSV field carries the cell exactly: texts verbatim, amounts unrounded -/
def csvFieldShows (c : Cell) (f : List Char) : Bool :=
  match c with
  | .empty => f.isEmpty
  | .sep => f.isEmpty
  | .text s _ _ => f == s
  | .num d => parseDec (String.ofList f) == some d

def rowBlank (row : List Cell) : Bool :=
  row.all (fun c => match c with
    | .empty => true | .sep => true | .text s _ _ => s.isEmpty | .num _ => false)

def recordShows : List Cell → List (List Char) → Bool
  | [], [] => true
  | c :: cs, f :: fs => csvFieldShows c f && recordShows cs fs
  | _, _ => false

/-- the parsed CSV records are the non-blank rows, in order, cell by cell -/
def csvOK : List (List Cell) → List (List (List Char)) → Bool
  | [], [] => true
  | row :: rows, recs =>
    if rowBlank row then csvOK rows recs
    else match recs with
      | rec :: recs' => recordShows row rec && csvOK rows recs'
      | [] => false
  | [], _ :: _ => false

/-! ### reading CSV back (the inverse of `encoding/csv.Writer` as used by knut: comma, "\n" line ends,
fields quoted with `"` doubled inside) -/

inductive CsvState | fieldStart | unquoted | quoted | quoteSeen
  deriving DecidableEq, Repr

/-- `field` and `rec` are accumulated in reverse -/
def parseCSVGo : List Char → CsvState → List Char → List (List Char) → List (List (List Char)) →
    Option (List (List (List Char)))
  | [], st, field, rec, recs =>
    if st = .fieldStart ∧ field.isEmpty ∧ rec.isEmpty then some recs.reverse else none
  | c :: cs, .fieldStart, _, rec, recs =>
    if c = '"' then parseCSVGo cs .quoted [] rec recs
    else if c = ',' then parseCSVGo cs .fieldStart [] ([] :: rec) recs
    else if c = '\n' then parseCSVGo cs .fieldStart [] [] ((([] : List Char) :: rec).reverse :: recs)
    else parseCSVGo cs .unquoted [c] rec recs
  | c :: cs, .unquoted, field, rec, recs =>
    if c = '"' then none
    else if c = ',' then parseCSVGo cs .fieldStart [] (field.reverse :: rec) recs
    else if c = '\n' then parseCSVGo cs .fieldStart [] [] ((field.reverse :: rec).reverse :: recs)
    else parseCSVGo cs .unquoted (c :: field) rec recs
  | c :: cs, .quoted, field, rec, recs =>
    if c = '"' then parseCSVGo cs .quoteSeen field rec recs
    else parseCSVGo cs .quoted (c :: field) rec recs
  | c :: cs, .quoteSeen, field, rec, recs =>
    if c = '"' then parseCSVGo cs .quoted ('"' :: field) rec recs
    else if c = ',' then parseCSVGo cs .fieldStart [] (field.reverse :: rec) recs
    else if c = '\n' then parseCSVGo cs .fieldStart [] [] ((field.reverse :: rec).reverse :: recs)
    else none

def parseCSV (s : List Char) : Option (List (List (List Char))) := parseCSVGo s .fieldStart [] [] []

/-- the CSV text as a whole: it parses, and the records show the non-blank rows -/
def csvTextOK (t : Table) (out : List Char) : Bool :=
  match parseCSV out with
  | some recs => csvOK t.rows recs
  | none => false

end Knut.Table.Spec
