import Knut.Model.Infer
/-!
# Go's string order on byte lists and `sortU` (`dict.SortedKeys`): helper lemmas for C15
-/
namespace Knut.Infer
open Knut Knut.Syntax

theorem bytesLt_irrefl : ∀ a : Bytes, bytesLt a a = false
  | [] => rfl
  | x :: xs => by
    have h : ¬ x < x := by rw [UInt8.lt_iff_toNat_lt]; omega
    simp [bytesLt, h, bytesLt_irrefl xs]

theorem bytesLt_trans : ∀ {a b c : Bytes}, bytesLt a b = true → bytesLt b c = true → bytesLt a c = true
  | [], [], _, h, _ => by simp [bytesLt] at h
  | [], _ :: _, [], _, h => by simp [bytesLt] at h
  | [], _ :: _, _ :: _, _, _ => by simp [bytesLt]
  | _ :: _, [], _, h, _ => by simp [bytesLt] at h
  | _ :: _, _ :: _, [], _, h => by simp [bytesLt] at h
  | x :: xs, y :: ys, z :: zs, h1, h2 => by
    simp only [bytesLt] at h1 h2 ⊢
    simp only [UInt8.lt_iff_toNat_lt] at h1 h2 ⊢
    by_cases hxy : x.toNat < y.toNat
    · by_cases hyz : y.toNat < z.toNat
      · have : x.toNat < z.toNat := by omega
        simp [this]
      · simp only [hyz, if_false] at h2
        by_cases hzy : z.toNat < y.toNat
        · simp [hzy] at h2
        · have : x.toNat < z.toNat := by omega
          simp [this]
    · simp only [hxy, if_false] at h1
      by_cases hyx : y.toNat < x.toNat
      · simp [hyx] at h1
      · simp only [hyx, if_false] at h1
        have hxy' : x.toNat = y.toNat := by omega
        by_cases hyz : y.toNat < z.toNat
        · have : x.toNat < z.toNat := by omega
          simp [this]
        · simp only [hyz, if_false] at h2
          by_cases hzy : z.toNat < y.toNat
          · simp [hzy] at h2
          · simp only [hzy, if_false] at h2
            have h3 : ¬ x.toNat < z.toNat := by omega
            have h4 : ¬ z.toNat < x.toNat := by omega
            simp only [h3, h4, if_false]
            exact bytesLt_trans h1 h2

theorem bytesLt_total : ∀ (a b : Bytes), a = b ∨ bytesLt a b = true ∨ bytesLt b a = true
  | [], [] => Or.inl rfl
  | [], _ :: _ => Or.inr (Or.inl rfl)
  | _ :: _, [] => Or.inr (Or.inr rfl)
  | x :: xs, y :: ys => by
    simp only [bytesLt, UInt8.lt_iff_toNat_lt]
    by_cases hxy : x.toNat < y.toNat
    · simp [hxy]
    · by_cases hyx : y.toNat < x.toNat
      · simp [hyx]
      · have : x = y := UInt8.toNat_inj.mp (by omega)
        subst this
        simp only [hxy, if_false, List.cons.injEq, true_and]
        exact bytesLt_total xs ys

theorem bytesLt_asymm {a b : Bytes} (h : bytesLt a b = true) : bytesLt b a = false := by
  cases h2 : bytesLt b a with
  | false => rfl
  | true => have := bytesLt_trans h h2; rw [bytesLt_irrefl] at this; cases this

theorem bytesLt_ne {a b : Bytes} (h : bytesLt a b = true) : a ≠ b := by
  intro e; subst e; rw [bytesLt_irrefl] at h; cases h

/-- strictly ascending -/
def Asc : List Bytes → Prop
  | [] => True
  | x :: xs => (∀ y ∈ xs, bytesLt x y = true) ∧ Asc xs

theorem mem_insertU {x a : Bytes} {l : List Bytes} : a ∈ insertU x l ↔ a = x ∨ a ∈ l := by
  induction l with
  | nil => simp [insertU]
  | cons y ys ih =>
    simp only [insertU]
    split
    · rename_i h; subst h; simp
    · split
      · simp
      · simp only [List.mem_cons, ih]
        constructor
        · rintro (h | h | h) <;> simp [h]
        · rintro (h | h | h) <;> simp [h]

theorem asc_insertU {x : Bytes} {l : List Bytes} (h : Asc l) : Asc (insertU x l) := by
  induction l with
  | nil => simp [insertU, Asc]
  | cons y ys ih =>
    simp only [insertU]
    split
    · exact h
    · rename_i hne
      split
      · rename_i hlt
        refine ⟨?_, h⟩
        intro z hz
        rcases List.mem_cons.mp hz with hz | hz
        · subst hz; exact hlt
        · exact bytesLt_trans hlt (h.1 z hz)
      · rename_i hnlt
        refine ⟨?_, ih h.2⟩
        intro z hz
        rcases mem_insertU.mp hz with hz | hz
        · subst hz
          rcases bytesLt_total z y with e | e | e
          · exact absurd e hne
          · exact absurd e hnlt
          · exact e
        · exact h.1 z hz

theorem mem_sortU {a : Bytes} {l : List Bytes} : a ∈ sortU l ↔ a ∈ l := by
  induction l with
  | nil => simp [sortU]
  | cons x xs ih =>
    have : sortU (x :: xs) = insertU x (sortU xs) := rfl
    rw [this, mem_insertU, ih]; simp

theorem asc_sortU (l : List Bytes) : Asc (sortU l) := by
  induction l with
  | nil => simp [sortU, Asc]
  | cons x xs ih => exact asc_insertU ih

/-- two strictly ascending lists with the same elements are the same list -/
theorem asc_ext : ∀ {l₁ l₂ : List Bytes}, Asc l₁ → Asc l₂ → (∀ a, a ∈ l₁ ↔ a ∈ l₂) → l₁ = l₂
  | [], [], _, _, _ => rfl
  | [], y :: ys, _, _, h => by have := (h y).mpr (by simp); cases this
  | x :: xs, [], _, _, h => by have := (h x).mp (by simp); cases this
  | x :: xs, y :: ys, h1, h2, h => by
    have hxy : x = y := by
      rcases List.mem_cons.mp ((h x).mp (by simp)) with e | e
      · exact e
      · rcases List.mem_cons.mp ((h y).mpr (by simp)) with e' | e'
        · exact e'.symm
        · have a := h2.1 x e
          have b := h1.1 y e'
          rw [bytesLt_asymm a] at b; cases b
    subst hxy
    have : xs = ys := by
      apply asc_ext h1.2 h2.2
      intro a
      constructor
      · intro ha
        rcases List.mem_cons.mp ((h a).mp (List.mem_cons_of_mem _ ha)) with e | e
        · subst e; exact absurd rfl (bytesLt_ne (h1.1 a ha))
        · exact e
      · intro ha
        rcases List.mem_cons.mp ((h a).mpr (List.mem_cons_of_mem _ ha)) with e | e
        · subst e; exact absurd rfl (bytesLt_ne (h2.1 a ha))
        · exact e
    rw [this]

/-- `sortU` depends only on the set of elements: any enumeration order (and multiplicity) of a Go map's keys gives
the same `dict.SortedKeys` -/
theorem sortU_congr {l₁ l₂ : List Bytes} (h : ∀ a, a ∈ l₁ ↔ a ∈ l₂) : sortU l₁ = sortU l₂ :=
  asc_ext (asc_sortU l₁) (asc_sortU l₂) (fun a => by rw [mem_sortU, mem_sortU]; exact h a)

theorem nodup_of_asc : ∀ {l : List Bytes}, Asc l → l.Nodup
  | [], _ => List.nodup_nil
  | x :: xs, h => by
    refine List.nodup_cons.mpr ⟨?_, nodup_of_asc h.2⟩
    intro hx
    exact bytesLt_ne (h.1 x hx) rfl

theorem nodup_sortU (l : List Bytes) : (sortU l).Nodup := nodup_of_asc (asc_sortU l)

end Knut.Infer
