import Knut.Proofs.MTMRender
/-!
# C03: `--diff` columns — the change of an account's value inside one period

`accAt a es D` is what a `--diff` report shows for account `a` in the column of the period end `D`: the sum of the
inserts on `a` aligned to exactly `D`; it is `accCum a es D − accCum a es D'` for the previous period end `D'`.
`run_account_between`: for two period ends `F < D` inside the window the inserts on an asset/liability account aligned
to column dates in `(F, D]` total `Spec.mtm … D − Spec.mtm … F` up to `Spec.stepBound … F D` units of the 8th decimal:
only the valuation steps INSIDE `(F, D]` are charged (subtracting two instances of `run_account_window` would charge the
steps of `(start − 1, F]` twice more).
-/
namespace Knut.MTM
open Knut Knut.Dec Knut.Spec
open Knut.BalanceReport (sumAmounts cellAt own)
open Knut.Table (Cell)

/-- the inserts on account `a` aligned to the column date `D`, summed -/
def accAt (a : Account) (es : List Entry) (D : Int) : Rat :=
  sumAmounts (es.filter (fun e => decide (e.account = a) && decide (e.date = some D)))

theorem accCum_eq_total_on (a : Account) (es : List Entry) (D : Int)
    (h : ∀ e ∈ es, e.account = a → ∃ D', e.date = some D' ∧ D' ≤ D) : accCum a es D = accTotal a es := by
  unfold accCum accTotal
  congr 1
  apply List.filter_congr
  intro e he
  by_cases ha : e.account = a
  · obtain ⟨D', h1, h2⟩ := h e he ha
    rw [h1]
    simp [h2, ha]
  · simp [ha]

/-- **the account row over `(F, D]` for two period ends `F < D` inside the window** -/
theorem run_account_between (cfg : BalCfg) (v : Commodity) (a : Account) (days : List Day) (stF : BalState) (F D : Int)
    (hv : cfg.valuation = some v) (hal : a.isAL = true) (hpl : Plain cfg) (hs : Sorted days)
    (hcons : ∀ d ∈ days, ∀ t ∈ d.transactions, t.date = d.date)
    (hz : ∀ d ∈ days, ∀ t ∈ d.transactions, ∀ p ∈ t.postings, p.value = 0)
    (hinc : List.Pairwise (· < ·) (cfg.periods.map (·.stop))) (hD : D ∈ cfg.periods.map (·.stop))
    (hF : F ∈ cfg.periods.map (·.stop)) (hFD : F < D)
    (hFin : cfg.span.contains F = true) (hDin : cfg.span.contains D = true)
    (h : Balance.run cfg days = .ok stF) :
    ∃ mD mF, Spec.mtm v days a D = some mD ∧ Spec.mtm v days a F = some mF ∧
      -((Spec.stepBound v days a F D : Rat) * ulp 8) ≤ (accCum a stF.entries D - accCum a stF.entries F) - (mD - mF) ∧
      (accCum a stF.entries D - accCum a stF.entries F) - (mD - mF) ≤ (Spec.stepBound v days a F D : Rat) * ulp 8 := by
  have hvs : cfg.valuation.isSome = true := by rw [hv]; rfl
  have hbnd : ¬ (D < cfg.span.start) ∧ ¬ (D > cfg.span.stop) := by
    unfold Period.contains at hDin
    simpa using hDin
  have hbndF : ¬ (F < cfg.span.start) ∧ ¬ (F > cfg.span.stop) := by
    unfold Period.contains at hFin
    simpa using hFin
  have hlo : F + 1 ≤ D + 1 := by omega
  obtain ⟨hsplit, hpre⟩ := sorted_split3 (F + 1) D hlo days hs
  generalize hA' : days.filter (fun d => decide (d.date < F + 1)) = A at hsplit hpre
  generalize hB1' : days.filter (fun d => !decide (d.date < F + 1) && decide (d.date ≤ D)) = B1 at hsplit hpre
  generalize hB2' : days.filter (fun d => !decide (d.date < F + 1) && !decide (d.date ≤ D)) = B2 at hsplit
  have hAsub : ∀ d ∈ A, d ∈ days ∧ d.date < F + 1 := by
    intro d hd; rw [← hA'] at hd
    have := List.mem_filter.mp hd
    exact ⟨this.1, by simpa using this.2⟩
  have hB1sub : ∀ d ∈ B1, d ∈ days ∧ ¬ d.date < F + 1 ∧ d.date ≤ D := by
    intro d hd; rw [← hB1'] at hd
    have := List.mem_filter.mp hd
    exact ⟨this.1, by simpa using this.2⟩
  have hB2sub : ∀ d ∈ B2, d ∈ days ∧ D < d.date := by
    intro d hd; rw [← hB2'] at hd
    have := List.mem_filter.mp hd
    refine ⟨this.1, ?_⟩
    have h2 := this.2
    simp only [Bool.and_eq_true, Bool.not_eq_true', decide_eq_false_iff_not] at h2
    omega
  have hB1in : ∀ d ∈ B1, cfg.span.contains d.date = true := by
    intro d hd
    obtain ⟨_, h1, h2⟩ := hB1sub d hd
    unfold Period.contains
    have h3 : ¬ d.date > cfg.span.stop := by omega
    have h4 : ¬ d.date < cfg.span.start := by omega
    simp [h3, h4]
  -- the run, split
  obtain ⟨txs, hp, he⟩ := run_pipelineRun cfg days stF h
  rw [hsplit] at hp
  obtain ⟨stB, tAB, tB2, h12, h3, e1⟩ := pipelineRun_append cfg _ _ _ _ _ hp
  obtain ⟨stA, tA, tB1, hA, hB, e2⟩ := pipelineRun_append cfg _ _ _ _ _ h12
  have hAB := pipelineRun_append_ok cfg A B1 {} stA stB tA tB1 hA hB
  have rB : Balance.run cfg (days.filter (fun d => d.date ≤ D)) = .ok stB := by
    rw [hpre]; exact run_of_pipelineRun cfg _ _ _ hAB
  have hFA : days.filter (fun d => d.date ≤ F) = A := by
    rw [← hA']
    apply List.filter_congr
    intro d _
    by_cases hd : d.date < F + 1
    · have : d.date ≤ F := by omega
      simp [hd, this]
    · have : ¬ d.date ≤ F := by omega
      simp [hd, this]
  have rA : Balance.run cfg (days.filter (fun d => d.date ≤ F)) = .ok stA := by
    rw [hFA]; exact run_of_pipelineRun cfg _ _ _ hA
  have mD := run_mtm_spec cfg v hv days D hcons a hal stB rB
  have mF := run_mtm_spec cfg v hv days F hcons a hal stA rA
  refine ⟨_, _, mD, mF, ?_⟩
  have hinv0 : CloseInv {} := by intro k hk; cases hk
  -- the inserts, split
  have hes : stF.entries = tA.flatMap (Balance.queryTx cfg) ++ tB1.flatMap (Balance.queryTx cfg) ++
      tB2.flatMap (Balance.queryTx cfg) := by
    rw [he, e1, e2, List.flatMap_append, List.flatMap_append]
  have hAF : ∀ e ∈ tA.flatMap (Balance.queryTx cfg), e.account = a → ∃ D', e.date = some D' ∧ D' ≤ F := by
    intro e hem _
    obtain ⟨t, ht, p, hpt, rfl⟩ := mem_entries_plain cfg hpl hvs tA e hem
    obtain ⟨d, hd, hdt⟩ := pipelineRun_dates cfg A {} stA tA (fun d hd => hcons d (hAsub d hd).1) hA t ht
    have := (hAsub d hd).2
    exact alignIn_le cfg.periods t.date F hinc hF (by rw [hdt]; omega)
  have hcAD : accCum a (tA.flatMap (Balance.queryTx cfg)) D = accTotal a (tA.flatMap (Balance.queryTx cfg)) := by
    apply accCum_eq_total_on
    intro e hem ha
    obtain ⟨D', h1, h2⟩ := hAF e hem ha
    exact ⟨D', h1, by omega⟩
  have hcAF : accCum a (tA.flatMap (Balance.queryTx cfg)) F = accTotal a (tA.flatMap (Balance.queryTx cfg)) :=
    accCum_eq_total_on a _ F hAF
  have hcB2 : ∀ X, X ≤ D → accCum a (tB2.flatMap (Balance.queryTx cfg)) X = 0 := by
    intro X hX
    apply accCum_zero_of_filter_nil
    intro e hem hc
    obtain ⟨t, ht, p, hpt, rfl⟩ := mem_entries_plain cfg hpl hvs tB2 e hem
    obtain ⟨d, hd, hdt⟩ := pipelineRun_dates cfg B2 stB stF tB2 (fun d hd => hcons d (hB2sub d hd).1) h3 t ht
    obtain ⟨_, D', h1, h2⟩ := hc
    simp only at h1
    have := alignIn_gt cfg.periods t.date D D' (by rw [hdt]; exact (hB2sub d hd).2) h1
    omega
  have hcB1 : accCum a (tB1.flatMap (Balance.queryTx cfg)) D = accTotal a (tB1.flatMap (Balance.queryTx cfg)) := by
    apply accCum_eq_total
    intro e hem
    obtain ⟨t, ht, p, hpt, rfl⟩ := mem_entries_plain cfg hpl hvs tB1 e hem
    obtain ⟨d, hd, hdt⟩ := pipelineRun_dates cfg B1 stA stB tB1 (fun d hd => hcons d (hB1sub d hd).1) hB t ht
    exact alignIn_le cfg.periods t.date D hinc hD (by rw [hdt]; exact (hB1sub d hd).2.2)
  have hcB1F : accCum a (tB1.flatMap (Balance.queryTx cfg)) F = 0 := by
    apply accCum_zero_of_filter_nil
    intro e hem hc
    obtain ⟨t, ht, p, hpt, rfl⟩ := mem_entries_plain cfg hpl hvs tB1 e hem
    obtain ⟨d, hd, hdt⟩ := pipelineRun_dates cfg B1 stA stB tB1 (fun d hd => hcons d (hB1sub d hd).1) hB t ht
    obtain ⟨_, D', h1, h2⟩ := hc
    simp only at h1
    have h5 := (hB1sub d hd).2.1
    have := alignIn_gt cfg.periods t.date F D' (by rw [hdt]; omega) h1
    omega
  have hdiff : accCum a stF.entries D - accCum a stF.entries F = accTotal a (tB1.flatMap (Balance.queryTx cfg)) := by
    rw [hes, accCum_append, accCum_append, accCum_append, accCum_append, hcAD, hcAF, hcB2 D (Int.le_refl _),
      hcB2 F (by omega), hcB1, hcB1F]
    grind
  rw [hdiff]
  -- by commodity
  generalize hEB : tB1.flatMap (Balance.queryTx cfg) = eB1
  generalize hC : Spec.commoditiesOf days a = C at mD mF
  have hCn : C.Nodup := by
    rw [← hC]; unfold Spec.commoditiesOf
    exact ReportPerm.nodup_eraseDups _ _ (Nat.le_refl _)
  let K' := (((eB1.filter (fun e => decide (e.account = a))).map (·.commodity)).eraseDups).filter (fun c => !decide (c ∈ C))
  have hK'n : K'.Nodup :=
    List.Pairwise.sublist List.filter_sublist (ReportPerm.nodup_eraseDups _ _ (Nat.le_refl _))
  have hK'C : ∀ c ∈ K', c ∉ C := by
    intro c hc
    have := (List.mem_filter.mp hc).2
    simpa using this
  have hKn : (C ++ K').Nodup := by
    rw [List.nodup_append]
    refine ⟨hCn, hK'n, ?_⟩
    intro x hx y hy e
    exact hK'C y hy (e ▸ hx)
  have hcover : ∀ e ∈ eB1, e.account = a → e.commodity ∈ C ++ K' := by
    intro e he ha
    by_cases hc : e.commodity ∈ C
    · exact List.mem_append_left _ hc
    · apply List.mem_append_right
      rw [List.mem_filter]
      refine ⟨?_, by simp [hc]⟩
      rw [List.mem_eraseDups]
      exact List.mem_map.mpr ⟨e, List.mem_filter.mpr ⟨he, by simp [ha]⟩, rfl⟩
  rw [accTotal_by_commodity a (C ++ K') hKn eB1 hcover, List.map_append, sum_append_rat]
  have hval : ∀ c, entryVal a c eB1 = valOn a c tB1 := by
    intro c; rw [← hEB]; exact entryVal_flatMap cfg hpl hvs a c tB1
  have hzero : (K'.map (fun c => entryVal a c eB1)).sum = 0 := by
    apply sum_map_zero
    intro c hc
    rw [hval]
    have hcn : c ∉ Spec.commoditiesOf days a := by rw [hC]; exact hK'C c hc
    exact window_position_idle cfg v a c hv hal A B1 stA stB tA tB1 hA hB hB1in
      (fun d hd => posOn_nil_of_not_mem hcn d (hAsub d hd).1)
      (fun d hd => posOn_nil_of_not_mem hcn d (hB1sub d hd).1)
  rw [hzero, Rat.add_zero]
  -- the deviation per commodity
  have hdev : ∀ c ∈ C,
      -((Spec.stepCount v days a F D c : Rat) * ulp 8) ≤
        entryVal a c eB1 - (Spec.qtyAt days a c D * specPrice v days D c -
          Spec.qtyAt days a c F * specPrice v days F c) ∧
      entryVal a c eB1 - (Spec.qtyAt days a c D * specPrice v days D c -
          Spec.qtyAt days a c F * specPrice v days F c) ≤
        (Spec.stepCount v days a F D c : Rat) * ulp 8 := by
    intro c _
    rw [hval]
    have qD := run_qty_spec cfg v hv days D hcons a c hal stB rB
    have qF := run_qty_spec cfg v hv days F hcons a c hal stA rA
    have hu : ∀ d ∈ B1, Unvalued a c d.transactions := by
      intro d hd t ht p hp _ _ _
      exact hz d (hB1sub d hd).1 t ht p hp
    obtain ⟨_, _, pA3, _⟩ := pipelineRun_any cfg v a c hv hal A {} stA tA hinv0 hA
    by_cases hc : c = v
    · subst hc
      have e1 : valOn a c tB1 = qtySum a c B1 := pipelineRun_valOn_v cfg c a hv hal B1 stA stB tB1 pA3 hB1in hu hB
      obtain ⟨qB, _⟩ := pipelineRun_any cfg c a c hv hal B1 stA stB tB1 pA3 hB
      unfold specPrice Spec.stepCount
      simp only [if_true, Rat.mul_one]
      rw [← qD, ← qF, qB, e1]
      unfold qtySum
      have e0 : (((0 : Nat) : Rat)) = 0 := rfl
      constructor <;> grind
    · obtain ⟨b1, b2⟩ := window_position_bound cfg v a c hv hc hal A B1 stA stB tA tB1 hA hB hB1in hu
      obtain ⟨_, pvD⟩ := run_prices_spec cfg v hv days D stB rB
      obtain ⟨_, pvF⟩ := run_prices_spec cfg v hv days F stA rA
      have hcount : Spec.stepCount v days a F D c = priceDays B1 + nzCount a c B1 := by
        unfold Spec.stepCount
        simp only [hc, if_false]
        have hwin : days.filter (fun d => decide (F < d.date) && decide (d.date ≤ D)) = B1 := by
          rw [← hB1']
          apply List.filter_congr
          intro d _
          by_cases hd : d.date < F + 1
          · have : ¬ F < d.date := by omega
            simp [hd, this]
          · have : F < d.date := by omega
            simp [hd, this]
        have e : (fun (x : Int × Posting) => match x with
            | (d, p) => decide (F < d) && decide (d ≤ D) && decide (p.account = a) &&
                decide (p.commodity = c) && decide (p.quantity ≠ 0)) =
            (fun (x : Int × Posting) => decide (F < x.1) && decide (x.1 ≤ D) && decide (x.2.account = a) &&
                decide (x.2.commodity = c) && decide (x.2.quantity ≠ 0)) := by
          funext x; obtain ⟨x1, x2⟩ := x; rfl
        rw [e, nzCount_spec a c _ D days hcons, priceDays_spec, hwin]
        omega
      unfold specPrice
      simp only [hc, if_false]
      rw [← qD, ← qF, ← pvD, ← pvF, hcount]
      exact ⟨b1, b2⟩
  obtain ⟨s1, s2⟩ := sum_bounds _ _ C hdev
  rw [sum_map_sub, sum_map_sub] at s1 s2
  unfold Spec.stepBound
  rw [hC, natCast_sum_mul, List.map_map]
  exact ⟨s1, s2⟩

/-! ### the rendered `--diff` row -/

/-- the fold of `Renderer.render` for a `--diff` report: every column shows its own sum -/
theorem nums_diff (neg : Bool) (f : Int → Rat) : ∀ (ds : List Int) (pre : List Cell) (tot : Rat),
    (ds.foldl (fun (acc : List Cell × Rat) d =>
        let v := f d
        let (shown, total) := if true then (v, acc.2) else (acc.2 + v, acc.2 + v)
        (acc.1 ++ [Cell.num (if neg then -shown else shown)], total)) (pre, tot)).1 =
      pre ++ ds.map (fun d => Cell.num (if neg then -(f d) else f d))
  | [], pre, tot => by simp
  | d :: ds, pre, tot => by
    rw [List.foldl_cons]
    have ih := nums_diff neg f ds (pre ++ [Cell.num (if neg then -(f d) else f d)]) tot
    simp only [if_true] at ih ⊢
    rw [ih]
    simp only [List.map_cons, List.append_assoc, List.singleton_append]

/-- **the row of an account in a valued `--diff` report without `-s`**: one row; the cell of column `k` shows the sum of
the inserts aligned to that column (sign flipped in the income/expense/equity section) -/
theorem nodeRows_valued_diff (rc : RenderCfg) (hv : rc.valuation.isSome = true) (hshow : ∀ s, rc.showCommodities s = false)
    (hdiff : rc.diff = true) (es : List Entry) (neg : Bool) (path : List String) (indent : Nat) :
    ∃ cells : List Cell,
      BalanceReport.nodeRows rc false es neg (path, indent) = [Cell.text (path.getLast?.getD "").toList .left indent :: cells] ∧
      cells.length = rc.endDates.length ∧
      ∀ (k : Nat) (hk : k < rc.endDates.length) (hk' : k < cells.length),
        cellVal cells[k] =
          (if neg then -(cellAt (own es path) false none rc.endDates[k]) else cellAt (own es path) false none rc.endDates[k]) := by
  unfold BalanceReport.nodeRows
  have hby : (rc.valuation.isNone || rc.showCommodities (⟨path⟩ : Account).name) = false := by
    rw [hshow]
    cases hval : rc.valuation with
    | none => rw [hval] at hv; cases hv
    | some x => rfl
  simp only [hby]
  generalize own es path = mine
  unfold BalanceReport.renderVals
  rcases valsCommodities_valued mine with ⟨h0, hz⟩ | h1
  · rw [h0]
    simp only [List.isEmpty_nil, if_true, Bool.false_eq_true, if_false, Nat.add_zero]
    refine ⟨List.replicate rc.endDates.length Cell.empty, ?_, List.length_replicate, ?_⟩
    · have : 1 + rc.endDates.length - 1 = rc.endDates.length := by omega
      rw [this]
    · intro k hk hk'
      rw [List.getElem_replicate, hz]
      split
      · show (0 : Rat) = -0; grind
      · rfl
  · rw [h1]
    simp only [List.isEmpty_cons, Bool.false_eq_true, if_false, List.zipIdx_cons, List.zipIdx_nil, List.map_cons,
      List.map_nil, if_true]
    rw [hdiff]
    rw [nums_diff neg (cellAt mine false none) rc.endDates [] 0, List.nil_append]
    refine ⟨rc.endDates.map (fun d => Cell.num (if neg then -(cellAt mine false none d) else cellAt mine false none d)), rfl,
      by rw [List.length_map], ?_⟩
    intro k hk hk'
    rw [List.getElem_map]
    cases neg <;> rfl

/-- the sum a `--diff` column shows is the change of the running total: `accCum` at the column's period end minus
`accCum` at the previous period end -/
theorem diff_eq_accCum_sub (a : Account) (es : List Entry) (ends : List Int) (hinc : List.Pairwise (· < ·) ends)
    (hdates : ∀ e ∈ es, e.account = a → ∀ D', e.date = some D' → D' ∈ ends) (k : Nat) (hk : k + 1 < ends.length) :
    cellAt (own es a.segments) false none ends[k + 1] = accCum a es ends[k + 1] - accCum a es ends[k] := by
  rw [← cum_eq_accCum a es ends hinc hdates (k + 1) hk, ← cum_eq_accCum a es ends hinc hdates k (by omega)]
  rw [List.take_succ_eq_append_getElem hk, List.map_append, sum_append_rat]
  simp only [List.map_cons, List.map_nil, List.sum_cons, List.sum_nil]
  grind

/-- … and in the first column it is the running total itself -/
theorem diff_eq_accCum_zero (a : Account) (es : List Entry) (ends : List Int) (hinc : List.Pairwise (· < ·) ends)
    (hdates : ∀ e ∈ es, e.account = a → ∀ D', e.date = some D' → D' ∈ ends) (hk : 0 < ends.length) :
    cellAt (own es a.segments) false none ends[0] = accCum a es ends[0] := by
  rw [← cum_eq_accCum a es ends hinc hdates 0 hk]
  rw [List.take_succ_eq_append_getElem hk]
  simp only [List.take_zero, List.nil_append, List.map_cons, List.map_nil, List.sum_cons, List.sum_nil, Rat.add_zero]

end Knut.MTM
