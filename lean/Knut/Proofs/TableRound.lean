import Knut.Proofs.TableNum
/-!
# Helper lemmas for C17: what "rounded half away from zero" means

`scaledRound` (the integer `StringFixed`/`Round`/`Div` print) is a nearest integer to the scaled
amount, the farther one at a tie, and never crosses zero; hence a negative amount is displayed
negative or as zero.
-/
open Knut.Dec Knut.Table Knut.Table.Spec
namespace Knut.Table

theorem pow10_pos (n : Nat) : 0 < pow10 n := by
  unfold pow10; exact Int.pow_pos (by decide)

/-- **half away from zero**: `scaledRound n r` is an integer nearest to `r·10ⁿ` (distance at most
one half); at a tie it is the one farther from zero; it never crosses zero. Stated on integers with
`num = r.num·10ⁿ`, `den = r.den`: `|num − m·den| ≤ den/2`. -/
theorem scaledRound_spec (n : Nat) (r : Rat) :
    2 * (r.num * pow10 n - scaledRound n r * r.den).natAbs ≤ r.den ∧
    (2 * (r.num * pow10 n - scaledRound n r * r.den).natAbs = r.den →
      (r.num * pow10 n).natAbs < (scaledRound n r * r.den).natAbs) ∧
    (0 ≤ r.num → 0 ≤ scaledRound n r) ∧ (r.num ≤ 0 → scaledRound n r ≤ 0) := by
  have hden : (0 : Int) < r.den := by have := r.den_pos; omega
  have hp := pow10_pos n
  unfold scaledRound
  generalize hnum : r.num * pow10 n = num
  simp only []
  by_cases hs : 0 ≤ r.num
  · have hnn : 0 ≤ num := by rw [← hnum]; exact Int.mul_nonneg hs (Int.le_of_lt hp)
    have hneg : ¬ r.num < 0 := by omega
    have hz : r.num = 0 → num = 0 := by intro h; rw [← hnum, h]; simp
    have hq0 : num = 0 → num / (r.den : Int) = 0 := by intro h; rw [h]; simp
    rw [Int.tdiv_eq_ediv_of_nonneg hnn]
    have h1 := Int.mul_ediv_add_emod num r.den
    have h2 := Int.emod_nonneg num (by omega : (r.den : Int) ≠ 0)
    have h3 := Int.emod_lt_of_pos num hden
    have hq : 0 ≤ num / r.den := Int.ediv_nonneg hnn (Int.le_of_lt hden)
    generalize hT : (r.den : Int) * (num / r.den) = T at h1
    have eT : num / r.den * (r.den : Int) = T := by rw [Int.mul_comm]; exact hT
    have eT1 : (num / r.den + 1) * (r.den : Int) = T + r.den := by rw [Int.add_mul, eT]; simp
    have hT0 : 0 ≤ T := by rw [← hT]; exact Int.mul_nonneg (Int.le_of_lt hden) hq
    simp only [hneg, if_false]
    split
    · rename_i hge
      rw [eT] at hge
      rw [eT1]
      refine ⟨by omega, fun _ => by omega, fun _ => by omega, fun h => by omega⟩
    · rename_i hlt
      rw [eT] at hlt
      rw [eT]
      refine ⟨by omega, fun _ => by omega, fun _ => by omega, fun h => by omega⟩
  · have hlt0 : r.num < 0 := by omega
    have hneg : num < 0 := by rw [← hnum]; exact Int.mul_neg_of_neg_of_pos hlt0 hp
    have e : Int.tdiv num r.den = -((-num) / r.den) := by
      have := Int.neg_tdiv (-num) (r.den : Int)
      rw [Int.neg_neg] at this
      rw [this, Int.tdiv_eq_ediv_of_nonneg (by omega)]
    rw [e]
    have h1 := Int.mul_ediv_add_emod (-num) r.den
    have h2 := Int.emod_nonneg (-num) (by omega : (r.den : Int) ≠ 0)
    have h3 := Int.emod_lt_of_pos (-num) hden
    have hq : 0 ≤ (-num) / r.den := Int.ediv_nonneg (by omega) (Int.le_of_lt hden)
    generalize hT : (r.den : Int) * ((-num) / r.den) = T at h1
    have eT : -((-num) / r.den) * (r.den : Int) = -T := by rw [Int.neg_mul, Int.mul_comm]; rw [hT]
    have eT1 : (-((-num) / r.den) - 1) * (r.den : Int) = -T - r.den := by rw [Int.sub_mul, eT]; simp
    have hT0 : 0 ≤ T := by rw [← hT]; exact Int.mul_nonneg (Int.le_of_lt hden) hq
    simp only [hlt0, if_true]
    split
    · rename_i hge
      rw [eT] at hge
      rw [eT1]
      refine ⟨by omega, fun _ => by omega, fun h => by omega, fun _ => by omega⟩
    · rename_i hlt
      rw [eT] at hlt
      rw [eT]
      refine ⟨by omega, fun _ => by omega, fun h => by omega, fun _ => by omega⟩


theorem rat_nonpos_iff_neg_nonneg (q : Rat) : q ≤ 0 ↔ 0 ≤ -q := by
  have := @Rat.neg_le_neg_iff 0 q
  rw [Rat.neg_zero] at this
  exact this.symm

theorem num_nonpos_iff (q : Rat) : q.num ≤ 0 ↔ q ≤ 0 := by
  rw [rat_nonpos_iff_neg_nonneg, ← Rat.num_nonneg, Rat.neg_num]
  omega

theorem mkRat_nonneg_iff (m : Int) (k : Nat) : 0 ≤ mkRat m (10 ^ k) ↔ 0 ≤ m := by
  have hpos : (0 : Int) < ((10 ^ k : Nat) : Int) := by
    have : 0 < 10 ^ k := Nat.pow_pos (by decide)
    omega
  rw [← Rat.divInt_ofNat, Rat.divInt_nonneg_iff_of_pos_right hpos]

theorem mkRat_nonpos_iff (m : Int) (k : Nat) : mkRat m (10 ^ k) ≤ 0 ↔ m ≤ 0 := by
  rw [rat_nonpos_iff_neg_nonneg, Rat.neg_mkRat, mkRat_nonneg_iff]
  omega

theorem div_nonpos_of_nonpos_of_pos {x c : Rat} (hx : x ≤ 0) (hc : 0 < c) : x / c ≤ 0 := by
  rw [Rat.div_def, rat_nonpos_iff_neg_nonneg, ← Rat.neg_mul]
  exact Rat.mul_nonneg ((rat_nonpos_iff_neg_nonneg x).mp hx) (Rat.le_of_lt (Rat.inv_pos.mpr hc))

theorem intCast_nonpos_iff (z : Int) : ((z : Int) : Rat) ≤ 0 ↔ z ≤ 0 := by
  rw [← num_nonpos_iff, Rat.num_intCast]

theorem roundHalfAway_nonpos (n : Nat) (x : Rat) (h : x ≤ 0) : roundHalfAway n x ≤ 0 := by
  unfold roundHalfAway
  rw [mkRat_nonpos_iff]
  exact (scaledRound_spec n x).2.2.2 ((num_nonpos_iff x).mpr h)

theorem pow10_cast_pos (k : Nat) : (0 : Rat) < ((pow10 k : Int) : Rat) := by
  have h := pow10_pos k
  rw [← Rat.not_le, ← num_nonpos_iff, Rat.num_intCast]
  omega

/-- rounding never turns a non-positive amount positive -/
theorem roundPlaces_nonpos (p : Int) (x : Rat) (h : x ≤ 0) : roundPlaces p x ≤ 0 := by
  unfold roundPlaces
  split
  · exact roundHalfAway_nonpos _ x h
  · simp only []
    rw [intCast_nonpos_iff]
    have hm := (scaledRound_spec 0 (x / ((pow10 (-p).toNat : Int) : Rat))).2.2.2
      ((num_nonpos_iff _).mpr (div_nonpos_of_nonpos_of_pos h (pow10_cast_pos _)))
    exact Int.mul_nonpos_of_nonpos_of_nonneg hm (Int.le_of_lt (pow10_pos _))

theorem scaled_nonpos (r : Renderer) (d : Rat) (h : d ≤ 0) : scaled r d ≤ 0 := by
  unfold scaled
  split
  · apply div_nonpos_of_nonpos_of_pos h
    decide
  · exact h

/-- a negative amount is displayed with a minus sign, or as zero -/
theorem negative_minus_or_zero (r : Renderer) (d : Rat) (h : d < 0) :
    (numToString r d).head? = some '-' ∨ codeTarget r d = 0 := by
  have h1 : codeTarget r d ≤ 0 := roundPlaces_nonpos _ _ (scaled_nonpos r d (Rat.le_of_lt h))
  by_cases h2 : codeTarget r d < 0
  · exact Or.inl ((head_numToString r d).mpr h2)
  · exact Or.inr (Rat.le_antisymm h1 (Rat.not_lt.mp h2))


end Knut.Table
