import Knut.GoSem.Strings
/-!
# `strings.TrimPrefix`

Used by the translation of the type-word swap in `account.Registry.SwapType` (`harness/trans_units_mapping.go`).
`strings.TrimPrefix(s, prefix)` compares bytes; for valid UTF-8 texts (what a `String` is) a byte prefix that is itself valid
UTF-8 is a prefix of the code points (as for `strings.HasPrefix`, `GoSem/Regexp.lean`).  Compared with real Go by the stream
`gosemmap` of C11 (`harness/gosem_mapping.go`, `Driver/GoSemMapping.lean`).
-/
namespace Knut.GoSem
namespace Strings

/-- `strings.TrimPrefix(s, prefix)`: `s` without the leading `prefix`; `s` itself if it does not start with `prefix` -/
def TrimPrefix (s pre : String) : String :=
  if pre.toList.isPrefixOf s.toList then String.ofList (s.toList.drop pre.toList.length) else s

end Strings
end Knut.GoSem
