package main

import (
	"bytes"
	"fmt"
	"go/ast"
	"go/printer"
	"path/filepath"
	"sort"
	"strings"
)

// Facts for C08 (called from extractFacts): the COMMAND SURFACE of the two commands that write formatted journals,
// `knut format` (cmd/commands/format.go) and `knut infer` (cmd/commands/infer.go), read off the syntax trees on every run:
//
//   c08FormatFlags, c08InferFlags   every flag the file registers: (name, shorthand, type, default as written in the source,
//                                   "required" | ""), sorted by name.  A flag is any call `….Flags().M(…)` /
//                                   `….PersistentFlags().M(…)` whose method M defines a flag (BoolVarP, StringVar, VarP, …).
//                                   A call that hands the *cobra.Command to a function outside the file (a helper that may
//                                   register flags, `flags.Setup(cmd)`), and `AddFlagSet`/`AddFlag`, appear as entries of type
//                                   "delegated" so that they change the surface too.
//   c08FormatArgs, c08InferArgs     the source text of the `Args:` field of the cobra.Command literal ("" = any arguments).
//   c08PersistentFlagSites          number of `PersistentFlags()` calls under cmd/ (flags every command would inherit).
//
// lean/Knut/FactsAgree/C08.lean pins them to the reviewed expectation (the surface the streams `cli`, `flags` and `flags-infer`
// of harness/c08*.go were written against; the stream `flags` explores whatever `--help` offers at run time, so a new flag is
// exercised immediately, but what the flag is MEANT to do has to be reviewed by a person).  The same expectation is
// c08ReviewedFlags below; differences are printed as `census-new-site C08 …` / `census-gone-site C08 …` lines, which bin/check
// reports as broken obligations naming the flag.

type c08FlagFact struct{ Name, Short, Type, Default, Required string }

func (f c08FlagFact) lean() string {
	return "(" + leanStr(f.Name) + ", " + leanStr(f.Short) + ", " + leanStr(f.Type) + ", " + leanStr(f.Default) + ", " + leanStr(f.Required) + ")"
}

func (f c08FlagFact) String() string {
	s := "--" + f.Name
	if f.Short != "" {
		s += "/-" + f.Short
	}
	s += " type " + f.Type
	if f.Default != "" {
		s += " default " + f.Default
	}
	if f.Required != "" {
		s += " (" + f.Required + ")"
	}
	return s
}

// c08Src is the source text of a node on one line.
func c08Src(ff *factFile, n ast.Node) string {
	var b bytes.Buffer
	if err := printer.Fprint(&b, ff.fset, n); err != nil {
		return "?"
	}
	return strings.Join(strings.Fields(b.String()), " ")
}

// the reviewed surface (mirror of lean/Knut/FactsAgree/C08.lean)
var c08ReviewedFlags = map[string][]c08FlagFact{
	"format": {},
	"infer": {
		{"account", "a", "string", `"Expenses:TBD"`, ""},
		{"inplace", "i", "bool", "false", ""},
		{"training-file", "t", "string", `""`, "required"},
	},
}

var c08ReviewedArgs = map[string]string{
	"format": "",
	"infer":  "cobra.MatchAll(cobra.ExactArgs(1), cobra.OnlyValidArgs)",
}

// methods of *pflag.FlagSet that do not define a flag
var c08NotDefining = map[string]bool{
	"Lookup": true, "Set": true, "Changed": true, "Parse": true, "ParseAll": true, "Parsed": true, "Visit": true, "VisitAll": true,
	"MarkHidden": true, "MarkDeprecated": true, "MarkShorthandDeprecated": true, "SetAnnotation": true, "SetNormalizeFunc": true,
	"GetNormalizeFunc": true, "SetInterspersed": true, "SetOutput": true, "HasFlags": true, "HasAvailableFlags": true,
	"NFlag": true, "NArg": true, "Arg": true, "Args": true, "ArgsLenAtDash": true, "FlagUsages": true, "FlagUsagesWrapped": true,
	"PrintDefaults": true, "ShorthandLookup": true, "Init": true, "Name": true, "Output": true, "SortFlags": true,
}

// c08FlagSurface reads the flags a command file registers.
func c08FlagSurface(ff *factFile) (flags []c08FlagFact, args string) {
	local := map[string]bool{} // functions and methods defined in this file
	for _, d := range ff.file.Decls {
		if fd, ok := d.(*ast.FuncDecl); ok {
			local[fd.Name.Name] = true
		}
	}
	required := map[string]bool{}
	for _, d := range ff.file.Decls {
		fd, ok := d.(*ast.FuncDecl)
		if !ok || fd.Body == nil {
			continue
		}
		// the identifiers that name a *cobra.Command in this function
		cmds := map[string]bool{}
		isCmdType := func(e ast.Expr) bool { return strings.HasSuffix(c08Src(ff, e), "cobra.Command") }
		if fd.Type.Params != nil {
			for _, p := range fd.Type.Params.List {
				if isCmdType(p.Type) {
					for _, n := range p.Names {
						cmds[n.Name] = true
					}
				}
			}
		}
		ast.Inspect(fd.Body, func(n ast.Node) bool {
			switch v := n.(type) {
			case *ast.AssignStmt:
				for i, r := range v.Rhs {
					if i >= len(v.Lhs) {
						break
					}
					e := r
					if u, ok := e.(*ast.UnaryExpr); ok {
						e = u.X
					}
					if cl, ok := e.(*ast.CompositeLit); ok && cl.Type != nil && isCmdType(cl.Type) {
						if id, ok := v.Lhs[i].(*ast.Ident); ok {
							cmds[id.Name] = true
						}
					}
				}
			case *ast.ValueSpec:
				for i, r := range v.Values {
					e := r
					if u, ok := e.(*ast.UnaryExpr); ok {
						e = u.X
					}
					if cl, ok := e.(*ast.CompositeLit); ok && cl.Type != nil && isCmdType(cl.Type) && i < len(v.Names) {
						cmds[v.Names[i].Name] = true
					}
				}
				if v.Type != nil && isCmdType(v.Type) {
					for _, n := range v.Names {
						cmds[n.Name] = true
					}
				}
			}
			return true
		})
		ast.Inspect(fd.Body, func(n ast.Node) bool {
			switch v := n.(type) {
			case *ast.CompositeLit:
				if v.Type != nil && isCmdType(v.Type) {
					for _, el := range v.Elts {
						if kv, ok := el.(*ast.KeyValueExpr); ok {
							if id, ok := kv.Key.(*ast.Ident); ok && id.Name == "Args" {
								args = c08Src(ff, kv.Value)
							}
						}
					}
				}
			case *ast.CallExpr:
				sel, isSel := v.Fun.(*ast.SelectorExpr)
				if isSel {
					// ….Flags().M(…)
					if inner, ok := sel.X.(*ast.CallExpr); ok {
						if is, ok := inner.Fun.(*ast.SelectorExpr); ok && (is.Sel.Name == "Flags" || is.Sel.Name == "PersistentFlags" || is.Sel.Name == "LocalFlags") {
							m := sel.Sel.Name
							switch {
							case m == "AddFlagSet" || m == "AddFlag" || m == "AddGoFlagSet" || m == "AddGoFlag":
								flags = append(flags, c08FlagFact{Name: c08Src(ff, v), Type: "delegated"})
							case c08NotDefining[m] || strings.HasPrefix(m, "Get"):
							default:
								flags = append(flags, c08DefinedFlag(ff, m, v.Args, is.Sel.Name == "PersistentFlags"))
							}
							return true
						}
					}
					if sel.Sel.Name == "MarkFlagRequired" || sel.Sel.Name == "MarkPersistentFlagRequired" {
						for _, s := range strLits(v) {
							required[s] = true
						}
						return true
					}
				}
				// the command handed to a function that is not defined in this file
				for _, a := range v.Args {
					if id, ok := a.(*ast.Ident); ok && cmds[id.Name] {
						name := ""
						if isSel {
							name = sel.Sel.Name
						} else if id, ok := v.Fun.(*ast.Ident); ok {
							name = id.Name
						}
						if !local[name] {
							flags = append(flags, c08FlagFact{Name: c08Src(ff, v), Type: "delegated"})
						}
					}
				}
			}
			return true
		})
	}
	for i := range flags {
		if required[flags[i].Name] {
			flags[i].Required = "required"
		}
	}
	sort.SliceStable(flags, func(i, j int) bool { return flags[i].Name < flags[j].Name })
	return flags, args
}

// c08DefinedFlag reads one defining call: M = <Type>[Var][P|PF]; the arguments are [pointer,] name [, shorthand] [, default], usage.
func c08DefinedFlag(ff *factFile, m string, args []ast.Expr, persistent bool) c08FlagFact {
	typ := m
	short := false
	for _, suf := range []string{"PF", "P"} {
		if strings.HasSuffix(typ, suf) {
			typ, short = strings.TrimSuffix(typ, suf), true
			break
		}
	}
	hasPtr := false
	if strings.HasSuffix(typ, "Var") {
		typ, hasPtr = strings.TrimSuffix(typ, "Var"), true
	}
	isValue := typ == "" // Var/VarP: a pflag.Value, no default argument
	f := c08FlagFact{Type: strings.ToLower(typ)}
	if isValue {
		f.Type = "value"
	}
	if persistent {
		f.Type += " (persistent)"
	}
	i := 0
	if hasPtr {
		i++
	}
	str := func(e ast.Expr) string {
		if ss := strLits(e); len(ss) == 1 {
			if _, ok := e.(*ast.BasicLit); ok {
				return ss[0]
			}
		}
		return "«" + c08Src(ff, e) + "»"
	}
	if i < len(args) {
		f.Name = str(args[i])
		i++
	}
	if short && i < len(args) {
		f.Short = str(args[i])
		i++
	}
	if !isValue && i < len(args)-1 {
		f.Default = c08Src(ff, args[i])
	}
	return f
}

func extractFactsC08(o *factOut, repo string) {
	for _, x := range []struct{ cmd, file, fact string }{
		{"format", "cmd/commands/format.go", "c08Format"},
		{"infer", "cmd/commands/infer.go", "c08Infer"},
	} {
		ff, err := parseGo(filepath.Join(repo, x.file))
		if err != nil {
			o.missing(x.fact+"Flags", err.Error())
			fmt.Printf("census-gone-site C08 %s: the file cannot be read (%v)\n", x.file, err)
			continue
		}
		flags, args := c08FlagSurface(ff)
		ls := make([]string, len(flags))
		for i, f := range flags {
			ls[i] = f.lean()
		}
		o.def(x.fact+"Flags", "List (String × String × String × String × String)", "["+strings.Join(ls, ", ")+"]")
		o.def(x.fact+"Args", "String", leanStr(args))
		// differences to the reviewed surface, by name
		want := map[string]c08FlagFact{}
		for _, f := range c08ReviewedFlags[x.cmd] {
			want[f.Name] = f
		}
		seen := map[string]bool{}
		for _, f := range flags {
			w, ok := want[f.Name]
			switch {
			case !ok || seen[f.Name]:
				fmt.Printf("census-new-site C08 %s: `knut %s` has a flag outside the reviewed surface: %s\n", x.file, x.cmd, f)
			case w != f:
				fmt.Printf("census-changed-site C08 %s: flag of `knut %s` changed: %s (reviewed: %s)\n", x.file, x.cmd, f, w)
			}
			seen[f.Name] = true
		}
		for _, w := range c08ReviewedFlags[x.cmd] {
			if !seen[w.Name] {
				fmt.Printf("census-gone-site C08 %s: `knut %s` no longer has the flag %s\n", x.file, x.cmd, w)
			}
		}
		if args != c08ReviewedArgs[x.cmd] {
			fmt.Printf("census-changed-site C08 %s: argument validator of `knut %s` is now %q (reviewed: %q)\n", x.file, x.cmd, args, c08ReviewedArgs[x.cmd])
		}
	}
	// flags every command inherits
	n := 0
	files, _ := filepath.Glob(filepath.Join(repo, "cmd", "*.go"))
	more, _ := filepath.Glob(filepath.Join(repo, "cmd", "*", "*.go"))
	main, _ := filepath.Glob(filepath.Join(repo, "*.go"))
	all := append(append(files, more...), main...)
	sort.Strings(all)
	for _, f := range all {
		if strings.HasSuffix(f, "_test.go") {
			continue
		}
		ff, err := parseGo(f)
		if err != nil {
			continue
		}
		n += len(callsIn(ff.file, "PersistentFlags"))
	}
	o.def("c08PersistentFlagSites", "Nat", fmt.Sprint(n))
	if n != 0 {
		fmt.Printf("census-new-site C08 cmd/: %d PersistentFlags() call(s): flags that `knut format` and `knut infer` inherit\n", n)
	}
}
