package main

import (
	"encoding/hex"
	"fmt"
	"io"
	"os"
	"path/filepath"
	"regexp"
	"strconv"
	"strings"
	"time"
	"unicode/utf8"

	"unicode"

	"github.com/sboehler/knut/lib/syntax/directives"
	"github.com/sboehler/knut/lib/syntax/parser"
	"github.com/sboehler/knut/lib/syntax/scanner"
)

func init() { runners["C07"] = runC07 }

// ---------------------------------------------------------------- the implementation side

// synNode is the untyped view of a syntax element (kind, range, children), mirroring Knut.Syntax.Node.
type synNode struct {
	Kind       int
	Start, End int
	Kids       []*synNode
}

const (
	kFile = iota
	kDirective
	kTransaction
	kOpen
	kClose
	kAssertion
	kPrice
	kInclude
	kDate
	kAccount
	kMacroAccount
	kCommodity
	kDecimal
	kQuotedString
	kContent
	kBooking
	kBalance
	kAddons
	kPerformance
	kAccrual
	kInterval
)

// synWalk collects every directives.Range of the tree (for the text-identity check) while building the node view.
type synWalk struct {
	ranges []directives.Range
}

func (w *synWalk) leaf(kind int, r directives.Range) *synNode {
	w.ranges = append(w.ranges, r)
	return &synNode{Kind: kind, Start: r.Start, End: r.End}
}

func (w *synWalk) node(kind int, r directives.Range, kids ...*synNode) *synNode {
	n := w.leaf(kind, r)
	for _, k := range kids {
		if k != nil {
			n.Kids = append(n.Kids, k)
		}
	}
	return n
}

func zeroRange(r directives.Range) bool { return r.Start == 0 && r.End == 0 }

func (w *synWalk) account(a directives.Account) *synNode {
	if a.Macro {
		return w.leaf(kMacroAccount, a.Range)
	}
	return w.leaf(kAccount, a.Range)
}

func (w *synWalk) quoted(q directives.QuotedString) *synNode {
	return w.node(kQuotedString, q.Range, w.leaf(kContent, q.Content))
}

func (w *synWalk) addons(a directives.Addons) *synNode {
	if zeroRange(a.Range) {
		return nil
	}
	var perf, accr *synNode
	if !zeroRange(a.Performance.Range) {
		perf = w.node(kPerformance, a.Performance.Range)
		for _, t := range a.Performance.Targets {
			perf.Kids = append(perf.Kids, w.leaf(kCommodity, t.Range))
		}
	}
	if !zeroRange(a.Accrual.Range) {
		ac := a.Accrual
		accr = w.node(kAccrual, ac.Range, w.leaf(kInterval, ac.Interval.Range), w.leaf(kDate, ac.Start.Range), w.leaf(kDate, ac.End.Range), w.account(ac.Account))
	}
	return w.node(kAddons, a.Range, perf, accr)
}

func (w *synWalk) directive(d directives.Directive) *synNode {
	var body *synNode
	switch x := d.Directive.(type) {
	case directives.Transaction:
		body = w.node(kTransaction, x.Range, w.addons(x.Addons), w.leaf(kDate, x.Date.Range), w.quoted(x.Description))
		for _, b := range x.Bookings {
			body.Kids = append(body.Kids, w.node(kBooking, b.Range, w.account(b.Credit), w.account(b.Debit), w.leaf(kDecimal, b.Quantity.Range), w.leaf(kCommodity, b.Commodity.Range)))
		}
	case directives.Open:
		body = w.node(kOpen, x.Range, w.leaf(kDate, x.Date.Range), w.account(x.Account))
	case directives.Close:
		body = w.node(kClose, x.Range, w.leaf(kDate, x.Date.Range), w.account(x.Account))
	case directives.Assertion:
		body = w.node(kAssertion, x.Range, w.leaf(kDate, x.Date.Range))
		for _, b := range x.Balances {
			body.Kids = append(body.Kids, w.node(kBalance, b.Range, w.account(b.Account), w.leaf(kDecimal, b.Quantity.Range), w.leaf(kCommodity, b.Commodity.Range)))
		}
	case directives.Price:
		body = w.node(kPrice, x.Range, w.leaf(kDate, x.Date.Range), w.leaf(kCommodity, x.Commodity.Range), w.leaf(kDecimal, x.Price.Range), w.leaf(kCommodity, x.Target.Range))
	case directives.Include:
		body = w.node(kInclude, x.Range, w.quoted(x.IncludePath))
	default:
		body = &synNode{Kind: 99}
	}
	return w.node(kDirective, d.Range, body)
}

func (w *synWalk) file(f directives.File) *synNode {
	n := w.node(kFile, f.Range)
	for _, d := range f.Directives {
		n.Kids = append(n.Kids, w.directive(d))
	}
	return n
}

func (n *synNode) dump(b *strings.Builder) {
	if b.Len() > 0 {
		b.WriteByte(',')
	}
	fmt.Fprintf(b, "%d,%d,%d,%d", n.Kind, n.Start, n.End, len(n.Kids))
	for _, k := range n.Kids {
		k.dump(b)
	}
}

func (n *synNode) Dump() string {
	var b strings.Builder
	n.dump(&b)
	return b.String()
}

// synResult is what one run of the real parser produced.
type synResult struct {
	Outcome  string // "ok" | "err" | "panic" | "hang"
	Dump     string // ok: node dump
	Frames   string // err: a<start>:<end> | z | e, innermost first
	Message  string // err: err.Error()
	Detail   string // panic value, or the reason a Go-side check failed
	TextOK   bool   // every range / error frame carries the input text and path, Extract() is the slice
	File     directives.File
	NumDirs  int
	ErrDepth int
	LocOK    bool   // err: every link's Location() and the rendered line:col are the reference position, inside the text
	LocInfo  string // err: why not
	LocWide  bool   // err: some link has non-ASCII text before its position on the same line
}

func (r synResult) String() string {
	switch r.Outcome {
	case "ok":
		return "ok " + r.Dump
	case "err":
		return "err " + r.Frames + " " + Hex(r.Message)
	}
	return r.Outcome + " " + r.Detail
}

func synFrames(err error, text, path string) (frames string, depth int, textOK bool, detail string) {
	var chain []error
	for e := err; e != nil; {
		chain = append(chain, e)
		if de, ok := e.(directives.Error); ok {
			e = de.Wrapped
		} else {
			e = nil
		}
	}
	textOK = true
	parts := make([]string, 0, len(chain))
	for i := len(chain) - 1; i >= 0; i-- {
		switch e := chain[i].(type) {
		case directives.Error:
			if e.Message == "" && e.Text == "" && e.Path == "" && e.Start == 0 && e.End == 0 {
				parts = append(parts, "z")
				continue
			}
			parts = append(parts, fmt.Sprintf("a%d:%d", e.Start, e.End))
			if e.Text != text || e.Path != path {
				textOK = false
				detail = fmt.Sprintf("error frame %q does not carry the input text/path", e.Message)
			}
		default:
			if e == io.EOF {
				parts = append(parts, "e")
			} else {
				parts = append(parts, "x")
				textOK = false
				detail = fmt.Sprintf("foreign error in chain: %T", e)
			}
		}
	}
	return strings.Join(parts, ","), len(chain), textOK, detail
}

// ---------------------------------------------------------------- the rendered error position (C07_error_renderable)

// c07RefLocation is the harness's own reference for Range.Location(): the 1-based line and the 1-based column, counted
// in decoded characters (an invalid byte is one character), of the byte offset end of text. An offset that is not the
// start of a character of the text (inside a character, negative, beyond the end) is the end of the text.
func c07RefLocation(text string, end int) (line, col int) {
	line, col = 1, 1
	for off := 0; off < len(text); {
		if off == end {
			return line, col
		}
		_, w := utf8.DecodeRuneInString(text[off:])
		if text[off] == '\n' {
			line++
			col = 1
		} else {
			col++
		}
		off += w
	}
	return line, col
}

// c07LocInside: line:col is a position of the text: 1 <= line <= number of lines (the text after the last line break,
// possibly empty, is a line), 1 <= col <= characters of that line + 1.
func c07LocInside(text string, line, col int) bool {
	if line < 1 || col < 1 {
		return false
	}
	start := 0
	for l := 1; l < line; l++ {
		i := strings.IndexByte(text[start:], '\n')
		if i < 0 {
			return false
		}
		start += i + 1
	}
	end := strings.IndexByte(text[start:], '\n')
	if end < 0 {
		end = len(text) - start
	}
	return col <= utf8.RuneCountInString(text[start:start+end])+1
}

type c07LocCheck struct {
	ok   bool
	info string
	wide bool // non-ASCII text between the start of the line and the position, in some link
}

func (k *c07LocCheck) fail(format string, a ...any) {
	if k.ok {
		k.ok = false
		k.info = fmt.Sprintf(format, a...)
	}
}

// render rebuilds what Error() has to print for a chain, from the reference positions, checking every link on the way.
func (k *c07LocCheck) render(err error) string {
	de, isDe := err.(directives.Error)
	if !isDe {
		return err.Error()
	}
	var s strings.Builder
	if de.Wrapped != nil {
		s.WriteString(k.render(de.Wrapped))
		s.WriteString("\n")
	}
	if len(de.Path) > 0 {
		s.WriteString(de.Path)
		s.WriteString(": ")
	}
	line, col := c07RefLocation(de.Text, de.End)
	loc := de.Range.Location()
	if loc.Line != line || loc.Col != col {
		k.fail("link %q range [%d,%d): Location() = %d:%d, the position of offset %d is %d:%d", de.Message, de.Start, de.End, loc.Line, loc.Col, de.End, line, col)
	}
	if !c07LocInside(de.Text, loc.Line, loc.Col) {
		k.fail("link %q range [%d,%d): Location() = %d:%d is not a position inside the text", de.Message, de.Start, de.End, loc.Line, loc.Col)
	}
	if e := de.End; e >= 0 && e <= len(de.Text) {
		if !isASCII(de.Text[strings.LastIndexByte(de.Text[:e], '\n')+1 : e]) {
			k.wide = true
		}
	}
	fmt.Fprintf(&s, "%d:%d %s", line, col, de.Message)
	return s.String()
}

// c07ErrLocations evaluates, on a returned error, the clause of C07_error_renderable about positions: for every link of
// the chain Location() is the (character-counted) position of the link's end offset and lies inside the text, and the
// text Error() renders carries exactly these line:col.
func c07ErrLocations(err error) c07LocCheck {
	k := c07LocCheck{ok: true}
	want := k.render(err)
	if got := err.Error(); got != want {
		k.fail("Error() renders %q, with the positions of the chain's offsets it is %q", clipTo(got, 600), clipTo(want, 600))
	}
	return k
}

// synRangesOK: every range of a tree carries the text and path it was parsed from, and Extract() is the slice.
func synRangesOK(ranges []directives.Range, text, path string) (bool, string) {
	for _, r := range ranges {
		if zeroRange(r) && r.Text == "" {
			continue
		}
		if r.Text != text || r.Path != path {
			return false, fmt.Sprintf("range [%d,%d) does not carry the input text/path", r.Start, r.End)
		}
		if r.Start < 0 || r.End < r.Start || r.End > len(text) || r.Extract() != text[r.Start:r.End] {
			return false, fmt.Sprintf("range [%d,%d) cannot be extracted", r.Start, r.End)
		}
	}
	return true, ""
}

// implParse runs the real parser as syntax.ParseFile does (New, Advance, ParseFile), with recover and a watchdog.
func implParse(text, path string) synResult {
	ch := make(chan synResult, 1)
	go func() {
		var res synResult
		defer func() {
			if r := recover(); r != nil {
				res = synResult{Outcome: "panic", Detail: fmt.Sprint(r)}
			}
			ch <- res
		}()
		p := parser.New(text, path)
		var f directives.File
		err := p.Advance()
		if err == nil {
			f, err = p.ParseFile()
		}
		if err != nil {
			res.Outcome = "err"
			res.Message = err.Error() // rendering must not panic either
			res.Frames, res.ErrDepth, res.TextOK, res.Detail = synFrames(err, text, path)
			k := c07ErrLocations(err)
			res.LocOK, res.LocInfo, res.LocWide = k.ok, k.info, k.wide
			return
		}
		res.Outcome = "ok"
		res.File = f
		res.NumDirs = len(f.Directives)
		var w synWalk
		root := w.file(f)
		res.Dump = root.Dump()
		res.TextOK, res.Detail = synRangesOK(w.ranges, text, path)
	}()
	select {
	case r := <-ch:
		return r
	case <-time.After(20 * time.Second):
		return synResult{Outcome: "hang", Detail: "no result after 20s"}
	}
}

// ---------------------------------------------------------------- generators

var synLetters = []string{"a", "b", "c", "x", "y", "z", "A", "B", "Z", "Assets", "Expenses", "Income", "Equity", "Liabilities", "Bank", "é", "ü", "ß", "Ω", "漢", "字", "я", "ñ", "𝒜", "0", "1", "9", "٣", "७", "Cash", "i", "include", "open", "o"}
var synComs = []string{"CHF", "USD", "EUR", "AAPL", "BTC", "X", "x1", "Éuro", "１２", "Ω"}
var synDigits = []string{"0", "1", "2", "3", "4", "5", "6", "7", "8", "9"}
var synUniDigits = []string{"٠", "١", "٢", "٣", "४", "５", "９", "0", "1", "7"}

type synGen struct {
	r       *RNG
	nl      string // line terminator inside and after directives
	ws      []string
	unicode bool
	rich    bool // stream errpos: much non-ASCII text of every encoded width in names and free text
	tags    map[string]bool
}

func (g *synGen) tag(t string) { g.tags[t] = true }

func (g *synGen) sp() string {
	if g.r.Chance(3, 4) {
		return " "
	}
	n := g.r.Range(1, 4)
	var b strings.Builder
	for i := 0; i < n; i++ {
		b.WriteString(Pick(g.r, g.ws))
	}
	g.tag("wide-ws")
	return b.String()
}

func (g *synGen) eol() string {
	s := ""
	if g.r.Chance(1, 6) {
		s = strings.Repeat(Pick(g.r, g.ws), g.r.Range(1, 3))
		g.tag("trailing-ws")
	}
	return s + g.nl
}

func (g *synGen) date() string {
	ds := synDigits
	if g.unicode && g.r.Chance(1, 8) {
		ds = synUniDigits
		g.tag("unicode-digits")
	}
	d := func(n int) string {
		var b strings.Builder
		for i := 0; i < n; i++ {
			b.WriteString(Pick(g.r, ds))
		}
		return b.String()
	}
	if g.r.Chance(3, 4) {
		return fmt.Sprintf("%04d-%02d-%02d", g.r.Range(1990, 2030), g.r.Range(1, 12), g.r.Range(1, 28))
	}
	return d(4) + "-" + d(2) + "-" + d(2)
}

func (g *synGen) segment() string {
	n := g.r.Range(1, 3)
	var b strings.Builder
	for i := 0; i < n; i++ {
		s := Pick(g.r, synLetters)
		if !g.unicode && !isASCII(s) {
			s = "q"
		}
		if g.rich && g.r.Chance(1, 2) {
			s = Pick(g.r, synWideLetters)
		}
		b.WriteString(s)
	}
	return b.String()
}

func isASCII(s string) bool {
	for i := 0; i < len(s); i++ {
		if s[i] >= 0x80 {
			return false
		}
	}
	return true
}

func (g *synGen) account() string {
	if g.r.Chance(1, 12) {
		g.tag("macro")
		return "$" + Pick(g.r, []string{"a", "acct", "Ωx", "dividend"})
	}
	n := g.r.Range(1, 4)
	parts := make([]string, n)
	for i := range parts {
		parts[i] = g.segment()
	}
	return strings.Join(parts, ":")
}

func (g *synGen) commodity() string {
	c := Pick(g.r, synComs)
	if !g.unicode && !isASCII(c) {
		c = "CHF"
	}
	return c
}

func (g *synGen) decimal() string {
	var b strings.Builder
	if g.r.Chance(1, 4) {
		b.WriteString("-")
	}
	n := g.r.Range(1, 6)
	for i := 0; i < n; i++ {
		b.WriteString(Pick(g.r, synDigits))
	}
	if g.r.Chance(1, 2) {
		b.WriteString(".")
		n := g.r.Range(1, 4)
		for i := 0; i < n; i++ {
			b.WriteString(Pick(g.r, synDigits))
		}
	}
	if b.Len() > 10 {
		g.tag("wide-amount")
	}
	return b.String()
}

func (g *synGen) freeText(noQuote bool) string {
	words := []string{"Salary", "Rent", "buy", "12", "AAPL", "@", "#", "*", "//", "é", "漢字", "–", "(x)", ":", "$", ",", ".", "-", "\t", "  ", "it's", "\\", "`"}
	n := g.r.Range(0, 5)
	var b strings.Builder
	for i := 0; i < n; i++ {
		if i > 0 {
			b.WriteString(" ")
		}
		w := Pick(g.r, words)
		if !g.unicode && !isASCII(w) {
			w = "w"
		}
		if g.rich && g.r.Chance(1, 2) {
			w = Pick(g.r, synWideWords)
		}
		b.WriteString(w)
	}
	if !noQuote && g.r.Chance(1, 10) {
		b.WriteString("\"")
	}
	return b.String()
}

func (g *synGen) description() string {
	s := g.freeText(true)
	if g.r.Chance(1, 8) {
		s += g.nl + g.freeText(true)
		g.tag("multiline-description")
	}
	return s
}

func (g *synGen) comment() string {
	lead := Pick(g.r, []string{"*", "#", "//", "**", "# ", "* ", "// "})
	return lead + g.freeText(false)
}

func (g *synGen) booking() string {
	return g.account() + g.sp() + g.account() + g.sp() + g.decimal() + g.sp() + g.commodity()
}

func (g *synGen) balance() string {
	return g.account() + g.sp() + g.decimal() + g.sp() + g.commodity()
}

func (g *synGen) performance() string {
	n := g.r.Range(0, 3)
	var b strings.Builder
	b.WriteString("@performance(")
	pad := func() {
		if g.r.Chance(1, 4) {
			b.WriteString(Pick(g.r, []string{" ", "  ", "\t"}))
		}
	}
	pad()
	for i := 0; i < n; i++ {
		if i > 0 {
			b.WriteString(",")
			pad()
		}
		b.WriteString(g.commodity())
		pad()
	}
	b.WriteString(")")
	return b.String()
}

func (g *synGen) accrual() string {
	return "@accrue" + g.sp() + Pick(g.r, []string{"daily", "weekly", "monthly", "quarterly"}) + g.sp() + g.date() + g.sp() + g.date() + g.sp() + g.account()
}

// directive returns the text of one directive (without the line end of its last line unless it is part of the
// directive as the parser sees it) and its kind tag.
func (g *synGen) directive() (string, string) {
	text, kind := g.directive0()
	// annotations in front of a directive that is not a transaction (the parser accepts and drops them; their text
	// belongs to the directive's range): seeded change C07-c moved the range start of such an `include`
	if !strings.HasPrefix(kind, "trx") && g.r.Chance(1, 7) {
		var pre string
		switch g.r.Intn(4) {
		case 0:
			pre = g.performance() + g.eol()
		case 1:
			pre = g.accrual() + g.eol()
		case 2:
			pre = g.performance() + g.eol() + g.accrual() + g.eol()
		default:
			pre = g.accrual() + g.eol() + g.performance() + g.eol()
		}
		return pre + text, "addons+" + kind
	}
	return text, kind
}

func (g *synGen) directive0() (string, string) {
	switch g.r.Intn(12) {
	case 0, 1:
		return g.date() + g.sp() + "open" + g.sp() + g.account(), "open"
	case 2:
		return g.date() + g.sp() + "close" + g.sp() + g.account(), "close"
	case 3, 4:
		return g.date() + g.sp() + "price" + g.sp() + g.commodity() + g.sp() + g.decimal() + g.sp() + g.commodity(), "price"
	case 5:
		return "include" + g.sp() + "\"" + g.freeText(true) + "\"", "include"
	case 6:
		return g.date() + g.sp() + "balance" + g.sp() + g.balance(), "balance1"
	case 7:
		n := g.r.Range(1, 3)
		var b strings.Builder
		b.WriteString(g.date() + g.sp() + "balance")
		if g.r.Chance(1, 4) {
			b.WriteString(Pick(g.r, g.ws))
		}
		b.WriteString(g.nl)
		for i := 0; i < n; i++ {
			b.WriteString(g.balance())
			if i < n-1 || g.r.Chance(9, 10) {
				b.WriteString(g.eol())
			}
		}
		return b.String(), fmt.Sprintf("balanceN%d", n)
	default:
		var b strings.Builder
		kind := "trx"
		switch g.r.Intn(8) {
		case 0:
			b.WriteString(g.performance() + g.eol())
			kind += "+perf"
		case 1:
			b.WriteString(g.accrual() + g.eol())
			kind += "+accrue"
		case 2:
			b.WriteString(g.performance() + g.eol() + g.accrual() + g.eol())
			kind += "+perf+accrue"
		case 3:
			b.WriteString(g.accrual() + g.eol() + g.performance() + g.eol())
			kind += "+accrue+perf"
		}
		b.WriteString(g.date() + g.sp() + "\"" + g.description() + "\"" + g.eol())
		n := g.r.Range(1, 4)
		for i := 0; i < n; i++ {
			b.WriteString(g.booking())
			if i < n-1 || g.r.Chance(9, 10) {
				b.WriteString(g.eol())
			}
		}
		return b.String(), kind
	}
}

// synJournal generates a mostly valid journal text in a random layout.
func synJournal(r *RNG) (string, []string) { return synJournalOpt(r, false) }

// letters of 2, 3 and 4 encoded bytes (unicode.IsLetter / IsDigit: legal in account and commodity names)
var synWideLetters = []string{"é", "ü", "ß", "Ω", "я", "ñ", "ä", "ö", "Zürich", "Gebäude", "漢", "字", "ก", "한", "ẞ", "𝒜", "𐐷", "𠀀", "٣", "७", "５", "𝟗", "Ǆ", "ʰ", "ª"}

// free text of every kind (legal in descriptions, include paths and comments): 2-4 byte characters, combining marks,
// emoji with joiners and variation selectors, invisible characters, U+FFFD, U+0085, U+2028
var synWideWords = []string{"Caf\u00e9", "Z\u00fcrich", "\u00dcbergr\u00f6\u00dfe", "na\u00efve", "\u20ac", "\u00a35", "\u2013", "\u2026", "\u201cx\u201d", "\u6f22\u5b57", "\u304b\u306a", "\ud55c\uad6d\uc5b4", "\u0e44\u0e17\u0e22", "\U0001f600", "\U0001f469\u200d\U0001f469\u200d\U0001f467", "\u2764\ufe0f", "\U0001f1e8\U0001f1ed", "\U0001d49c\U0001d4b7", "e\u0301", "a\u0308\u0323", "o\u0302\u0301\u0300", "\u0301", "\u200b", "\u00a0", "\ufeff", "\ufffd", "\u0085", "\u2028", "\U0010ffff", "\u07ff\u0800", "\uffff\U00010000", "\u00e9\u00e9\u00e9\u00e9\u00e9\u00e9\u00e9\u00e9\u00e9\u00e9\u00e9\u00e9\u00e9\u00e9\u00e9\u00e9\u00e9\u00e9\u00e9\u00e9\u00e9\u00e9\u00e9", "\u5b57\u5b57\u5b57\u5b57\u5b57\u5b57\u5b57\u5b57\u5b57\u5b57\u5b57\u5b57\u5b57\u5b57\u5b57\u5b57"}

// synJournalOpt: rich forces the non-ASCII vocabulary (the random draws of the plain generator are unchanged).
func synJournalOpt(r *RNG, rich bool) (string, []string) {
	g := &synGen{r: r, nl: "\n", ws: []string{" ", " ", "\t"}, tags: map[string]bool{}, rich: rich}
	switch r.Intn(6) {
	case 0:
		g.nl = "\r\n"
		g.ws = []string{" ", "\t", "\r"}
		g.tag("crlf")
	case 1:
		g.ws = []string{" ", "\t", "\r", "  "}
	}
	g.unicode = r.Chance(1, 2)
	if rich {
		g.unicode = true
	}
	if g.unicode {
		g.tag("unicode")
	}
	var b strings.Builder
	var kinds []string
	n := r.Range(0, 7)
	if rich {
		n = r.Range(1, 5)
	}
	gap := func(afterTrx bool) {
		// a transaction's range ends after the line break of its last booking, and must be followed by a blank line
		k := r.Intn(6)
		if afterTrx && r.Chance(19, 20) {
			b.WriteString(g.eol())
		}
		for i := 0; i < k; i++ {
			switch r.Intn(4) {
			case 0:
				b.WriteString(g.comment() + g.nl)
			case 1:
				b.WriteString(strings.Repeat(Pick(r, g.ws), r.Range(1, 3)) + g.nl)
			default:
				b.WriteString(g.nl)
			}
		}
	}
	if r.Chance(1, 2) {
		gap(false)
	}
	for i := 0; i < n; i++ {
		d, kind := g.directive()
		kinds = append(kinds, kind)
		b.WriteString(d)
		multi := strings.HasPrefix(kind, "trx") || strings.Contains(kind, "balanceN")
		last := i == n-1
		if !multi {
			if !last || r.Chance(2, 3) {
				b.WriteString(g.eol())
			} else {
				g.tag("no-final-newline")
			}
		}
		if last && r.Chance(1, 2) {
			break
		}
		gap(multi)
	}
	for t := range g.tags {
		kinds = append(kinds, "~"+t)
	}
	text := b.String()
	// the very start of the text is a boundary of its own: a byte order mark or other invisible character
	// in front of an otherwise valid journal (files saved by other editors)
	if r.Chance(1, 25) {
		text = Pick(r, []string{"\xef\xbb\xbf", "\xef\xbb\xbf", "\xc2\xa0", "\xe2\x80\x8b", "\xff\xfe", "\x00"}) + text
		kinds = append(kinds, "~invisible-prefix")
	}
	return text, kinds
}

// synErrTriggers: what is put at the chosen position to break the directive there.
var synErrTriggers = []string{"!", "!", "\"", ":", "::", " ", "  x", " 1", "\t", ",", "(", ")", "-", ".", "@", "$", "#", "1", "x", "é", "漢", "😀", "\u0301", "\u200b", "\u00a0", "\ufeff", "\ufffd", "\r", "\n", "\x00", "\xff", "\xc3", "\xe2\x82", "\xf0\x9f\x98", "\x80", "\xed\xa0\x80", "\xc0\x80"}

// synErrPos builds a text that is broken at a position which has non-ASCII text before it on the same line: a journal
// in the non-ASCII vocabulary, one position chosen among the character boundaries behind a non-ASCII character of
// their line, and there an inserted or replacing trigger, a deleted character, a deleted rest of the line, or the end
// of the text (with or without a trigger). Whether and where the parser reports an error is up to the parser.
func synErrPos(r *RNG) (string, []string) {
	text, kinds := synJournalOpt(r, true)
	var cand []int
	wide := false
	for off := 0; off < len(text); {
		if wide {
			cand = append(cand, off)
		}
		_, w := utf8.DecodeRuneInString(text[off:])
		if text[off] == '\n' {
			wide = false
		} else if text[off] >= 0x80 {
			wide = true
		}
		off += w
	}
	if wide {
		cand = append(cand, len(text))
	}
	if len(cand) == 0 {
		return synMutate(r, text), append(kinds, "errpos-none")
	}
	p := Pick(r, cand)
	if r.Chance(1, 3) { // the end of a line is the position most errors are reported at
		for p < len(text) && text[p] != '\n' {
			p++
		}
		if r.Chance(1, 3) && p > 0 && text[p-1] == '\r' {
			p--
		}
	}
	w := 0
	if p < len(text) {
		_, w = utf8.DecodeRuneInString(text[p:])
	}
	eol := p
	for eol < len(text) && text[eol] != '\n' {
		eol++
	}
	trig := Pick(r, synErrTriggers)
	var op string
	switch r.Intn(8) {
	case 0, 1:
		text, op = text[:p]+trig+text[p:], "insert"
	case 2:
		text, op = text[:p]+trig+text[p+w:], "replace"
	case 3:
		text, op = text[:p], "cut"
	case 4:
		text, op = text[:p]+trig, "cut+trigger"
	case 5:
		text, op = text[:p]+text[p+w:], "delete"
	case 6:
		text, op = text[:p]+text[eol:], "delete-rest-of-line"
	default:
		text, op = text[:p]+trig+text[eol:], "replace-rest-of-line"
	}
	if r.Chance(1, 6) {
		text = synMutate(r, text)
		op += "+mutated"
	}
	return text, []string{"errpos", "errpos-" + op}
}

var synInteresting = []string{"\xef\xbb\xbf", "\xc2\xa0", "\xe2\x80\x8b", "\xe2\x80\xa8", "\xc2\x85", "\x0b", "\x0c", " ", "\t", "\r", "\n", "\"", ":", "-", ".", ",", "(", ")", "@", "$", "#", "*", "/", "//", "i", "a", "0", "\xff", "\xc3", "\xe2\x82", "\x80", "\x00", "\xef\xbf\xbd", "é", "include", "open", "balance", "@performance", "@accrue", "daily", "\r\n", "\n\n", "2020-01-01", "A:B"}

// synMutate applies a few byte-level mutations.
func synMutate(r *RNG, s string) string {
	b := []byte(s)
	k := r.Range(1, 3)
	for i := 0; i < k; i++ {
		if len(b) == 0 {
			b = append(b, Pick(r, synInteresting)...)
			continue
		}
		p := r.Intn(len(b))
		if r.Chance(1, 10) {
			p = 0 // the start of the text is a boundary of its own
		}
		switch r.Intn(7) {
		case 0: // delete a byte
			b = append(b[:p], b[p+1:]...)
		case 1: // duplicate a byte
			b = append(b[:p+1], b[p:]...)
		case 2: // replace by an interesting string
			x := Pick(r, synInteresting)
			b = append(b[:p], append([]byte(x), b[p+1:]...)...)
		case 3: // insert an interesting string
			x := Pick(r, synInteresting)
			b = append(b[:p], append([]byte(x), b[p:]...)...)
		case 4: // splice: copy a chunk elsewhere
			q := r.Intn(len(b))
			l := r.Range(1, 12)
			if q+l > len(b) {
				l = len(b) - q
			}
			chunk := append([]byte{}, b[q:q+l]...)
			b = append(b[:p], append(chunk, b[p:]...)...)
		case 5: // truncate
			b = b[:p]
		case 6: // delete a chunk
			l := r.Range(1, 8)
			if p+l > len(b) {
				l = len(b) - p
			}
			b = append(b[:p], b[p+l:]...)
		}
	}
	return string(b)
}

var synRawAlphabet = []string{"\xef\xbb\xbf", "\xc2\xa0", "\xe2\x80\x8b", "\xe2\x80\xa8", "\xc2\x85", "\x0b", "\x0c", " ", " ", "\t", "\r", "\n", "\n", "\"", ":", "-", ".", ",", "(", ")", "@", "$", "#", "*", "/", "a", "b", "i", "o", "A", "0", "1", "2", "9", "é", "漢", "\xff", "\xc3", "\xe2", "\x80", "\xbf", "\x00", "\xed\xa0\x80", "\xf0\x9f\x98\x80", "\xf4\x90\x80\x80", "\xef\xbf\xbd", "\xc0\x80", "open", "close", "price", "balance", "include", "2020-01-01", "@performance", "@accrue", "daily", "A:B", "CHF", "1.5"}

func synRaw(r *RNG) string {
	n := r.Range(0, 40)
	if r.Chance(1, 10) {
		n = r.Range(0, 3)
	}
	var b strings.Builder
	for i := 0; i < n; i++ {
		if r.Chance(1, 12) {
			b.WriteByte(byte(r.Intn(256)))
		} else {
			b.WriteString(Pick(r, synRawAlphabet))
		}
	}
	return b.String()
}

// synLong builds inputs with one very long token.
func synLong(r *RNG, n int) (string, string) {
	unit := Pick(r, []string{"a", "Z", "9", "é", "漢"})
	long := strings.Repeat(unit, n/len(unit))
	switch r.Intn(9) {
	case 0:
		return "2020-01-01 open " + long + "\n", "long-account"
	case 1:
		return "2020-01-01 open A:" + long + ":B\n", "long-segment"
	case 2:
		return "2020-01-01 price " + long + " 1 CHF\n", "long-commodity"
	case 3:
		return "2020-01-01 price X " + strings.Repeat("7", n) + "." + strings.Repeat("3", n/2) + " CHF\n", "long-decimal"
	case 4:
		return "2020-01-01 \"" + long + "\"\nA B 1 CHF\n", "long-description"
	case 5:
		return "2020-01-01 open A" + strings.Repeat(" ", n) + "\n", "long-trailing-ws"
	case 6:
		return "2020-01-01" + strings.Repeat("\t", n) + "open A\n", "long-ws"
	case 7:
		if n > 20000 {
			n = 20000 // the gap predicate of the driver recurses over a gap
		}
		return "# " + strings.Repeat(unit, n/len(unit)) + "\n2020-01-01 open A\n", "long-comment"
	default:
		return "2020-01-01 open " + long + "\xff\n", "long-then-invalid"
	}
}

// ---------------------------------------------------------------- scanner scripts (the exported scanner.Scanner API)

var scanPreds = []func(rune) bool{
	unicode.IsDigit,
	unicode.IsLetter,
	func(r rune) bool { return unicode.IsLetter(r) || unicode.IsDigit(r) },
	func(r rune) bool { return r == ' ' || r == '\t' || r == '\r' },
	func(r rune) bool { return !(r == '\n' || r == scanner.EOF) },
	func(r rune) bool { return r != '"' },
	func(r rune) bool { return r == 'a' },
	func(r rune) bool { return true },
	func(r rune) bool { return false },
}

var scanWords = []string{"a", "ab", "open", "@x", "//", "*", "2020", "é", "-", "a b"}

// genScanScript builds a random sequence of scanner calls.
func genScanScript(r *RNG) []string {
	n := r.Range(1, 8)
	ops := make([]string, 0, n)
	for i := 0; i < n; i++ {
		switch r.Intn(9) {
		case 0:
			ops = append(ops, "A")
		case 1:
			ops = append(ops, fmt.Sprintf("W%d", r.Intn(len(scanPreds))))
		case 2:
			ops = append(ops, fmt.Sprintf("O%d", r.Intn(len(scanPreds))))
		case 3:
			ops = append(ops, fmt.Sprintf("U%d", r.Intn(len(scanPreds))))
		case 4:
			ops = append(ops, fmt.Sprintf("P%d", r.Intn(len(scanPreds))))
		case 5:
			ops = append(ops, fmt.Sprintf("C%d", Pick(r, []int{' ', '\n', 'a', '-', '"', '2', 0xe9, 0xfffd})))
		case 6:
			ops = append(ops, fmt.Sprintf("N%d", r.Intn(5)))
		case 7:
			ops = append(ops, "S"+hex.EncodeToString([]byte(Pick(r, scanWords))))
		default:
			k := r.Range(1, 3)
			parts := make([]string, k)
			for j := range parts {
				parts[j] = hex.EncodeToString([]byte(Pick(r, scanWords)))
			}
			ops = append(ops, "L"+strings.Join(parts, "."))
		}
	}
	return ops
}

func scanCur(s *scanner.Scanner) string { return strconv.Itoa(int(s.Current())) }

// implScan runs a script on the real scanner: one result per call, stopping at the first error.
func implScan(text, path string, ops []string) (res string, loc c07LocCheck) {
	loc.ok = true
	defer func() {
		if r := recover(); r != nil {
			res += ";panic " + fmt.Sprint(r)
		}
	}()
	s := scanner.New(text, path)
	errString := func(err error) string {
		frames, _, _, _ := synFrames(err, text, path)
		loc = c07ErrLocations(err)
		return "err:" + frames + ":" + strconv.Itoa(s.Offset()) + ":" + Hex(err.Error())
	}
	if err := s.Advance(); err != nil {
		return errString(err), loc
	}
	var b strings.Builder
	fmt.Fprintf(&b, "ok:%d:%s", s.Offset(), scanCur(s))
	for _, op := range ops {
		var rg directives.Range
		var err error
		arg := op[1:]
		n, _ := strconv.Atoi(arg)
		switch op[0] {
		case 'A':
			err = s.Advance()
			rg = directives.Range{Start: s.Offset(), End: s.Offset()}
		case 'W':
			rg, err = s.ReadWhile(scanPreds[n])
		case 'O':
			rg, err = s.ReadWhile1("x", scanPreds[n])
		case 'U':
			rg, err = s.ReadUntil("x", scanPreds[n])
		case 'P':
			rg, err = s.ReadCharacterWith("x", scanPreds[n])
		case 'C':
			rg, err = s.ReadCharacter(rune(n))
		case 'N':
			rg, err = s.ReadN(n)
		case 'S':
			w, _ := hex.DecodeString(arg)
			rg, err = s.ReadString(string(w))
		case 'L':
			var ss []string
			for _, h := range strings.Split(arg, ".") {
				w, _ := hex.DecodeString(h)
				ss = append(ss, string(w))
			}
			rg, err = s.ReadAlternative(ss)
		}
		if err != nil {
			b.WriteString(";" + errString(err))
			return b.String(), loc
		}
		fmt.Fprintf(&b, ";ok:%d:%d:%d:%s", rg.Start, rg.End, s.Offset(), scanCur(s))
	}
	return b.String(), loc
}

// ---------------------------------------------------------------- classes

var reBackquoted = regexp.MustCompile("`[^`]*`")

func synClass(res synResult, kinds []string) string {
	switch res.Outcome {
	case "ok":
		seen := map[string]bool{}
		var ks []string
		for _, k := range kinds {
			if !seen[k] {
				seen[k] = true
				ks = append(ks, k)
			}
		}
		sortStrings(ks)
		return "ok/" + bucket(res.NumDirs) + "/" + strings.Join(ks, ",")
	case "err":
		first := res.Message
		if i := strings.IndexByte(first, '\n'); i >= 0 {
			first = first[:i]
		}
		if i := strings.Index(first, " "); i >= 0 { // strip "path: line:col"
			rest := first[i+1:]
			if j := strings.Index(rest, " "); j >= 0 && strings.Contains(first[:i], ":") && strings.Contains(rest[:j], ":") {
				first = rest[j+1:]
			} else {
				first = rest
			}
		}
		first = reBackquoted.ReplaceAllString(first, "`_`")
		return fmt.Sprintf("err/depth%d/%s", res.ErrDepth, first)
	}
	return res.Outcome
}

func scanShape(ops []string) string {
	var b strings.Builder
	for _, o := range ops {
		b.WriteByte(o[0])
	}
	if b.Len() > 4 {
		return b.String()[:4]
	}
	return b.String()
}

func scanOutcome(impl string) string {
	if i := strings.LastIndex(impl, ";"); i >= 0 {
		impl = impl[i+1:]
	}
	if strings.HasPrefix(impl, "err") {
		return "err"
	}
	return "ok"
}

func sortStrings(a []string) {
	for i := 1; i < len(a); i++ {
		for j := i; j > 0 && a[j] < a[j-1]; j-- {
			a[j], a[j-1] = a[j-1], a[j]
		}
	}
}

// ---------------------------------------------------------------- runner

type c07run struct {
	c        *Ctx
	bt       *Batch
	suspects []string // texts on which model and implementation disagree
}

func textInput(text string, kinds []string) map[string]any {
	in := map[string]any{"text_hex": hex.EncodeToString([]byte(text)), "len": len(text)}
	if utf8.ValidString(text) && len(text) < 600 {
		in["text"] = text
	}
	if len(text) > 4000 {
		in["text_hex"] = hex.EncodeToString([]byte(text[:2000])) + "..."
		in["note"] = "long input, regenerate from (stream, index, seed)"
	}
	if kinds != nil {
		in["kinds"] = strings.Join(kinds, " ")
	}
	return in
}

const c07Path = "j.knut"

// one runs one case: real parser, comparison with the model, property monitors on the real result.
func (x *c07run) one(stream string, index int, text string, kinds []string) {
	c := x.c
	c.Evals++
	path := c07Path
	if index%7 == 3 {
		path = ""
	}
	res := implParse(text, path)
	in := textInput(text, kinds)
	in["path"] = path
	impl := res.String()
	c.Class(synClass(res, kinds))
	c.Tag(stream + "/" + res.Outcome)
	if index >= 0 && index < 2 {
		c.Sample(map[string]any{"stream": stream, "input": in, "impl": clipTo(impl, 300)})
	}
	hx := Hex(text)
	x.bt.Add(func(model string) {
		if !c.Compare(stream, index, "c07parse", in, impl, model) && len(x.suspects) < 8 && len(text) < 5000 {
			x.suspects = append(x.suspects, text)
		}
	}, "c07parse", Hex(path), hx)
	// monitors: the property predicates on what the real parser returned
	switch res.Outcome {
	case "panic", "hang":
		c.Monitor(stream, index, "C07_total", in, false, impl)
	case "ok":
		c.Monitor(stream, index, "C07_extract_is_slice(text identity)", in, res.TextOK, res.Detail)
		x.bt.Add(func(mon string) {
			c.Monitor(stream, index, "treeOK", in, mon == "ok", "tree "+clipTo(res.Dump, 1500)+" => "+mon)
		}, "c07tree", hx, res.Dump)
	case "err":
		c.Monitor(stream, index, "C07_error_renderable(text identity)", in, res.TextOK, res.Detail)
		c.Monitor(stream, index, "C07_error_renderable(every line:col is the position of the link's offset, inside the text)", in, res.LocOK, res.LocInfo+" | "+clipTo(res.Message, 300))
		if res.LocWide {
			c.Tag(stream + "/err/non-ascii-before-position")
		}
		x.bt.Add(func(mon string) {
			c.Monitor(stream, index, "errOK", in, mon == "ok", "frames "+res.Frames+" len "+strconv.Itoa(len(text))+" => "+mon)
		}, "c07err", strconv.Itoa(len(text)), res.Frames)
	}
}

func clipTo(s string, n int) string {
	if len(s) > n {
		return s[:n] + "…"
	}
	return s
}

func synCorpus() map[string]string {
	repo := os.Getenv("KNUT_REPO")
	if repo == "" {
		repo = "/repo"
	}
	res := map[string]string{}
	for _, pat := range []string{"doc/*.knut", "doc/*.prices", "cmd/commands/testdata/*/*.knut"} {
		ms, _ := filepath.Glob(filepath.Join(repo, pat))
		for _, m := range ms {
			if b, err := os.ReadFile(m); err == nil && len(b) < 20000 {
				rel, _ := filepath.Rel(repo, m)
				res[rel] = string(b)
			}
		}
	}
	return res
}

func runC07(c *Ctx) {
	x := &c07run{c: c, bt: c.NewBatch()}
	x.bt.Limit = 4000
	defer x.bt.Flush()

	if c.Replay && c.ReplayInput != nil {
		if h, ok := c.ReplayInput["text_hex"].(string); ok && !strings.HasSuffix(h, "...") {
			if b, err := hex.DecodeString(h); err == nil {
				c.Replay = false
				x.one(c.OnlyStr, c.OnlyIndex, string(b), nil)
				return
			}
		}
	}

	if os.Getenv("C07_STREAMS") == "loader" { // development aid: only the loader stream
		x.loader()
		return
	}
	if os.Getenv("C07_STREAMS") == "big" { // development aid: only the big stream
		x.big()
		return
	}

	// ---- stream utf8: DecodeRuneInString against Utf8.decodeAll
	nU := c.N(3000, 60000)
	for i := 0; i < nU; i++ {
		if !c.Want("utf8", i) {
			continue
		}
		r := c.Rng("utf8", i)
		var s string
		if i < 256 {
			s = string([]byte{byte(i)}) + "\x80\x80\x80"
		} else if r.Chance(1, 2) {
			s = synRaw(r)
		} else {
			n := r.Range(0, 8)
			bs := make([]byte, n)
			for k := range bs {
				bs[k] = byte(r.Intn(256))
				if r.Chance(1, 2) {
					bs[k] = Pick(r, []byte{0x80, 0xbf, 0xc2, 0xdf, 0xe0, 0xa0, 0x9f, 0xed, 0xef, 0xf0, 0x90, 0x8f, 0xf4, 0xf5, 0xc0, 0xc1, 0x7f, 0x00})
				}
			}
			s = string(bs)
		}
		c.Evals++
		var parts []string
		for rest := s; len(rest) > 0; {
			ru, w := utf8.DecodeRuneInString(rest)
			parts = append(parts, fmt.Sprintf("%d:%d", ru, w))
			rest = rest[w:]
		}
		impl := strings.Join(parts, ",")
		if impl == "" {
			impl = "-"
		}
		in := map[string]any{"bytes_hex": hex.EncodeToString([]byte(s))}
		x.bt.Add(func(model string) { c.Compare("utf8", i, "utf8", in, impl, model) }, "utf8", Hex(s))
	}

	// ---- stream scan: scripts of calls of the exported scanner API (ReadWhile, ReadWhile1, ReadUntil, ReadCharacter,
	// ReadCharacterWith, ReadString, ReadAlternative, ReadN, Advance) on short texts
	nS := c.N(6000, 150000)
	for i := 0; i < nS; i++ {
		if !c.Want("scan", i) {
			continue
		}
		r := c.Rng("scan", i)
		var text string
		if r.Chance(1, 2) {
			text = synRaw(r)
		} else {
			t, _ := synJournal(r)
			if len(t) > 60 {
				p := r.Intn(len(t) - 40)
				t = t[p : p+r.Range(1, 40)]
			}
			text = t
		}
		ops := genScanScript(r)
		c.Evals++
		impl, loc := implScan(text, c07Path, ops)
		in := map[string]any{"text_hex": hex.EncodeToString([]byte(text)), "script": strings.Join(ops, ",")}
		c.Monitor("scan", i, "C07_total(scanner)", in, !strings.Contains(impl, ";panic"), impl)
		c.Monitor("scan", i, "C07_error_renderable(every line:col is the position of the link's offset, inside the text)", in, loc.ok, loc.info)
		if loc.wide {
			c.Tag("scan/err/non-ascii-before-position")
		}
		c.Class("scan/" + scanShape(ops) + "/" + scanOutcome(impl))
		x.bt.Add(func(model string) { c.Compare("scan", i, "c07scan", in, impl, model) }, "c07scan", Hex(c07Path), Hex(text), strings.Join(ops, ","))
	}

	// ---- stream corpus: the repository's own journals, in the thorough tier with every prefix and many one-byte mutations
	corpus := synCorpus()
	names := make([]string, 0, len(corpus))
	for k := range corpus {
		names = append(names, k)
	}
	sortStrings(names)
	idx := 0
	for _, name := range names {
		text := corpus[name]
		if c.Want("corpus", idx) {
			x.one("corpus", idx, text, []string{"corpus:" + name})
		}
		idx++
		step := 1
		if !c.Thorough() {
			step = 1 + len(text)/150
		}
		for p := 0; p < len(text); p += step {
			if c.Want("corpus", idx) {
				x.one("corpus", idx, text[:p], []string{"corpus-prefix"})
			}
			idx++
		}
		r := c.Rng("corpus-mut", idx)
		for p := 0; p < len(text); p += step {
			if c.Want("corpus", idx) {
				x.one("corpus", idx, text[:p]+Pick(r, synInteresting)+text[p+1:], []string{"corpus-mutation"})
			}
			idx++
		}
	}
	c.Extra["corpus_files"] = names

	// ---- stream journal: grammar-based, mostly valid, many layouts
	nJ := c.N(12000, 330000)
	for i := 0; i < nJ; i++ {
		if !c.Want("journal", i) {
			continue
		}
		text, kinds := synJournal(c.Rng("journal", i))
		x.one("journal", i, text, kinds)
	}

	// ---- stream mutated: byte-level mutations and truncations of valid journals
	nM := c.N(12000, 400000)
	for i := 0; i < nM; i++ {
		if !c.Want("mutated", i) {
			continue
		}
		r := c.Rng("mutated", i)
		text, _ := synJournal(r)
		x.one("mutated", i, synMutate(r, text), []string{"mutated"})
	}

	// ---- stream errpos: texts broken at a position that has non-ASCII text (2-, 3-, 4-byte characters, combining marks,
	// invisible characters) before it on the same line, so that the byte offset of the error and its column differ
	nE := c.N(8000, 250000)
	for i := 0; i < nE; i++ {
		if !c.Want("errpos", i) {
			continue
		}
		text, kinds := synErrPos(c.Rng("errpos", i))
		x.one("errpos", i, text, kinds)
	}

	// ---- stream prefixes: every prefix of some valid journals (truncated directives)
	nP := c.N(40, 1200)
	pi := 0
	for i := 0; i < nP; i++ {
		text, _ := synJournal(c.Rng("prefixes", i))
		for p := 0; p <= len(text); p++ {
			if c.Want("prefixes", pi) {
				x.one("prefixes", pi, text[:p], []string{"prefix"})
			}
			pi++
		}
	}

	// ---- stream raw: random bytes incl. invalid UTF-8, lone CR, NUL, U+FFFD
	nR := c.N(8000, 330000)
	for i := 0; i < nR; i++ {
		if !c.Want("raw", i) {
			continue
		}
		x.one("raw", i, synRaw(c.Rng("raw", i)), []string{"raw"})
	}

	// ---- stream long: very long tokens
	nL := c.N(18, 60)
	for i := 0; i < nL; i++ {
		if !c.Want("long", i) {
			continue
		}
		r := c.Rng("long", i)
		size := c.N(100000, 1000000)
		if i%3 != 0 {
			size = r.Range(1000, size/4)
		}
		text, kind := synLong(r, size)
		x.one("long", i, text, []string{kind})
		x.bt.Flush()
	}
	x.bt.Flush()

	// ---- stream big: files of hundreds to thousands of directives, transactions of 1-129 bookings (c07big.go)
	x.big()

	// ---- stream loader: include trees on disk through syntax.ParseFileRecursively / syntax.ParseFile under schedule
	// perturbation, the predicates on every delivered tree and error (c07loader.go)
	t0 := time.Now()
	x.loader()
	x.bt.Flush()
	c.Extra["loader_wall_s"] = time.Since(t0).Seconds()

	// ---- directed search around inputs on which code and model disagree: all prefixes, all one-position
	// edits; the monitors run on each, so a property failure near the disagreement is found if there is one
	if len(x.suspects) > 0 && !c.Replay {
		n := 0
		for si, s := range x.suspects {
			r := c.Rng("directed", si)
			for p := 0; p <= len(s) && n < 60000; p++ {
				n++
				x.one("directed", -n, s[:p], []string{"directed-prefix"})
				if p < len(s) {
					n++
					x.one("directed", -n, s[:p]+s[p+1:], []string{"directed-delete"})
					n++
					x.one("directed", -n, s[:p]+Pick(r, synInteresting)+s[p:], []string{"directed-insert"})
					n++
					x.one("directed", -n, s[:p]+Pick(r, synInteresting)+s[p+1:], []string{"directed-replace"})
				}
			}
			for k := 0; k < 400 && n < 60000; k++ {
				n++
				x.one("directed", -n, synMutate(r, s), []string{"directed-mutation"})
			}
		}
		c.Notes = append(c.Notes, fmt.Sprintf("directed search: %d cases around %d inputs on which the parser and the model differ", n, len(x.suspects)))
	}
}
