package main

// Differential stream `gosem` (run as part of C11): the primitives of lean/Knut/GoSem — the meaning the Go→Lean
// translator (trans*.go) gives to Go's int arithmetic, time.Time dates, shopspring decimals, slices, sort.Search and
// strings — against the real Go primitives.

import (
	"fmt"
	"sort"
	"strings"
	"time"
	"unicode"
	"unicode/utf8"

	"github.com/shopspring/decimal"
)

func gosemInts(xs []int) string {
	if len(xs) == 0 {
		return "-"
	}
	parts := make([]string, len(xs))
	for i, x := range xs {
		parts[i] = itoa(x)
	}
	return strings.Join(parts, ",")
}

func gosemShowInts(xs []int) string {
	parts := make([]string, len(xs))
	for i, x := range xs {
		parts[i] = itoa(x)
	}
	return strings.Join(parts, " ")
}

// gosemTry runs f and renders a panic as "panic"
func gosemTry(f func() string) (res string) {
	defer func() {
		if r := recover(); r != nil {
			res = "panic"
		}
	}()
	return "ok " + f()
}

func gosemDate(y, m, d int) time.Time {
	return time.Date(y, time.Month(m), d, 0, 0, 0, 0, time.UTC)
}

func runGoSemStream(c *Ctx, n int) {
	bt := c.NewBatch()
	defer bt.Flush()
	cmp := func(i int, op string, in map[string]any, impl string, fields ...string) {
		in["op"] = op
		bt.Add(func(model string) { c.Compare("gosem", i, "gosem "+op, in, impl, model) }, append([]string{"gosem"}, fields...)...)
	}
	words := []string{"", "a", "\"", "''", "ab", "aaa", "Zürich", "日本", "x\"y\"z", " ", "abcabc", "é"}
	for i := 0; i < n; i++ {
		if !c.Want("gosem", i) {
			continue
		}
		r := c.Rng("gosem", i)
		c.Evals++
		// ---- time.Date normalisation: months and days far outside their ranges, negative, zero
		y := r.Range(1, 9000)
		var m, d int
		switch r.Intn(4) {
		case 0:
			m, d = r.Range(1, 12), r.Range(1, 31)
		case 1:
			m, d = r.Range(-30, 40), r.Range(-400, 800)
		case 2:
			m, d = r.Range(-2000, 2000), r.Range(-40, 70)
		default:
			m, d = r.Range(0, 13), r.Range(-1, 32)
		}
		if t := gosemDate(y, m, d); t.Year() >= 1 && t.Year() <= 9999 {
			cmp(i, "date", map[string]any{"y": y, "m": m, "d": d}, itoa(dayNum(t)), "date", itoa(y), itoa(m), itoa(d))
			c.Class(fmt.Sprintf("gosem/date/m%s/d%s", sign(m-6), bucket(gosemAbs(d))))
		}
		// ---- AddDate on arbitrary days (end-of-month clamping is where naive month arithmetic differs from Go)
		z := r.Intn(maxDay + 1)
		t := dayTime(z)
		var ay, am, ad int
		switch r.Intn(3) {
		case 0:
			ay, am, ad = 0, r.Range(-14, 14), r.Range(-1, 1)
		case 1:
			ay, am, ad = r.Range(-3, 3), r.Range(-40, 40), r.Range(-400, 400)
		default:
			ay, am, ad = 0, 0, r.Range(-5000, 5000)
		}
		if u := t.AddDate(ay, am, ad); u.Year() >= 1 && u.Year() <= 9999 {
			cmp(i, "adddate", map[string]any{"t": t.Format("2006-01-02"), "y": ay, "m": am, "d": ad}, itoa(dayNum(u)), "adddate", itoa(z), itoa(ay), itoa(am), itoa(ad))
			c.Class(fmt.Sprintf("gosem/adddate/day%d/m%s", min(t.Day(), 28)/28*28+gosemB2i(t.Day() > 28)*t.Day(), sign(am)))
		}
		cmp(i, "civil", map[string]any{"t": t.Format("2006-01-02")},
			fmt.Sprintf("%d %d %d %d %v", t.Year(), int(t.Month()), t.Day(), int(t.Weekday()), t.IsZero()), "civil", itoa(z))
		z2 := z + r.Range(-2, 2)
		if r.Chance(1, 20) {
			z2 = 0
		}
		if z2 >= 0 && z2 <= maxDay {
			u := dayTime(z2)
			cmp(i, "tcmp", map[string]any{"t": z, "u": z2}, fmt.Sprintf("%v %v %v %d", t.Before(u), t.After(u), t.Equal(u), t.Compare(u)), "tcmp", itoa(z), itoa(z2))
		}
		// ---- integer division and modulo: truncation toward zero, sign of the dividend, panic on zero
		a, b := r.Range(-1000, 1000), r.Range(-9, 9)
		if r.Chance(1, 4) {
			a, b = r.Range(-1<<40, 1<<40), r.Range(-100000, 100000)
		}
		impl := gosemTry(func() string { return itoa(a / b) }) + " " + gosemTry(func() string { return itoa(a % b) })
		if b != 0 {
			impl += fmt.Sprintf(" %d %d", a/b, a%b)
		}
		cmp(i, "divmod", map[string]any{"a": a, "b": b}, impl, "divmod", itoa(a), itoa(b))
		c.Class(fmt.Sprintf("gosem/divmod/a%s/b%s/exact%v", sign(a), sign(b), b != 0 && a%b == 0))
		// ---- slices
		xs := make([]int, r.Intn(7))
		for k := range xs {
			xs[k] = r.Range(-9, 9)
		}
		ix := r.Range(-2, len(xs)+1)
		cmp(i, "index", map[string]any{"xs": xs, "i": ix}, gosemTry(func() string { return itoa(xs[ix]) }), "index", gosemInts(xs), itoa(ix))
		cmp(i, "setindex", map[string]any{"xs": xs, "i": ix}, gosemTry(func() string {
			ys := append([]int{}, xs...)
			ys[ix] = 77
			return gosemShowInts(ys)
		}), "setindex", gosemInts(xs), itoa(ix), "77")
		lo, hi := r.Range(-1, len(xs)+1), r.Range(-1, len(xs)+1)
		cmp(i, "slice", map[string]any{"xs": xs, "lo": lo, "hi": hi}, gosemTry(func() string {
			ys := append([]int{}, xs...) // capacity = length, as the model assumes
			ys = ys[:len(ys):len(ys)]
			return gosemShowInts(ys[lo:hi])
		}), "slice", gosemInts(xs), itoa(lo), itoa(hi))
		// ---- sort.Search with arbitrary (also non-monotone) predicates
		bits := make([]byte, r.Intn(12))
		mono := r.Bool()
		flip := r.Intn(len(bits) + 1)
		for k := range bits {
			if mono {
				bits[k] = '0' + byte(gosemB2i(k >= flip))
			} else {
				bits[k] = '0' + byte(r.Intn(2))
			}
		}
		bf := string(bits)
		if bf == "" {
			bf = "-"
		}
		cmp(i, "search", map[string]any{"bits": string(bits)}, "ok "+itoa(sort.Search(len(bits), func(k int) bool { return bits[k] == '1' })), "search", bf)
		// ---- decimals
		ds, es := genDecimal(r), genDecimal(r)
		if r.Chance(1, 10) {
			es = "0"
		}
		if r.Chance(1, 10) {
			es = ds
		}
		dx, err1 := decimal.NewFromString(ds)
		dy, err2 := decimal.NewFromString(es)
		if err1 == nil && err2 == nil {
			pn := r.Range(0, 10)
			in := func() map[string]any { return map[string]any{"x": ds, "y": es, "n": pn} }
			cmp(i, "dec neg", in(), dx.Neg().String(), "dec1", "neg", Hex(ds), "0")
			cmp(i, "dec abs", in(), dx.Abs().String(), "dec1", "abs", Hex(ds), "0")
			cmp(i, "dec trunc", in(), dx.Truncate(int32(pn)).String(), "dec1", "trunc", Hex(ds), itoa(pn))
			rn := r.Range(-3, 10)
			cmp(i, "dec round", map[string]any{"x": ds, "n": rn}, dx.Round(int32(rn)).String(), "dec1", "round", Hex(ds), itoa(rn))
			cmp(i, "dec fixed", map[string]any{"x": ds, "n": rn}, dx.StringFixed(int32(rn)), "dec1", "fixed", Hex(ds), itoa(rn))
			cmp(i, "dec pred", in(), fmt.Sprintf("%v %v %v %d", dx.IsZero(), dx.IsNegative(), dx.IsPositive(), dx.Sign()), "dec1", "pred", Hex(ds), "0")
			k := r.Range(-100000, 100000)
			cmp(i, "dec fromint", map[string]any{"n": k}, decimal.NewFromInt(int64(k)).String(), "dec1", "fromint", Hex("0"), itoa(k))
			cmp(i, "dec add", in(), dx.Add(dy).String(), "dec2", "add", Hex(ds), Hex(es), "0")
			cmp(i, "dec sub", in(), dx.Sub(dy).String(), "dec2", "sub", Hex(ds), Hex(es), "0")
			cmp(i, "dec mul", in(), dx.Mul(dy).String(), "dec2", "mul", Hex(ds), Hex(es), "0")
			cmp(i, "dec div", in(), gosemTry(func() string { return dx.Div(dy).String() }), "dec2", "div", Hex(ds), Hex(es), "0")
			qp := r.Range(0, 3)
			cmp(i, "dec quorem", map[string]any{"x": ds, "y": es, "p": qp}, gosemTry(func() string {
				q, rem := dx.QuoRem(dy, int32(qp))
				return q.String() + " " + rem.String()
			}), "dec2", "quorem", Hex(ds), Hex(es), itoa(qp))
			cmp(i, "dec cmp", in(), fmt.Sprintf("%v %d %v %v", dx.Equal(dy), dx.Cmp(dy), dx.LessThan(dy), dx.GreaterThan(dy)), "dec2", "cmp", Hex(ds), Hex(es), "0")
			c.Class(fmt.Sprintf("gosem/dec/sx%d/sy%d", dx.Sign(), dy.Sign()))
		}
		// ---- strings
		s := Pick(r, words) + Pick(r, words) + Pick(r, words)
		old, nw := Pick(r, words), Pick(r, words)
		cnt := r.Range(0, 5)
		cmp(i, "str replace", map[string]any{"s": s, "old": old, "new": nw}, Hex(strings.ReplaceAll(s, old, nw)), "str", "replace", Hex(s), Hex(old), Hex(nw), "0")
		cmp(i, "str repeat", map[string]any{"s": s, "n": cnt}, Hex(strings.Repeat(s, cnt)), "str", "repeat", Hex(s), "-", "-", itoa(cnt))
		cmp(i, "str len", map[string]any{"s": s}, fmt.Sprintf("%d %d", len(s), utf8.RuneCountInString(s)), "str", "len", Hex(s), "-", "-", "0")
		k := r.Range(-100000, 100000)
		cmp(i, "str itoa", map[string]any{"n": k}, fmt.Sprintf("%d", k), "str", "itoa", "-", "-", "-", itoa(k))
		cmp(i, "str concat", map[string]any{"s": s, "a": old}, Hex(s+old), "str", "concat", Hex(s), Hex(old), "-", "0")
		cmp(i, "str cmp", map[string]any{"s": s, "a": old}, fmt.Sprintf("%v %v", s < old, s == old), "str", "cmp", Hex(s), Hex(old), "-", "0")
		// range over a string (byte offset, rune), byte slicing, strings.Index, strings.Builder, unicode.IsDigit, Decimal.Shift
		var rs []string
		for off, ch := range s {
			rs = append(rs, fmt.Sprintf("%d:%d", off, ch))
		}
		cmp(i, "str runes", map[string]any{"s": s}, strings.Join(rs, " "), "str", "runes", Hex(s), "-", "-", "0")
		slo, shi := r.Range(-1, len(s)+1), r.Range(-1, len(s)+1)
		cut := func(o int) bool { return o >= 0 && o <= len(s) && (o == len(s) || utf8.RuneStart(s[o])) }
		if slo < 0 || shi < slo || shi > len(s) || (cut(slo) && cut(shi)) { // a cut inside a UTF-8 sequence has no counterpart in the model
			cmp(i, "str slice", map[string]any{"s": s, "lo": slo, "hi": shi}, gosemTry(func() string { return Hex(s[slo:shi]) }), "str", "slice", Hex(s), "-", Hex(itoa(shi)), itoa(slo))
		}
		cmp(i, "str index", map[string]any{"s": s, "sub": old}, itoa(strings.Index(s, old)), "str", "index", Hex(s), Hex(old), "-", "0")
		var sb strings.Builder
		sb.WriteString(s)
		sb.WriteString(old)
		bch := []rune{',', '-', 'é', '日', '0'}[r.Intn(5)]
		sb.WriteRune(bch)
		cmp(i, "str build", map[string]any{"s": s, "a": old, "ch": string(bch)}, Hex(sb.String()), "str", "build", Hex(s), Hex(old), "-", itoa(int(bch)))
		cp := r.Range(0, 0x3000)
		if r.Chance(1, 2) {
			cp = r.Range(0, 127)
		}
		if utf8.ValidRune(rune(cp)) {
			cmp(i, "str isdigit", map[string]any{"cp": cp}, fmt.Sprint(unicode.IsDigit(rune(cp))), "str", "isdigit", "-", "-", "-", itoa(cp))
		}
		if err1 == nil {
			sh := r.Range(-6, 6)
			cmp(i, "dec shift", map[string]any{"x": ds, "n": sh}, dx.Shift(int32(sh)).String(), "dec1", "shift", Hex(ds), itoa(sh))
		}
	}
	bt.Flush()
	runGoSemTreeStream(c, n/10+1) // the tree of lib/common/multimap (gosem_tree.go)
	runGoSemSynStream(c, n/2+1)   // the primitives of the syntax printer (gosem_syn.go)
	runGoSemBayesStream(c, n/4+1) // compare.Ordered / dict.SortedKeys on byte strings, sets, map ranges, the counting statements of bayes.Model.update (gosem_bayes.go)
	runGoSemFmtStream(c, n/2+1)   // io.Writer, fmt's padding, strings.Join, Time.Format (gosem_fmt.go)
	runGoSemBeanStream(c, n/4+1)  // strings.HasPrefix, the regexp [^a-zA-Z], compare.Sort's guarantee, printer.New(w) and w as one sink (gosem_bean.go)
	runGoSemMappingStream(c, n/4+1) // strings.TrimPrefix, a *regexp.Regexp as nil or the pure predicate MatchString (gosem_mapping.go)
	runGoSemFloatStream(c, n/4+1) // float64 as an exact rational on dyadic operands, x/0 as `undef` (gosem_float.go)
	runGoSemTableStream(c, n/4+1) // (*color.Color).Fprintf, make([]T, n), encoding/csv.Writer (gosem_table.go)
	runGoSemParseStream(c, n/4+1) // time.Parse("2006-01-02"), decimal.NewFromString, Range.Extract read as a text (gosem_parse.go)
}

func gosemB2i(b bool) int {
	if b {
		return 1
	}
	return 0
}

func gosemAbs(x int) int {
	if x < 0 {
		return -x
	}
	return x
}
