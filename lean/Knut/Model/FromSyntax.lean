import Knut.Syntax.Parser
import Knut.Model.Journal
import Knut.Model.Accrual
/-!
# From the syntax tree to model directives (`model.ParseDirective`, `*.Create`, `Date.Parse`, `Decimal.Parse`)

This is the glue between the parser (C07) and the journal builder: field texts are extracted from
the file, dates go through `time.Parse("2006-01-02")`, amounts through `decimal.NewFromString`,
accounts and commodities through the registries, transactions through `transaction.Create`
(accrual expansion, C10).  Any error fails the load.
-/
namespace Knut.FromSyntax
open Knut

def asciiDigit (b : UInt8) : Bool := 48 ≤ b.toNat && b.toNat ≤ 57

def digitsVal (bs : List UInt8) : Nat := bs.foldl (fun acc b => acc * 10 + (b.toNat - 48)) 0

def daysIn (y m : Int) : Int :=
  if m = 2 then (if Date.isLeap y then 29 else 28)
  else if m = 4 ∨ m = 6 ∨ m = 9 ∨ m = 11 then 30 else 31

/-- `time.Parse("2006-01-02", s)`: exactly `dddd-dd-dd` in ASCII digits, month 1..12, day within the month -/
def parseDate (bs : List UInt8) : Option Int :=
  match bs with
  | [y1, y2, y3, y4, d1, m1, m2, d2, a1, a2] =>
    if d1 = 45 ∧ d2 = 45 ∧ [y1, y2, y3, y4, m1, m2, a1, a2].all asciiDigit then
      let y : Int := digitsVal [y1, y2, y3, y4]
      let m : Int := digitsVal [m1, m2]
      let d : Int := digitsVal [a1, a2]
      if 1 ≤ m ∧ m ≤ 12 ∧ 1 ≤ d ∧ d ≤ daysIn y m then some (Date.ofCivil y m d) else none
    else none
  | _ => none

def utf8 (bs : List UInt8) : Option String := String.fromUTF8? ⟨bs.toArray⟩

def field (text : List UInt8) (r : Syntax.Range) : Option (List UInt8) := r.extract text

def fieldStr (text : List UInt8) (r : Syntax.Range) : Option String := (field text r).bind utf8

/-- `decimal.NewFromString` on what the grammar admits: ASCII digits only -/
def decimal (text : List UInt8) (r : Syntax.Range) : Option Rat := do
  let bs ← field text r
  if bs.all (fun b => asciiDigit b || b = 45 || b = 46) then (utf8 bs).bind Dec.parseDec else none

/-- `account.Registry.Get`: the first segment must be an account type (a macro `$x` is not) -/
def account (text : List UInt8) (a : Syntax.Account) : Option Account := do
  let s ← fieldStr text a.range
  let acc := Account.ofName s
  if acc.wf then some acc else none

def date (text : List UInt8) (d : Syntax.Date) : Option Int := (field text d.range).bind parseDate

def interval (s : String) : Option Interval :=
  if s = "daily" then some .daily else if s = "weekly" then some .weekly
  else if s = "monthly" then some .monthly else if s = "quarterly" then some .quarterly else none

/-- a syntax directive as model input; transactions are still unexpanded -/
inductive Item where
  | price (p : Price)
  | opening (o : Open)
  | closing (c : Close)
  | assertion (a : Assertion)
  | tx (t : Accrual.TxInput)
  | includeFile (path : String)
  deriving Repr

def booking (text : List UInt8) (b : Syntax.Booking) : Option Accrual.Booking := do
  let cr ← account text b.credit
  let dr ← account text b.debit
  let q ← decimal text b.quantity.range
  let c ← fieldStr text b.commodity.range
  pure ⟨cr, dr, q, c⟩

def item (text : List UInt8) (d : Syntax.Directive) : Option Item :=
  match d.body with
  | .open o => do
    let a ← account text o.account
    let dt ← date text o.date
    pure (.opening ⟨dt, a⟩)
  | .close c => do
    let a ← account text c.account
    let dt ← date text c.date
    pure (.closing ⟨dt, a⟩)
  | .price p => do
    let dt ← date text p.date
    let c ← fieldStr text p.commodity.range
    let pr ← decimal text p.price.range
    let t ← fieldStr text p.target.range
    pure (.price ⟨dt, c, pr, t⟩)
  | .assertion a => do
    let dt ← date text a.date
    let bals ← a.balances.mapM (fun b => do
      let acc ← account text b.account
      let q ← decimal text b.quantity.range
      let c ← fieldStr text b.commodity.range
      pure (⟨acc, q, c⟩ : Balance))
    pure (.assertion ⟨dt, bals⟩)
  | .include i => do
    let p ← fieldStr text i.includePath.content
    pure (.includeFile p)
  | .transaction t => do
    let dt ← date text t.date
    let desc ← fieldStr text t.description.content
    let bks ← t.bookings.mapM (booking text)
    let targets ← (if t.addons.performance.range.empty then some none
      else (t.addons.performance.targets.mapM (fun c => fieldStr text c.range)).map some)
    let accrual ← (if t.addons.accrual.range.empty then some none
      else do
        let ivs ← fieldStr text t.addons.accrual.interval.range
        let iv ← interval ivs
        let s ← date text t.addons.accrual.start
        let e ← date text t.addons.accrual.stop
        let acc ← account text t.addons.accrual.account
        pure (some (⟨iv, s, e, acc⟩ : Accrual.Addon)))
    pure (.tx { date := dt, description := desc, bookings := bks, targets := targets, accrual := accrual })

inductive Loaded where
  | ok (ds : List Directive)
  | error
  | panic (site : String)
  deriving Repr

/-- `model.FromStream` for one file: every directive through `ParseDirective`; includes are skipped here -/
def loadItems (items : List Item) : Loaded :=
  let rec go (rest : List Item) (acc : List Directive) : Loaded :=
    match rest with
    | [] => .ok acc.reverse
    | .price p :: tl => go tl (.price p :: acc)
    | .opening o :: tl => go tl (.opening o :: acc)
    | .closing c :: tl => go tl (.closing c :: acc)
    | .assertion a :: tl => go tl (.assertion a :: acc)
    | .includeFile _ :: tl => go tl acc
    | .tx t :: tl =>
      match Accrual.create t with
      | .ok txs => go tl ((txs.map Directive.tx).reverse ++ acc)
      | .error => .error
      | .panic s => .panic s
  go items []

/-- the results of `f` on the elements before the first one it rejects -/
def okPrefix {α β : Type} (f : α → Option β) : List α → List β
  | [] => []
  | a :: tl =>
    match f a with
    | none => []
    | some b => b :: okPrefix f tl

/-- `ParseDirective` rejects a directive after the given ones have gone through: `model.FromStream` handles the
directives of a file one after the other, so a panic of `transaction.Create` in an earlier directive comes first;
otherwise the load fails with an error -/
def loadFailed (before : List Item) : Loaded :=
  match loadItems before with
  | .panic site => .panic site
  | _ => .error

/-- one file: parse, convert, expand -/
def loadText (path : String) (text : List UInt8) : Loaded :=
  match Syntax.parseText path text with
  | .error _ => .error
  | .ok f =>
    match f.directives.mapM (item text) with
    | none => loadFailed (okPrefix (item text) f.directives)
    | some items => loadItems items

end Knut.FromSyntax
