import Knut.FactsAgree.TransProcessAllCheck
import Knut.FactsAgree.TransBalanceCmd
/-!
# `knut balance`: `j.Build().Process(check, ComputePrices, Valuate, Filter, CloseAccounts, Query.Into)` over a WHOLE journal

The processor list is the one `cmd/commands/balance.go` builds (`TransBalanceCmd.processors_pinned`, `processorOrder_pinned`; the order
and the way the slice reaches `Process` are also pinned by `FactsAgree/ProcOrderBalance`, `ProcOrder.balanceOrder_eq`).
`processAllBalance` is its sequential meaning: `Pipeline.seqRun` of the system `balanceSys` — six stages, stage `k` = the translated
closures of the `k`-th processor folded over a day by `Processor.Process` (`TransProcess.processDay`), working on its own field of the
record `BalGo` of captured states; a nil processor (`ComputePrices(nil)`, `Valuate(reg, nil)`, `CloseAccounts(…, false, …)`) is the identity
stage.  That `cpr.Seq` (goroutines, channels: not translated) delivers `seqRun` on every successful schedule is `C19.C19_confluent`; taking
`seqRun` as the meaning of `Journal.Process` is the stated modelling step.

* `processAllBalance_eq`: the stage-major `seqRun` = all six stages on every day in turn (`fusedBalance`, by `seqStage_fuse`);
* `balance_day_agrees`: one day through the six translated stages, from Go states that stand for a model state (`BalInv`: the existing
  per-stage relations `StEquiv`, `CPEquiv`, `VEquiv`, `CEquiv`, and the log of `Report.Insert`) = `Balance.day` of the model;
* **`balance_all_agrees`**: by induction over the days, whenever the sequential run of the translated stages succeeds, the model's run
  succeeds on the same days and the final states are related — in particular the entries `Report.Insert` keeps of the log of the
  translated `Query.Into` are `st.entries`.

MAP ITERATION ORDER.  `Valuate.DayStart` and `CloseAccounts.DayStart` range over a Go map; the model keeps these maps as association
lists and its result (the ORDER of the value adjustments / closing transactions of a day) depends on the order of the list.  The theorems
hold for EVERY family of iteration orders (`oV`, `oC`, `ord`: arbitrary functions of the stage's state and the day / directive that
reach every key): the model's run is then the run in which, before each day, the two association lists are re-listed in the order Go
iterates (`RunOrd`: lookup-equivalent lists — `Relist`).  `Balance.run` itself is the instance in which nothing is re-listed
(`RunOrd_of_run`); without valuation and closing no map is ranged over and `RunOrd` IS `Balance.run` (`run_of_RunOrd`).  The properties
C01 / C02 are proved for every `RunOrd` (`Properties/C01Go2.lean`, `C02Go2.lean`).
-/
namespace Knut.FactsAgree.TransProcessAll
open Knut Knut.GoSem Knut.Pipeline
open Knut.Generated.Go
open Knut.FactsAgree.TransProcess Knut.FactsAgree.TransCheck Knut.FactsAgree.TransBalanceCmd
open Knut.FactsAgree.TransAccount (accountGo)
open Knut.FactsAgree.TransPrice (cGo)
open Knut.FactsAgree.TransQuery (entryOf)

/-- the captured states of the six processors -/
structure BalGo where
  chk : check.Checker
  cp : journal.ComputePrices.State
  va : journal.Valuate.State
  fi : journal.Filter.State
  cl : journal.CloseAccounts.State
  qu : journal.Query.Into.State

/-- what the processors are built from, and the parameters the translation makes explicit -/
structure BalPar where
  val : Option commodity.Commodity                       -- `valuation` (nil: no `ComputePrices`, no `Valuate`)
  ext1 : account.Account → account.Account               -- `reg.Accounts().ValuationAccountFor`
  part : date.Partition
  closeOn : Bool                                         -- `r.close`
  ord : check.Checker → close.Close → List amounts.Key   -- iteration order of `Checker.close`
  fuel : journal.ComputePrices.State → journal.Day → Nat -- fuel of `Prices.Normalize`
  oV : journal.Valuate.State → journal.Day → List amounts.Key        -- iteration order of `Valuate.DayStart`
  oC : journal.CloseAccounts.State → journal.Day → List amounts.Key  -- iteration order of `CloseAccounts.DayStart`

abbrev Stage (σ : Type) := σ → journal.Day → Except PErr (σ × journal.Day)

def stCheck (P : BalPar) : Stage check.Checker := stageOf (processDay (checkProc P.ord))
def stPrices (P : BalPar) : Stage journal.ComputePrices.State :=
  match P.val with
  | none => idStage
  | some v => stageOf (fun st d => processDay (computePricesProc v (P.fuel st d)) st d)
def stValuate (P : BalPar) : Stage journal.Valuate.State :=
  match P.val with
  | none => idStage
  | some v => stageOf (fun st d => processDay (valuateProc v P.ext1 (P.oV st d)) st d)
def stFilter (P : BalPar) : Stage journal.Filter.State := stageOf (processDay (filterProc P.part))
def stClose (P : BalPar) : Stage journal.CloseAccounts.State :=
  if P.closeOn then stageOf (fun st d => processDay (closeProc (P.oC st d)) st d) else idStage
def stQuery : Stage journal.Query.Into.State := stageOf (processDay queryProc)

/-- **the instantiation of `Pipeline.Sys`** for `Process(check.Check(), ComputePrices(v), Valuate(reg, v), Filter(part),
CloseAccounts(j, reg, close, part), Query{…}.Into(report))` -/
def balanceSys (P : BalPar) (G0 : BalGo) (days : List journal.Day) : Sys BalGo journal.Day PErr :=
  { n := 6, init := fun _ => G0, items := days,
    f := fun k =>
      match k with
      | 1 => liftStage BalGo.chk (fun S s => { S with chk := s }) (stCheck P)
      | 2 => liftStage BalGo.cp (fun S s => { S with cp := s }) (stPrices P)
      | 3 => liftStage BalGo.va (fun S s => { S with va := s }) (stValuate P)
      | 4 => liftStage BalGo.fi (fun S s => { S with fi := s }) (stFilter P)
      | 5 => liftStage BalGo.cl (fun S s => { S with cl := s }) (stClose P)
      | 6 => liftStage BalGo.qu (fun S s => { S with qu := s }) stQuery
      | _ => idStage }

/-- **the sequential meaning of `Journal.Process` for `knut balance`**: the days as they leave the last stage, `none` if a stage failed -/
def processAllBalance (P : BalPar) (G0 : BalGo) (days : List journal.Day) : Option (List journal.Day) :=
  seqRun (balanceSys P G0 days)

/-- every successful schedule of the transition system of `cpr.Seq` delivers `processAllBalance` (`C19_confluent`) -/
theorem processAllBalance_meaning (P : BalPar) (G0 : BalGo) (days : List journal.Day)
    {s : St BalGo journal.Day PErr} (h : Reach (balanceSys P G0 days) s) (hd : s.done (balanceSys P G0 days)) :
    processAllBalance P G0 days = some s.out := seq_meaning h hd

abbrev FusedState := ((((check.Checker × journal.ComputePrices.State) × journal.Valuate.State) × journal.Filter.State) ×
  journal.CloseAccounts.State) × journal.Query.Into.State

/-- all six stages on one day -/
def fusedBalance (P : BalPar) : FusedState → journal.Day → Except PErr (FusedState × journal.Day) :=
  fuse (fuse (fuse (fuse (fuse (stCheck P) (stPrices P)) (stValuate P)) (stFilter P)) (stClose P)) stQuery

def fusedInit (G0 : BalGo) : FusedState := (((((G0.chk, G0.cp), G0.va), G0.fi), G0.cl), G0.qu)

theorem seqStage_lift' {σ ρ α ε : Type} (get : ρ → σ) (set : ρ → σ → ρ) (hgs : ∀ S s, get (set S s) = s)
    (f : σ → α → Except ε (σ × α)) (S : ρ) : seqStage (liftStage get set f) S = seqStage f (get S) :=
  funext fun l => seqStage_lift get set hgs f l S

/-- **stage-major = day-major** -/
theorem processAllBalance_eq (P : BalPar) (G0 : BalGo) (days : List journal.Day) :
    processAllBalance P G0 days = seqStage (fusedBalance P) (fusedInit G0) days := by
  unfold processAllBalance seqRun balanceSys fusedBalance fusedInit
  simp only [seqUpTo, Option.bind_some]
  rw [seqStage_lift' BalGo.chk _ (fun _ _ => rfl), seqStage_lift' BalGo.cp _ (fun _ _ => rfl),
    seqStage_lift' BalGo.va _ (fun _ _ => rfl), seqStage_lift' BalGo.fi _ (fun _ _ => rfl),
    seqStage_lift' BalGo.cl _ (fun _ _ => rfl), seqStage_lift' BalGo.qu _ (fun _ _ => rfl)]
  rw [seqStage_fuse, seqStage_fuse, seqStage_fuse, seqStage_fuse, seqStage_fuse]

theorem fuse_ok {σ τ α ε : Type} {f : σ → α → Except ε (σ × α)} {g : τ → α → Except ε (τ × α)} {s s' : σ} {t t' : τ} {a a'' : α}
    (h : fuse f g (s, t) a = .ok ((s', t'), a'')) : ∃ a', f s a = .ok (s', a') ∧ g t a' = .ok (t', a'') := by
  unfold fuse at h
  simp only at h
  cases hf : f s a with
  | error e => rw [hf] at h; cases h
  | ok r =>
    obtain ⟨s1, a1⟩ := r
    rw [hf] at h
    simp only at h
    cases hg : g t a1 with
    | error e => rw [hg] at h; cases h
    | ok r2 =>
      obtain ⟨t1, a2⟩ := r2
      rw [hg] at h
      simp only at h
      injection h with h
      injection h with h1 h2
      injection h1 with h3 h4
      subst h2 h3 h4
      exact ⟨a1, rfl, hg⟩

theorem stageOf_inv {σ : Type} {f : DayStep σ} {st st' : σ} {d d' : journal.Day} (h : stageOf f st d = .ok (st', d')) :
    f st d = .ok (st', d', none) := by
  unfold stageOf at h
  rcases hf : f st d with ⟨g', x', _ | e'⟩ | msg | _ <;> rw [hf] at h <;> simp at h
  rw [h.1, h.2]

/-! ### the model's run with the two association lists re-listed before every day -/

/-- lookup-equivalent association lists -/
def Relist (q q' : Knut.AMap Position Rat) : Prop := ∀ p, Knut.AMap.find? q' p = Knut.AMap.find? q p

/-- the model's run in which, before each day, `vQty` (the map `Valuate.DayStart` ranges over) and `cQty` (`CloseAccounts.DayStart`)
are re-listed; without valuation / closing the lists are left alone -/
inductive RunOrd (cfg : BalCfg) : BalState → List Knut.Day → BalState → Prop
  | nil (st : BalState) : RunOrd cfg st [] st
  | cons {st st1 st2 : BalState} {d : Knut.Day} {ds : List Knut.Day} (vq cq : Knut.AMap Position Rat) :
      Relist st.vQty vq → Relist st.cQty cq → (cfg.valuation = none → vq = st.vQty) → (cfg.close = false → cq = st.cQty) →
      Balance.day cfg { st with vQty := vq, cQty := cq } d = .ok st1 → RunOrd cfg st1 ds st2 → RunOrd cfg st (d :: ds) st2

/-- `Balance.run` is the run that re-lists nothing -/
theorem RunOrd_of_run (cfg : BalCfg) : ∀ (days : List Knut.Day) (st st' : BalState),
    days.foldlM (Balance.day cfg) st = .ok st' → RunOrd cfg st days st' := by
  intro days
  induction days with
  | nil => intro st st' h; simp only [List.foldlM_nil, pure, Except.pure] at h; injection h with h; subst h; exact .nil _
  | cons d ds ih =>
    intro st st' h
    simp only [List.foldlM_cons, bind, Except.bind] at h
    cases hd : Balance.day cfg st d with
    | error e => rw [hd] at h; cases h
    | ok st1 =>
      rw [hd] at h
      exact .cons st.vQty st.cQty (fun _ => rfl) (fun _ => rfl) (fun _ => rfl) (fun _ => rfl) hd (ih st1 st' h)

/-- without valuation and closing no map is ranged over: the re-listed run is `Balance.run` -/
theorem run_of_RunOrd (cfg : BalCfg) (hv : cfg.valuation = none) (hc : cfg.close = false) :
    ∀ (days : List Knut.Day) (st st' : BalState), RunOrd cfg st days st' → days.foldlM (Balance.day cfg) st = .ok st' := by
  intro days st st' h
  induction h with
  | nil st => rfl
  | cons vq cq _ _ h1 h2 hd _ ih =>
    rw [h1 hv, h2 hc] at hd
    simp only [List.foldlM_cons, bind, Except.bind]
    rw [hd]
    exact ih

/-! ### the relation between the Go states and the model state -/

/-- the fuel handed to `Prices.Normalize` on a day is at least the model's termination measure -/
def FuelOK (cur : String → Bool) (v : Knut.Commodity) (fuel : journal.ComputePrices.State → journal.Day → Nat) : Prop :=
  ∀ (g : journal.ComputePrices.State) (dg : journal.Day) (graph : Prices.Prices) (norm : Option Prices.NPrices) (d : Knut.Day),
    CPEquiv cur g graph norm → AllRel (PriceRel cur) dg.Prices d.prices →
    ∀ graph', insertPrices graph d.prices = .ok graph' → Prices.unvisited graph' [(v, 1)] + 1 ≤ fuel g dg

/-- what relates the parameters of the Go processors to the model's configuration -/
structure ParOK (cur : String → Bool) (cfg : BalCfg) (P : BalPar) (q : journal.Query) : Prop where
  val : P.val = cfg.valuation.map (cGo cur)
  ext1 : ∀ a : Knut.Account, P.ext1 (accountGo a) = accountGo (valuationAccountFor a)
  part : ∃ part : Knut.Partition, P.part = TransDate.partitionGo part ∧ part.span = cfg.span
  close : P.closeOn = cfg.close
  ord : OrdOK P.ord
  fuel : ∀ v, cfg.valuation = some v → FuelOK cur v P.fuel
  oV : ∀ g dg k, (Knut.AMap.find? g.quantities k).isSome → k ∈ P.oV g dg
  oC : ∀ g dg k, (Knut.AMap.find? g.quantities k).isSome → k ∈ P.oC g dg
  query : PostingOK cfg cur q

/-- the captured states of the six processors stand for the model state -/
structure BalInv (cur : String → Bool) (cfg : BalCfg) (q : journal.Query) (G : FusedState) (st : BalState) : Prop where
  chk : StEquiv cur G.1.1.1.1.1 st.chk
  cp : cfg.valuation.isSome → CPEquiv cur G.1.1.1.1.2 st.graph st.norm
  va : cfg.valuation.isSome → ∃ old, VEquiv cur G.1.1.1.2 st.vPrev old st.vQty
  cl : cfg.close = true → CEquiv cur G.1.2 (cfg.periods.map (·.start)) st.cQty st.cVal
  qu : G.2.query = q
  log : G.2.c.filterMap entryOf = st.entries

/-- the transactions that reach the query stage are booked on accounts that start with a type word (the registry creates no others) -/
def QueryWf (cfg : BalCfg) (d : Knut.Day) : Prop :=
  ∀ (st0 st1 : BalState) (txs : List Knut.Transaction), Balance.dayTxs cfg st0 d = .ok (st1, txs) →
    ∀ t ∈ txs, ∀ p ∈ t.postings, p.account.wf = true

/-! ### model side: the parts of `Balance.day` -/

theorem accumulate_fields (st : BalState) (ts : List Knut.Transaction) :
    Balance.accumulate st ts = { st with cQty := (Balance.accumulate st ts).cQty, cVal := (Balance.accumulate st ts).cVal } := by
  rw [accumulate_eq]
  induction ts generalizing st with
  | nil => rfl
  | cons t rest ih =>
    simp only [List.foldl_cons]
    have hp : ∀ (ps : List Knut.Posting) (s : BalState),
        ps.foldl accPosting s = { s with cQty := (ps.foldl accPosting s).cQty, cVal := (ps.foldl accPosting s).cVal } := by
      intro ps
      induction ps with
      | nil => intro s; rfl
      | cons p ps ihp =>
        intro s
        simp only [List.foldl_cons]
        rw [ihp]
        unfold accPosting
        split <;> rfl
    rw [ih, hp t.postings st]

theorem day_of_parts (cfg : BalCfg) (st0 : BalState) (d : Knut.Day) (c : CheckState) (s2 : BalState) (txs : List Knut.Transaction)
    (h1 : Check.day st0.chk d = .ok c) (h2 : Balance.valuationStage cfg { st0 with chk := c } d = .ok (s2, txs)) :
    Balance.dayTxs cfg st0 d = .ok (Balance.closeStage cfg s2 d (Balance.filterStage cfg d txs)) ∧
    Balance.day cfg st0 d = .ok { (Balance.closeStage cfg s2 d (Balance.filterStage cfg d txs)).1 with
      entries := (Balance.closeStage cfg s2 d (Balance.filterStage cfg d txs)).1.entries ++
        (Balance.closeStage cfg s2 d (Balance.filterStage cfg d txs)).2.flatMap (Balance.queryTx cfg) } := by
  have hx : Balance.dayTxs cfg st0 d = .ok (Balance.closeStage cfg s2 d (Balance.filterStage cfg d txs)) := by
    unfold Balance.dayTxs Balance.checkStage
    simp only [h1, bind, Except.bind, h2]
  refine ⟨hx, ?_⟩
  unfold Balance.day
  simp only [hx, bind, Except.bind]


theorem valuateDay_fields {v : Knut.Commodity} {st s2 : BalState} {d : Knut.Day} {txs : List Knut.Transaction}
    (h : Balance.valuateDay v st d = .ok (s2, txs)) :
    s2.chk = st.chk ∧ s2.graph = st.graph ∧ s2.norm = st.norm ∧ s2.cQty = st.cQty ∧ s2.cVal = st.cVal ∧ s2.entries = st.entries := by
  unfold Balance.valuateDay at h
  simp only [bind, Except.bind] at h
  split at h
  · cases h
  · split at h
    · cases h
    · injection h with h; injection h with h _; subst h; exact ⟨rfl, rfl, rfl, rfl, rfl, rfl⟩

theorem pricesDay_fields {v : Knut.Commodity} {st sp : BalState} {d : Knut.Day} (h : Balance.pricesDay v st d = .ok sp) :
    sp.chk = st.chk ∧ sp.vPrev = st.vPrev ∧ sp.vQty = st.vQty ∧ sp.cQty = st.cQty ∧ sp.cVal = st.cVal ∧ sp.entries = st.entries := by
  rw [pricesDay_eq] at h
  split at h
  · injection h with h; subst h; exact ⟨rfl, rfl, rfl, rfl, rfl, rfl⟩
  · cases h

theorem closeStage_fields (cfg : BalCfg) (s : BalState) (d : Knut.Day) (txs : List Knut.Transaction) :
    (Balance.closeStage cfg s d txs).1 =
      { s with cQty := (Balance.closeStage cfg s d txs).1.cQty, cVal := (Balance.closeStage cfg s d txs).1.cVal } := by
  unfold Balance.closeStage
  by_cases h : cfg.close = true
  · simp only [h, if_true]; exact accumulate_fields _ _
  · simp only [h, Bool.false_eq_true, if_false]

theorem relist_of_QEquiv {cur : String → Bool} {g : amounts.Amounts} {q : Knut.AMap Position Rat} (h : QEquiv cur g q)
    (o : List amounts.Key) (hcov : ∀ k, (Knut.AMap.find? g k).isSome → k ∈ o) : Relist q (qtyIn g o) := by
  intro p
  rw [← (QEquiv_qtyIn h o hcov).lookup, h.lookup]

/-- **stages 2 and 3** (`ComputePrices`, `Valuate`; both nil without valuation) on one day = `Balance.valuationStage`, the model's
`vQty` re-listed in the order `Valuate.DayStart` iterates -/
theorem valuation_segment (cur : String → Bool) (cfg : BalCfg) (P : BalPar) (q : journal.Query) (hP : ParOK cur cfg P q)
    {gp gp' : journal.ComputePrices.State} {gv gv' : journal.Valuate.State} (s1 : BalState)
    (hcp : cfg.valuation.isSome → CPEquiv cur gp s1.graph s1.norm)
    (hva : cfg.valuation.isSome → ∃ old, VEquiv cur gv s1.vPrev old s1.vQty)
    (dg dg2 dg3 : journal.Day) (d : Knut.Day) (hd : DayRel cur dg d)
    (h2 : stPrices P gp dg = .ok (gp', dg2)) (h3 : stValuate P gv dg2 = .ok (gv', dg3)) :
    ∃ vq s2 txs, Relist s1.vQty vq ∧ (cfg.valuation = none → vq = s1.vQty) ∧
      Balance.valuationStage cfg { s1 with vQty := vq } d = .ok (s2, txs) ∧
      (cfg.valuation.isSome → CPEquiv cur gp' s2.graph s2.norm) ∧
      (cfg.valuation.isSome → ∃ old, VEquiv cur gv' s2.vPrev old s2.vQty) ∧
      s2.chk = s1.chk ∧ s2.cQty = s1.cQty ∧ s2.cVal = s1.cVal ∧ s2.entries = s1.entries ∧
      dg3.Date = dg.Date ∧ AllRel (TRel cur) dg3.Transactions txs := by
  have hval := hP.val
  cases hv : cfg.valuation with
  | none =>
    rw [hv] at hval
    simp only [Option.map_none] at hval
    unfold stPrices at h2
    unfold stValuate at h3
    rw [hval] at h2 h3
    simp only [idStage, Except.ok.injEq, Prod.mk.injEq] at h2 h3
    obtain ⟨rfl, rfl⟩ := h2
    obtain ⟨rfl, rfl⟩ := h3
    refine ⟨s1.vQty, s1, d.transactions, fun _ => rfl, fun _ => rfl, ?_, by simp, by simp, rfl, rfl, rfl, rfl, rfl,
      hd.transactions⟩
    unfold Balance.valuationStage
    simp only [hv]
  | some v =>
    rw [hv] at hval
    simp only [Option.map_some] at hval
    unfold stPrices at h2
    unfold stValuate at h3
    rw [hval] at h2 h3
    simp only at h2 h3
    have h2' := stageOf_inv h2
    have h3' := stageOf_inv h3
    have hsome : cfg.valuation.isSome = true := by rw [hv]; rfl
    have hcp0 := hcp hsome
    obtain ⟨old, hve⟩ := hva hsome
    let vq := qtyIn gv.quantities (P.oV gv dg2)
    have A := ComputePrices_day_agrees cur v (P.fuel gp dg) { s1 with vQty := vq } hcp0 dg d hd.prices
      (fun graph' hg => hP.fuel v hv gp dg _ _ d hcp0 hd.prices graph' hg)
    rw [h2'] at A
    cases hpd : Balance.pricesDay v { s1 with vQty := vq } d with
    | error e => rw [hpd] at A; exact absurd A (by simp)
    | ok sp =>
      rw [hpd] at A
      simp only at A
      obtain ⟨hcp1, hdg2, hvp, hvq⟩ := A
      have hve' : VEquiv cur gv sp.vPrev old s1.vQty := by rw [hvp]; exact hve
      have hn : NPEquivO cur dg2.Normalized sp.norm := by rw [hdg2]; exact hcp1.previous
      have hd2 : dg2.Date = d.date := by rw [hdg2]; exact hd.date
      have htx2 : AllRel (TRel cur) dg2.Transactions d.transactions := by rw [hdg2]; exact hd.transactions
      have B := Valuate_day_agrees cur v P.ext1 hP.ext1 sp hve' (P.oV gv dg2) (hP.oV gv dg2) dg2 d hd2 hn htx2
      have esp : ({ sp with vQty := qtyIn gv.quantities (P.oV gv dg2) } : BalState) = sp := by
        have : sp.vQty = vq := hvq
        cases sp
        simp only at this
        subst this
        rfl
      rw [esp, h3'] at B
      cases hvd : Balance.valuateDay v sp d with
      | error e => rw [hvd] at B; exact absurd B (by simp)
      | ok r =>
        obtain ⟨s2, txs⟩ := r
        rw [hvd] at B
        simp only at B
        obtain ⟨hv2, l, hdg3, hl⟩ := B
        obtain ⟨f1, f2, f3, f4, f5, f6⟩ := valuateDay_fields hvd
        obtain ⟨p1, _, _, p4, p5, p6⟩ := pricesDay_fields hpd
        refine ⟨vq, s2, txs, relist_of_QEquiv hve.qty _ (hP.oV gv dg2), fun h => by simp at h, ?_, ?_, ?_, ?_, ?_, ?_, ?_, ?_, ?_⟩
        · unfold Balance.valuationStage
          simp only [hv, bind, Except.bind, hpd, hvd]
        · intro _; rw [f2, f3]; exact hcp1
        · intro _; exact ⟨sp.norm, hv2⟩
        · rw [f1, p1]
        · rw [f4, p4]
        · rw [f5, p5]
        · rw [f6, p6]
        · rw [hdg3, hdg2]
        · rw [hdg3]; exact hl

/-- **stage 5** (`CloseAccounts`; nil without `--close`) on one day = `Balance.closeStage`, for a model state whose `cQty` is listed in
the order `CloseAccounts.DayStart` iterates -/
theorem close_segment (cur : String → Bool) (cfg : BalCfg) (P : BalPar) (q : journal.Query) (hP : ParOK cur cfg P q)
    {gc gc' : journal.CloseAccounts.State} (s2 : BalState) {q0 : Knut.AMap Position Rat}
    (hcl : cfg.close = true → CEquiv cur gc (cfg.periods.map (·.start)) q0 s2.cVal)
    (dg4 dg5 : journal.Day) (d : Knut.Day) (hd : dg4.Date = d.date) (txs : List Knut.Transaction)
    (htx : AllRel (TRel cur) dg4.Transactions txs)
    (hs : cfg.close = true → s2.cQty = qtyIn gc.quantities (P.oC gc dg4))
    (h5 : stClose P gc dg4 = .ok (gc', dg5)) :
    (cfg.close = true → CEquiv cur gc' (cfg.periods.map (·.start)) (Balance.closeStage cfg s2 d txs).1.cQty
      (Balance.closeStage cfg s2 d txs).1.cVal) ∧
    dg5.Date = dg4.Date ∧ AllRel (TRel cur) dg5.Transactions (Balance.closeStage cfg s2 d txs).2 := by
  unfold stClose at h5
  rw [hP.close] at h5
  by_cases hc : cfg.close = true
  · simp only [hc, if_true] at h5
    have h5' := stageOf_inv h5
    obtain ⟨g', l, hgo, hl, hce⟩ := CloseAccounts_day_agrees cur cfg hc s2 (hcl hc) (P.oC gc dg4) (hP.oC gc dg4) dg4 d hd txs htx
    have esp : ({ s2 with cQty := qtyIn gc.quantities (P.oC gc dg4) } : BalState) = s2 := by
      have := hs hc
      cases s2
      simp only at this
      subst this
      rfl
    rw [esp] at hl hce
    rw [h5'] at hgo
    injection hgo with hgo
    injection hgo with e1 e2
    injection e2 with e2 _
    subst e1 e2
    exact ⟨fun _ => hce, rfl, hl⟩
  · simp only [hc, Bool.false_eq_true, if_false, idStage, Except.ok.injEq, Prod.mk.injEq] at h5
    obtain ⟨rfl, rfl⟩ := h5
    have hc' : cfg.close = false := by simpa using hc
    refine ⟨fun h => absurd h hc, rfl, ?_⟩
    unfold Balance.closeStage
    simp only [hc', Bool.false_eq_true, if_false]
    exact htx

/-- **one day through the six translated stages = `Balance.day`** of the model, from the state whose `vQty` / `cQty` are re-listed in the
orders `Valuate.DayStart` / `CloseAccounts.DayStart` iterate: when the Go stages succeed the model's day succeeds and the new states
are related again -/
theorem balance_day_agrees (cur : String → Bool) (cfg : BalCfg) (P : BalPar) (q : journal.Query) (hP : ParOK cur cfg P q)
    {G G' : FusedState} {st : BalState} (hI : BalInv cur cfg q G st)
    (dg dg' : journal.Day) (d : Knut.Day) (hd : DayRel cur dg d) (hwf : QueryWf cfg d)
    (hgo : fusedBalance P G dg = .ok (G', dg')) :
    ∃ vq cq st1, Relist st.vQty vq ∧ Relist st.cQty cq ∧ (cfg.valuation = none → vq = st.vQty) ∧ (cfg.close = false → cq = st.cQty) ∧
      Balance.day cfg { st with vQty := vq, cQty := cq } d = .ok st1 ∧ BalInv cur cfg q G' st1 := by
  obtain ⟨⟨⟨⟨⟨g1, g2⟩, g3⟩, g4⟩, g5⟩, g6⟩ := G
  obtain ⟨⟨⟨⟨⟨g1', g2'⟩, g3'⟩, g4'⟩, g5'⟩, g6'⟩ := G'
  unfold fusedBalance at hgo
  obtain ⟨dg5, h15, h6⟩ := fuse_ok hgo
  obtain ⟨dg4, h14, h5⟩ := fuse_ok h15
  obtain ⟨dg3, h13, h4⟩ := fuse_ok h14
  obtain ⟨dg2, h12, h3⟩ := fuse_ok h13
  obtain ⟨dg1, h1, h2⟩ := fuse_ok h12
  -- stage 1: check
  have C := Check_day_agrees cur hP.ord hI.chk dg d hd
  unfold stCheck at h1
  rw [stageOf_inv h1] at C
  cases hc : Check.day st.chk d with
  | error e => rw [hc] at C; exact absurd C (by simp [SimStep])
  | ok c =>
    rw [hc] at C
    simp only [SimStep] at C
    obtain ⟨hchk, hdg1⟩ := C
    subst hdg1
    -- the re-listed `cQty`
    have hrelc : ∃ cq, Relist st.cQty cq ∧ (cfg.close = false → cq = st.cQty) ∧
        (cfg.close = true → cq = qtyIn g5.quantities (P.oC g5 dg4)) := by
      by_cases hcl : cfg.close = true
      · have hne : cfg.close = false → qtyIn g5.quantities (P.oC g5 dg4) = st.cQty := fun h => by rw [hcl] at h; cases h
        exact ⟨qtyIn g5.quantities (P.oC g5 dg4), ⟨relist_of_QEquiv (hI.cl hcl).qty _ (hP.oC g5 dg4), ⟨hne, fun _ => rfl⟩⟩⟩
      · exact ⟨st.cQty, fun _ => rfl, fun _ => rfl, fun h => absurd h hcl⟩
    obtain ⟨cq, hrc, hcn, hcy⟩ := hrelc
    -- stages 2, 3
    obtain ⟨vq, s2, txs, hrelv, hvn, hvs, hcp', hva', e1, e2, e3, e4, hdate3, htx3⟩ :=
      valuation_segment cur cfg P q hP { st with chk := c, cQty := cq } hI.cp hI.va dg1 dg2 dg3 d hd h2 h3
    -- stage 4: filter
    obtain ⟨part, hpart, hspan⟩ := hP.part
    obtain ⟨l4, hf, htx4⟩ := Filter_day_agrees cur cfg part hspan g4 dg3 d (by rw [hdate3]; exact hd.date) txs htx3
    unfold stFilter at h4
    rw [hpart] at h4
    have h4' := stageOf_inv h4
    rw [hf] at h4'
    injection h4' with h4'
    injection h4' with e41 e42
    injection e42 with e42 _
    subst e41 e42
    -- stage 5: close
    obtain ⟨hce, hdate5, htx5⟩ := close_segment cur cfg P q hP s2
      (q0 := st.cQty) (fun h => by rw [e3]; exact hI.cl h)
      { dg3 with Transactions := l4 } dg5 d (by show dg3.Date = d.date; rw [hdate3]; exact hd.date)
      (Balance.filterStage cfg d txs) htx4 (fun h => by rw [e2]; exact hcy h) h5
    -- the model's day
    have hx := day_of_parts cfg { st with vQty := vq, cQty := cq } d c s2 txs hc hvs
    -- stage 6: query
    obtain ⟨g6'', hq6, hqq, hlog⟩ := query_day_model hP.query g6 hI.qu dg5 _ htx5 (hwf _ _ _ hx.1)
    unfold stQuery at h6
    have h6' := stageOf_inv h6
    rw [hq6] at h6'
    injection h6' with h6'
    injection h6' with e61 e62
    subst e61
    have hfld := closeStage_fields cfg s2 d (Balance.filterStage cfg d txs)
    refine ⟨vq, cq, _, hrelv, hrc, hvn, hcn, hx.2, ?_⟩
    refine ⟨?_, ?_, ?_, ?_, hqq, ?_⟩
    · show StEquiv cur g1' (Balance.closeStage cfg s2 d (Balance.filterStage cfg d txs)).1.chk
      rw [hfld]; show StEquiv cur g1' s2.chk; rw [e1]; exact hchk
    · intro h
      show CPEquiv cur g2' (Balance.closeStage cfg s2 d (Balance.filterStage cfg d txs)).1.graph
        (Balance.closeStage cfg s2 d (Balance.filterStage cfg d txs)).1.norm
      rw [hfld]; exact hcp' h
    · intro h
      show ∃ old, VEquiv cur g3' (Balance.closeStage cfg s2 d (Balance.filterStage cfg d txs)).1.vPrev old
        (Balance.closeStage cfg s2 d (Balance.filterStage cfg d txs)).1.vQty
      rw [hfld]; exact hva' h
    · intro h; exact hce h
    · show g6''.c.filterMap entryOf = (Balance.closeStage cfg s2 d (Balance.filterStage cfg d txs)).1.entries ++ _
      rw [hlog, hI.log, hfld]
      show st.entries ++ _ = s2.entries ++ _
      rw [e4]

/-- the days of a Go journal stand for the days of the model's journal -/
abbrev DaysRel (cur : String → Bool) (gdays : List journal.Day) (days : List Knut.Day) : Prop := AllRel (DayRel cur) gdays days

/-- **the whole journal, by induction over the days** -/
theorem balance_runDays_agrees (cur : String → Bool) (cfg : BalCfg) (P : BalPar) (q : journal.Query) (hP : ParOK cur cfg P q) :
    ∀ (days : List Knut.Day) (gdays : List journal.Day), DaysRel cur gdays days → (∀ d ∈ days, QueryWf cfg d) →
      ∀ (G G' : FusedState) (st : BalState) (out : List journal.Day), BalInv cur cfg q G st →
        runDays (fusedBalance P) G gdays = .ok (G', out) → ∃ st', RunOrd cfg st days st' ∧ BalInv cur cfg q G' st' := by
  intro days gdays hrel
  induction hrel with
  | nil =>
    intro _ G G' st out hI h
    simp only [runDays] at h
    injection h with h; injection h with h _; subst h
    exact ⟨st, .nil _, hI⟩
  | @cons dg d gds ds hd _ ih =>
    intro hwf G G' st out hI h
    simp only [runDays] at h
    cases hf : fusedBalance P G dg with
    | error e => rw [hf] at h; cases h
    | ok r =>
      obtain ⟨G1, dg'⟩ := r
      rw [hf] at h
      simp only at h
      cases hr : runDays (fusedBalance P) G1 gds with
      | error e => rw [hr] at h; cases h
      | ok r2 =>
        obtain ⟨G2, l'⟩ := r2
        rw [hr] at h
        simp only at h
        injection h with h; injection h with h _; subst h
        obtain ⟨vq, cq, st1, r1, r2, r3, r4, hday, hI1⟩ :=
          balance_day_agrees cur cfg P q hP hI dg dg' d hd (hwf d List.mem_cons_self) hf
        obtain ⟨st', hrun, hI'⟩ := ih (fun d' hd' => hwf d' (List.mem_cons_of_mem _ hd')) G1 G2 st1 l' hI1 hr
        exact ⟨st', .cons vq cq r1 r2 r3 r4 hday hrun, hI'⟩

/-- **`Journal.Process` of `knut balance` over a whole journal = the model's run** (`Balance.run`, its two association lists re-listed
before each day in the order Go iterates: `RunOrd`): whenever the sequential run of the six translated stages succeeds — for EVERY
admissible family of iteration orders and fuels (`ParOK`) — the model's run succeeds on the days the Go days stand for, and the final
captured states stand for the model's final state; in particular the entries `Report.Insert` keeps of the log of `Query.Into` are
`st.entries`.  PARTIAL in the direction only: that the Go run fails whenever the model's does is not composed over the journal (the
per-day theorems state it). -/
theorem processAllBalance_agrees_partial (cur : String → Bool) (cfg : BalCfg) (P : BalPar) (q : journal.Query) (hP : ParOK cur cfg P q)
    (G0 : BalGo) (hinit : BalInv cur cfg q (fusedInit G0) {}) (gdays : List journal.Day) (days : List Knut.Day)
    (hdays : DaysRel cur gdays days) (hwf : ∀ d ∈ days, QueryWf cfg d) (out : List journal.Day)
    (h : processAllBalance P G0 gdays = some out) :
    ∃ G' st, runDays (fusedBalance P) (fusedInit G0) gdays = .ok (G', out) ∧ RunOrd cfg {} days st ∧ BalInv cur cfg q G' st ∧
      G'.2.c.filterMap entryOf = st.entries := by
  rw [processAllBalance_eq] at h
  obtain ⟨G', hr⟩ := runDays_of_seqStage h
  obtain ⟨st, hrun, hI⟩ := balance_runDays_agrees cur cfg P q hP days gdays hdays hwf _ G' {} out hinit hr
  exact ⟨G', st, hr, hrun, hI, hI.log⟩

/-- the states the six constructors start from stand for the model's initial state -/
theorem BalInv_init (cur : String → Bool) (cfg : BalCfg) (q : journal.Query) (gf : journal.Filter.State)
    (gc : journal.CloseAccounts.State) (hgc : cfg.close = true → CEquiv cur gc (cfg.periods.map (·.start)) [] []) :
    BalInv cur cfg q (fusedInit ⟨checkInit, ⟨GoZero.zero, []⟩, ⟨GoZero.zero, GoZero.zero, []⟩, gf, gc, { query := q, c := [] }⟩) {} :=
  ⟨checkInit_equiv cur, fun _ => ⟨TransPrice.PEquivS_nil cur, NPEquivO_nil cur⟩,
    fun _ => ⟨none, NPEquivO_nil cur, NPEquivO_nil cur, QEquiv_nil cur⟩, hgc, rfl, rfl⟩

end Knut.FactsAgree.TransProcessAll
