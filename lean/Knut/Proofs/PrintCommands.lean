import Knut.Proofs.PrintLoaded
import Knut.Properties.C05Valued
import Knut.Properties.C05Verdict
/-!
# `knut print`, `check` and `balance` on a printed journal (C09, command level)

`printFile` is `printRunner.execute` for a journal that is one file: load (parser model, elaboration), build, check,
print. The reloaded journal differs from the original only in the order of the transactions within a day
(`rebuild`), so the checker's verdict (C05 machinery: `verdict_perm`) and every balance report, valued or not
(`entries_core_valued`), are the same; the price directives of a day keep their order, hence no restriction on prices.
-/
namespace Knut.FromSyntax
open Knut Knut.JournalPrinter Knut.Utf8 Knut.Spec Knut.InsertsPerm Knut.InsertsPermValued Knut.C05

/-- `knut print` on a journal consisting of one file (no includes) -/
def printFile (path : String) (text : List UInt8) : CmdOutcome :=
  match loadText path text with
  | .error => .error "loading"
  | .panic s => .panic s
  | .ok ds =>
    match Check.run (Builder.ofList ds).build with
    | .error _ => .error "processing"
    | .ok _ => .ok (print (Builder.ofList ds).build)

theorem dayEquiv_normDay (d : Day) : DayEquiv d (normDay d) :=
  ⟨rfl, List.Perm.refl _, (List.mergeSort_perm d.transactions _).symm, List.Perm.refl _, List.Perm.refl _⟩

theorem forall₂_normDays (R : Day → Day → Prop) (h : ∀ d, R d (normDay d)) : ∀ (j : List Day), List.Forall₂ R j (j.map normDay)
  | [] => .nil
  | d :: rest => .cons (h d) (forall₂_normDays R h rest)

/-- the checker does not distinguish a journal from its sorted form -/
theorem check_normDays (j : List Day) : (Check.run (j.map normDay)).isOk = (Check.run j).isOk := by
  rw [C04.C04_accept_iff_strict, C04.C04_accept_iff_strict]
  exact (verdict_perm true _ _ (forall₂_normDays DayEquiv dayEquiv_normDay j)).symm

/-- **`knut print` reproduces its own output**: on the printed text of an accepted printable journal the command prints
that text -/
theorem printFile_fixpoint (path : String) (j : List Day) (hp : PrintableJournal j) (hacc : (Check.run j).isOk = true) :
    printFile path (strBytes (print j)) = .ok (print j) := by
  unfold printFile
  rw [load_print path j hp.dirs]
  simp only
  have h1 := check_normDays j
  rw [hacc, ← rebuild j hp.shape] at h1
  cases hc : Check.run (Builder.ofList (journalDirs j)).build with
  | error e => rw [hc] at h1; cases h1
  | ok st =>
    simp only
    rw [rebuild j hp.shape, print_normDays]

/-- printable transactions book on accounts with an account type -/
theorem dirsWF_of_printable (ds : List Directive) (h : ∀ x ∈ ds, PrintableDir x) : DirsWF ds := by
  intro t ht p hp
  obtain ⟨_, _, _, hps, hnf, _⟩ := h _ ht
  rw [hnf] at hp
  obtain ⟨q, hq, hp⟩ := List.mem_flatMap.mp hp
  have h1 := (hps q hq).1
  have h2 := (hps q hq).2.1
  simp only [PrintableAccount, Bool.and_eq_true] at h1 h2
  simp only [postingBuild, List.mem_cons, List.not_mem_nil, or_false] at hp
  rcases hp with rfl | rfl <;> simp only <;> split <;> simp [h1.1, h2.1]

/-- the entries stage of `knut balance` for two directive lists whose journals correspond day by day -/
theorem entries_equiv (f : BalanceFlags) (ds ds' : List Directive) (hp : ds.Perm ds') (hwf : DirsWF ds)
    (hdays : List.Forall₂ DayEquivP (Builder.ofList ds).build (Builder.ofList ds').build) :
    match BalanceCmd.entries f ds, BalanceCmd.entries f ds' with
    | .ok (es, part), .ok (es', part') => es.Perm es' ∧ part = part' ∧ ReportPerm.WF es
    | .error o, .error o' => o = o'
    | _, _ => False := by
  have hwin : BalanceCmd.window f (Builder.ofList ds) = BalanceCmd.window f (Builder.ofList ds') := by
    unfold BalanceCmd.window
    rw [(builder_period ds).1, (builder_period ds').1, (builder_period ds).2, (builder_period ds').2,
      (C05_journal_period_perm ds ds' hp).1, (C05_journal_period_perm ds ds' hp).2]
  unfold BalanceCmd.entries
  simp only [hwin]
  cases newPartition (BalanceCmd.window f (Builder.ofList ds')) f.interval f.last with
  | panic s => simp only
  | ok part =>
    simp only
    have heq : List.Forall₂ DayEquivP
        (if f.close = true then (Builder.ofList ds).ensureDays part.startDates else Builder.ofList ds).build
        (if f.close = true then (Builder.ofList ds').ensureDays part.startDates else Builder.ofList ds').build := by
      split
      · exact ensureDays_equivP _ hdays
      · exact hdays
    have hw : ∀ d ∈ (if f.close = true then (Builder.ofList ds).ensureDays part.startDates else Builder.ofList ds).build,
        TxsWF d.transactions := by
      intro d hd
      split at hd
      · rcases ensureDays_txs _ hd with h | h
        · exact built_wf hwf d h
        · rw [h]; intro t ht; cases ht
      · exact built_wf hwf d hd
    exact entries_core_valued _ _ _ heq hw part

/-- `knut balance`, any flags, valued or not, on two directive lists whose journals correspond day by day -/
theorem balance_equiv (f : BalanceFlags) (ds ds' : List Directive) (hp : ds.Perm ds') (hwf : DirsWF ds)
    (hdays : List.Forall₂ DayEquivP (Builder.ofList ds).build (Builder.ofList ds').build) :
    BalanceCmd.run f ds = BalanceCmd.run f ds' := by
  have := entries_equiv f ds ds' hp hwf hdays
  unfold BalanceCmd.run
  cases h1 : BalanceCmd.entries f ds with
  | error o =>
    cases h2 : BalanceCmd.entries f ds' with
    | error o' => rw [h1, h2] at this; simp only at this ⊢; exact this
    | ok r => rw [h1, h2] at this; exact this.elim
  | ok r =>
    cases h2 : BalanceCmd.entries f ds' with
    | error o' => rw [h1, h2] at this; exact this.elim
    | ok r' =>
      obtain ⟨es, part⟩ := r
      obtain ⟨es', part'⟩ := r'
      rw [h1, h2] at this
      simp only at this ⊢
      obtain ⟨hperm, hpart, hw⟩ := this
      subst hpart
      rw [ReportPerm.table_perm_wf _ es es' hperm hw]

/-- the directives `journal.Print` writes for the journal built from `ds` -/
def printedDirs (ds : List Directive) : List Directive := journalDirs (Builder.ofList ds).build

/-- **every balance report of the printed journal equals the one of the original**, any flags, valued or not -/
theorem balance_printed (f : BalanceFlags) (ds : List Directive) (h : ∀ x ∈ ds, PrintableDir x) :
    BalanceCmd.run f (printedDirs ds) = BalanceCmd.run f ds := by
  have hsh := built_shape ds
  apply (balance_equiv f ds (printedDirs ds) (journalDirs_built_perm ds).symm (dirsWF_of_printable ds h) ?_).symm
  unfold printedDirs
  rw [rebuild _ hsh]
  exact forall₂_normDays DayEquivP (fun d => dayEquivP_of_eq (dayEquiv_normDay d) rfl) _

end Knut.FromSyntax
