import Knut.Model.Import.Accounts
/-!
# Broker importers: `ch.swissquote`, `us.interactivebrokers`
-/
namespace Knut.Import
open Knut

/-! ## `ch.swissquote` (cmd/importer/swissquote) -/
namespace Swissquote

/-- the accounts given by flags -/
structure Accts where
  account : Account
  dividend : Account
  tax : Account
  fee : Account
  interest : Account
  trading : Account
  deriving Repr

/-- `record` -/
structure Row where
  date : Int
  orderNo : String
  trxType : String
  name : String
  isin : String
  symbol : Option Commodity
  quantity : Rat
  price : Rat
  fee : Rat
  interest : Rat
  net : Rat
  balance : Rat
  currency : Commodity
  deriving Repr

/-- `lineToRecord` -/
def toRow (l : Rec) : Res Row := do
  let d ← parseDatePrefix10 layoutDMYdash (fldD l 0)
  let sym ← (if (fldD l 3).utf8ByteSize > 0 then (getCommodity (fldD l 3)).bind (fun c => .ok (some c)) else .ok none)
  let quantity ← Res.ofOption (parseDecimalApos (fldD l 6))
  let price ← Res.ofOption (parseDecimalApos (fldD l 7))
  let fee ← Res.ofOption (parseDecimalApos (fldD l 8))
  let interest ← Res.ofOption (parseDecimalApos (fldD l 9))
  let net ← Res.ofOption (parseDecimalApos (fldD l 10))
  let balance ← Res.ofOption (parseDecimalApos (fldD l 11))
  let currency ← getCommodity (fldD l 12)
  pure { date := d, orderNo := fldD l 1, trxType := fldD l 2, name := fldD l 4, isin := fldD l 5, symbol := sym,
         quantity, price, fee, interest, net, balance, currency }

def forexTypes : List String := ["Forex-Gutschrift", "Forex-Belastung", "Fx-Gutschrift Comp.", "Fx-Belastung Comp."]
def dividendTypes : List String := ["Capital Gain", "Kapitalrückzahlung", "Dividende"]
def transferTypes : List String := ["Einzahlung", "Auszahlung", "Vergütung", "Belastung"]

/-- `readLine` after `lineToRecord`; state = the pending first half of a forex pair -/
def step (a : Accts) (last : Option Row) (r : Row) : Res (Option Row × List Directive) :=
  if r.trxType = "Kauf" || r.trxType = "Verkauf" then
    -- parseTrade (`r.symbol.Name()` on a nil symbol panics)
    match r.symbol with
    | none => .panic
    | some sym =>
      let proceeds := r.net + r.fee
      let qty := if r.trxType = "Verkauf" then -r.quantity else r.quantity
      let desc := joinWith " " [r.orderNo, r.trxType, decStr r.quantity, "x", sym, r.name, r.isin, "@", decStr r.price, r.currency]
      .ok (last, [mkTx r.date desc
        [⟨a.trading, a.account, sym, qty⟩, ⟨a.trading, a.account, r.currency, proceeds⟩, ⟨a.fee, a.account, r.currency, -r.fee⟩]
        (some [sym, r.currency])])
  else if forexTypes.contains r.trxType then
    -- parseForex
    match last with
    | none => .ok (some r, [])
    | some l =>
      let desc := joinWith " " [l.trxType, decStr l.net, l.currency, "/", r.trxType, decStr r.net, r.currency]
      .ok (none, [mkTx r.date desc
        [⟨a.trading, a.account, l.currency, l.net⟩, ⟨a.trading, a.account, r.currency, r.net⟩]
        (some [l.currency, r.currency])])
  else if last.isSome then .error
  else if dividendTypes.contains r.trxType then
    match r.symbol with
    | none => .panic
    | some sym =>
      let ps : List PB := ⟨a.dividend, a.account, r.currency, r.price⟩ ::
        (if r.fee = 0 then [] else [⟨a.account, a.tax, r.currency, r.fee⟩])
      .ok (none, [mkTx r.date (joinWith " " [r.trxType, sym, r.name, r.isin]) ps (some [sym])])
  else if r.trxType = "Depotgebühren" then
    .ok (none, [mkTx r.date r.trxType [⟨a.fee, a.account, r.currency, r.net⟩] (some [])])
  else if transferTypes.contains r.trxType then
    .ok (none, [mkTx r.date r.trxType [⟨tbd, a.account, r.currency, r.net⟩]])
  else if r.trxType = "Zins" then
    .ok (none, [mkTx r.date r.trxType [⟨a.interest, a.account, r.currency, r.net⟩] (some [r.currency])])
  else
    .ok (none, [mkTx r.date r.trxType [⟨tbd, a.account, r.currency, r.net⟩]])

def rows (a : Accts) : Option Row → List Rec → Res (List Directive)
  | _, [] => .ok []          -- a pending forex half is dropped silently at the end of the file
  | last, l :: ls =>
    if l.length ≠ 13 then .error else do
    let r ← toRow l
    let (last', ds) ← step a last r
    let ds' ← rows a last' ls
    pure (ds ++ ds')

def run (a : Accts) : List Rec → Res (List Directive)
  | [] => .error
  | h :: ls => if h.length ≠ 13 then .error else rows a none ls

end Swissquote

/-! ## `us.interactivebrokers` (cmd/importer/interactivebrokers) -/
namespace IB

/-- `r[i₁] == s₁ && r[i₂] == s₂ && …` with Go's short-circuit evaluation (an index out of range panics) -/
def condEq (r : Rec) : List (Nat × String) → Res Bool
  | [] => .ok true
  | (i, s) :: rest => (fld r i).bind (fun v => if v = s then condEq r rest else .ok false)

/-- `strings.Split(s, sep)` on characters -/
def splitOnChars (sep : List Char) (cs : List Char) : List (List Char) :=
  let rec go (fuel : Nat) (cur : List Char) (cs : List Char) : List (List Char) :=
    match fuel with
    | 0 => [cur.reverse ++ cs]
    | fuel + 1 =>
      match cs with
      | [] => [cur.reverse]
      | c :: rest =>
        match stripPrefix (c :: rest) sep with
        | some r => if sep.isEmpty then go fuel (c :: cur) rest else cur.reverse :: go fuel [] r
        | none => go fuel (c :: cur) rest
  go (cs.length + 1) [] cs

/-- `parseRoundedDecimal` -/
def rounded (s : String) : Res Rat := (Res.ofOption (parseDecimalComma s)).bind (fun a => .ok (Dec.roundHalfAway 2 a))

structure St where
  base : Option Commodity := none
  dateTo : Int := 0
  deriving Repr

def hasPrefix (s p : String) : Bool := (stripPrefix s.toList p.toList).isSome

/-- `Buy q S @ p C` / `Sell q S @ p C` -/
def tradeDesc (qty : Rat) (stock : Commodity) (price : Rat) (cur : Commodity) : String :=
  joinWith " " [if 0 < qty then "Buy" else "Sell", decStr qty, stock, "@", decStr price, cur]

/-- the accounts given by flags -/
abbrev Accts := Swissquote.Accts

/-- `r[0] == sec && r[1] == "Data" && r[2] != "Total" && r[3] != ""` -/
def condDeposit (r : Rec) : Res Bool :=
  (condEq r [(0, "Deposits & Withdrawals"), (1, "Data")]).bind (fun b =>
    if !b then .ok false else
    (fld r 2).bind (fun c => if c = "Total" then .ok false else (fld r 3).bind (fun d => .ok (d != ""))))

/-- `r[0] == sec && r[1] == "Data" && !strings.HasPrefix(r[2], "Total")` -/
def condSection (sec : String) (r : Rec) : Res Bool :=
  (condEq r [(0, sec), (1, "Data")]).bind (fun b =>
    if !b then .ok false else (fld r 2).bind (fun c => .ok (!hasPrefix c "Total")))

/-- result of one of `readLine`'s parsers: `some` = the record was handled (new state, directives added) -/
abbrev Out := Option (St × List Directive)

/-- `parseBaseCurrency` -/
def parseBaseCurrency (st : St) (r : Rec) : Res Out := do
  let b ← condEq r [(0, "Account Information"), (1, "Data"), (2, "Base Currency")]
  if !b then pure none else do
  let v ← fld r 3
  let c ← getCommodity v
  pure (some ({ st with base := some c }, []))

/-- `parseDate`: `Statement,Data,Period,"<from> - <to>"` -/
def parsePeriod (st : St) (r : Rec) : Res Out := do
  let b ← condEq r [(0, "Statement"), (1, "Data"), (2, "Period")]
  if !b then pure none else do
  let v ← fld r 3
  let parts := (splitOnChars " - ".toList v.toList).map String.ofList
  let d0 ← fld parts 0
  let _ ← Res.ofOption (parseDate layoutLong d0)
  let d1 ← fld parts 1
  let dateTo ← Res.ofOption (parseDate layoutLong d1)
  pure (some ({ st with dateTo := dateTo }, []))

/-- `parseForex` -/
def parseForex (a : Accts) (st : St) (r : Rec) : Res Out := do
  let b ← condEq r [(0, "Trades"), (1, "Data"), (2, "Order"), (3, "Forex")]
  if !b then pure none else
  match st.base with
  | none => .error
  | some base => do
    let cur ← (fld r 4).bind getCommodity
    let sym ← fld r 5
    let stock ← getCommodity (String.ofList ((sym.toList).takeWhile (· != '.')))
    let d ← (fld r 6).bind (parseDatePrefix10 layoutYMD)
    let qty ← (fld r 7).bind rounded
    let price ← (fld r 8).bind (fun s => Res.ofOption (parseDecimalComma s))
    let proceeds ← (fld r 10).bind rounded
    let fee ← (fld r 11).bind rounded
    let ps : List PB := [⟨a.trading, a.account, stock, qty⟩, ⟨a.trading, a.account, cur, proceeds⟩] ++
      (if fee = 0 then [] else [⟨a.fee, a.account, base, fee⟩])
    pure (some (st, [mkTx d (tradeDesc qty stock price cur) ps (some [stock, cur])]))

/-- `parseTrade` -/
def parseTrade (a : Accts) (st : St) (r : Rec) : Res Out := do
  let b ← condEq r [(0, "Trades"), (1, "Data"), (2, "Order"), (3, "Stocks")]
  if !b then pure none else do
  let cur ← (fld r 4).bind getCommodity
  let stock ← (fld r 5).bind getCommodity
  let d ← (fld r 6).bind (parseDatePrefix10 layoutYMD)
  let qty ← (fld r 7).bind rounded
  let price ← (fld r 8).bind (fun s => Res.ofOption (parseDecimalComma s))
  let proceeds ← (fld r 10).bind rounded
  let fee ← (fld r 11).bind (fun s => Res.ofOption (newFromString s))
  pure (some (st, [mkTx d (tradeDesc qty stock price cur)
    [⟨a.trading, a.account, stock, qty⟩, ⟨a.trading, a.account, cur, proceeds⟩, ⟨a.fee, a.account, cur, fee⟩]
    (some [stock, cur])]))

/-- `parseDepositOrWithdrawal` -/
def parseDeposit (a : Accts) (st : St) (r : Rec) : Res Out := do
  let b ← condDeposit r
  if !b then pure none else do
  let cur ← (fld r 2).bind getCommodity
  let d ← (fld r 3).bind (fun s => Res.ofOption (parseDate layoutYMD s))
  let q ← (fld r 5).bind rounded
  let desc := joinWith " " [if 0 < q then "Deposit" else "Withdraw", decStr q, cur]
  pure (some (st, [mkTx d desc [⟨tbd, a.account, cur, q⟩]]))

/-- `parseDividend` -/
def parseDividend (a : Accts) (st : St) (r : Rec) : Res Out := do
  let b ← condSection "Dividends" r
  if !(b && r.length == 6) then pure none else do
  let cur ← (fld r 2).bind getCommodity
  let d ← (fld r 3).bind (fun s => Res.ofOption (parseDate layoutYMD s))
  let q ← (fld r 5).bind (fun s => Res.ofOption (parseDecimalComma s))
  let desc ← fld r 4
  let sym := firstAlnumRun desc
  if sym = "" then .error else
  pure (some (st, [mkTx d desc [⟨a.dividend, a.account, cur, q⟩] (some [sym])]))

/-- `parseInterest` -/
def parseInterest (a : Accts) (st : St) (r : Rec) : Res Out := do
  let b ← condSection "Interest" r
  if !(b && r.length == 6) then pure none else do
  let cur ← (fld r 2).bind getCommodity
  let d ← (fld r 3).bind (fun s => Res.ofOption (parseDate layoutYMD s))
  let q ← (fld r 5).bind (fun s => Res.ofOption (parseDecimalComma s))
  let desc ← fld r 4
  pure (some (st, [mkTx d desc [⟨a.interest, a.account, cur, q⟩] (some [cur])]))

/-- `parseWithholdingTax` -/
def parseWithholdingTax (a : Accts) (st : St) (r : Rec) : Res Out := do
  let b ← condSection "Withholding Tax" r
  if !b then pure none else do
  let desc ← fld r 4
  let cur ← (fld r 2).bind getCommodity
  let d ← (fld r 3).bind (fun s => Res.ofOption (parseDate layoutYMD s))
  let q ← (fld r 5).bind (fun s => Res.ofOption (parseDecimalComma s))
  let sym := firstAlnumRun desc
  if sym = "" then .error else
  pure (some (st, [mkTx d desc [⟨a.tax, a.account, cur, q⟩] (some [sym])]))

/-- `createAssertions`: open positions at the end of the period -/
def createAssertions (a : Accts) (st : St) (r : Rec) : Res Out := do
  let b ← condEq r [(0, "Open Positions"), (1, "Data"), (2, "Summary")]
  if !b then pure none else
  if st.dateTo = 0 then .error else do
  let sym ← (fld r 5).bind getCommodity
  let q ← (fld r 6).bind (fun s => Res.ofOption (newFromString s))
  pure (some (st, [.assertion { date := st.dateTo, balances := [⟨a.account, q, sym⟩] }]))

/-- `createCurrencyAssertions`: forex balances at the end of the period -/
def createCurrencyAssertions (a : Accts) (st : St) (r : Rec) : Res Out := do
  let b ← condEq r [(0, "Forex Balances"), (1, "Data"), (2, "Forex")]
  if !b then pure none else
  if st.dateTo = 0 then .error else do
  let sym ← (fld r 4).bind getCommodity
  let q ← (fld r 5).bind rounded
  pure (some (st, [.assertion { date := st.dateTo, balances := [⟨a.account, q, sym⟩] }]))

/-- the first parser that handles the record decides; an unhandled record is skipped -/
def tryAll : List (St → Rec → Res Out) → St → Rec → Res (St × List Directive)
  | [], st, _ => .ok (st, [])
  | p :: ps, st, r => (p st r).bind (fun o =>
    match o with
    | some x => .ok x
    | none => tryAll ps st r)

/-- the parsers of `readLine`, in its order -/
def parsers (a : Accts) : List (St → Rec → Res Out) :=
  [parseBaseCurrency, parsePeriod, parseForex a, parseTrade a, parseDeposit a, parseDividend a, parseInterest a,
   parseWithholdingTax a, createAssertions a, createCurrencyAssertions a]

/-- `readLine` -/
def step (a : Accts) (st : St) (r : Rec) : Res (St × List Directive) := tryAll (parsers a) st r

def run' (a : Accts) : St → List Rec → Res (List Directive)
  | _, [] => .ok []
  | st, r :: rs => do
    let (st', ds) ← step a st r
    let ds' ← run' a st' rs
    pure (ds ++ ds')

def run (a : Accts) (recs : List Rec) : Res (List Directive) := run' a {} recs

end IB

end Knut.Import
