import Knut.Proofs.PrintParseBridge
/-!
# A validly encoded token is the token of a character

Converse of `decodeRune_charTok`: whatever `utf8.DecodeRuneInString` returns other than `(RuneError, 1)` is a Unicode
scalar value together with its UTF-8 encoding. Hence the bytes of validly encoded tokens are the bytes of a Lean string.
-/
namespace Knut.Utf8

theorem toNat_ofNat_valid (n : Nat) (h : n.isValidChar) : (Char.ofNat n).toNat = n := by
  simp [Char.ofNat, h, Char.ofNatAux, Char.toNat]

theorem val_toNat (c : Char) : c.val.toNat = c.toNat := rfl

/-- a canonical token that is not `(RuneError, 1)` is `charTok` of a character -/
theorem char_of_canon {t : Tok} (hc : t.canon) (hv : t.invalid = false) : ∃ c : Char, t = charTok c := by
  have e := hc.1 []
  rw [List.append_nil] at e
  cases hb : t.bytes with
  | nil => have := hc.2; rw [hb] at this; simp at this
  | cons b0 rest =>
    rw [hb] at e
    unfold decodeRune at e
    simp only at e
    have inv_absurd : (⟨runeError, [b0]⟩ : Tok) = t → False := by
      intro h
      rw [← h] at hv
      simp [Tok.invalid] at hv
    split at e
    · rename_i h0
      have hvld : (b0.toNat).isValidChar := by left; omega
      refine ⟨Char.ofNat b0.toNat, ?_⟩
      rw [← e, charTok_ascii _ (by rw [toNat_ofNat_valid _ hvld]; exact h0), toNat_ofNat_valid _ hvld]
      simp [tk]
    · split at e
      · exact (inv_absurd e).elim
      · split at e
        · -- two bytes
          split at e
          · rename_i b1 rest'
            split at e
            · rename_i hcont
              simp only [isCont, Bool.and_eq_true, decide_eq_true_eq] at hcont
              have hvld : ((b0.toNat % 32) * 64 + b1.toNat % 64).isValidChar := by left; omega
              let c := Char.ofNat ((b0.toNat % 32) * 64 + b1.toNat % 64)
              have hcn : c.toNat = (b0.toNat % 32) * 64 + b1.toNat % 64 := toNat_ofNat_valid _ hvld
              have hsz : c.utf8Size = 2 := Char.utf8Size_eq_two_iff.mpr (by
                simp only [UInt32.lt_iff_toNat_lt, UInt32.le_iff_toNat_le, val_toNat, hcn]
                constructor
                · show 127 < _; omega
                · show _ ≤ 2047; omega)
              refine ⟨c, ?_⟩
              rw [← e]
              simp only [charTok, hcn, String.utf8EncodeChar_eq_cons_cons hsz, Tok.mk.injEq, true_and, List.cons.injEq, and_true]
              constructor
              · apply UInt8.toNat_inj.mp
                have := lead_byte (c.val >>> 6) 5 6 0x1f 0xc0 rfl rfl (by decide)
                rw [this, shr6, val_toNat, hcn]; omega
              · apply UInt8.toNat_inj.mp
                have := cont_byte c.val
                rw [this, val_toNat, hcn]; omega
            · exact (inv_absurd e).elim
          · exact (inv_absurd e).elim
        · split at e
          · -- three bytes
            split at e
            · rename_i b1 b2 rest'
              split at e
              · rename_i hacc
                split at e
                · rename_i hcont
                  simp only [isCont, Bool.and_eq_true, decide_eq_true_eq] at hcont
                  simp only [accept3, Bool.and_eq_true, decide_eq_true_eq] at hacc
                  have hacc' : (b0.toNat = 0xE0 → 0xA0 ≤ b1.toNat) ∧ 0x80 ≤ b1.toNat ∧ (b0.toNat = 0xED → b1.toNat ≤ 0x9F) ∧
                      b1.toNat ≤ 0xBF := by
                    obtain ⟨h1, h2⟩ := hacc
                    refine ⟨?_, ?_, ?_, ?_⟩
                    · intro h; rw [if_pos h] at h1; exact h1
                    · split at h1 <;> omega
                    · intro h; rw [if_pos h] at h2; exact h2
                    · split at h2 <;> omega
                  clear hacc
                  have hE0 : b0.toNat = 0xE0 ∨ b0.toNat ≠ 0xE0 := by omega
                  have hED : b0.toNat = 0xED ∨ b0.toNat ≠ 0xED := by omega
                  have hlo : 0x7ff < (b0.toNat % 16) * 4096 + (b1.toNat % 64) * 64 + b2.toNat % 64 := by
                    rcases hE0 with h | h
                    · have := hacc'.1 h; omega
                    · omega
                  have hsur : (b0.toNat % 16) * 4096 + (b1.toNat % 64) * 64 + b2.toNat % 64 < 0xd800 ∨
                      0xdfff < (b0.toNat % 16) * 4096 + (b1.toNat % 64) * 64 + b2.toNat % 64 := by
                    rcases hED with h | h
                    · have := hacc'.2.2.1 h; omega
                    · omega
                  have hvld : ((b0.toNat % 16) * 4096 + (b1.toNat % 64) * 64 + b2.toNat % 64).isValidChar := by
                    rcases hsur with h | h
                    · left; exact h
                    · right; exact ⟨h, by omega⟩
                  let c := Char.ofNat ((b0.toNat % 16) * 4096 + (b1.toNat % 64) * 64 + b2.toNat % 64)
                  have hcn : c.toNat = (b0.toNat % 16) * 4096 + (b1.toNat % 64) * 64 + b2.toNat % 64 :=
                    toNat_ofNat_valid _ hvld
                  have hsz : c.utf8Size = 3 := Char.utf8Size_eq_three_iff.mpr (by
                    simp only [UInt32.lt_iff_toNat_lt, UInt32.le_iff_toNat_le, val_toNat, hcn]
                    constructor
                    · show 2047 < _; omega
                    · show _ ≤ 65535; omega)
                  refine ⟨c, ?_⟩
                  rw [← e]
                  simp only [charTok, hcn, String.utf8EncodeChar_eq_cons_cons_cons hsz, Tok.mk.injEq, true_and,
                    List.cons.injEq, and_true]
                  refine ⟨?_, ?_, ?_⟩
                  · apply UInt8.toNat_inj.mp
                    have := lead_byte (c.val >>> 12) 4 14 0x0f 0xe0 rfl rfl (by decide)
                    rw [this, shr12, val_toNat, hcn]; omega
                  · apply UInt8.toNat_inj.mp
                    have := cont_byte (c.val >>> 6)
                    rw [this, shr6, val_toNat, hcn]; omega
                  · apply UInt8.toNat_inj.mp
                    have := cont_byte c.val
                    rw [this, val_toNat, hcn]; omega
                · exact (inv_absurd e).elim
              · exact (inv_absurd e).elim
            · exact (inv_absurd e).elim
          · split at e
            · -- four bytes
              split at e
              · rename_i b1 b2 b3 rest'
                split at e
                · rename_i hacc
                  split at e
                  · rename_i hcont2
                    split at e
                    · rename_i hcont3
                      simp only [isCont, Bool.and_eq_true, decide_eq_true_eq] at hcont2 hcont3
                      simp only [accept4, Bool.and_eq_true, decide_eq_true_eq] at hacc
                      have hacc' : (b0.toNat = 0xF0 → 0x90 ≤ b1.toNat) ∧ 0x80 ≤ b1.toNat ∧ (b0.toNat = 0xF4 → b1.toNat ≤ 0x8F) ∧
                          b1.toNat ≤ 0xBF := by
                        obtain ⟨h1, h2⟩ := hacc
                        refine ⟨?_, ?_, ?_, ?_⟩
                        · intro h; rw [if_pos h] at h1; exact h1
                        · split at h1 <;> omega
                        · intro h; rw [if_pos h] at h2; exact h2
                        · split at h2 <;> omega
                      clear hacc
                      have hF0 : b0.toNat = 0xF0 ∨ b0.toNat ≠ 0xF0 := by omega
                      have hF4 : b0.toNat = 0xF4 ∨ b0.toNat ≠ 0xF4 := by omega
                      have hlo : 0xffff < (b0.toNat % 8) * 262144 + (b1.toNat % 64) * 4096 + (b2.toNat % 64) * 64 + b3.toNat % 64 := by
                        rcases hF0 with h | h
                        · have := hacc'.1 h; omega
                        · omega
                      have hhi : (b0.toNat % 8) * 262144 + (b1.toNat % 64) * 4096 + (b2.toNat % 64) * 64 + b3.toNat % 64 < 0x110000 := by
                        rcases hF4 with h | h
                        · have := hacc'.2.2.1 h; omega
                        · omega
                      have hvld : ((b0.toNat % 8) * 262144 + (b1.toNat % 64) * 4096 + (b2.toNat % 64) * 64 + b3.toNat % 64).isValidChar := by
                        right; exact ⟨by omega, hhi⟩
                      let c := Char.ofNat ((b0.toNat % 8) * 262144 + (b1.toNat % 64) * 4096 + (b2.toNat % 64) * 64 + b3.toNat % 64)
                      have hcn : c.toNat = (b0.toNat % 8) * 262144 + (b1.toNat % 64) * 4096 + (b2.toNat % 64) * 64 + b3.toNat % 64 :=
                        toNat_ofNat_valid _ hvld
                      have hsz : c.utf8Size = 4 := Char.utf8Size_eq_four_iff.mpr (by
                        simp only [UInt32.lt_iff_toNat_lt, val_toNat, hcn]
                        show 65535 < _; omega)
                      refine ⟨c, ?_⟩
                      rw [← e]
                      simp only [charTok, hcn, String.utf8EncodeChar_eq_cons_cons_cons_cons hsz, Tok.mk.injEq, true_and,
                        List.cons.injEq, and_true]
                      refine ⟨?_, ?_, ?_, ?_⟩
                      · apply UInt8.toNat_inj.mp
                        have := lead_byte (c.val >>> 18) 3 30 0x07 0xf0 rfl rfl (by decide)
                        rw [this, shr18, val_toNat, hcn]; omega
                      · apply UInt8.toNat_inj.mp
                        have := cont_byte (c.val >>> 12)
                        rw [this, shr12, val_toNat, hcn]; omega
                      · apply UInt8.toNat_inj.mp
                        have := cont_byte (c.val >>> 6)
                        rw [this, shr6, val_toNat, hcn]; omega
                      · apply UInt8.toNat_inj.mp
                        have := cont_byte c.val
                        rw [this, val_toNat, hcn]; omega
                    · exact (inv_absurd e).elim
                  · exact (inv_absurd e).elim
                · exact (inv_absurd e).elim
              · exact (inv_absurd e).elim
            · exact (inv_absurd e).elim

/-- validly encoded canonical tokens are the tokens of a string -/
theorem toks_are_string : ∀ (c : List Tok), (∀ t ∈ c, t.canon) → (∀ t ∈ c, t.invalid = false) → ∃ s : String, c = strToks s
  | [], _, _ => ⟨"", rfl⟩
  | t :: ts, hc, hv => by
    obtain ⟨ch, hch⟩ := char_of_canon (hc t List.mem_cons_self) (hv t List.mem_cons_self)
    obtain ⟨s, hs⟩ := toks_are_string ts (fun x hx => hc x (List.mem_cons_of_mem _ hx)) (fun x hx => hv x (List.mem_cons_of_mem _ hx))
    refine ⟨String.ofList (ch :: s.toList), ?_⟩
    simp [strToks, charsToks, hch, hs]

end Knut.Utf8
