package main

// Differential stream `gosemtable` (run as part of C11, after `gosemfloat`): what the translation of the table renderers
// (lib/common/table; harness/trans_units_tablerender.go) adds to the prelude (lean/Knut/GoSem/TableFmt.lean, Csv.lean) against the
// real Go packages:
//   (*color.Color).Fprintf of github.com/fatih/color with color.NoColor on and off and with colours created while NO_COLOR is set;
//   make([]int, n) for n from -3 on; the capacity of make([]T, 0, n) after appends that fit (Slices.appendCap); one record through encoding/csv (fields with quotes, commas, line breaks, leading Unicode
//   spaces, `\.`); a csv.Writer over a sink: what the sink holds after the records and Flush, and — without Flush — that nothing
//   reaches it while at most 4096 bytes are pending (the limit of `Csv.Writer.dropped`).

import (
	"bytes"
	"encoding/csv"
	"fmt"
	"os"
	"strings"

	"github.com/fatih/color"
)

// gosemTableRecs: records as `e` (no field) or the hex fields joined by `,`; records joined by `;`; `n` = no record
func gosemTableRecs(recs [][]string) string {
	if len(recs) == 0 {
		return "n"
	}
	parts := make([]string, len(recs))
	for i, rec := range recs {
		if len(rec) == 0 {
			parts[i] = "e"
			continue
		}
		hs := make([]string, len(rec))
		for j, f := range rec {
			hs[j] = Hex(f)
		}
		parts[i] = strings.Join(hs, ",")
	}
	return strings.Join(parts, ";")
}

func runGoSemTableStream(c *Ctx, n int) {
	bt := c.NewBatch()
	defer bt.Flush()
	cmp := func(i int, op string, in map[string]any, impl string, fields ...string) {
		in["op"] = op
		bt.Add(func(model string) { c.Compare("gosemtable", i, "gosemtable "+op, in, impl, model) }, append([]string{"gosemtable"}, fields...)...)
	}
	words := []string{"", "a", "1,234.50", "-5", "Assets:Bank", "Zürich", "日本", " ", "x y", "%d", "\x1b[0m"}
	fields := []string{"", "", "a", "Assets:Bank", "1234.5", "-0.25", "a,b", ",", "\"", "say \"hi\"", "\"\"", "line\nbreak", "\n", "cr\rhere", "\r\n",
		" lead", "trail ", "\tx", " nbsp", " em", "　wide", "\u0085nel", "x y", `\.`, `\.x`, `\`, "Zürich", "日本", "é", "1,000", ";", "'"}
	attrs := []color.Attribute{color.FgRed, color.FgGreen, color.Bold, color.FgBlue, color.Reset}
	for i := 0; i < n; i++ {
		if !c.Want("gosemtable", i) {
			continue
		}
		r := c.Rng("gosemtable", i)
		c.Evals++
		// ---- (*color.Color).Fprintf
		noColor, envNo := r.Chance(1, 2), r.Chance(1, 4)
		var as []color.Attribute
		for k := r.Range(0, 3); k > 0; k-- {
			as = append(as, Pick(r, attrs))
		}
		before, text := Pick(r, words), Pick(r, words)+Pick(r, words)
		var ps []string
		for _, a := range as {
			ps = append(ps, itoa(int(a)))
		}
		pstr := strings.Join(ps, ",")
		if pstr == "" {
			pstr = "-"
		}
		got := func() string {
			oldEnv, hadEnv := os.LookupEnv("NO_COLOR")
			oldNo := color.NoColor
			defer func() {
				color.NoColor = oldNo
				if hadEnv {
					os.Setenv("NO_COLOR", oldEnv)
				} else {
					os.Unsetenv("NO_COLOR")
				}
			}()
			if envNo {
				os.Setenv("NO_COLOR", "1")
			} else {
				os.Unsetenv("NO_COLOR")
			}
			col := color.New(as...) // reads NO_COLOR, as the package-level initialisers of knut do when the process starts
			os.Unsetenv("NO_COLOR")
			color.NoColor = noColor
			buf := bytes.NewBufferString(before)
			cnt, err := col.Fprintf(buf, "%s", text)
			return fmt.Sprintf("%s/%d/%v", Hex(buf.String()), cnt, err == nil)
		}()
		cmp(i, "colorfprintf", map[string]any{"noColor": noColor, "envNoColor": envNo, "attrs": pstr, "before": before, "text": text}, got,
			"colorfprintf", itoa(gosemB2i(noColor)), itoa(gosemB2i(envNo)), pstr, Hex(before), Hex(text))
		c.Class(fmt.Sprintf("gosemtable/color/no%v/env%v/attrs%d", noColor, envNo, len(as)))
		// ---- make([]int, n)
		ln := r.Range(-3, 12)
		mk := func() (res string) {
			defer func() {
				if recover() != nil {
					res = "panic"
				}
			}()
			xs := make([]int, ln)
			for _, x := range xs {
				if x != 0 {
					return "nonzero"
				}
			}
			return itoa(len(xs))
		}()
		cmp(i, "makeslice", map[string]any{"n": ln}, mk, "makeslice", itoa(ln))
		// ---- the capacity of make([]T, 0, n) under append: kept while the elements fit, the runtime's afterwards
		cp, apps := r.Range(-2, 9), r.Range(0, 12)
		capGot := func() (res string) {
			defer func() {
				if recover() != nil {
					res = "panic"
				}
			}()
			xs := make([]any, 0, cp)
			for k := 0; k < apps; k++ {
				xs = append(xs, k)
			}
			if apps > cp {
				return "unknown" // reallocated: whatever the runtime chose
			}
			return itoa(cap(xs))
		}()
		cmp(i, "appendcap", map[string]any{"cap": cp, "appends": apps}, capGot, "appendcap", itoa(cp), itoa(apps))
		// ---- one record through encoding/csv
		var rec []string
		for k := r.Range(0, 5); k > 0; k-- {
			f := Pick(r, fields)
			if r.Chance(1, 6) {
				f += Pick(r, fields)
			}
			rec = append(rec, f)
		}
		var one bytes.Buffer
		cw := csv.NewWriter(&one)
		werr := cw.Write(rec)
		cw.Flush()
		cmp(i, "csvline", map[string]any{"record": rec}, fmt.Sprintf("%s/%v", Hex(one.String()), werr == nil), "csvline", gosemTableRecs([][]string{rec}))
		quoted := strings.Contains(one.String(), "\"")
		c.Class(fmt.Sprintf("gosemtable/csvline/fields%d/quoted%v", len(rec), quoted))
		// ---- a csv.Writer over a sink: with Flush, and dropped without Flush
		var recs [][]string
		nrec := r.Range(0, 4)
		big := r.Chance(1, 5)
		if big {
			nrec = r.Range(150, 400) // around and beyond one buffer of 4096 bytes
		}
		for k := 0; k < nrec; k++ {
			var rc []string
			for m := r.Range(0, 4); m > 0; m-- {
				rc = append(rc, Pick(r, fields))
			}
			recs = append(recs, rc)
		}
		sink := bytes.NewBufferString(before)
		w2 := csv.NewWriter(sink)
		for _, rc := range recs {
			w2.Write(rc)
		}
		unflushed := sink.String()
		w2.Flush()
		pending := len(sink.String()) - len(before)
		dropped := "passed-on"
		if unflushed == before {
			dropped = Hex(before)
		}
		cmp(i, "csvwriter", map[string]any{"before": before, "records": len(recs), "pending": pending}, Hex(sink.String())+"/"+dropped,
			"csvwriter", Hex(before), gosemTableRecs(recs))
		c.Class(fmt.Sprintf("gosemtable/csvwriter/recs%s/beyond%v", bucket(len(recs)), pending > 4096))
	}
}
