import Knut.Proofs.MTMRender
import Knut.Proofs.LedgerCommand
import Knut.Proofs.Portfolio
import Knut.Proofs.MTMEmpty
import Knut.Properties.C03Window
/-!
# C03 — the cells of the valued balance report are mark-to-market (command level)

Everything from the directives to the CELLS of the table `knut balance -v V` renders, for cumulative reports with
per-account rows (`PlainFlags`: no `-m`/`--remap`/filters/`-s`/`--diff`), every interval, every window
(`--from`/`--to`/`--last`), closing on or off:

* `C03_account_window` (pipeline level) – for a plain valued configuration over a date-sorted day list, the inserts on an
  asset/liability account aligned to column dates `≤ D` total `Spec.mtm … D − Spec.mtm … (start − 1)`, both of which
  exist, up to `Spec.stepBound` units of the 8th decimal;
* **`C03_command_cell`** – the table the command renders contains the account's row — name cell indented two blanks per
  level, one cell per column — and the cell of the column with period end `D` is within `Spec.stepBound/10⁸` of
  `Spec.mtm V days a D − Spec.mtm V days a (window start − 1)`: the exact Σ quantity × latest normalised price at `D`,
  minus the same on the eve of the window; `days` are the journal's own days `(Builder.ofList ds).build`
  (`C03_command_cell_built`: the same over the day list the command builds);
* `C03_command_cell_abs` – nothing held on the eve of the window: the cell is `Spec.mtm … D` up to the bound (the
  property's sentence);
* `C03_step_bound_closed_form` – `Spec.stepBound` is an explicit function of the journal: per commodity of the account
  other than `V`, the non-zero bookings on the position dated inside `(F, D]` plus the days in `(F, D]` that carry a
  price declaration; `C03_window_steps_le` / `C03_run_window_explicit` – the trace's own step count (the bound of
  `C03_run_window`) is at most that.

Helper modules: `Proofs/MTMSpec.lean` (the pipeline state IS `Spec.qtyAt` / `Spec.pricesAt`; an open position has a
price), `Proofs/MTMAccount.lean` (step bound, valuation commodity), `Proofs/MTMCum.lean` (sum over the commodities of an
account), `Proofs/MTMRender.lean` (the row of an account in `BalanceReport.table`), `Proofs/MTMEmpty.lean`.
-/
namespace Knut.C03
open Knut Knut.Dec Knut.MTM Knut.LedgerCommand
open Knut.Table (Cell)

/-- **pipeline level, whole account, every window** (see `MTM.run_account_window`) -/
theorem C03_account_window (cfg : BalCfg) (v : Commodity) (a : Account) (days : List Day) (stF : BalState) (D : Int)
    (hv : cfg.valuation = some v) (hal : a.isAL = true) (hpl : Plain cfg) (hs : Sorted days)
    (hcons : ∀ d ∈ days, ∀ t ∈ d.transactions, t.date = d.date)
    (hz : ∀ d ∈ days, ∀ t ∈ d.transactions, ∀ p ∈ t.postings, p.value = 0)
    (hinc : List.Pairwise (· < ·) (cfg.periods.map (·.stop))) (hD : D ∈ cfg.periods.map (·.stop))
    (hDin : cfg.span.contains D = true)
    (h : Balance.run cfg days = .ok stF) :
    ∃ mD mF, Spec.mtm v days a D = some mD ∧ Spec.mtm v days a (cfg.span.start - 1) = some mF ∧
      (accCum a stF.entries D - (mD - mF)).abs ≤
        (Spec.stepBound v days a (cfg.span.start - 1) D : Rat) / (10 : Rat) ^ 8 := by
  obtain ⟨mD, mF, h1, h2, h3, h4⟩ := run_account_window cfg v a days stF D hv hal hpl hs hcons hz hinc hD hDin h
  refine ⟨mD, mF, h1, h2, ?_⟩
  rw [← mul_ulp]
  exact abs_le_of h3 h4

/-- the flags of a cumulative valued report with per-account rows -/
structure PlainFlags (f : BalanceFlags) (v : Commodity) : Prop where
  valuation : f.valuation = some v
  diff : f.diff = false
  show_ : f.showCommodities = none
  mapping : f.mapping = []
  remap : ∀ s, f.remap s = false
  acc : ∀ s, f.accountFilter s = true
  com : ∀ s, f.commodityFilter s = true

theorem plain_cfgOf {f : BalanceFlags} {v : Commodity} (hf : PlainFlags f v) (part : Partition) : Plain (cfgOf f part) :=
  ⟨hf.mapping, hf.remap, hf.acc, hf.com⟩

/-- an insert on an asset/liability account exists only if the window is not empty -/
theorem window_nonempty_of_entry (cfg : BalCfg) (v : Commodity) (hv : cfg.valuation = some v) (hpl : Plain cfg)
    (days : List Day) (st : BalState) (h : Balance.run cfg days = .ok st)
    (e : Entry) (he : e ∈ st.entries) (hal : e.account.isAL = true) : cfg.span.start ≤ cfg.span.stop := by
  apply Classical.byContradiction
  intro hlt
  have hout : ∀ d ∈ days, cfg.span.contains d.date = false := by
    intro d _
    unfold Period.contains
    by_cases h1 : d.date < cfg.span.start
    · simp [h1]
    · have : d.date > cfg.span.stop := by omega
      simp [this]
  obtain ⟨txs, hp, hes⟩ := run_pipelineRun cfg days st h
  have hvs : cfg.valuation.isSome = true := by rw [hv]; rfl
  rw [hes] at he
  obtain ⟨t, ht, p, hpt, rfl⟩ := mem_entries_plain cfg hpl hvs txs e he
  have hinv0 : CloseInv {} := by intro k hk; cases hk
  obtain ⟨_, _, _, q4⟩ := pipelineRun_any cfg v p.account p.commodity hv hal days {} st txs hinv0 hp
  have : p ∈ posOn p.account p.commodity txs := by
    unfold posOn
    rw [List.mem_filter]
    exact ⟨List.mem_flatMap.mpr ⟨t, ht, hpt⟩, by unfold onPos; simp⟩
  rw [q4 hout] at this
  cases this

theorem alignIn_mem (ps : List Period) (t D' : Int) (h : alignIn ps t = some D') : D' ∈ ps.map (·.stop) := by
  unfold alignIn at h
  cases hf : ps.find? (fun p => !decide (p.stop < t)) with
  | none => rw [hf] at h; cases h
  | some p =>
    rw [hf] at h
    simp only [Option.map_some, Option.some.injEq] at h
    exact List.mem_map.mpr ⟨p, List.mem_of_find?_eq_some hf, h⟩

theorem accCum_al (a : Account) (hal : a.isAL = true) (es : List Entry) (D : Int) :
    accCum a (es.filter (fun e => e.account.isAL)) D = accCum a es D := by
  unfold accCum
  rw [List.filter_filter]
  congr 1
  apply List.filter_congr
  intro e _
  by_cases h : e.account = a
  · simp [h, hal]
  · simp [h]

/-- **the cells of the report.**  For every cumulative valued report with per-account rows and every directive list
whose postings arrive unvalued: whenever the command produces a report and the asset/liability account `a` has an
insert, the rendered table has the row of `a` — the last segment of its name indented two blanks per level, then one
cell per column — and for every column `k` (period end `D_k`) the exact mark-to-market values `Spec.mtm` at `D_k` and
on the eve of the window exist and the cell shows their difference up to `Spec.stepBound` units of the 8th decimal
(an empty cell — all per-column sums of the row vanish — reads as 0). -/
theorem C03_command_cell_built (f : BalanceFlags) (v : Commodity) (hf : PlainFlags f v) (ds : List Directive)
    (hz : ∀ t, Directive.tx t ∈ ds → ∀ p ∈ t.postings, p.value = 0)
    (es : List Entry) (part : Partition) (h : BalanceCmd.entries f ds = .ok (es, part))
    (a : Account) (hal : a.isAL = true) (hmem : ∃ e ∈ es, e.account = a) :
    ∃ pre post cells,
      (BalanceReport.table (BalanceCmd.renderCfg f part) es).rows =
        pre ++ [Cell.text (a.segments.getLast?.getD "").toList .left ((2 * (a.segments.length - 1) : Nat) : Int) :: cells] ++ post ∧
      cells.length = part.endDates.length ∧
      ∀ (k : Nat) (hk : k < part.endDates.length) (hk' : k < cells.length),
        ∃ mD mF, Spec.mtm v (daysOf f ds part) a part.endDates[k] = some mD ∧
          Spec.mtm v (daysOf f ds part) a (part.span.start - 1) = some mF ∧
          (cellVal cells[k] - (mD - mF)).abs ≤
            (Spec.stepBound v (daysOf f ds part) a (part.span.start - 1) part.endDates[k] : Rat) / (10 : Rat) ^ 8 := by
  obtain ⟨hpart, st, hrun, rfl⟩ := entries_ok h
  obtain ⟨e, he, rfl⟩ := hmem
  have hcv : (cfgOf f part).valuation = some v := hf.valuation
  have hpl := plain_cfgOf hf part
  have hne := window_nonempty_of_entry (cfgOf f part) v hcv hpl _ st hrun e he hal
  have hspan := Performance.newPartition_span hpart
  obtain ⟨hinc, hin⟩ := Performance.endDates_increasing hpart
  have hne' : (BalanceCmd.window f (Builder.ofList ds)).start ≤ (BalanceCmd.window f (Builder.ofList ds)).stop := by
    rw [← hspan]; exact hne
  -- the row
  generalize hrc : BalanceCmd.renderCfg f part = rc
  have hrv : rc.valuation.isSome = true := by rw [← hrc]; unfold BalanceCmd.renderCfg; rw [hf.valuation]; rfl
  have hrs : ∀ s, rc.showCommodities s = false := by
    intro s; rw [← hrc]; unfold BalanceCmd.renderCfg; rw [hf.show_]; rfl
  have hrd : rc.diff = false := by rw [← hrc]; exact hf.diff
  have hre : rc.endDates = part.endDates := by rw [← hrc]; rfl
  have hdc : (rc.valuation.isNone || rc.hasShowCommodities) = false := by
    rw [← hrc]; unfold BalanceCmd.renderCfg; rw [hf.valuation, hf.show_]; rfl
  obtain ⟨pre, post, hrows⟩ := table_has_row rc st.entries e he hal
  rw [hdc] at hrows
  obtain ⟨cells, hnode, hlen, hcell⟩ := nodeRows_valued rc hrv hrs hrd (st.entries.filter (fun e => e.account.isAL)) false
    e.account.segments (2 * (e.account.segments.length - 1))
  rw [hnode] at hrows
  refine ⟨pre, post, cells, hrows, by rw [hlen, hre], ?_⟩
  intro k hk hk'
  have hDmem : part.endDates[k] ∈ part.endDates := List.getElem_mem hk
  have hDin : (cfgOf f part).span.contains part.endDates[k] = true := by
    have := hin hne' _ hDmem
    show part.span.contains _ = true
    rw [hspan]; exact this
  obtain ⟨mD, mF, h1, h2, h3⟩ := C03_account_window (cfgOf f part) v e.account (daysOf f ds part) st part.endDates[k]
    hcv hal hpl (daysOf_sorted f ds part) (daysOf_consistent f ds part) (daysOf_zero f ds part hz) hinc hDmem hDin hrun
  refine ⟨mD, mF, h1, h2, ?_⟩
  have hcv' := hcell k hk'
  simp only [Bool.false_eq_true, if_false] at hcv'
  have hvs : (cfgOf f part).valuation.isSome = true := by rw [hcv]; rfl
  have hdates : ∀ x ∈ st.entries.filter (fun e => e.account.isAL), x.account = e.account →
      ∀ D', x.date = some D' → D' ∈ rc.endDates := by
    intro x hx _ D' hd
    obtain ⟨txs, _, hes⟩ := run_pipelineRun (cfgOf f part) _ st hrun
    have hx' := (List.mem_filter.mp hx).1
    rw [hes] at hx'
    obtain ⟨t, _, p, _, rfl⟩ := mem_entries_plain (cfgOf f part) hpl hvs txs x hx'
    rw [hre]
    exact alignIn_mem part.periods t.date D' hd
  have hk2 : k < rc.endDates.length := by rw [hre]; exact hk
  have hcum := cum_eq_accCum e.account (st.entries.filter (fun e => e.account.isAL)) rc.endDates
    (by rw [hre]; exact hinc) hdates k hk2
  rw [hcv', hcum, accCum_al e.account hal]
  have : rc.endDates[k] = part.endDates[k] := by simp only [hre]
  rw [this]
  exact h3

/-- a position-free eve of the window: the exact mark-to-market value on the eve is 0 -/
theorem C03_mtm_zero_of_closed (v : Commodity) (days : List Day) (a : Account) (F : Int)
    (hq : ∀ c ∈ Spec.commoditiesOf days a, Spec.qtyAt days a c F = 0) : Spec.mtm v days a F = some 0 := by
  rw [mtm_eq_sum v days a F (fun _ => 0)]
  · rw [sum_map_zero _ _ (fun _ _ => rfl)]
  · intro c hc
    unfold mtmTerm
    simp only [hq c hc, if_true]

/-- **the cells of the report, over the journal's own days.**  `C03_command_cell_built` with the specification
evaluated on `(Builder.ofList ds).build` — the directives grouped by date, nothing else — instead of the day list the
command runs the pipeline on (which, with `--close`, also holds an empty day per period start; the specification does
not see such days: `Proofs/MTMEmpty.lean`).  This is literally what the monitor computes (driver op `c03mtm`). -/
theorem C03_command_cell (f : BalanceFlags) (v : Commodity) (hf : PlainFlags f v) (ds : List Directive)
    (hz : ∀ t, Directive.tx t ∈ ds → ∀ p ∈ t.postings, p.value = 0)
    (es : List Entry) (part : Partition) (h : BalanceCmd.entries f ds = .ok (es, part))
    (a : Account) (hal : a.isAL = true) (hmem : ∃ e ∈ es, e.account = a) :
    ∃ pre post cells,
      (BalanceReport.table (BalanceCmd.renderCfg f part) es).rows =
        pre ++ [Cell.text (a.segments.getLast?.getD "").toList .left ((2 * (a.segments.length - 1) : Nat) : Int) :: cells] ++ post ∧
      cells.length = part.endDates.length ∧
      ∀ (k : Nat) (hk : k < part.endDates.length) (hk' : k < cells.length),
        ∃ mD mF, Spec.mtm v (Builder.ofList ds).build a part.endDates[k] = some mD ∧
          Spec.mtm v (Builder.ofList ds).build a (part.span.start - 1) = some mF ∧
          (cellVal cells[k] - (mD - mF)).abs ≤
            (Spec.stepBound v (Builder.ofList ds).build a (part.span.start - 1) part.endDates[k] : Rat) / (10 : Rat) ^ 8 := by
  obtain ⟨pre, post, cells, h1, h2, h3⟩ := C03_command_cell_built f v hf ds hz es part h a hal hmem
  refine ⟨pre, post, cells, h1, h2, ?_⟩
  intro k hk hk'
  obtain ⟨mD, mF, m1, m2, m3⟩ := h3 k hk hk'
  rw [mtm_daysOf] at m1 m2
  rw [stepBound_daysOf] at m3
  exact ⟨mD, mF, m1, m2, m3⟩

/-- **end to end, no hypothesis on the journal**: for every journal the loader (`Driver.C04.load`: the path of all generated
journals, with or without `@accrue`) accepts, the cell statement holds (postings only ever receive a value from the
Valuate stage: `LedgerCommand.load_go_zero`) -/
theorem C03_loaded_journal_cell (raw : List Driver.RawDirective) (ids : List (Nat × Directive))
    (hload : Driver.C04.load raw = .ok ids) (f : BalanceFlags) (v : Commodity) (hf : PlainFlags f v)
    (es : List Entry) (part : Partition) (h : BalanceCmd.entries f (ids.map (·.2)) = .ok (es, part))
    (a : Account) (hal : a.isAL = true) (hmem : ∃ e ∈ es, e.account = a) :
    ∃ pre post cells,
      (BalanceReport.table (BalanceCmd.renderCfg f part) es).rows =
        pre ++ [Cell.text (a.segments.getLast?.getD "").toList .left ((2 * (a.segments.length - 1) : Nat) : Int) :: cells] ++ post ∧
      cells.length = part.endDates.length ∧
      ∀ (k : Nat) (hk : k < part.endDates.length) (hk' : k < cells.length),
        ∃ mD mF, Spec.mtm v (Builder.ofList (ids.map (·.2))).build a part.endDates[k] = some mD ∧
          Spec.mtm v (Builder.ofList (ids.map (·.2))).build a (part.span.start - 1) = some mF ∧
          (cellVal cells[k] - (mD - mF)).abs ≤
            (Spec.stepBound v (Builder.ofList (ids.map (·.2))).build a (part.span.start - 1) part.endDates[k] : Rat) / (10 : Rat) ^ 8 := by
  apply C03_command_cell f v hf _ _ es part h a hal hmem
  intro t ht
  obtain ⟨p, hp, hpt⟩ := List.mem_map.mp ht
  have : IdsZero ids := load_go_zero raw 0 [] ids (by intro p hp; cases hp) hload
  exact this p hp t hpt

/-- **the property's sentence**: if the account holds nothing on the eve of the window (in particular without `--from`,
or with `--from` before the first booking on the account), every cell of its row is the exact mark-to-market value
`Spec.mtm` of its column date up to `Spec.stepBound` units of the 8th decimal -/
theorem C03_command_cell_abs (f : BalanceFlags) (v : Commodity) (hf : PlainFlags f v) (ds : List Directive)
    (hz : ∀ t, Directive.tx t ∈ ds → ∀ p ∈ t.postings, p.value = 0)
    (es : List Entry) (part : Partition) (h : BalanceCmd.entries f ds = .ok (es, part))
    (a : Account) (hal : a.isAL = true) (hmem : ∃ e ∈ es, e.account = a)
    (hclosed : ∀ c ∈ Spec.commoditiesOf (Builder.ofList ds).build a,
      Spec.qtyAt (Builder.ofList ds).build a c (part.span.start - 1) = 0) :
    ∃ pre post cells,
      (BalanceReport.table (BalanceCmd.renderCfg f part) es).rows =
        pre ++ [Cell.text (a.segments.getLast?.getD "").toList .left ((2 * (a.segments.length - 1) : Nat) : Int) :: cells] ++ post ∧
      cells.length = part.endDates.length ∧
      ∀ (k : Nat) (hk : k < part.endDates.length) (hk' : k < cells.length),
        ∃ mD, Spec.mtm v (Builder.ofList ds).build a part.endDates[k] = some mD ∧
          (cellVal cells[k] - mD).abs ≤
            (Spec.stepBound v (Builder.ofList ds).build a (part.span.start - 1) part.endDates[k] : Rat) / (10 : Rat) ^ 8 := by
  obtain ⟨pre, post, cells, h1, h2, h3⟩ := C03_command_cell f v hf ds hz es part h a hal hmem
  refine ⟨pre, post, cells, h1, h2, ?_⟩
  intro k hk hk'
  obtain ⟨mD, mF, m1, m2, m3⟩ := h3 k hk hk'
  rw [C03_mtm_zero_of_closed v _ a _ hclosed] at m2
  injection m2 with m2
  subst m2
  refine ⟨mD, m1, ?_⟩
  have e : mD - 0 = mD := by grind
  rw [e] at m3
  exact m3

/-! ### the step bound is a statement about the input -/

/-- **closed form of the bound**: per commodity of the account other than `V`, the non-zero bookings on the position
dated in `(F, D]` plus the days in `(F, D]` that carry a price declaration (only on such a day can a price move, hence a
value adjustment be computed), summed over the commodities the account is booked in -/
theorem C03_step_bound_closed_form (v : Commodity) (days : List Day) (a : Account) (F D : Int) :
    Spec.stepBound v days a F D =
      ((Spec.commoditiesOf days a).map (fun c =>
        if c = v then 0 else
          ((Spec.userPostings days).filter (fun (d, p) => decide (F < d) && decide (d ≤ D) && decide (p.account = a) &&
              decide (p.commodity = c) && decide (p.quantity ≠ 0))).length +
          (days.filter (fun d => decide (F < d.date) && decide (d.date ≤ D) && !d.prices.isEmpty)).length)).sum := rfl

theorem midDays_eq (cfg : BalCfg) (days : List Day) :
    days.filter (fun d => decide (cfg.span.start - 1 < d.date) && decide (d.date ≤ cfg.span.stop)) = midDays cfg days := by
  unfold midDays
  apply List.filter_congr
  intro d _
  unfold Period.contains
  by_cases h1 : d.date < cfg.span.start <;> by_cases h2 : d.date > cfg.span.stop <;> simp [h1, h2] <;> omega

/-- **the step count of the window trace is bounded by the journal**: the number of truncations `C03_run_window` charges
for the position `(a, c)` is at most `Spec.stepCount`: the non-zero bookings on it inside the window plus the days inside
the window with a price declaration -/
theorem C03_window_steps_le (cfg : BalCfg) (v : Commodity) (a : Account) (c : Commodity)
    (days : List Day) (stF : BalState)
    (hv : cfg.valuation = some v) (hc : c ≠ v) (hal : a.isAL = true) (hpl : Plain cfg) (hs : Sorted days)
    (hcons : ∀ d ∈ days, ∀ t ∈ d.transactions, t.date = d.date)
    (h : Balance.run cfg days = .ok stF) (stP : BalState) (hP : Balance.run cfg (preDays cfg days) = .ok stP) :
    (run ⟨0, stP.vQty.get (a, c) 0, 0⟩ (windowTrace cfg a c stP days)).steps ≤
      Spec.stepCount v days a (cfg.span.start - 1) cfg.span.stop c := by
  obtain ⟨stP', stM, tP, tM, tPost, h1, h2, _, r1, _⟩ := C03_run_window_split cfg v a c days stF hv hal hpl hs h
  rw [hP] at r1
  injection r1 with r1
  subst r1
  have hpi := priceInv_run cfg v hv _ [] {} stP tP (priceInv_init v) h1
  rw [List.nil_append] at hpi
  have := traceOfRun_steps_le cfg v a c hv (midDays cfg days) (preDays cfg days) stP stM tM (startPrice stP c)
    ⟨0, stP.vQty.get (a, c) 0, 0⟩ hpi (priceIs_priceOr _ _ _) h2
  unfold windowTrace
  unfold Spec.stepCount
  simp only [hc, if_false]
  have e : (fun (x : Int × Posting) => match x with
      | (d, p) => decide (cfg.span.start - 1 < d) && decide (d ≤ cfg.span.stop) && decide (p.account = a) &&
          decide (p.commodity = c) && decide (p.quantity ≠ 0)) =
      (fun (x : Int × Posting) => decide (cfg.span.start - 1 < x.1) && decide (x.1 ≤ cfg.span.stop) && decide (x.2.account = a) &&
          decide (x.2.commodity = c) && decide (x.2.quantity ≠ 0)) := by
    funext x; obtain ⟨x1, x2⟩ := x; rfl
  rw [e, nzCount_spec a c _ _ days hcons, priceDays_spec, midDays_eq]
  simp only at this
  omega

/-- **`C03_run_window` with the explicit bound** -/
theorem C03_run_window_explicit (cfg : BalCfg) (v : Commodity) (a : Account) (c : Commodity)
    (days : List Day) (stF : BalState)
    (hv : cfg.valuation = some v) (hc : c ≠ v) (hal : a.isAL = true) (hpl : Plain cfg) (hs : Sorted days)
    (hcons : ∀ d ∈ days, ∀ t ∈ d.transactions, t.date = d.date)
    (hu : ∀ d ∈ days, Unvalued a c d.transactions)
    (h : Balance.run cfg days = .ok stF) :
    ∃ stP stM, Balance.run cfg (preDays cfg days) = .ok stP ∧
      Balance.run cfg (preDays cfg days ++ midDays cfg days) = .ok stM ∧
      (entryVal a c stF.entries - (stM.vQty.get (a, c) 0 * lastPrice (startPrice stP c) (windowTrace cfg a c stP days)
          - stP.vQty.get (a, c) 0 * startPrice stP c)).abs
          ≤ (Spec.stepCount v days a (cfg.span.start - 1) cfg.span.stop c : Rat) / (10 : Rat) ^ 8 := by
  obtain ⟨stP, stM, r1, r2, hb, _, _⟩ := C03_run_window cfg v a c days stF hv hc hal hpl hs hu h
  refine ⟨stP, stM, r1, r2, ?_⟩
  have hle := C03_window_steps_le cfg v a c days stF hv hc hal hpl hs hcons h stP r1
  have hk : ((run ⟨0, stP.vQty.get (a, c) 0, 0⟩ (windowTrace cfg a c stP days)).steps : Rat) ≤
      (Spec.stepCount v days a (cfg.span.start - 1) cfg.span.stop c : Rat) := Rat.natCast_le_natCast.mpr hle
  rw [← mul_ulp] at hb ⊢
  have hm := Rat.mul_le_mul_of_nonneg_right hk (Rat.le_of_lt (ulp_pos 8))
  exact Rat.le_trans hb hm

/-! ### Non-vacuity

The journal of `Properties/C03Bridge.lean` as directives (100 CHF cash on day 1; USD priced 0.5 and 3.5 USD bought on
day 2; USD repriced 1.33333333 on day 3; 1 USD sold on day 4), reported with `--from` day 3, `--to` day 4, valued in
CHF.  The row of `Assets:A` shows 1.58333332; `Spec.mtm` is 103.333333325 on day 4 and 101.75 on the eve of the window
(day 2): difference 1.583333325, deviation 5·10⁻⁹, bound 2·10⁻⁸ (one price day, one non-zero USD booking in the window). -/

def exDirs : List Directive :=
  [.opening ⟨1, exA⟩, .opening ⟨1, exE⟩,
   .tx (Transaction.ofBookings 1 "cash" none [⟨exE, exA, 100, "CHF"⟩]),
   .price ⟨2, "USD", 1/2, "CHF"⟩,
   .tx (Transaction.ofBookings 2 "buy" none [⟨exE, exA, 7/2, "USD"⟩, ⟨exA, exA, 1, "USD"⟩]),
   .price ⟨3, "USD", 1333333333/1000000000, "CHF"⟩,
   .tx (Transaction.ofBookings 4 "sell" none [⟨exA, exE, 1, "USD"⟩])]

def exFlags : BalanceFlags := { valuation := some "CHF", from? := some 3, to := 4 }

example : PlainFlags exFlags "CHF" := ⟨rfl, rfl, rfl, rfl, fun _ => rfl, fun _ => rfl, fun _ => rfl⟩

example : ∀ t, Directive.tx t ∈ exDirs → ∀ p ∈ t.postings, p.value = 0 := by
  intro t ht
  simp only [exDirs, List.mem_cons, List.not_mem_nil, or_false, reduceCtorEq, false_or, Directive.tx.injEq] at ht
  rcases ht with rfl | rfl | rfl <;> exact ofBookings_zero _ _ _ _

example : (match BalanceCmd.entries exFlags exDirs with
    | .ok (es, part) =>
      decide (part.span = ⟨3, 4⟩ ∧ part.endDates = [4] ∧ (∃ e ∈ es, e.account = exA) ∧
        [Cell.text "A".toList .left 2, Cell.num (158333332/100000000)] ∈
          (BalanceReport.table (BalanceCmd.renderCfg exFlags part) es).rows ∧
        Spec.mtm "CHF" (Builder.ofList exDirs).build exA 4 = some (103333333325/1000000000) ∧
        Spec.mtm "CHF" (Builder.ofList exDirs).build exA 2 = some (10175/100) ∧
        Spec.stepBound "CHF" (Builder.ofList exDirs).build exA 2 4 = 2)
    | .error _ => false) = true := by decide +kernel

end Knut.C03
