package main

// Differential stream `gosemparse` (run as part of C11, after `gosemtable`): what the translation of the model layer's conversion
// syntax tree → model directives (harness/trans_units_create.go) adds to the prelude, against the real Go functions:
//   time.Parse("2006-01-02", s)   lean/Knut/GoSem/Parse.lean `Time.ParseISO` (the day number; on an error the zero time)
//   decimal.NewFromString(s)      `Decimal.NewFromString` (the value as a fraction in lowest terms; on an error the zero decimal)
//   directives.Range.Extract()    lean/Knut/GoSem/Bridge.lean `Bridge.extract`: the slice-bounds panic, the bytes read as a text
// on BYTE strings near the accepted ones (wrong lengths, separators, out-of-range months and days, leap days, signs, several
// points, exponents incl. beyond int32, spaces, non-ASCII digits, invalid UTF-8). A string that is not valid UTF-8 has no meaning in
// the model layer's reading (the model answers `outside`): for those the stream only checks that the real function reports an error.

import (
	"fmt"
	"strings"
	"time"
	"unicode/utf8"

	"github.com/sboehler/knut/lib/syntax/directives"
	"github.com/shopspring/decimal"
)

func gosemParseDateImpl(s string) string {
	t, err := time.Parse("2006-01-02", s)
	if !utf8.ValidString(s) {
		if err == nil {
			return "accepted-invalid-utf8"
		}
		return "outside"
	}
	if err != nil {
		z := 0
		if !t.IsZero() {
			z = dayNum(t)
		}
		return "err " + itoa(z)
	}
	return "ok " + itoa(dayNum(t))
}

func gosemParseDecImpl(s string) string {
	d, err := decimal.NewFromString(s)
	if !utf8.ValidString(s) {
		if err == nil {
			return "accepted-invalid-utf8"
		}
		return "outside"
	}
	r := d.Rat()
	res := r.Num().String() + "/" + r.Denom().String()
	if err != nil {
		return "err " + res
	}
	return "ok " + res
}

func gosemParseExtractImpl(text string, lo, hi int) (res string) {
	defer func() {
		if r := recover(); r != nil {
			res = "panic"
		}
	}()
	s := directives.Range{Start: lo, End: hi, Text: text}.Extract()
	if !utf8.ValidString(s) {
		return "outside"
	}
	return "ok " + Hex(s)
}

// gosemParseTameExp: an exponent of 4 to 9 digits is accepted by decimal.NewFromString, but its value 10^e cannot be written down
// (neither by big.Rat nor by the model): such exponents are cut to two digits; larger ones are beyond int32 (errors)
func gosemParseTameExp(s string) string {
	i := strings.IndexAny(s, "eE")
	if i < 0 {
		return s
	}
	j := i + 1
	if j < len(s) && (s[j] == '+' || s[j] == '-') {
		j++
	}
	k := j
	for k < len(s) && s[k] >= '0' && s[k] <= '9' {
		k++
	}
	if n := k - j; n >= 4 && (n <= 9 || (n == 10 && s[j:k] <= "2147483647")) {
		return s[:j+2] + s[k:]
	}
	return s
}

func runGoSemParseStream(c *Ctx, n int) {
	bt := c.NewBatch()
	defer bt.Flush()
	cmp := func(i int, op string, in map[string]any, impl string, fields ...string) {
		in["op"] = op
		bt.Add(func(model string) { c.Compare("gosemparse", i, "gosemparse "+op, in, impl, model) }, append([]string{"gosemparse", op}, fields...)...)
	}
	digits := []string{"0", "1", "2", "3", "4", "5", "6", "7", "8", "9"}
	odd := []string{"", " ", "-", "+", ".", "/", "a", "e", "E", "٣", "９", "\xff", "\xc3", "é", "_", ",", "'", "T", "\n", "0x"}
	for i := 0; i < n; i++ {
		if !c.Want("gosemparse", i) {
			continue
		}
		r := c.Rng("gosemparse", i)
		c.Evals++
		// ---- time.Parse: a date, then 0..2 mutations
		y, m, d := r.Range(0, 9999), r.Range(0, 14), r.Range(0, 33)
		if r.Chance(1, 2) {
			m, d = r.Range(1, 12), r.Range(27, 31) // the month ends
		}
		if r.Chance(1, 8) {
			y = []int{0, 1, 4, 100, 400, 1900, 2000, 2023, 2024, 9999}[r.Intn(10)]
			m, d = 2, r.Range(28, 30)
		}
		ds := fmt.Sprintf("%04d-%02d-%02d", y, m, d)
		for k := r.Intn(3); k > 0 && r.Chance(1, 2); k-- {
			pos := r.Intn(len(ds) + 1)
			switch r.Intn(4) {
			case 0:
				ds = ds[:pos] + Pick(r, odd) + ds[pos:]
			case 1:
				if pos < len(ds) {
					ds = ds[:pos] + ds[pos+1:]
				}
			case 2:
				if pos < len(ds) {
					ds = ds[:pos] + Pick(r, odd) + ds[pos+1:]
				}
			default:
				ds = ds[:pos] + Pick(r, digits) + ds[pos:]
			}
		}
		implD := gosemParseDateImpl(ds)
		cmp(i, "date", map[string]any{"s": ds}, implD, Hex(ds))
		c.Class("gosemparse/date/" + strings.Fields(implD)[0] + "/len" + bucket(len(ds)))
		// ---- decimal.NewFromString
		var b strings.Builder
		if r.Chance(1, 3) {
			b.WriteString(Pick(r, []string{"-", "+", "--", "-+", " "}))
		}
		for k := r.Range(0, 12); k > 0; k-- {
			b.WriteString(Pick(r, digits))
		}
		if r.Chance(1, 2) {
			b.WriteString(".")
			for k := r.Range(0, 10); k > 0; k-- {
				b.WriteString(Pick(r, digits))
			}
		}
		if r.Chance(1, 6) {
			b.WriteString(Pick(r, []string{"e", "E"}))
			switch r.Intn(5) {
			case 0:
				b.WriteString(itoa(r.Range(-40, 40)))
			case 1:
				b.WriteString("+" + itoa(r.Range(0, 30)))
			case 2:
				b.WriteString(Pick(r, []string{"99999999999", "-99999999999", "2147483648", "-2147483649", "", "-", "1.5", "1e1"}))
			default:
				b.WriteString(itoa(r.Range(-12, 12)))
			}
		}
		if r.Chance(1, 8) {
			pos := r.Intn(b.Len() + 1)
			s := b.String()
			b.Reset()
			b.WriteString(s[:pos] + Pick(r, odd) + s[pos:])
		}
		xs := gosemParseTameExp(b.String())
		implX := gosemParseDecImpl(xs)
		cmp(i, "dec", map[string]any{"s": xs}, implX, Hex(xs))
		c.Class("gosemparse/dec/" + strings.Fields(implX)[0] + "/len" + bucket(len(xs)))
		// ---- Range.Extract read as a text
		text := ""
		for k := r.Range(0, 6); k > 0; k-- {
			text += Pick(r, []string{"a", "Assets:Bank", "é", "日本", "😀", "\xff", "12.5", " ", "\n", "CHF"})
		}
		lo, hi := r.Range(-2, len(text)+2), r.Range(-2, len(text)+2)
		if r.Chance(2, 3) && lo > hi {
			lo, hi = hi, lo
		}
		implE := gosemParseExtractImpl(text, lo, hi)
		cmp(i, "extract", map[string]any{"text": text, "lo": lo, "hi": hi}, implE, Hex(text), itoa(lo), itoa(hi))
		c.Class("gosemparse/extract/" + strings.Fields(implE)[0])
	}
}
