import Knut.Model.BalanceReport
/-!
# The balance report is a function of the multiset of report inserts (C05/C06)

`table_perm_wf`: `BalanceReport.table rc es = BalanceReport.table rc es'` whenever `es ~ es'` and every account
of the entries has an account type as first segment (`WF`, the invariant `Account.wf` of the registry).  Route:
every piece of the renderer either sums (`sumAmounts`, `cellAt`, `weight`: commutative), or deduplicates and then
sorts with a total order (`childSegs`/`sortedChildren`, `valsCommodities`), or takes a maximum (`maxDepth`).

* `eraseDups_perm` – `eraseDups` of permuted lists are permutations of each other (duplicate-free, same members);
* `mergeSort_perm_eq` – sorting with a transitive, total comparator that is antisymmetric *on the members of the
  list* removes the order;
* `lexLE_*`, `optLE_*`, `strLE_*` – the comparators of the report (weight then name; name; optional commodity) are
  total orders (`String.le_trans/le_total/le_antisymm` and `Rat`'s linear order);
* `typeOrd_inj` – the level-1 comparator (by account type only) is antisymmetric exactly on type names: this is
  where `WF` is needed (`Properties/C06Report.lean` has the counterexample without it).
-/

namespace Knut.ReportPerm
open Knut Knut.BalanceReport

/-! ### sums and commutative folds -/

theorem sum_perm : ∀ {l l' : List Rat}, l.Perm l' → l.sum = l'.sum := by
  intro l l' h
  induction h with
  | nil => rfl
  | cons x _ ih => simp only [List.sum_cons, ih]
  | swap x y l => simp only [List.sum_cons, ← Rat.add_assoc, Rat.add_comm x y]
  | trans _ _ ih1 ih2 => exact ih1.trans ih2

theorem foldl_comm_perm {α β : Type} (f : β → α → β) (hcomm : ∀ b x y, f (f b x) y = f (f b y) x)
    {l l' : List α} (hp : l.Perm l') (init : β) : l.foldl f init = l'.foldl f init := by
  induction hp generalizing init with
  | nil => rfl
  | cons x _ ih => simp only [List.foldl_cons]; exact ih _
  | swap x y l => simp only [List.foldl_cons, hcomm]
  | trans _ _ ih1 ih2 => rw [ih1, ih2]

/-! ### lists -/

theorem nodup_eraseDups {α : Type} [BEq α] [LawfulBEq α] : ∀ (n : Nat) (l : List α), l.length ≤ n → l.eraseDups.Nodup
  | _, [], _ => by simp
  | 0, _ :: _, h => by simp at h
  | n + 1, a :: as, h => by
    rw [List.eraseDups_cons, List.nodup_cons]
    constructor
    · rw [List.mem_eraseDups, List.mem_filter]
      intro h; simp at h
    · apply nodup_eraseDups n
      have := List.length_filter_le (fun b => !b == a) as
      simp only [List.length_cons] at h
      omega

theorem eraseDups_perm {α : Type} [BEq α] [LawfulBEq α] {l l' : List α} (h : l.Perm l') :
    l.eraseDups.Perm l'.eraseDups := by
  rw [List.perm_ext_iff_of_nodup (nodup_eraseDups _ l (Nat.le_refl _)) (nodup_eraseDups _ l' (Nat.le_refl _))]
  intro a
  rw [List.mem_eraseDups, List.mem_eraseDups]
  exact h.mem_iff

/-- sorting with a transitive, total comparator that is antisymmetric on the elements of the list -/
theorem mergeSort_perm_eq {α : Type} (le : α → α → Bool)
    (trans : ∀ a b c, le a b → le b c → le a c) (total : ∀ a b, le a b || le b a)
    (l l' : List α) (antisymm : ∀ a b, a ∈ l → b ∈ l → le a b → le b a → a = b) (hp : l.Perm l') :
    l.mergeSort le = l'.mergeSort le := by
  apply List.Perm.eq_of_pairwise (le := fun a b => le a b = true)
  · intro a b ha hb h1 h2
    exact antisymm a b ((List.mergeSort_perm l le).mem_iff.1 ha)
      (hp.mem_iff.2 ((List.mergeSort_perm l' le).mem_iff.1 hb)) h1 h2
  · exact List.pairwise_mergeSort trans total l
  · exact List.pairwise_mergeSort trans total l'
  · exact (List.mergeSort_perm l le).trans (hp.trans (List.mergeSort_perm l' le).symm)

theorem sort_perm_eq {α : Type} (le : α → α → Bool)
    (trans : ∀ a b c, le a b → le b c → le a c) (total : ∀ a b, le a b || le b a)
    (antisymm : ∀ a b, le a b → le b a → a = b) (l l' : List α) (hp : l.Perm l') :
    l.mergeSort le = l'.mergeSort le :=
  mergeSort_perm_eq le trans total l l' (fun a b _ _ => antisymm a b) hp

theorem foldl_add_eq (g : String → Rat) (l : List String) (w : Rat) :
    l.foldl (fun acc s => acc + g s) w = w + (l.map g).sum := by
  induction l generalizing w with
  | nil => simp [Rat.add_zero]
  | cons x rest ih => simp only [List.foldl_cons, ih, List.map_cons, List.sum_cons, Rat.add_assoc]


/-! ### comparators -/

/-- by weight, then by name -/
def lexLE (w : String → Rat) (a b : String) : Bool :=
  if w a < w b then true else if w b < w a then false else decide (a ≤ b)

theorem strLE_trans (a b c : String) : decide (a ≤ b) = true → decide (b ≤ c) = true → decide (a ≤ c) = true := by
  simp only [decide_eq_true_eq]; exact String.le_trans

theorem strLE_total (a b : String) : (decide (a ≤ b) || decide (b ≤ a)) = true := by
  simp only [Bool.or_eq_true, decide_eq_true_eq]; exact String.le_total a b

theorem strLE_antisymm (a b : String) : decide (a ≤ b) = true → decide (b ≤ a) = true → a = b := by
  simp only [decide_eq_true_eq]; exact String.le_antisymm

theorem lexLE_trans (w : String → Rat) (a b c : String) : lexLE w a b = true → lexLE w b c = true → lexLE w a c = true := by
  unfold lexLE
  intro h1 h2
  by_cases hab : w a < w b
  · by_cases hbc : w b < w c
    · have : w a < w c := by grind
      simp [this]
    · by_cases hcb : w c < w b
      · simp [hbc, hcb] at h2
      · have : w a < w c := by grind
        simp [this]
  · by_cases hba : w b < w a
    · simp [hab, hba] at h1
    · simp only [hab, hba, if_false] at h1
      by_cases hbc : w b < w c
      · have : w a < w c := by grind
        simp [this]
      · by_cases hcb : w c < w b
        · simp [hbc, hcb] at h2
        · simp only [hbc, hcb, if_false] at h2
          have h3 : ¬ w a < w c := by grind
          have h4 : ¬ w c < w a := by grind
          simp only [h3, h4, if_false]
          exact strLE_trans a b c h1 h2

theorem lexLE_total (w : String → Rat) (a b : String) : (lexLE w a b || lexLE w b a) = true := by
  unfold lexLE
  by_cases hab : w a < w b
  · simp [hab]
  · by_cases hba : w b < w a
    · simp [hab, hba]
    · simp only [hab, hba, if_false]; exact strLE_total a b

theorem lexLE_antisymm (w : String → Rat) (a b : String) : lexLE w a b = true → lexLE w b a = true → a = b := by
  unfold lexLE
  by_cases hab : w a < w b
  · have : ¬ w b < w a := by grind
    simp [hab, this]
  · by_cases hba : w b < w a
    · simp [hab, hba]
    · simp only [hab, hba, if_false]; exact strLE_antisymm a b

/-- the comparator of `valsCommodities` -/
def optLE (a b : Option Commodity) : Bool :=
  match a, b with
  | some x, some y => x ≤ y
  | none, _ => true
  | _, none => false

theorem optLE_trans (a b c : Option Commodity) : optLE a b = true → optLE b c = true → optLE a c = true := by
  cases a <;> cases b <;> cases c <;> simp only [optLE] <;> first | exact strLE_trans _ _ _ | simp

theorem optLE_total (a b : Option Commodity) : (optLE a b || optLE b a) = true := by
  cases a <;> cases b <;> simp only [optLE] <;> first | exact strLE_total _ _ | simp

theorem optLE_antisymm (a b : Option Commodity) : optLE a b = true → optLE b a = true → a = b := by
  cases a <;> cases b <;> simp only [optLE] <;> first | (intro h1 h2; rw [strLE_antisymm _ _ h1 h2]) | simp


/-! ### the pieces of the report -/

variable {es es' : List Entry}

theorem own_perm (hp : es.Perm es') (path : List String) : (own es path).Perm (own es' path) := hp.filter _

theorem childSegs_perm (hp : es.Perm es') (path : List String) : (childSegs es path).Perm (childSegs es' path) :=
  eraseDups_perm (hp.filterMap _)

theorem sumAmounts_perm (hp : es.Perm es') : sumAmounts es = sumAmounts es' := sum_perm (hp.map _)

theorem maxDepth_perm (hp : es.Perm es') : maxDepth es = maxDepth es' := by
  unfold maxDepth
  apply foldl_comm_perm _ _ hp
  intro b x y; omega

theorem weight_eq (valued : Bool) (es : List Entry) (fuel : Nat) (path : List String) :
    weight valued es (fuel + 1) path =
      (if valued then -(Rat.abs (sumAmounts (own es path))) else 0) +
        ((childSegs es path).map (fun s => weight valued es fuel (path ++ [s]))).sum := by
  rw [weight]; exact foldl_add_eq _ _ _

theorem weight_perm (hp : es.Perm es') (valued : Bool) : ∀ (fuel : Nat) (path : List String),
    weight valued es fuel path = weight valued es' fuel path
  | 0, _ => rfl
  | fuel + 1, path => by
    rw [weight_eq, weight_eq, sumAmounts_perm (own_perm hp path)]
    congr 1
    have : (fun s => weight valued es fuel (path ++ [s])) = (fun s => weight valued es' fuel (path ++ [s])) :=
      funext fun s => weight_perm hp valued fuel (path ++ [s])
    rw [this]
    exact sum_perm ((childSegs_perm hp path).map _)

theorem sibLE_perm (rc : RenderCfg) (hp : es.Perm es') (fuel : Nat) (path : List String) :
    sibLE rc es fuel path = sibLE rc es' fuel path := by
  funext a b
  unfold sibLE
  rw [weight_perm hp, weight_perm hp]

theorem sibLE_nonempty (rc : RenderCfg) (es : List Entry) (fuel : Nat) (path : List String) (h : path ≠ []) :
    sibLE rc es fuel path = (if rc.sortAlpha then (fun a b => decide (a ≤ b))
      else lexLE (fun s => weight rc.valuation.isSome es fuel (path ++ [s]))) := by
  funext a b
  unfold sibLE lexLE
  have : path.isEmpty = false := by cases path <;> simp_all
  simp only [this, Bool.false_eq_true, if_false]
  split <;> rfl

theorem sortedChildren_perm (rc : RenderCfg) (hp : es.Perm es') (fuel : Nat) (path : List String) (h : path ≠ []) :
    sortedChildren rc es fuel path = sortedChildren rc es' fuel path := by
  unfold sortedChildren
  rw [← sibLE_perm rc hp, sibLE_nonempty rc es fuel path h]
  split
  · exact sort_perm_eq _ strLE_trans strLE_total strLE_antisymm _ _ (childSegs_perm hp path)
  · exact sort_perm_eq _ (lexLE_trans _) (lexLE_total _) (lexLE_antisymm _) _ _ (childSegs_perm hp path)

theorem walk_perm (rc : RenderCfg) (hp : es.Perm es') : ∀ (fuel : Nat) (path : List String) (indent : Nat), path ≠ [] →
    walk rc es fuel path indent = walk rc es' fuel path indent
  | 0, _, _, _ => rfl
  | fuel + 1, path, indent, h => by
    rw [walk, walk, sortedChildren_perm rc hp fuel path h]
    congr 1
    funext s
    rw [walk_perm rc hp fuel (path ++ [s]) (indent + 2) (by simp)]

theorem cellAt_perm (hp : es.Perm es') (byCom : Bool) : cellAt es byCom = cellAt es' byCom := by
  funext c d; unfold cellAt; exact sumAmounts_perm (hp.filter _)

theorem valsCommodities_eq (es : List Entry) (byCommodity : Bool) :
    valsCommodities es byCommodity =
      ((((es.map (fun e => (e.date, if byCommodity then some e.commodity else none))).eraseDups.filter (fun k =>
        sumAmounts (es.filter (fun e => e.date = k.1 && (if byCommodity then some e.commodity else none) = k.2)) ≠ 0)).map
          (·.2)).eraseDups).mergeSort optLE := rfl

theorem valsCommodities_perm (hp : es.Perm es') (byCommodity : Bool) :
    valsCommodities es byCommodity = valsCommodities es' byCommodity := by
  rw [valsCommodities_eq, valsCommodities_eq]
  apply sort_perm_eq _ optLE_trans optLE_total optLE_antisymm
  apply eraseDups_perm
  apply List.Perm.map
  have : (fun (k : Option Int × Option Commodity) => decide (sumAmounts (es.filter (fun e =>
        decide (e.date = k.1) && decide ((if byCommodity then some e.commodity else none) = k.2))) ≠ 0)) =
      (fun k => decide (sumAmounts (es'.filter (fun e =>
        decide (e.date = k.1) && decide ((if byCommodity then some e.commodity else none) = k.2))) ≠ 0)) := by
    funext k; rw [sumAmounts_perm (hp.filter _)]
  rw [this]
  exact (eraseDups_perm (hp.map _)).filter _

theorem nodeRows_perm (rc : RenderCfg) (drawComm : Bool) (hp : es.Perm es') (neg : Bool) (node : List String × Nat) :
    nodeRows rc drawComm es neg node = nodeRows rc drawComm es' neg node := by
  unfold nodeRows
  simp only
  rw [valsCommodities_perm (own_perm hp node.1), cellAt_perm (own_perm hp node.1)]


/-! ### level 1: account types -/

theorem ofName_eq_name {s : String} {t : AccountType} (h : AccountType.ofName s = some t) : s = t.name := by
  unfold AccountType.ofName at h
  repeat' split at h
  all_goals first | (injection h with h; subst h; assumption) | cases h

theorem ord_inj (t t' : AccountType) (h : t.ord = t'.ord) : t = t' := by
  cases t <;> cases t' <;> first | rfl | (simp [AccountType.ord] at h)

/-- level-1 names that are account types are ordered strictly by `typeOrd` -/
theorem typeOrd_inj {a b : String} (ha : (AccountType.ofName a).isSome) (hb : (AccountType.ofName b).isSome)
    (h : typeOrd a = typeOrd b) : a = b := by
  unfold typeOrd at h
  cases h1 : AccountType.ofName a with
  | none => rw [h1] at ha; cases ha
  | some t =>
    cases h2 : AccountType.ofName b with
    | none => rw [h2] at hb; cases hb
    | some t' =>
      rw [h1, h2] at h
      simp only at h
      rw [ofName_eq_name h1, ofName_eq_name h2, ord_inj t t' h]

/-- all accounts of the entries satisfy the invariant `Account.wf` (first segment is a type name) -/
def WF (es : List Entry) : Prop := ∀ e ∈ es, e.account.wf = true

theorem WF.filter (h : WF es) (p : Entry → Bool) : WF (es.filter p) :=
  fun e he => h e (List.mem_filter.1 he).1

theorem WF.perm (h : WF es) (hp : es.Perm es') : WF es' := fun e he => h e (hp.mem_iff.2 he)

theorem top_isType (h : WF es) {s : String} (hs : s ∈ childSegs es []) : (AccountType.ofName s).isSome := by
  unfold childSegs at hs
  rw [List.mem_eraseDups, List.mem_filterMap] at hs
  obtain ⟨e, he, h2⟩ := hs
  have := h e he
  unfold Account.wf Account.type? at this
  cases hseg : e.account.segments with
  | nil => rw [hseg] at h2; cases h2
  | cons x rest =>
    rw [hseg] at h2 this
    have h3 : x = s := by simpa [List.isPrefixOf] using h2
    subst h3; exact this

theorem sortedChildren_top_perm (rc : RenderCfg) (hp : es.Perm es') (hwf : WF es) (fuel : Nat) :
    sortedChildren rc es fuel [] = sortedChildren rc es' fuel [] := by
  unfold sortedChildren
  rw [← sibLE_perm rc hp]
  have : sibLE rc es fuel [] = fun a b => decide (typeOrd a ≤ typeOrd b) := by
    funext a b; unfold sibLE; simp
  rw [this]
  apply mergeSort_perm_eq _ _ _ _ _ _ (childSegs_perm hp [])
  · intro a b c; simp only [decide_eq_true_eq]; omega
  · intro a b; simp only [Bool.or_eq_true, decide_eq_true_eq]; omega
  · intro a b ha hb; simp only [decide_eq_true_eq]
    intro h1 h2
    exact typeOrd_inj (top_isType hwf ha) (top_isType hwf hb) (by omega)

/-- one section (assets+liabilities or equity+income+expenses) of the report -/
def sect (rc : RenderCfg) (drawComm : Bool) (empty : List Table.Cell) (es : List Entry) (neg : Bool) : List (List Table.Cell) :=
  (sortedChildren rc es (maxDepth es) []).flatMap (fun top =>
    ((([top], 0) :: walk rc es (maxDepth es) [top] 2).flatMap (nodeRows rc drawComm es neg)) ++ [empty])

theorem sect_perm (rc : RenderCfg) (drawComm : Bool) (empty : List Table.Cell) (hp : es.Perm es') (hwf : WF es) (neg : Bool) :
    sect rc drawComm empty es neg = sect rc drawComm empty es' neg := by
  unfold sect
  rw [← maxDepth_perm hp, sortedChildren_top_perm rc hp hwf]
  congr 1
  funext top
  rw [walk_perm rc hp _ [top] 2 (by simp)]
  have : nodeRows rc drawComm es neg = nodeRows rc drawComm es' neg := funext (nodeRows_perm rc drawComm hp neg)
  rw [this]

theorem table_eq (rc : RenderCfg) (entries : List Entry) :
    table rc entries =
      let drawComm := rc.valuation.isNone || rc.hasShowCommodities
      let n := rc.endDates.length
      let width := 1 + (if drawComm then 1 else 0) + n
      let cols := if drawComm then Table.groupColumns 0 [1, 1, n] else Table.groupColumns 0 [1, n]
      let sep : List Table.Cell := List.replicate width .sep
      let empty : List Table.Cell := List.replicate width .empty
      let header : List Table.Cell :=
        Table.Cell.text "Account".toList .center 0 ::
          (if drawComm then [Table.Cell.text "Comm".toList .center 0] else []) ++
          rc.endDates.map (fun d => Table.Cell.text (fmtDate d).toList .center 0)
      let al := entries.filter (fun e => e.account.isAL)
      let eie := entries.filter (fun e => !e.account.isAL)
      let byCom := rc.valuation.isNone
      let deltaComs := ((valsCommodities al byCom) ++ (valsCommodities eie byCom)).eraseDups.mergeSort optLE
      ⟨cols, [sep, header, sep] ++ sect rc drawComm empty al false ++
        renderVals rc drawComm 0 "Total (A+L)" false (valsCommodities al byCom) (cellAt al byCom) ++ [sep] ++
        sect rc drawComm empty eie true ++
        renderVals rc drawComm 0 "Total (E+I+E)" true (valsCommodities eie byCom) (cellAt eie byCom) ++ [sep] ++
        renderVals rc drawComm 0 "Delta" false deltaComs (cellAt entries byCom) ++ [sep]⟩ := rfl

/-- the report is a function of the multiset of report inserts -/
theorem table_perm_wf (rc : RenderCfg) (es es' : List Entry) (hp : es.Perm es') (hwf : WF es) :
    table rc es = table rc es' := by
  rw [table_eq, table_eq]
  simp only
  have hal : (es.filter (fun e => e.account.isAL)).Perm (es'.filter (fun e => e.account.isAL)) := hp.filter _
  have heie : (es.filter (fun e => !e.account.isAL)).Perm (es'.filter (fun e => !e.account.isAL)) := hp.filter _
  rw [sect_perm rc _ _ hal (hwf.filter _), sect_perm rc _ _ heie (hwf.filter _),
    valsCommodities_perm hal, valsCommodities_perm heie, cellAt_perm hal, cellAt_perm heie, cellAt_perm hp]

end Knut.ReportPerm
