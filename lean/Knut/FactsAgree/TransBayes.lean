import Knut.FactsAgree.TransPrinter
import Knut.Generated.TransBayes
import Knut.Proofs.InferCounts
import Knut.Proofs.InferFormat
/-!
# The translated `lib/syntax/bayes` agrees with the model of `knut infer`, part 1: the tables (`NewModel`, `tokenize`, `update`, `Update`)

`Generated/TransBayes.lean` is regenerated from `/repo/lib/syntax/bayes/bayes.go` on every run (`harness/trans_syntax_bayes.go`);
`Model/Infer.lean` is the hand-written model the C15 theorems are about.  The Go functions read a syntax tree through
`Range.Extract()` only; the theorems are stated for **arbitrary** Go trees (`directives.Transaction`, `directives.Booking` — not only
the trees the parser returns: after `Infer` a tree carries synthetic accounts whose `Text` is not the file), related to the
model's extracted fields by `ViewB` / `ViewT`: "every `Extract()` the function performs succeeds with these bytes".

* `goModel`: a model value as the Go struct (same association lists, `Nat` counts as `int`).
* `tokenize_agrees`: the Go token **set** is `goSet` of the lower-cased words, commodity, quantity and other account in the order Go
  inserts them; its keys are distinct, are exactly the model's tokens, and `dict.SortedKeys` of it is the model's `tokenize`.
* `update_agrees`: for **every** iteration order `order` of the token set, `Model.update` = the model's `updateWith` along
  `walkOf order …` (the keys of `order` that are tokens); `updateWith_equiv`: when the order lists every token once, the result is
  `Equiv` to the model's `update` (same `count`, same lookups in both tables: all that inference reads).
* `Update_agrees`: for every family of orders (one per `update` call site and round of the loop), `Model.Update` = `updateTxW`;
  `updateTxW_equiv`: `Equiv` to the model's `updateTx`; `trainGo_agrees`, `trainW_equiv`, `train_agrees`: training over a list of
  transactions from `NewModel`.

Not covered: a `bayes.Model` whose maps are nil (the zero `Model`; Go would panic on the first store) — `goModel` only produces the
values `NewModel` and `Update` produce.
-/
set_option linter.unusedSimpArgs false
set_option linter.unusedVariables false
namespace Knut.FactsAgree.TransBayes
open Knut Knut.GoSem Knut.Syntax
open Knut.Generated.Go
open Knut.FactsAgree.TransScanner Knut.FactsAgree.TransParser Knut.FactsAgree.TransPrinter

abbrev Bytes := List UInt8

/-! ### Go's string order on bytes, `dict.SortedKeys` -/

/-- `<` on byte lists (what `cmpOrdered` compares with) is the model's `bytesLt` -/
theorem lt_iff_bytesLt : ∀ (a b : Bytes), a < b ↔ Infer.bytesLt a b = true
  | [], [] => by simp [Infer.bytesLt]
  | [], _ :: _ => by simp [Infer.bytesLt]
  | _ :: _, [] => by simp [Infer.bytesLt]
  | a :: as, b :: bs => by
    rw [List.cons_lt_cons_iff, Infer.bytesLt, lt_iff_bytesLt as bs]
    by_cases h1 : a < b
    · simp [h1]
    · by_cases h2 : b < a
      · have : a ≠ b := by intro e; subst e; exact h1 h2
        simp [h1, h2, this]
      · have : a = b := by
          apply UInt8.le_antisymm <;> simp_all [UInt8.not_lt]
        simp [h1, h2, this]

/-- `compare.Ordered` on strings in the model's terms -/
theorem cmpOrdered_bytes (a b : Bytes) :
    cmpOrdered a b = if Infer.bytesLt a b then -1 else if Infer.bytesLt b a then 1 else 0 := by
  unfold cmpOrdered
  by_cases h1 : a < b
  · simp [h1, (lt_iff_bytesLt a b).mp h1]
  · have h1' : Infer.bytesLt a b = false := by
      cases h : Infer.bytesLt a b
      · rfl
      · exact absurd ((lt_iff_bytesLt a b).mpr h) h1
    by_cases h2 : b < a
    · simp [h1, h2, h1', (lt_iff_bytesLt b a).mp h2]
    · have h2' : Infer.bytesLt b a = false := by
        cases h : Infer.bytesLt b a
        · rfl
        · exact absurd ((lt_iff_bytesLt b a).mpr h) h2
      simp [h1, h2, h1', h2']

/-- the "less or equal" that `sortedKeys` sorts with -/
theorem le_iff (a b : Bytes) : decide (cmpOrdered a b ≠ 1) = true ↔ Infer.bytesLt b a = false := by
  rw [cmpOrdered_bytes]
  cases h1 : Infer.bytesLt a b <;> cases h2 : Infer.bytesLt b a <;> simp
  exact absurd h2 (by rw [Infer.bytesLt_asymm h1]; simp)

theorem asc_of_pairwise : ∀ (l : List Bytes), l.Pairwise (fun a b => Infer.bytesLt b a = false) → l.Nodup → Infer.Asc l
  | [], _, _ => trivial
  | x :: xs, hp, hn => by
    obtain ⟨h1, h2⟩ := List.pairwise_cons.mp hp
    obtain ⟨n1, n2⟩ := List.nodup_cons.mp hn
    refine ⟨fun y hy => ?_, asc_of_pairwise xs h2 n2⟩
    rcases Infer.bytesLt_total x y with e | e | e
    · subst e; exact absurd hy n1
    · exact e
    · rw [h1 y hy] at e; cases e

/-- **`dict.SortedKeys(m, compare.Ordered[string])`** of a map whose keys are distinct is the model's `sortU` of the keys -/
theorem sortedKeys_eq_sortU {ν : Type} (m : AMap Bytes ν) (hn : m.keys.Nodup) :
    sortedKeys m cmpOrdered = Infer.sortU m.keys := by
  unfold sortedKeys
  have hperm := List.mergeSort_perm (m.map Prod.fst) (fun a b => decide (cmpOrdered a b ≠ 1))
  have hpw := List.pairwise_mergeSort (le := fun (a b : Bytes) => decide (cmpOrdered a b ≠ 1))
    (fun a b c h1 h2 => by
      rw [le_iff] at h1 h2 ⊢
      cases h : Infer.bytesLt c a
      · rfl
      · rcases Infer.bytesLt_total a b with e | e | e
        · subst e; rw [h] at h2; cases h2
        · rw [Infer.bytesLt_trans h e] at h2; cases h2
        · rw [e] at h1; cases h1)
    (fun a b => by
      cases h1 : decide (cmpOrdered a b ≠ 1)
      · have : Infer.bytesLt b a = true := by
          cases h : Infer.bytesLt b a
          · exact absurd ((le_iff a b).mpr h) (by simp [h1])
          · rfl
        simp [(le_iff b a).mpr (Infer.bytesLt_asymm this)]
      · simp)
    (m.map Prod.fst)
  apply Infer.asc_ext
  · apply asc_of_pairwise
    · exact hpw.imp (fun h => (le_iff _ _).mp h)
    · exact hperm.nodup_iff.mpr hn
  · exact Infer.asc_sortU _
  · intro a
    rw [hperm.mem_iff, Infer.mem_sortU]; rfl

/-! ### maps: the model's `Nat` tables as Go's `int` tables -/

/-- `map[string]int` of a table of counts -/
def goCounts (m : AMap Bytes Nat) : bayes.countByAccount := m.map fun p => (p.1, (p.2 : Int))

/-- `map[token]countByAccount` -/
def goTA (tm : AMap Bytes (AMap Bytes Nat)) : AMap bayes.token bayes.countByAccount := tm.map fun p => (p.1, goCounts p.2)

/-- a model value as the Go struct -/
def goModel (m : Infer.Model) : bayes.Model := ⟨(m.count : Int), goCounts m.countByAccount, goTA m.countByTokenAndAccount, m.account⟩

theorem find?_mapVal {κ α β : Type} [DecidableEq κ] (f : α → β) (m : AMap κ α) (k : κ) :
    AMap.find? (m.map fun p => (p.1, f p.2)) k = (AMap.find? m k).map f := by
  induction m with
  | nil => rfl
  | cons p rest ih =>
    obtain ⟨a, b⟩ := p
    simp only [List.map_cons, AMap.find?]
    by_cases h : a = k
    · simp [h]
    · simp only [h, if_false]; exact ih

theorem set_mapVal {κ α β : Type} [DecidableEq κ] (f : α → β) (m : AMap κ α) (k : κ) (v : α) :
    AMap.set (m.map fun p => (p.1, f p.2)) k (f v) = (AMap.set m k v).map fun p => (p.1, f p.2) := by
  induction m with
  | nil => rfl
  | cons p rest ih =>
    obtain ⟨a, b⟩ := p
    simp only [List.map_cons, AMap.set]
    by_cases h : a = k
    · simp [h]
    · simp only [h, if_false, List.map_cons]; rw [ih]

theorem keys_mapVal {κ α β : Type} (f : α → β) (m : AMap κ α) : AMap.keys (m.map fun p => (p.1, f p.2)) = AMap.keys m := by
  simp [AMap.keys, List.map_map, Function.comp_def]

theorem get_goCounts (m : AMap Bytes Nat) (k : Bytes) : AMap.get (goCounts m) k (GoZero.zero : Int) = ((m.get k 0 : Nat) : Int) := by
  unfold AMap.get goCounts
  rw [find?_mapVal]
  cases AMap.find? m k <;> rfl

/-- `m[k]++` on a table of counts -/
theorem incr_goCounts (m : AMap Bytes Nat) (k : Bytes) :
    AMap.set (goCounts m) k (AMap.get (goCounts m) k GoZero.zero + (1 : Int)) = goCounts (Infer.incr m k) := by
  rw [get_goCounts]
  unfold Infer.incr goCounts
  rw [← set_mapVal (fun n : Nat => (n : Int))]
  rfl

theorem getDefault_goTA (tm : AMap Bytes (AMap Bytes Nat)) (tok : Bytes) :
    getDefault (goTA tm) tok bayes.newCountByAccount = goCounts (tm.get tok []) := by
  unfold getDefault goTA AMap.get
  rw [find?_mapVal]
  cases AMap.find? tm tok <;> rfl

/-- `dict.GetDefault(m, token, newCountByAccount)[account]++` -/
theorem incrTA_goTA (tm : AMap Bytes (AMap Bytes Nat)) (account tok : Bytes) :
    AMap.set (goTA tm) tok (AMap.set (getDefault (goTA tm) tok bayes.newCountByAccount) account
      (AMap.get (getDefault (goTA tm) tok bayes.newCountByAccount) account GoZero.zero + (1 : Int))) = goTA (Infer.incrTA tm account tok) := by
  rw [getDefault_goTA, incr_goCounts]
  unfold Infer.incrTA goTA
  rw [← set_mapVal goCounts]

/-! ### `NewModel` -/

/-- `bayes.NewModel` -/
theorem NewModel_agrees (account : Bytes) : bayes.NewModel account = goModel (Infer.newModel account) := rfl

/-! ### `tokenize` -/

/-- the Go set with the elements of `l` inserted in order -/
def goSet (l : List Bytes) : set.Set bayes.token := l.foldl (fun s t => AMap.set s t ()) []

theorem keys_set_unit (s : AMap Bytes Unit) (t : Bytes) :
    AMap.keys (AMap.set s t ()) = if t ∈ AMap.keys s then AMap.keys s else AMap.keys s ++ [t] := by
  induction s with
  | nil => simp [AMap.set, AMap.keys]
  | cons p rest ih =>
    obtain ⟨a, u⟩ := p
    simp only [AMap.set, AMap.keys, List.map_cons, List.mem_cons] at ih ⊢
    by_cases h : a = t
    · subst h; simp
    · have h' : ¬ t = a := fun e => h e.symm
      simp only [h, if_false, List.map_cons, h', false_or]
      rw [ih]
      split <;> rename_i hh <;> simp [hh]

theorem foldl_set_keys : ∀ (l : List Bytes) (s : AMap Bytes Unit), (AMap.keys s).Nodup →
    (AMap.keys (l.foldl (fun s t => AMap.set s t ()) s)).Nodup ∧
      ∀ t, t ∈ AMap.keys (l.foldl (fun s t => AMap.set s t ()) s) ↔ t ∈ AMap.keys s ∨ t ∈ l
  | [], s, hn => ⟨hn, fun t => by simp⟩
  | x :: xs, s, hn => by
    have hk := keys_set_unit s x
    have hn' : (AMap.keys (AMap.set s x ())).Nodup := by
      rw [hk]; split
      · exact hn
      · rename_i h
        exact List.nodup_append.mpr ⟨hn, by simp, by intro a ha b hb; simp at hb; subst hb; intro e; subst e; exact h ha⟩
    obtain ⟨h1, h2⟩ := foldl_set_keys xs (AMap.set s x ()) hn'
    refine ⟨h1, fun t => ?_⟩
    rw [List.foldl_cons, h2 t, hk]
    by_cases hx : x ∈ AMap.keys s
    · simp only [hx, if_true, List.mem_cons]
      constructor
      · rintro (e | e)
        · exact Or.inl e
        · exact Or.inr (Or.inr e)
      · rintro (e | e | e)
        · exact Or.inl e
        · exact Or.inl (e ▸ hx)
        · exact Or.inr e
    · simp only [hx, if_false, List.mem_append, List.mem_cons, List.not_mem_nil, or_false]
      constructor
      · rintro ((e | e) | e)
        · exact Or.inl e
        · exact Or.inr (Or.inl e)
        · exact Or.inr (Or.inr e)
      · rintro (e | e | e)
        · exact Or.inl (Or.inl e)
        · exact Or.inl (Or.inr e)
        · exact Or.inr e

/-- the keys of a Go set are distinct … -/
theorem goSet_nodup (l : List Bytes) : (AMap.keys (goSet l)).Nodup := (foldl_set_keys l [] List.nodup_nil).1

/-- … and are the elements inserted -/
theorem mem_goSet (l : List Bytes) (t : Bytes) : t ∈ AMap.keys (goSet l) ↔ t ∈ l := by
  rw [goSet, (foldl_set_keys l [] List.nodup_nil).2 t]; simp [AMap.keys]

/-- **`dict.SortedKeys(set, compare.Ordered[token])`** of a Go set is the model's sorted, duplicate-free list -/
theorem sortedKeys_goSet (l : List Bytes) : sortedKeys (goSet l) cmpOrdered = Infer.sortU l := by
  rw [sortedKeys_eq_sortU _ (goSet_nodup l)]
  exact Infer.sortU_congr (mem_goSet l)

theorem find?_isSome_iff {ν : Type} (m : AMap Bytes ν) (k : Bytes) : (AMap.find? m k).isSome = true ↔ k ∈ AMap.keys m :=
  (Infer.mem_keys_iff m k).symm

/-- the words `tokenize` puts into the set, in the order it inserts them -/
def tokenList (desc commodity quantity other : Bytes) : List Bytes :=
  (Infer.fields desc ++ [commodity, quantity, other]).map Infer.toLower

theorem tokenize_eq (desc commodity quantity other : Bytes) :
    Infer.tokenize desc commodity quantity other = Infer.sortU (tokenList desc commodity quantity other) := rfl

theorem tokenize_range1 : ∀ (items : List Bytes) (s : set.Set bayes.token),
    bayes.tokenize.range1 items s = .ok ((items.map Infer.toLower).foldl (fun s t => AMap.set s t ()) s)
  | [], s => rfl
  | x :: xs, s => by
    rw [bayes.tokenize.range1]
    simp only [set.Set.Add, Syn.Strings.ToLower, List.map_cons, List.foldl_cons]
    exact tokenize_range1 xs _

/-- **`bayes.tokenize`**: when the three `Extract()` calls succeed, the set of the lower-cased tokens, inserted in Go's order -/
theorem tokenize_agrees (gt : directives.Transaction) (gb : directives.Booking) (other desc commodity quantity : Bytes)
    (hd : directives.Range.Extract gt.Description.Content = .ok desc)
    (hc : directives.Range.Extract gb.Commodity.Range = .ok commodity)
    (hq : directives.Range.Extract gb.Quantity.Range = .ok quantity) :
    bayes.tokenize gt gb other = .ok (goSet (tokenList desc commodity quantity other)) := by
  unfold bayes.tokenize
  simp only [hd, hc, hq, obind_ok', tokenize_range1, Syn.Strings.Fields, set.New]
  rfl

/-- the order in which `dict.SortedKeys` hands the Go token set on is the model's `tokenize` -/
theorem sortedKeys_tokens (desc commodity quantity other : Bytes) :
    sortedKeys (goSet (tokenList desc commodity quantity other)) cmpOrdered = Infer.tokenize desc commodity quantity other :=
  sortedKeys_goSet _

theorem mem_tokens (desc commodity quantity other t : Bytes) :
    t ∈ AMap.keys (goSet (tokenList desc commodity quantity other)) ↔ t ∈ Infer.tokenize desc commodity quantity other := by
  rw [mem_goSet, tokenize_eq, Infer.mem_sortU]

/-! ### `Model.update` -/

/-- the keys of the iteration order `order` that are tokens: what the `range` over the token set visits, in that order -/
def walkOf (order : List Bytes) (desc commodity quantity other : Bytes) : List Bytes :=
  order.filter fun k => decide (k ∈ Infer.tokenize desc commodity quantity other)

theorem rangeKeys_tokens (order : List Bytes) (desc commodity quantity other : Bytes) :
    Syn.rangeKeys order (goSet (tokenList desc commodity quantity other)) = walkOf order desc commodity quantity other := by
  unfold Syn.rangeKeys walkOf
  apply List.filter_congr
  intro k _
  have := mem_tokens desc commodity quantity other k
  rw [← find?_isSome_iff] at this
  by_cases h : k ∈ Infer.tokenize desc commodity quantity other
  · simp [h, this.mpr h]
  · have : (AMap.find? (goSet (tokenList desc commodity quantity other)) k).isSome = false := by
      cases hh : (AMap.find? (goSet (tokenList desc commodity quantity other)) k).isSome
      · rfl
      · exact absurd (this.mp hh) h
    simp [h, this]

/-- an iteration order of the token set: every token once (other keys, which the map does not have, are skipped) -/
def OrderOK (order : List Bytes) (tokens : List Bytes) : Prop := order.Nodup ∧ ∀ t ∈ tokens, t ∈ order

theorem walkOf_ok {order : List Bytes} {desc commodity quantity other : Bytes}
    (h : OrderOK order (Infer.tokenize desc commodity quantity other)) :
    (walkOf order desc commodity quantity other).Nodup ∧
      ∀ t, t ∈ walkOf order desc commodity quantity other ↔ t ∈ Infer.tokenize desc commodity quantity other := by
  refine ⟨h.1.filter _, fun t => ?_⟩
  simp only [walkOf, List.mem_filter, decide_eq_true_eq]
  exact ⟨fun x => x.2, fun x => ⟨h.2 t x, x⟩⟩

theorem update_range1 (account : Bytes) (order : List Bytes) : ∀ (items : List Bytes) (m : Infer.Model),
    bayes.Model.update.range1 account order items (goModel m) =
      .ok (goModel { m with countByTokenAndAccount := items.foldl (fun tm tok => Infer.incrTA tm account tok) m.countByTokenAndAccount })
  | [], m => rfl
  | x :: xs, m => by
    rw [bayes.Model.update.range1]
    have := update_range1 account order xs { m with countByTokenAndAccount := Infer.incrTA m.countByTokenAndAccount account x }
    simp only [goModel, incrTA_goTA, List.foldl_cons] at this ⊢
    exact this

/-- **`Model.update`** for every iteration order of the token set: the model's `updateWith` along the tokens the order visits -/
theorem update_agrees (m : Infer.Model) (gt : directives.Transaction) (gb : directives.Booking) (account other : Bytes)
    (order : List Bytes) (desc commodity quantity : Bytes)
    (hd : directives.Range.Extract gt.Description.Content = .ok desc)
    (hc : directives.Range.Extract gb.Commodity.Range = .ok commodity)
    (hq : directives.Range.Extract gb.Quantity.Range = .ok quantity) :
    bayes.Model.update (goModel m) gt gb account other order =
      .ok (goModel (m.updateWith account (walkOf order desc commodity quantity other))) := by
  unfold bayes.Model.update
  rw [tokenize_agrees gt gb other desc commodity quantity hd hc hq]
  simp only [obind_ok', rangeKeys_tokens]
  have h := update_range1 account order (walkOf order desc commodity quantity other)
    { m with count := m.count + 1, countByAccount := Infer.incr m.countByAccount account }
  simp only [goModel, incr_goCounts, Int.natCast_add, Int.natCast_one] at h ⊢
  rw [h]
  rfl

/-! ### what inference can tell apart -/

theorem lookupTA_updateWith (m : Infer.Model) (account : Bytes) (walk : List Bytes) (hw : walk.Nodup) (t a : Bytes) :
    (m.updateWith account walk).lookupTA t a =
      if account = a ∧ t ∈ walk then some ((m.lookupTA t a).getD 0 + 1) else m.lookupTA t a :=
  Infer.lookup_foldl account walk m.countByTokenAndAccount t a hw

/-- `updateWith` respects `Equiv`, along any two walks of the same token set -/
theorem updateWith_congr {m₁ m₂ : Infer.Model} (h : m₁.Equiv m₂) (account : Bytes) {w₁ w₂ : List Bytes} (h₁ : w₁.Nodup) (h₂ : w₂.Nodup)
    (hm : ∀ t, t ∈ w₁ ↔ t ∈ w₂) : (m₁.updateWith account w₁).Equiv (m₂.updateWith account w₂) := by
  refine ⟨?_, ?_, ?_, h.account⟩
  · simp [Infer.Model.updateWith, h.count]
  · intro a
    simp only [Infer.Model.updateWith, Infer.incr, AMap.find?_set, AMap.get, h.byAccount]
  · intro t a
    rw [lookupTA_updateWith _ _ _ h₁, lookupTA_updateWith _ _ _ h₂, h.byTA]
    simp only [hm]

theorem equiv_refl (m : Infer.Model) : m.Equiv m := ⟨rfl, fun _ => rfl, fun _ _ => rfl, rfl⟩

/-- walking the token set in any order that lists every token once gives tables inference cannot tell from the model's `update` -/
theorem updateWith_equiv {m₁ m₂ : Infer.Model} (h : m₁.Equiv m₂) (account other : Bytes) (order : List Bytes) (desc : Bytes) (v : BookingV)
    (ho : OrderOK order (Infer.tokenize desc v.commodity v.quantity other)) :
    (m₁.updateWith account (walkOf order desc v.commodity v.quantity other)).Equiv (m₂.update desc v account other) := by
  rw [Infer.update_eq]
  obtain ⟨w1, w2⟩ := walkOf_ok ho
  exact updateWith_congr h account w1 (Infer.nodup_tokenize ..) w2

/-! ### `Model.Update` -/

/-- two lists related element by element -/
inductive Forall2 {α β : Type} (R : α → β → Prop) : List α → List β → Prop
  | nil : Forall2 R [] []
  | cons {a b l₁ l₂} : R a b → Forall2 R l₁ l₂ → Forall2 R (a :: l₁) (b :: l₂)

/-- what `Update` reads of a Go booking: the four `Extract()` results -/
structure ViewB (gb : directives.Booking) (v : BookingV) : Prop where
  credit : directives.Range.Extract gb.Credit.Range = .ok v.credit
  debit : directives.Range.Extract gb.Debit.Range = .ok v.debit
  quantity : directives.Range.Extract gb.Quantity.Range = .ok v.quantity
  commodity : directives.Range.Extract gb.Commodity.Range = .ok v.commodity

/-- a Go booking as training reads it: the fields and the two `Macro` flags -/
def ViewTB (gb : directives.Booking) (tb : Infer.TBooking) : Prop :=
  ViewB gb tb.v ∧ tb.creditMacro = gb.Credit.Macro ∧ tb.debitMacro = gb.Debit.Macro

/-- a Go transaction as training reads it -/
structure ViewT (gt : directives.Transaction) (tt : Infer.TTx) : Prop where
  desc : directives.Range.Extract gt.Description.Content = .ok tt.desc
  bookings : Forall2 ViewTB gt.Bookings tt.bookings

/-- the body of the loop of `Update` with the two walks of its two `update` calls -/
def updateBookingW (desc : Bytes) (o1 o2 : List Bytes) (m : Infer.Model) (b : Infer.TBooking) : Infer.Model :=
  if Infer.eligible m.account b then
    (m.updateWith b.v.credit (walkOf o1 desc b.v.commodity b.v.quantity b.v.debit)).updateWith b.v.debit
      (walkOf o2 desc b.v.commodity b.v.quantity b.v.credit)
  else m

/-- the loop of `Update` from round `i` on; `o1 i` / `o2 i` are the iteration orders of the two token sets in round `i` -/
def updateFromW (desc : Bytes) (o1 o2 : Int → List Bytes) : List Infer.TBooking → Int → Infer.Model → Infer.Model
  | [], _, m => m
  | b :: bs, i, m => updateFromW desc o1 o2 bs (i + 1) (updateBookingW desc (o1 i) (o2 i) m b)

/-- `Model.Update` with given iteration orders -/
def updateTxW (o1 o2 : Int → List Bytes) (m : Infer.Model) (t : Infer.TTx) : Infer.Model := updateFromW t.desc o1 o2 t.bookings 0 m

theorem updateWith_account (m : Infer.Model) (a : Bytes) (w : List Bytes) : (m.updateWith a w).account = m.account := rfl

theorem index_append {α : Type} (pre : List α) (x : α) (post : List α) : index (pre ++ x :: post) (pre.length : Int) = .ok x := by
  unfold index
  have h : ¬ ((pre.length : Int) < 0) := by omega
  simp [h]

theorem Update_range1 (gt : directives.Transaction) (o1 o2 : Int → List Bytes) (desc : Bytes)
    (hd : directives.Range.Extract gt.Description.Content = .ok desc) :
    ∀ (items : List directives.Booking) (tbs : List Infer.TBooking) (pre : List directives.Booking) (m : Infer.Model),
      gt.Bookings = pre ++ items → Forall2 ViewTB items tbs →
      bayes.Model.Update.range1 gt o1 o2 items (pre.length : Int) (goModel m) = .ok (goModel (updateFromW desc o1 o2 tbs (pre.length : Int) m))
  | [], tbs, pre, m, _, hv => by cases hv; rfl
  | gb :: items, tbs, pre, m, hpre, hv => by
    cases hv with
    | cons hb hrest =>
      rename_i tb tbs'
      obtain ⟨vb, m1, m2⟩ := hb
      have hnext : gt.Bookings = (pre ++ [gb]) ++ items := by simp [hpre]
      have ih := fun m' => Update_range1 gt o1 o2 desc hd items tbs' (pre ++ [gb]) m' hnext hrest
      simp only [List.length_append, List.length_cons, List.length_nil, Nat.zero_add, Int.natCast_add, Int.natCast_one] at ih
      rw [bayes.Model.Update.range1, updateFromW]
      simp only [vb.credit, vb.debit, obind_ok']
      have hel : Infer.eligible m.account tb = (!(gb.Credit.Macro || gb.Debit.Macro) &&
          !(decide (tb.v.credit = []) || decide (tb.v.debit = [])) && !(decide (tb.v.credit = m.account) || decide (tb.v.debit = m.account))) := by
        have beq_dec : ∀ (a b : Bytes), (a == b) = decide (a = b) := fun a b => by by_cases h : a = b <;> simp [h]
        simp only [Infer.eligible, m1, m2, beq_dec]
      have hlit : (Syn.lit "" : Bytes) = [] := rfl
      have hacc : (goModel m).account = m.account := rfl
      by_cases c1 : (gb.Credit.Macro || gb.Debit.Macro) = true
      · have : Infer.eligible m.account tb = false := by rw [hel, c1]; rfl
        simp only [c1, if_true, updateBookingW, this, Bool.false_eq_true, if_false]
        exact ih m
      · simp only [Bool.not_eq_true] at c1
        simp only [c1, Bool.false_eq_true, if_false, hlit, hacc]
        by_cases c2 : (decide (tb.v.credit = []) || decide (tb.v.debit = [])) = true
        · have : Infer.eligible m.account tb = false := by rw [hel, c1, c2]; rfl
          simp only [c2, if_true, updateBookingW, this, Bool.false_eq_true, if_false]
          exact ih m
        · simp only [Bool.not_eq_true] at c2
          simp only [c2, Bool.false_eq_true, if_false]
          by_cases c3 : (decide (tb.v.credit = m.account) || decide (tb.v.debit = m.account)) = true
          · have : Infer.eligible m.account tb = false := by rw [hel, c1, c2, c3]; rfl
            simp only [c3, if_true, updateBookingW, this, Bool.false_eq_true, if_false]
            exact ih m
          · simp only [Bool.not_eq_true] at c3
            have : Infer.eligible m.account tb = true := by rw [hel, c1, c2, c3]; rfl
            simp only [c3, Bool.false_eq_true, if_false, updateBookingW, this, if_true, hpre, index_append, obind_ok']
            rw [update_agrees m gt gb tb.v.credit tb.v.debit (o1 pre.length) desc tb.v.commodity tb.v.quantity hd vb.commodity vb.quantity]
            simp only [obind_ok']
            rw [update_agrees _ gt gb tb.v.debit tb.v.credit (o2 pre.length) desc tb.v.commodity tb.v.quantity hd vb.commodity vb.quantity]
            simp only [obind_ok']
            exact ih _

/-- **`Model.Update`**, for every family of iteration orders (`o1 i`, `o2 i`: the orders of the two token sets that the two `update`
calls of round `i` range over): the model's loop with these walks.  Nothing panics when the `Extract()` calls succeed. -/
theorem Update_agrees (m : Infer.Model) (gt : directives.Transaction) (tt : Infer.TTx) (o1 o2 : Int → List Bytes) (hv : ViewT gt tt) :
    bayes.Model.Update (goModel m) gt o1 o2 = .ok (goModel (updateTxW o1 o2 m tt)) := by
  unfold bayes.Model.Update
  have := Update_range1 gt o1 o2 tt.desc hv.desc gt.Bookings tt.bookings [] m rfl hv.bookings
  simp only [List.length_nil, Int.natCast_zero] at this
  rw [this]; rfl

/-- every round's two orders list each token of their set once -/
def OrdersOK (desc : Bytes) (o1 o2 : Int → List Bytes) : List Infer.TBooking → Int → Prop
  | [], _ => True
  | b :: bs, i =>
    OrderOK (o1 i) (Infer.tokenize desc b.v.commodity b.v.quantity b.v.debit) ∧
    OrderOK (o2 i) (Infer.tokenize desc b.v.commodity b.v.quantity b.v.credit) ∧ OrdersOK desc o1 o2 bs (i + 1)

theorem updateFromW_equiv (desc : Bytes) (o1 o2 : Int → List Bytes) : ∀ (bs : List Infer.TBooking) (i : Int) (m₁ m₂ : Infer.Model),
    m₁.Equiv m₂ → OrdersOK desc o1 o2 bs i → (updateFromW desc o1 o2 bs i m₁).Equiv (bs.foldl (Infer.Model.updateBooking desc) m₂)
  | [], _, _, _, h, _ => h
  | b :: bs, i, m₁, m₂, h, ho => by
    obtain ⟨h1, h2, h3⟩ := ho
    rw [updateFromW, List.foldl_cons]
    apply updateFromW_equiv desc o1 o2 bs (i + 1) _ _ _ h3
    unfold updateBookingW Infer.Model.updateBooking
    rw [h.account]
    split
    · exact updateWith_equiv (updateWith_equiv h _ _ _ desc b.v h1) _ _ _ desc b.v h2
    · exact h

/-- **the iteration order of the token sets cannot be observed**: for orders that list every token once, `Update` leaves tables that
inference cannot tell from the model's `updateTx` (`Equiv`: same `count`, same lookups in `countByAccount` and
`countByTokenAndAccount`, same placeholder) -/
theorem updateTxW_equiv (o1 o2 : Int → List Bytes) {m₁ m₂ : Infer.Model} (h : m₁.Equiv m₂) (t : Infer.TTx)
    (ho : OrdersOK t.desc o1 o2 t.bookings 0) : (updateTxW o1 o2 m₁ t).Equiv (m₂.updateTx t) :=
  updateFromW_equiv t.desc o1 o2 t.bookings 0 m₁ m₂ h ho

/-- when Go happens to walk every token set in ascending order the translation IS the model's `updateTx` -/
theorem updateFromW_sorted (desc : Bytes) (o1 o2 : Int → List Bytes) : ∀ (bs : List Infer.TBooking) (i : Int) (m : Infer.Model),
    (∀ (j : Int) (b : Infer.TBooking), o1 j = Infer.tokenize desc b.v.commodity b.v.quantity b.v.debit ∧
      o2 j = Infer.tokenize desc b.v.commodity b.v.quantity b.v.credit) → updateFromW desc o1 o2 bs i m = bs.foldl (Infer.Model.updateBooking desc) m
  | [], _, _, _ => rfl
  | b :: bs, i, m, h => by
    rw [updateFromW, List.foldl_cons, updateFromW_sorted desc o1 o2 bs (i + 1) _ h]
    congr 1
    unfold updateBookingW Infer.Model.updateBooking
    have hw : ∀ d c q o, walkOf (Infer.tokenize d c q o) d c q o = Infer.tokenize d c q o := by
      intro d c q o
      unfold walkOf
      exact List.filter_eq_self.mpr (fun a ha => by simp [ha])
    rw [(h i b).1, (h i b).2, hw, hw]
    rfl

/-! ### training: `Update` over the transactions of the training files -/

/-- the loop of `inferRunner.train` over Go transactions, transaction `k` with the orders `os k` -/
def trainGo : List directives.Transaction → Nat → (Nat → (Int → List Bytes) × (Int → List Bytes)) → bayes.Model → Outcome bayes.Model
  | [], _, _, gm => .ok gm
  | gt :: rest, k, os, gm => (bayes.Model.Update gm gt (os k).1 (os k).2).bind fun gm' => trainGo rest (k + 1) os gm'

/-- the model's side of that loop: transaction `k` with the walks the orders `os k` give -/
def trainW (os : Nat → (Int → List Bytes) × (Int → List Bytes)) : List Infer.TTx → Nat → Infer.Model → Infer.Model
  | [], _, m => m
  | t :: ts, k, m => trainW os ts (k + 1) (updateTxW (os k).1 (os k).2 m t)

/-- **training through the translated `Update`**, for EVERY family of iteration orders: the Go model after the transactions `gts` is
`goModel` of the model's loop with the corresponding walks; nothing panics when the `Extract()` calls succeed -/
theorem trainGo_agrees (os : Nat → (Int → List Bytes) × (Int → List Bytes)) :
    ∀ (gts : List directives.Transaction) (txs : List Infer.TTx) (k : Nat) (m : Infer.Model), Forall2 ViewT gts txs →
      trainGo gts k os (goModel m) = .ok (goModel (trainW os txs k m))
  | [], _, _, m, hv => by cases hv; rfl
  | gt :: gts, _, k, m, hv => by
    cases hv with
    | cons hv1 hrest =>
      rename_i t txs
      rw [trainGo, Update_agrees m gt t _ _ hv1, trainW]
      exact trainGo_agrees os gts txs (k + 1) _ hrest

/-- every order of the family lists each token of its set once -/
def TrainOrdersOK (os : Nat → (Int → List Bytes) × (Int → List Bytes)) : List Infer.TTx → Nat → Prop
  | [], _ => True
  | t :: ts, k => OrdersOK t.desc (os k).1 (os k).2 t.bookings 0 ∧ TrainOrdersOK os ts (k + 1)

/-- **the iteration orders cannot be observed**: with orders that list every token once, the tables after training are `Equiv` to the
model's fold of `updateTx` -/
theorem trainW_equiv (os : Nat → (Int → List Bytes) × (Int → List Bytes)) : ∀ (txs : List Infer.TTx) (k : Nat) (m₁ m₂ : Infer.Model),
    m₁.Equiv m₂ → TrainOrdersOK os txs k → (trainW os txs k m₁).Equiv (txs.foldl Infer.Model.updateTx m₂)
  | [], _, _, _, h, _ => h
  | t :: ts, k, m₁, m₂, h, ho => by
    rw [trainW, List.foldl_cons]
    exact trainW_equiv os ts (k + 1) _ _ (updateTxW_equiv _ _ h t ho.1) ho.2

/-- from `NewModel`: the trained Go model is `goModel (trainW …)`, whose tables are `Equiv` to the model's `train` -/
theorem train_agrees (account : Bytes) (os : Nat → (Int → List Bytes) × (Int → List Bytes)) (gts : List directives.Transaction)
    (txs : List Infer.TTx) (hv : Forall2 ViewT gts txs) (ho : TrainOrdersOK os txs 0) :
    trainGo gts 0 os (bayes.NewModel account) = .ok (goModel (trainW os txs 0 (Infer.newModel account))) ∧
      (trainW os txs 0 (Infer.newModel account)).Equiv (Infer.train account txs) := by
  rw [NewModel_agrees]
  exact ⟨trainGo_agrees os gts txs 0 _ hv, trainW_equiv os txs 0 _ _ (equiv_refl _) ho⟩

/-! ### parsed trees -/

section
variable {text : Bytes} {path : String}

/-- a booking of a tree over `text` in Go's representation is viewed as the model views it -/
theorem viewB_goBooking {b : Syntax.Booking} {v : BookingV} (h : viewBooking text b = some v) : ViewB (goBooking text path b) v := by
  simp only [viewBooking, Option.bind_eq_bind, Option.bind_eq_some_iff, Option.pure_def, Option.some.injEq] at h
  obtain ⟨cr, h1, db, h2, q, h3, c, h4, rfl⟩ := h
  exact ⟨by simp [goBooking, goAccount, Extract_goRange, h1], by simp [goBooking, goAccount, Extract_goRange, h2],
    by simp [goBooking, goDecimal, Extract_goRange, h3], by simp [goBooking, goCommodity, Extract_goRange, h4]⟩

/-- a transaction of a tree over `text` in Go's representation is read by training as the model's `viewT` says -/
theorem viewT_goTransaction {t : Syntax.Transaction} {tt : Infer.TTx} (h : Infer.viewT text t = some tt) :
    ViewT (goTransaction text path t) tt := by
  simp only [Infer.viewT, Option.bind_eq_bind, Option.bind_eq_some_iff, Option.pure_def, Option.some.injEq] at h
  obtain ⟨desc, hd, bs, hbs, rfl⟩ := h
  refine ⟨by simp [goTransaction, goQuoted, Extract_goRange, hd], ?_⟩
  simp only [goTransaction]
  generalize t.bookings = l at hbs
  induction l generalizing bs with
  | nil => simp at hbs; subst hbs; exact Forall2.nil
  | cons b rest ih =>
    obtain ⟨x, xs, h1, h2, rfl⟩ := (Infer.mapM_cons_some _ b rest bs).mp hbs
    simp only [Option.map_eq_some_iff] at h1
    obtain ⟨v, hv, rfl⟩ := h1
    exact Forall2.cons ⟨viewB_goBooking hv, rfl, rfl⟩ (ih xs h2)

end

end Knut.FactsAgree.TransBayes
