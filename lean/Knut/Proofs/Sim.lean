/-! Simulation of two `Except`-valued folds (used for refinement proofs). -/
namespace Knut

/-- two outcomes agree: both succeed in related states, or both fail with related errors -/
def Sim {σ τ ε ε' : Type} (R : σ → τ → Prop) (E : ε → ε' → Prop) : Except ε σ → Except ε' τ → Prop
  | .ok s, .ok t => R s t
  | .error e, .error e' => E e e'
  | _, _ => False

theorem foldlM_sim {α σ τ ε ε' : Type} (R : σ → τ → Prop) (E : ε → ε' → Prop)
    (f : σ → α → Except ε σ) (g : τ → α → Except ε' τ) (xs : List α)
    (h : ∀ s t x, x ∈ xs → R s t → Sim R E (f s x) (g t x)) :
    ∀ s t, R s t → Sim R E (xs.foldlM f s) (xs.foldlM g t) := by
  induction xs with
  | nil => intro s t hr; simp only [List.foldlM_nil]; exact hr
  | cons x rest ih =>
    intro s t hr
    have hx := h s t x (List.mem_cons_self) hr
    simp only [List.foldlM_cons]
    cases hf : f s x with
    | error e =>
      cases hg : g t x with
      | error e' => rw [hf, hg] at hx; simpa [Sim, bind, Except.bind] using hx
      | ok t' => rw [hf, hg] at hx; exact absurd hx (by simp [Sim])
    | ok s' =>
      cases hg : g t x with
      | error e' => rw [hf, hg] at hx; exact absurd hx (by simp [Sim])
      | ok t' =>
        rw [hf, hg] at hx
        simp only [bind, Except.bind]
        exact ih (fun s t y hy => h s t y (List.mem_cons_of_mem _ hy)) s' t' hx

/-- sequencing two simulated computations -/
theorem bind_sim {σ τ σ' τ' ε ε' : Type} {R : σ → τ → Prop} {R' : σ' → τ' → Prop} {E : ε → ε' → Prop}
    {x : Except ε σ} {y : Except ε' τ} {f : σ → Except ε σ'} {g : τ → Except ε' τ'}
    (hxy : Sim R E x y) (hfg : ∀ s t, R s t → Sim R' E (f s) (g t)) : Sim R' E (x >>= f) (y >>= g) := by
  cases x with
  | error e => cases y with
    | error e' => simpa [Sim, bind, Except.bind] using hxy
    | ok t => exact absurd hxy (by simp [Sim])
  | ok s => cases y with
    | error e' => exact absurd hxy (by simp [Sim])
    | ok t => simpa [bind, Except.bind] using hfg s t hxy

end Knut
