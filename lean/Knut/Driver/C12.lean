import Knut.Wire
import Knut.Model.Prices
import Knut.Spec.PriceSpec
/-! Driver ops for C12 (price insertion, normalisation, valuation, per-day normalisation, monitors).

Field formats: a commodity is hex; a decimal is a plain literal `-?digits(.digits)?`;
declarations `com:price:tgt,…` (`-` = none); dated directives `day:com:price:tgt,…` (a price) or `day` (another directive on that day);
queries `com:amount,…`; a price table `com:price,…`. -/
namespace Knut.Driver.C12
open Knut Knut.Wire Knut.Prices Knut.Dec

def parseList {α : Type} (s : String) (f : List String → Option α) : Option (List α) :=
  if s = "-" then some [] else (splitOn s ',').mapM (fun item => f (splitOn item ':'))

def parseDecl : List String → Option Decl
  | [c, p, t] => do
    let c ← unhexStr c; let p ← parseDec p; let t ← unhexStr t
    pure { commodity := c, price := p, target := t }
  | _ => none

def parseDated : List String → Option (Int × Option Decl)
  | [d, c, p, t] => do
    let d ← parseInt d; let x ← parseDecl [c, p, t]
    pure (d, some x)
  | [d] => do let d ← parseInt d; pure (d, none)
  | _ => none

def parseQuery : List String → Option (Commodity × Rat)
  | [c, a] => do let c ← unhexStr c; let a ← parseDec a; pure (c, a)
  | _ => none

/-- the map-order oracle: a different enumeration order of every association list -/
def reorder (o : Nat) (ps : Prices) : Prices :=
  match o with
  | 0 => ps
  | 1 => (ps.map (fun e => (e.1, e.2.reverse))).reverse
  | 2 => ps.map (fun e => (e.1, e.2.rotateLeft 1))
  | _ => (ps.map (fun e => (e.1, e.2.reverse))).rotateLeft 2

def showOpt : Option Rat → String
  | some r => showDec r
  | none => "none"

def answerQueries (np : NPrices) (qs : List (Commodity × Rat)) : String :=
  qs.foldl (fun s q => s ++ " " ++ showOpt (npPrice np q.1) ++ "/" ++ showOpt (npValuate np q.1 q.2)) ""

def firstZero (ds : List Decl) : Nat := (ds.takeWhile (fun d => d.price ≠ 0)).length

def parseTable (s : String) : Option NPrices :=
  parseList s (fun
    | [c, p] => do let c ← unhexStr c; let p ← parseDec p; pure (c, p)
    | _ => none)

def parseVals (s : String) : Option (List (Commodity × Rat × Option Rat)) :=
  parseList s (fun
    | [c, a, r] => do
      let c ← unhexStr c; let a ← parseDec a
      if r = "none" then pure (c, a, none) else do let r ← parseDec r; pure (c, a, some r)
    | _ => none)

def handleStr (fields : List String) : String :=
  match fields with
  | ["c12", v, decls, queries, oracle] =>
    match unhexStr v, parseList decls parseDecl, parseList queries parseQuery, oracle.toNat? with
    | some v, some ds, some qs, some o =>
      match insertAll [] ds with
      | none => s!"error {firstZero ds}"
      | some ps => "ok" ++ answerQueries (normalize (reorder o ps) v) qs
    | _, _, _, _ => "bad-op"
  | ["c12days", v, dated, queries] =>
    match unhexStr v, parseList dated parseDated, parseList queries parseQuery with
    | some v, some ds, some qs =>
      match computePrices v {} (buildDays ds) with
      | none => "error"
      | some out => out.foldl (fun s e => s ++ s!" {e.1}" ++ (match e.2 with
          | none => "|nil"
          | some np => qs.foldl (fun s q => s ++ "|" ++ showOpt (npPrice np q.1)) "")) "ok"
    | _, _, _ => "bad-op"
  | ["c12mon", v, decls, table] =>
    match unhexStr v, parseList decls parseDecl, parseTable table with
    | some v, some ds, some N =>
      let e := Spec.latest ds
      let univ := v :: Spec.declNames ds
      let fails := (if Spec.selfOK v N then "" else " self") ++ (if Spec.directOK e univ v N then "" else " direct")
        ++ (if Spec.chainOK e univ v N then "" else " chain") ++ (if Spec.closedOK e univ N then "" else " closed")
      if Spec.priceOK ds v N then "ok" else "fail" ++ fails
    | _, _, _ => "bad-op"
  | ["c12valmon", table, vals] =>
    match parseTable table, parseVals vals with
    | some N, some vs => if vs.all (fun x => Spec.valuateOK N x.1 x.2.1 x.2.2) then "ok" else "fail"
    | _, _ => "bad-op"
  | ["c12insmon", decls, accepted] =>
    match parseList decls parseDecl with
    | some ds => if Spec.insertOK ds (accepted == "1") then "ok" else "fail"
    | none => "bad-op"
  | _ => "no-such-op"

def handle (fields : List String) : Option String :=
  let r := handleStr fields
  if r = "no-such-op" then none else some r

end Knut.Driver.C12
