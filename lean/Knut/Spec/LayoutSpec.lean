import Knut.Model.Commands
/-!
# C05 at the level a user sees it: from the files on disk to the bytes on standard output

`journalOf fs root` is the list of model directives the commands work on: the recursive loader (`Loader.load` with the
parser model) returns the files, `elabFile` (`model.FromStream`, accrual expansion included) turns each of them into
directives, and the lists are concatenated in the loader's order. `Commands.fromPath` is this function
(`fromPath_eq_journalOf`, by definition); `checkOn`, `balanceOn`, `printOn` are what `check`, `balance` and `print` do
with the directive list, so that `Cmd.run c fs f` factors through `journalOf` (`Proofs/LayoutFactor.lean`).

`PrintEquiv` is the relation between two printed journals the property grants to `print`: the same days, per day the
same directives per kind as multisets, and the transactions — which `journal.Print` sorts — in the same order up to
transactions that `transaction.Compare` does not distinguish.
-/
namespace Knut.Layout
open Knut Knut.Loader Knut.Commands

/-- a loaded file: its path, its bytes and its syntax tree -/
abbrev LoadedFile := Path × (Commands.Bytes × Syntax.File)

/-- `model.FromStream` on the loaded files in the given order, concatenated -/
def journalOfFiles (files : List LoadedFile) : Except CmdOutcome (List Directive) :=
  (files.mapM (fun pf => elabFile pf.2)).map List.flatten

/-- **the directives of the journal rooted at `root`**, in the order `Cmd.run` uses: load (includes followed
recursively), elaborate every file, concatenate. `.error` carries the outcome of the failing command. -/
def journalOf (fs : FileSys) (root : Path) : Except CmdOutcome (List Directive) :=
  match load fs parseForLoader root with
  | .error _ => .error (.error "loading")
  | .ok files => journalOfFiles files

/-- `knut check [--write]` on the directives -/
def checkOn (write : Bool) (ds : List Directive) : CmdOutcome :=
  match checkWrite {} (Builder.ofList ds).build with
  | .error _ => .error "processing"
  | .ok as => if write then .ok (JournalPrinter.print (Builder.ofList as).build) else .ok ""

/-- `knut balance <flags>` on the directives (the valuation flag is examined first) -/
def balanceOn (bf : BalanceFlags) (ds : Except CmdOutcome (List Directive)) : CmdOutcome :=
  match commodityFlag bf.valuation with
  | .error o => o
  | .ok v =>
    match ds with
    | .error o => o
    | .ok ds => BalanceCmd.run { bf with valuation := v } ds

/-- `knut print` on the directives -/
def printOn (ds : List Directive) : CmdOutcome :=
  match Check.run (Builder.ofList ds).build with
  | .error _ => .error "processing"
  | .ok _ => .ok (JournalPrinter.print (Builder.ofList ds).build)

/-- what `check`, `balance` and `print` do once the journal is read: they see the file system through `journalOf`
only, and of the flags everything but the path -/
def onJournal (c : Command) (f : Flags) (j : Except CmdOutcome (List Directive)) : CmdOutcome :=
  match c with
  | .check => (match j with | .error o => o | .ok ds => checkOn f.write ds)
  | .balance => balanceOn f.balance j
  | .print => (match j with | .error o => o | .ok ds => printOn ds)
  | _ => .error "not a journal command"

/-- what `journal.Print` may change between two layouts, for one day -/
structure DayPrintEquiv (d d' : Day) : Prop where
  date : d.date = d'.date
  prices : d.prices.Perm d'.prices
  openings : d.openings.Perm d'.openings
  assertions : d.assertions.Perm d'.assertions
  closings : d.closings.Perm d'.closings
  /-- the same transactions … -/
  txs : (JournalPrinter.sortTxs d.transactions).Perm (JournalPrinter.sortTxs d'.transactions)
  /-- … printed in the same order up to transactions that compare equal: position by position the two printed
  sequences hold transactions `transaction.Compare` does not distinguish -/
  txsOrder : ∀ p ∈ (JournalPrinter.sortTxs d.transactions).zip (JournalPrinter.sortTxs d'.transactions),
    JournalPrinter.cmpTx p.1 p.2 = .eq

/-- what `journal.Print` may change between two layouts: nothing but the order within a (day, kind) block; the column
width of the postings is the same -/
structure PrintEquiv (j j' : List Day) : Prop where
  length : j.length = j'.length
  /-- day by day -/
  days : ∀ p ∈ j.zip j', DayPrintEquiv p.1 p.2
  padding : JournalPrinter.padding j = JournalPrinter.padding j'

end Knut.Layout
