import Knut.Wire
import Knut.Driver.JournalWire
import Knut.Syntax.Parser
import Knut.Model.Import.Brokers
import Knut.Spec.ImportItems
/-! Driver ops for C13 (importer row models, library-function models, faithfulness monitors). Glue only. -/
namespace Knut.Driver.C13
open Knut Knut.Wire Knut.Import

/-- `hex,hex,…` -/
def parseHexList (s : String) : Option (List String) :=
  if s = "." then some [] else (splitOn s ',').mapM unhexStr

/-- `rec;rec;…` with `rec = hex,hex,…`; `.` = no record -/
def parseRecords (s : String) : Option (List Rec) :=
  if s = "." then some [] else (splitOn s ';').mapM parseHexList

def layoutOf : String → Option (List LEl)
  | "dmydot" => some layoutDMYdot
  | "dmydash" => some layoutDMYdash
  | "ymd" => some layoutYMD
  | "dmony" => some layoutDMonY
  | "long" => some layoutLong
  | _ => none

def showRes : Res String → String
  | .ok s => "ok " ++ hexStr s
  | .error => "error"
  | .panic => "panic"

def accts6 (fs : List String) : Res Swissquote.Accts :=
  match fs with
  | [a, d, t, f, i, tr] => do
    -- the order in which the commands evaluate their flags does not matter: any invalid name is an error
    let a ← accountFlag a
    let d ← accountFlag d
    let t ← accountFlag t
    let f ← accountFlag f
    let i ← accountFlag i
    let tr ← accountFlag tr
    pure ⟨a, d, t, f, i, tr⟩
  | _ => .error

/-- the import account of a flag vector (first flag) -/
def importAccount (fs : List String) : Account := Account.ofName (fs.headD "")

/-- model run: stdout text -/
def runModel (imp : String) (fs : List String) (recs : List Rec) : Option (Res String) :=
  match imp, fs with
  | "ch.swisscard2", [a] => some ((accountFlag a).bind (fun a => (Swisscard2.run a recs).bind (fun ds => .ok (render ds))))
  | "ch.swisscard", [a] => some ((accountFlag a).bind (fun a => (Swisscard.run a recs).bind (fun ds => .ok (render ds))))
  | "ch.supercard", [a] => some ((accountFlag a).bind (fun a => (Supercard.run a recs).bind (fun ds => .ok (render ds))))
  | "ch.cumulus", [a] => some ((accountFlag a).bind (fun a => (Cumulus.run a recs).bind (fun ds => .ok (render ds))))
  | "ch.postfinance", [a] =>
    some ((accountFlag a).bind (fun a => (Postfinance.run a recs).bind (fun ds => .ok (render ds))))
  | "revolut2", [a, f] =>
    some ((accountFlag a).bind (fun a => (accountFlag f).bind (fun f => (Revolut2.run a f recs).bind (fun ds => .ok (render ds)))))
  | "revolut", [a] => some ((accountFlag a).bind (fun a => (Revolut.run a recs).bind (fun ds => .ok (render ds))))
  | "com.wise", [a, f, t] =>
    some ((accountFlag a).bind (fun a => (accountFlag f).bind (fun f => (accountFlag t).bind (fun t =>
      (Wise.run a f t recs).bind (fun ds => .ok (render ds))))))
  | "ch.viac", [c, fromDay] =>
    match fromDay.toInt? with
    | none => none
    | some fd =>
      some ((getCommodity c).bind (fun c =>
        (Viac.run c fd (recs.map (fun r => (fldD r 0, fldD r 1)))).bind (fun ds => .ok (render ds))))
  | "ch.swissquote", fs => some ((accts6 fs).bind (fun a => (Swissquote.run a recs).bind (fun ds => .ok (render ds))))
  | "us.interactivebrokers", fs => some ((accts6 fs).bind (fun a => (IB.run a recs).bind (fun ds => .ok (render ds))))
  | _, _ => none

/-- the statement's items according to the specification-side reader -/
def specItems (imp : String) (fs : List String) (recs : List Rec) : Option (List Spec.Import.Item) :=
  match imp with
  | "ch.swisscard2" => some (Spec.Import.swisscard2 recs)
  | "ch.swisscard" => some (Spec.Import.swisscard recs)
  | "ch.supercard" => some (Spec.Import.supercard recs)
  | "ch.cumulus" => some (Spec.Import.cumulus recs)
  | "ch.postfinance" => some (Spec.Import.postfinance recs)
  | "revolut2" => some (Spec.Import.revolut2 recs)
  | "revolut" => some (Spec.Import.revolut recs)
  | "com.wise" => some (Spec.Import.wise recs)
  | "ch.viac" =>
    match fs with
    | [c, fd] => fd.toInt?.map (fun fd => Spec.Import.viac c fd (recs.map (fun r => (fldD r 0, fldD r 1))))
    | _ => none
  | "ch.swissquote" => some (Spec.Import.swissquote recs)
  | "us.interactivebrokers" => some (Spec.Import.interactivebrokers recs)
  | _ => none

/-- items as the harness' own row reader states them:
`b~<day>~<com>=<dec>,…` (`-` = no effect) | `a~<day>~<dec>~<com>` | `p~<day>~<com>~<dec>~<target>`, joined by `|` -/
def parseItem (s : String) : Option Spec.Import.Item :=
  match splitOn s '~' with
  | ["b", d, effs] => do
    let d ← parseInt d
    let effs ← (if effs = "-" then some [] else (splitOn effs ',').mapM (fun e =>
      match splitOn e '=' with
      | [c, q] => (Dec.parseDec q).map (fun q => (c, q))
      | _ => none))
    pure (.booking d effs)
  | ["a", d, q, c] => do
    let d ← parseInt d
    let q ← Dec.parseDec q
    pure (.assertion d q c)
  | ["p", d, c, p, t] => do
    let d ← parseInt d
    let p ← Dec.parseDec p
    pure (.price d c p t)
  | _ => none

def parseItems (s : String) : Option (List Spec.Import.Item) :=
  if s = "-" then some [] else (splitOn s '|').mapM parseItem

/-- the directives of a journal in wire form (what the harness read back from the REAL output) -/
def directivesOf (s : String) : Option (List Directive) := do
  let raw ← parseJournal s
  raw.mapM (fun
    | .price p => some (Directive.price p)
    | .opening o => some (.opening o)
    | .closing c => some (.closing c)
    | .assertion a => some (.assertion a)
    | .tx d desc tg none bks => some (.tx (plainTx d desc tg bks))
    | .tx _ _ _ (some _) _ => none)

def alnum (r : Nat) : Bool := Syntax.isAlphanumeric r

def itemDate : Spec.Import.Item → Int
  | .booking d _ => d
  | .assertion d _ _ => d
  | .price d _ _ _ => d

/-- `faithfulB` for statements of tens of thousands of rows (stream big). `faithfulB` looks for each item's directive from the
front of the directives not yet taken; the output is ordered by day, so with the items in the order of the statement (newest
first, say) that is quadratic. Here the items are first put in the order of their days (stable merge sort), which leaves each
item's directive among the first few. A verdict `true` on the reordered items is a verdict about the same multiset of items
(`C13_monitor_sound`: the directives are, up to a permutation, faithful to a permutation of the items); anything else is decided
by `faithfulB` on the items as they stand. -/
def faithfulBig (a : Account) (items : List Spec.Import.Item) (ds : List Directive) : Bool :=
  Spec.Import.faithfulB a (items.mergeSort (fun x y => decide (itemDate x ≤ itemDate y))) ds || Spec.Import.faithfulB a items ds

def handleStr (fields : List String) : String :=
  match fields with
  | ["c13-run", imp, flags, recs] =>
    match unhexStr imp, parseHexList flags, parseRecords recs with
    | some imp, some fs, some recs =>
      match runModel imp fs recs with
      | some r => showRes r
      | none => "bad-op"
    | _, _, _ => "unsupported"
  | ["c13-spec", imp, flags, recs, journal] =>
    match unhexStr imp, parseHexList flags, parseRecords recs, directivesOf journal with
    | some imp, some fs, some recs, some ds =>
      match specItems imp fs recs with
      | some items => if Spec.Import.faithfulB (importAccount fs) items ds then "ok" else "fail"
      | none => "bad-op"
    | _, _, _, _ => "unsupported"
  | ["c13-spec-big", imp, flags, recs, journal] =>
    match unhexStr imp, parseHexList flags, parseRecords recs, directivesOf journal with
    | some imp, some fs, some recs, some ds =>
      match specItems imp fs recs with
      | some items => if faithfulBig (importAccount fs) items ds then "ok" else "fail"
      | none => "bad-op"
    | _, _, _, _ => "unsupported"
  | ["c13-faithful-big", acct, items, journal] =>
    match unhexStr acct, parseItems items, directivesOf journal with
    | some a, some items, some ds => if faithfulBig (Account.ofName a) items ds then "ok" else "fail"
    | _, _, _ => "unsupported"
  | ["c13-faithful", acct, items, journal] =>
    match unhexStr acct, parseItems items, directivesOf journal with
    | some a, some items, some ds => if Spec.Import.faithfulB (Account.ofName a) items ds then "ok" else "fail"
    | _, _, _ => "unsupported"
  | ["c13-wf", journal] =>
    match directivesOf journal with
    | some ds => if ds.all (Spec.Import.wellFormed alnum) then "ok" else "fail"
    | none => "unsupported"
  | ["c13-parse", hex] =>
    match unhexBytes hex with
    | some b =>
      match Syntax.parseText "" b.toList with
      | .ok _ => "ok"
      | .error _ => "err"
    | none => "bad-op"
  | ["c13-date", layout, hex] =>
    match layoutOf layout, unhexStr hex with
    | some l, some s =>
      match parseDate l s with
      | some d => toString d
      | none => "error"
    | _, _ => "unsupported"
  | ["c13-date10", layout, hex] =>
    match layoutOf layout, unhexStr hex with
    | some l, some s =>
      match parseDatePrefix10 l s with
      | .ok d => toString d
      | .error => "error"
      | .panic => "panic"
    | _, _ => "unsupported"
  | ["c13-dec", hex] =>
    match unhexStr hex with
    | some s =>
      match newFromString s with
      | some r => Dec.showDec r
      | none => "error"
    | none => "unsupported"
  | ["c13-str", fn, hex] =>
    match unhexStr hex with
    | some s =>
      match fn with
      | "trim" => hexStr (trimSpace s)
      | "collapse" => hexStr (collapseWs s)
      | "fields" => ",".intercalate ((Import.fields s).map hexStr) ++ "."
      | "trimeq" => hexStr (trimCutset ['=', '"'] s)
      | "stripchf" => hexStr (String.ofList (Swisscard.stripChf s.toList))
      | "datere" => toString (dateRe s)
      | "fxsell" => toString (fxSellRe s)
      | "fxbuy" => toString (fxBuyRe s)
      | "paidout" => (match paidOutRe s with | some c => "some " ++ hexStr c | none => "none")
      | "alnumrun" => hexStr (firstAlnumRun s)
      | "commodity" => toString (validCommodity s)
      | "account" => (match accountFlag s with | .ok a => "ok " ++ hexStr a.name | _ => "error")
      | "splitdash" => ",".intercalate ((IB.splitOnChars " - ".toList s.toList).map (fun p => hexStr (String.ofList p))) ++ "."
      | _ => "bad-op"
    | none => "unsupported"
  | _ => "no-such-op"

def handle (fields : List String) : Option String :=
  let r := handleStr fields
  if r = "no-such-op" then none else some r

end Knut.Driver.C13
