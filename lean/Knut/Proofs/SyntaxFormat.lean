import Knut.Proofs.SyntaxFile
import Knut.Spec.SyntaxFormat
/-!
# `format`: no slice out of range, gaps copied verbatim (helper lemmas for C08)
-/
namespace Knut.Syntax
open Knut.Utf8 Knut.Spec.Syntax
set_option linter.unusedVariables false

theorem extract_some {text : Bytes} {r : Range} (h1 : r.start ≤ r.stop) (h2 : r.stop ≤ text.length) :
    r.extract text = some (slice text r.start r.stop) := by
  simp [Range.extract, h1, h2, slice]

theorem sliceChecked_some {text : Bytes} {a b : Nat} (h1 : a ≤ b) (h2 : b ≤ text.length) :
    sliceChecked text a b = some (slice text a b) := by
  simp [sliceChecked, h1, h2, slice]

theorem sliceChecked_eq {text : Bytes} {a b : Nat} {x : Bytes} (h : sliceChecked text a b = some x) :
    x = slice text a b ∧ a ≤ b ∧ b ≤ text.length := by
  unfold sliceChecked at h
  split at h
  · rename_i hc
    injection h with h
    exact ⟨h.symm, hc.1, hc.2⟩
  · cases h

/-- **gaps verbatim**, for the loop of `Printer.Format`: the output is the original text between the directive
ranges, interleaved with what `printDirective` renders for each directive -/
theorem formatLoop_shape {text : Bytes} {padding : Nat} {pos : Nat} {ds : List Directive} {out : Bytes}
    (h : formatLoop text padding pos ds = some out) :
    ∃ rs, ds.mapM (printDirective text padding) = some rs ∧
      out = interleave (gapsOf text pos (ds.map (·.range))) rs := by
  induction ds generalizing pos out with
  | nil =>
    simp only [formatLoop] at h
    have := (sliceChecked_eq h).1
    exact ⟨[], by simp, by simp [gapsOf, interleave, this]⟩
  | cons d ds ih =>
    simp only [formatLoop, Option.bind_eq_bind, Option.bind_eq_some_iff, Option.pure_def, Option.some.injEq] at h
    obtain ⟨gap, hg, r, hr, rest, hrest, hout⟩ := h
    obtain ⟨rs, hrs, hrest'⟩ := ih hrest
    refine ⟨r :: rs, by simp [List.mapM_cons, hr, hrs], ?_⟩
    rw [← hout, hrest', (sliceChecked_eq hg).1]
    simp [gapsOf, interleave]

end Knut.Syntax

namespace Knut.Syntax
open Knut.Utf8 Knut.Spec.Syntax
set_option linter.unusedVariables false

theorem mapM_some_of_forall {α β} {f : α → Option β} {l : List α} (h : ∀ x ∈ l, ∃ y, f x = some y) :
    ∃ ys, l.mapM f = some ys := by
  induction l with
  | nil => exact ⟨[], by simp⟩
  | cons a l ih =>
    obtain ⟨y, hy⟩ := h a List.mem_cons_self
    obtain ⟨ys, hys⟩ := ih (fun x hx => h x (List.mem_cons_of_mem _ hx))
    exact ⟨y :: ys, by simp [List.mapM_cons, hy, hys]⟩

theorem viewBooking_some {text : Bytes} {lo hi : Nat} {b : Booking} (h : nodeWF lo hi b.toNode = true)
    (hh : hi ≤ text.length) : ∃ v, viewBooking text b = some v := by
  simp only [Booking.toNode, Account.toNode, Decimal.toNode, Commodity.toNode, nodeWF_mk, nodesWF_cons, nodeWF_leaf,
    nodesWF_nil, and_true] at h
  obtain ⟨h0, h1, h2, h3, h4⟩ := h
  simp [viewBooking, extract_some (text := text) (r := b.credit.range) (by omega) (by omega),
    extract_some (text := text) (r := b.debit.range) (by omega) (by omega),
    extract_some (text := text) (r := b.quantity.range) (by omega) (by omega),
    extract_some (text := text) (r := b.commodity.range) (by omega) (by omega)]

theorem viewBalance_some {text : Bytes} {lo hi : Nat} {b : Balance} (h : nodeWF lo hi b.toNode = true)
    (hh : hi ≤ text.length) : ∃ v, viewBalance text b = some v := by
  simp only [Balance.toNode, Account.toNode, Decimal.toNode, Commodity.toNode, nodeWF_mk, nodesWF_cons, nodeWF_leaf,
    nodesWF_nil, and_true] at h
  obtain ⟨h0, h1, h2, h3⟩ := h
  simp [viewBalance, extract_some (text := text) (r := b.account.range) (by omega) (by omega),
    extract_some (text := text) (r := b.quantity.range) (by omega) (by omega),
    extract_some (text := text) (r := b.commodity.range) (by omega) (by omega)]

theorem viewAccrual_some {text : Bytes} {lo hi : Nat} {a : Accrual} (h : nodeWF lo hi a.toNode = true)
    (hh : hi ≤ text.length) : ∃ v, viewAccrual text a = some v := by
  simp only [Accrual.toNode, Account.toNode, Date.toNode, Interval.toNode, nodeWF_mk, nodesWF_cons, nodeWF_leaf,
    nodesWF_nil, and_true] at h
  obtain ⟨h0, h1, h2, h3, h4⟩ := h
  simp [viewAccrual, extract_some (text := text) (r := a.interval.range) (by omega) (by omega),
    extract_some (text := text) (r := a.start.range) (by omega) (by omega),
    extract_some (text := text) (r := a.stop.range) (by omega) (by omega),
    extract_some (text := text) (r := a.account.range) (by omega) (by omega)]

theorem optNode_wf {lo hi : Nat} {r : Range} {n : Node} (h : nodesWF lo hi (optNode r n) = true)
    (hne : r.empty = false) : nodeWF lo hi n = true := by
  unfold optNode at h
  split at h
  · rename_i hz
    rw [hz] at hne
    simp [Range.empty, Range.zero] at hne
  · simpa [nodesWF_cons] using h

theorem viewTransaction_some {text : Bytes} {lo hi : Nat} {t : Transaction} (h : nodeWF lo hi t.toNode = true)
    (hh : hi ≤ text.length) : ∃ v, viewTransaction text t = some v := by
  simp only [Transaction.toNode, nodeWF_mk, nodesWF_append, nodesWF_cons, nodesWF_nil, and_true, Date.toNode, nodeWF_leaf,
    nodesWF_map] at h
  obtain ⟨h0, ⟨hadd, hd, hq⟩, hb⟩ := h
  simp only [QuotedString.toNode, nodeWF_mk, nodesWF_cons, nodeWF_leaf, nodesWF_nil, and_true] at hq
  have hbs := mapM_some_of_forall (f := viewBooking text) (l := t.bookings)
    (fun b hb' => viewBooking_some (hb b hb') (by omega))
  obtain ⟨bs, hbs⟩ := hbs
  have hdate := extract_some (text := text) (r := t.date.range) (by omega) (by omega)
  have hdesc := extract_some (text := text) (r := t.description.content) (by omega) (by omega)
  -- the addons node, if any annotation is present
  have hA : ∀ (hne : t.addons.accrual.range.empty = false ∨ t.addons.performance.range.empty = false),
      nodeWF t.range.start t.range.stop t.addons.toNode = true := by
    intro hne
    unfold optNode at hadd
    split at hadd
    · rename_i hz
      -- a zero addons range would make both annotations lie in [0, 0]... they are then both empty
      exfalso
      sorry
    · simpa [nodesWF_cons] using hadd
  sorry

end Knut.Syntax
