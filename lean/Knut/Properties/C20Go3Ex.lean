import Knut.Properties.C20Go3
/-!
# C20Go3, non-vacuity on a NON-EMPTY journal: `RetParOK` and `DayRelP` are satisfiable

`C20Go3.C20_returns_every_period_process_go` quantifies over parameters `P : RetPar` with `RetParOK cur f.cfg P` and over Go days with
`AllRel (DayRelP cur) gdays days`.  The non-vacuity example of `Properties/C20Go3.lean` is the journal without directives.  Here:

* **`exPar_ok`**: for `cur = fun _ => false` and the configuration `exCfg` (`valuation = none`), the concrete parameters `exPar pg`
  (any Go partition `pg`) satisfy `RetParOK`.  The universally quantified fields are proved for EVERY Go state / day related to a model
  state (`oV`, `ord`: the key list of the captured map; `oE`: the key list of the captured `values`, by `CVRel.values`; `oS`: a pair of
  empty orders per transaction; `fuel`: vacuous, no valuation).
* **`exDays_rel`**: a journal of two days (day 1: two `open` directives and a deposit `Equity:Equity -> Assets:Bank` of 100 CHF; day 2:
  a purchase of 2 AAPL from `Assets:Bank` to `Assets:Portfolio`), the Go days defined as the image of the model days (`dayGo`:
  `openGo`, `txGo`, `Performance = nil`), and `AllRel (DayRelP cur) exGDays exDays`.  (`dayGo_rel`: for every model day without
  prices, assertions and closings.)
* **`C20Go3_hyps_nonvacuous`** packages the two, with `exGDays ≠ []`.

WHAT IS DEGENERATE.  `exCfg` has `accountFilter := fun _ => false`: no account is a portfolio account, so `valuesStep` and `txFlowStep`
are the identity (`valuesDay_ex`, `txFlows_ex`), the map of values stays as it is and no transaction has a flow.  That is what makes
`oE g dg := keys of g.values` and `oS := ([], [])` admissible without a key-set lemma for `valuesDay` / `txFlows`.  For the honest
configuration (all filters `true`) an admissible `oE` must list the keys of the values AFTER the day's postings (zero entries deleted):
not constructed here.  The inner hypotheses of `C20_returns_every_period_process_go` (`hds`, `hdef`, `P.part = partitionGo part`) are
not instantiated on this journal.
-/
namespace Knut.C20Go3Ex
open Knut Knut.GoSem Knut.Performance Knut.MapSum
open Knut.Generated.Go
open Knut.FactsAgree.TransProcess (AllRel TRel PRel TRel_txGo)
open Knut.FactsAgree.TransProcessAll (DayRel OrdOK OpenRel)
open Knut.FactsAgree.TransProcessAllReturns
open Knut.FactsAgree.TransAccount (accountGo)
open Knut.FactsAgree.TransPosting (postingGo commodityGo)
open Knut.FactsAgree.TransTransaction (txGo)
open Knut.FactsAgree.TransCheck (openGo)
open Knut.FactsAgree.TransPerformance (calcGo CVRel OrdersOK ckeyGo SplitOrders)

/-- no commodity is tagged as a currency (`TagCurrency` has no caller) -/
def cur : String → Bool := fun _ => false

/-- without `-v`; DEGENERATE: no account passes the account filter -/
def exCfg : Performance.Cfg := { valuation := none, accountFilter := fun _ => false }

/-- concrete parameters: the iteration orders are the key lists of the captured maps as they stand -/
def exPar (pg : date.Partition) : RetPar :=
  { val := none,
    ext1 := fun a => accountGo (valuationAccountFor ⟨a.segments⟩),
    cg := calcGo cur exCfg,
    part := pg,
    ord := fun g _ => g.quantities.map Prod.fst,
    fuel := fun _ _ => 0,
    oV := fun g _ => g.quantities.map Prod.fst,
    oE := fun g _ => g.values.map Prod.fst,
    oS := fun _ dg => dg.Transactions.map (fun _ => ([], [])) }

theorem isPortfolio_ex (a : Knut.Account) : isPortfolio exCfg a = false := by
  simp [isPortfolio, exCfg]

theorem valuesStep_ex (vals : AMap Knut.Commodity Rat) (p : Knut.Posting) : valuesStep exCfg vals p = vals := by
  simp [valuesStep, isPortfolio_ex]

theorem foldl_id {α β : Type} (f : α → β → α) (h : ∀ a b, f a b = a) : ∀ (l : List β) (a : α), l.foldl f a = a := by
  intro l
  induction l with
  | nil => intro a; rfl
  | cons b l ih => intro a; simp only [List.foldl_cons, h, ih]

/-- DEGENERATE: the values do not move -/
theorem valuesDay_ex (vals : AMap Knut.Commodity Rat) (txs : List Knut.Transaction) : valuesDay exCfg vals txs = vals := by
  unfold valuesDay
  exact foldl_id _ (fun v t => foldl_id _ valuesStep_ex _ _) _ _

/-- DEGENERATE: no transaction has a flow -/
theorem txFlows_ex (t : Knut.Transaction) : txFlows exCfg t = ([], 0) := by
  unfold txFlows
  exact foldl_id _ (fun acc p => by simp [txFlowStep, isPortfolio_ex]) _ _

theorem orders_ex : ∀ (tgs : List transaction.Transaction) (txs : List Knut.Transaction), AllRel (TRel cur) tgs txs →
    AllRel (OrdersOK cur exCfg) (tgs.map (fun _ => (([], []) : SplitOrders))) txs := by
  intro tgs txs h
  induction h with
  | nil => exact .nil
  | cons _ _ ih =>
    refine .cons ⟨List.nodup_nil, ?_, ?_⟩ ih
    · intro c hc; rw [txFlows_ex] at hc; simp at hc
    · intro l _ c _; rfl

/-- **the parameters are admissible** -/
theorem exPar_ok (pg : date.Partition) : RetParOK cur exCfg (exPar pg) where
  val := rfl
  ext1 := fun _ => rfl
  cg := rfl
  ord := fun _ _ _ hk => mem_keys_of_find? hk
  fuel := fun v hv => by cases hv
  oV := fun _ _ _ hk => mem_keys_of_find? hk
  oE := by
    intro g dg vals prev txs hcv _
    have hm := hcv.values
    rw [valuesDay_ex]
    refine ⟨hm.gnodup, ?_, ?_⟩
    · intro k hk
      have hs := find?_isSome_of_mem_keys hk
      obtain ⟨c, rfl⟩ := hm.keys k hs
      exact ⟨c, rfl, by rw [← hm.lookup c]; exact hs⟩
    · intro c hc
      rw [← hm.lookup c] at hc
      exact mem_keys_of_find? hc
  oS := fun _ dg txs h => orders_ex dg.Transactions txs h

/-! ### the journal -/

theorem AllRel_map {α β : Type} (R : α → β → Prop) (f : β → α) (h : ∀ b, R (f b) b) : ∀ bs : List β, AllRel R (bs.map f) bs := by
  intro bs
  induction bs with
  | nil => exact .nil
  | cons b bs ih => exact .cons (h b) ih

/-- the Go day that stands for a model day with openings and transactions only (all `Src` pointers nil, `Performance == nil`) -/
def dayGo (d : Knut.Day) : journal.Day :=
  { Date := d.date, Prices := [], Assertions := [], Openings := d.openings.map (openGo ⟨0⟩),
    Transactions := d.transactions.map (txGo cur ⟨0⟩ ⟨0⟩), Closings := [], Normalized := GoZero.zero, Performance := none }

theorem dayGo_rel (d : Knut.Day) (hp : d.prices = []) (ha : d.assertions = []) (hc : d.closings = []) : DayRelP cur (dayGo d) d := by
  refine ⟨⟨rfl, ?_, ?_, ?_, ?_, ?_⟩, rfl⟩
  · rw [hp]; exact .nil
  · exact AllRel_map OpenRel (openGo ⟨0⟩) (fun _ => rfl) _
  · exact AllRel_map (TRel cur) (txGo cur ⟨0⟩ ⟨0⟩) (fun t => TRel_txGo cur ⟨0⟩ ⟨0⟩ t) _
  · rw [ha]; exact .nil
  · rw [hc]; exact .nil

def bank : Knut.Account := ⟨["Assets", "Bank"]⟩
def portfolio : Knut.Account := ⟨["Assets", "Portfolio"]⟩

/-- day 1: the accounts are opened, 100 CHF are deposited; day 2: 2 AAPL are bought -/
def exDays : List Knut.Day :=
  [ { date := 1, openings := [⟨1, bank⟩, ⟨1, portfolio⟩, ⟨1, equityAccount⟩],
      transactions := [{ date := 1, description := "deposit", postings := postingBuild equityAccount bank "CHF" 100 }] },
    { date := 2,
      transactions := [{ date := 2, description := "buy", postings := postingBuild bank portfolio "AAPL" 2 }] } ]

def exGDays : List journal.Day := exDays.map dayGo

/-- **the Go days stand for the model's days and carry no `Performance`** -/
theorem exDays_rel : AllRel (DayRelP cur) exGDays exDays :=
  .cons (dayGo_rel _ rfl rfl rfl) (.cons (dayGo_rel _ rfl rfl rfl) .nil)

theorem exGDays_ne : exGDays ≠ [] := by simp [exGDays, exDays]

example : (exGDays.map (fun d => d.Transactions.length)) = [1, 1] := by decide

/-- **the hypotheses `RetParOK` and `DayRelP` of `C20Go3.C20_returns_every_period_process_go` /
`C20_returns_process_go_partial` are satisfiable together on a non-empty journal** (with the degenerate account filter of `exCfg`) -/
theorem C20Go3_hyps_nonvacuous : ∃ (cfg : Performance.Cfg) (P : RetPar) (gdays : List journal.Day) (days : List Knut.Day),
    cfg.valuation = none ∧ RetParOK cur cfg P ∧ AllRel (DayRelP cur) gdays days ∧ gdays ≠ [] ∧
    (∃ d ∈ days, d.transactions ≠ []) :=
  ⟨exCfg, exPar GoZero.zero, exGDays, exDays, rfl, exPar_ok _, exDays_rel, exGDays_ne,
    ⟨_, List.mem_cons_self, by simp⟩⟩

end Knut.C20Go3Ex
