import Knut.Proofs.PortfolioBalance
import Knut.Proofs.PortfolioDays
import Knut.Properties.C20Periods
/-!
# C20 — the values behind `portfolio weights` / `returns` are the figures of `knut balance -v`

`knut portfolio weights` "shows for each commodity its share of the total valued asset/liability holdings that
`knut balance -v` reports for that date".  `C20_weights_share` (Properties/C20.lean) says the weights of a date are
`value / Σ values` of the map `V1` that `ComputeValues` holds at the end of that day.  Here `V1` is tied to the model of
the balance command (`Knut.Balance.run`: check, ComputePrices, Valuate, Filter, CloseAccounts, Query; the log of report
inserts): for every commodity `c` and every column date `D` of the balance report,

  `V1(D)(c)  =  Σ amount of the report inserts on asset/liability accounts, commodity c, in the columns up to D`

(`balanceValue`; the balance report is cumulative, so this is the figure it shows for `c` on `D`, summed over the
asset/liability accounts that pass `--account`).  The two commands run different processor lists —
`ComputePrices, check, Valuate, ComputeValues` vs `check, ComputePrices, Valuate, Filter, CloseAccounts, Query` — the proof
runs them in lockstep over the same list of days and shows that `check` and `ComputePrices` commute, that closing
transactions never touch asset/liability accounts, and that `Align` puts a transaction dated `x` into a column up to
`D` exactly when `x ≤ D`.

Hypotheses of the pipeline-level theorems (`C20_values_are_valued_balance`, …): the same `-v`, `--account`, `--commodity`;
no `-m`, no `--remap` on the balance (`Matches`); `D` is a column of the balance report and its period ends increase (true
of every partition, `endDates_increasing`); every day up to `D` lies inside the balance's window or nothing has been
booked up to it; both pipelines over the SAME list of days.

Command level (`C20_command_values_are_valued_balance`, `C20_command_weights_are_shares_of_valued_balance`): the two
commands register different additional empty days before `Build` (period ends / period starts).  An empty day is a no-op
of the portfolio pipeline (`perf_emptyExt`: at day boundaries `vPrev = norm`, so `Valuate` books no adjustment), and the
portfolio pipeline accepts every day list the balance pipeline accepts (`balance_run_rev`); the builder's days carry
their transactions' dates and hold no transaction before the builder's `min` (`ensure_day_txs`).  So for the model of the
two COMMANDS over the same journal the only hypotheses left are: both succeed, same `-v`/`--account`/`--commodity`, no
`-m`/`--remap` on the balance, no `--from` of the balance after the first transaction (with a later `--from` the balance
shows the change inside the window only, and the statement is false), `D` a column of the balance report.
Exact arithmetic; the rendering of the inserts into report cells is C01/C06 material (the harness compares with the real
`knut balance -v` on every case).
-/
namespace Knut.C20
open Knut Knut.Performance Knut.Weights

/-- **`V1` is the valued balance.**  For every day list and every run of the portfolio pipeline over it, the balance
pipeline over the same days succeeds, and for every commodity `c` the value `ComputeValues` holds at the end of day `D`
(`valueAt perfs D`: the `V1` of the last day not after `D`) is the total of the balance report's inserts on
asset/liability accounts for `c` in the columns up to `D`. -/
theorem C20_values_are_valued_balance (cfg : Cfg) (b : BalCfg) (v : Commodity) (hm : Matches cfg b v)
    (days : List Day) (perfs : List DayPerf)
    (hsorted : List.Pairwise (· < ·) (days.map (·.date)))
    (hdates : ∀ d ∈ days, ∀ t ∈ d.transactions, t.date = d.date)
    (hp : perfFrom cfg {} days = .ok perfs)
    (hper : List.Pairwise (· < ·) (b.periods.map (·.stop))) (D : Int) (hD : D ∈ b.periods.map (·.stop))
    (hwin : ∀ pre d post, days = pre ++ d :: post → d.date ≤ D →
      b.span.contains d.date = true ∨ ∀ x ∈ pre ++ [d], x.transactions = []) :
    ∃ stF, Balance.run b days = .ok stF ∧ ∀ c, (valueAt perfs D).get c 0 = balanceValue stF.entries c D := by
  have hal : ∀ x, dateOK (alignIn b.periods x) D = decide (x ≤ D) := fun x => dateOK_align D x b.periods hper hD
  have hinv : MTM.CloseInv ({} : BalState) := by intro k hk; cases hk
  have hsame : SameSt ({} : PState).bal ({} : BalState) := ⟨rfl, rfl, rfl, rfl, rfl⟩
  have hwin' : ∀ pre d post, days = pre ++ d :: post → d.date ≤ D →
      b.span.contains d.date = true ∨ (({} : BalState).vQty = [] ∧ ∀ x ∈ pre ++ [d], x.transactions = []) := by
    intro pre d post h1 h2
    rcases hwin pre d post h1 h2 with h | h
    · exact Or.inl h
    · exact Or.inr ⟨rfl, h⟩
  have hlinked := perfFrom_linked days {} perfs hp
  have hds : DSorted perfs := dsorted_of_dates (by rw [perfFrom_dates days {} perfs hp]; exact hsorted)
  obtain ⟨stF, hrun, _⟩ := balance_run hm "" D hal days {} {} perfs hsame hinv rfl hdates hwin' hp
  refine ⟨stF, hrun, ?_⟩
  intro c
  obtain ⟨stF', hrun', hsum⟩ := balance_run hm c D hal days {} {} perfs hsame hinv rfl hdates hwin' hp
  rw [hrun] at hrun'
  injection hrun' with e; subst e
  rw [valueAt_eq_gains perfs hlinked hds c D, hsum]
  have : balanceValue ({} : BalState).entries c D = 0 := rfl
  rw [this, Rat.zero_add]

/-- … for the record of a day: `V1` of the day dated `D`, the map the weights of `D` are computed from -/
theorem C20_v1_is_valued_balance (cfg : Cfg) (b : BalCfg) (v : Commodity) (hm : Matches cfg b v)
    (days : List Day) (perfs : List DayPerf)
    (hsorted : List.Pairwise (· < ·) (days.map (·.date)))
    (hdates : ∀ d ∈ days, ∀ t ∈ d.transactions, t.date = d.date)
    (hp : perfFrom cfg {} days = .ok perfs)
    (hper : List.Pairwise (· < ·) (b.periods.map (·.stop))) (p : DayPerf) (hpm : p ∈ perfs)
    (hD : p.date ∈ b.periods.map (·.stop))
    (hwin : ∀ pre d post, days = pre ++ d :: post → d.date ≤ p.date →
      b.span.contains d.date = true ∨ ∀ x ∈ pre ++ [d], x.transactions = []) :
    ∃ stF, Balance.run b days = .ok stF ∧
      (∀ c, p.v1.get c 0 = balanceValue stF.entries c p.date) ∧
      (∀ e ∈ p.v1, e.2 = balanceValue stF.entries e.1 p.date) := by
  obtain ⟨stF, hrun, hval⟩ := C20_values_are_valued_balance cfg b v hm days perfs hsorted hdates hp hper p.date hD hwin
  have hrec := C20_valueAt_record perfs (by rw [perfFrom_dates days {} perfs hp]; exact hsorted) p hpm
  rw [hrec] at hval
  refine ⟨stF, hrun, hval, ?_⟩
  intro e he
  have hn := perfFrom_v1_nodup days [] {} perfs (reach_empty cfg) hp p hpm
  rw [← hval e.1, get_of_mem_nodup hn he]

/-- **the weights are shares of the valued balance**: on a period end day `D` whose record is `p`, `weights` adds every
commodity of `V1` with the weight `balance value of the commodity / Σ balance values of the commodities of V1`, the
balance values being those of `knut balance -v` (same filters) for the date `D` -/
theorem C20_weights_are_shares_of_valued_balance (cfg : Cfg) (b : BalCfg) (v : Commodity) (hm : Matches cfg b v)
    (days : List Day) (perfs : List DayPerf)
    (hsorted : List.Pairwise (· < ·) (days.map (·.date)))
    (hdates : ∀ d ∈ days, ∀ t ∈ d.transactions, t.date = d.date)
    (hp : perfFrom cfg {} days = .ok perfs)
    (hper : List.Pairwise (· < ·) (b.periods.map (·.stop))) (p : DayPerf) (hpm : p ∈ perfs)
    (hD : p.date ∈ b.periods.map (·.stop))
    (hwin : ∀ pre d post, days = pre ++ d :: post → d.date ≤ p.date →
      b.span.contains d.date = true ∨ ∀ x ∈ pre ++ [d], x.transactions = [])
    (mapping : List MapRule) (u u' : Universe) (adds : List Add)
    (hq : queryDay mapping u p.date p.v1 = some (adds, u')) :
    ∃ stF, Balance.run b days = .ok stF ∧
      adds.map (·.weight) = p.v1.map (fun e => balanceValue stF.entries e.1 p.date /
        ((p.v1.map (fun e' => balanceValue stF.entries e'.1 p.date)).sum)) := by
  obtain ⟨stF, hrun, _, hmem⟩ := C20_v1_is_valued_balance cfg b v hm days perfs hsorted hdates hp hper p hpm hD hwin
  refine ⟨stF, hrun, ?_⟩
  rw [(C20_weights_share mapping u u' p.date p.v1 adds hq).1]
  have hsum : sumVals p.v1 = (p.v1.map (fun e' => balanceValue stF.entries e'.1 p.date)).sum := by
    unfold sumVals
    congr 1
    apply List.map_congr_left
    intro e he
    exact hmem e he
  rw [hsum]
  apply List.map_congr_left
  intro e he
  rw [hmem e he]

/-- **command level**: `knut portfolio weights|returns` and `knut balance -v` over the same journal.  The two commands
register different additional days before `Build` (the period ends / with closing the period starts); an empty day
changes nothing the portfolio pipeline records (`perf_emptyExt`), and whatever list of days the balance pipeline accepts
the portfolio pipeline accepts too (`balance_run_rev`).  Hence: if both commands succeed — same `-v`, `--account`,
`--commodity`, the balance without `-m`/`--remap` and without a `--from` after the first transaction (window, interval,
`--last`, `--to` of either command otherwise arbitrary) — then for every column date `D` of the balance report and every
commodity `c`, the value `ComputeValues` holds at the end of day `D` in the portfolio run is the total of the balance
report's inserts on asset/liability accounts for `c` in the columns up to `D`. -/
theorem C20_command_values_are_valued_balance (f : Flags) (fb : BalanceFlags) (v : Commodity) (ds : List Directive)
    (hv : f.valuation = some v) (hbv : fb.valuation = some v)
    (hacc : fb.accountFilter = f.accountFilter) (hcom : fb.commodityFilter = f.commodityFilter)
    (hmap : fb.mapping = []) (hremap : ∀ s, fb.remap s = false)
    (hfrom : fb.from?.getD 0 ≤ (Builder.ofList ds).min)
    (part : Partition) (days : List Day) (perfs : List DayPerf)
    (hs : setup f ds = .ok (part, days)) (hp : perfFrom f.cfg {} days = .ok perfs)
    (es : List Entry) (partB : Partition) (hb : BalanceCmd.entries fb ds = .ok (es, partB))
    (D : Int) (hD : D ∈ partB.endDates) :
    ∀ c, (valueAt perfs D).get c 0 = balanceValue es c D := by
  -- the portfolio command's days
  have hdays : days = part.endDates.foldl insertDay (Builder.ofList ds).days := by
    unfold setup at hs
    simp only at hs
    split at hs
    · cases hs
    · injection hs with hs; injection hs with h1 h2
      subst h1; subst h2; rfl
  obtain ⟨hsortedP, _, _⟩ := setup_days hs
  -- the balance command's run
  unfold BalanceCmd.entries at hb
  simp only at hb
  cases hnp : newPartition (BalanceCmd.window fb (Builder.ofList ds)) fb.interval fb.last with
  | panic s => rw [hnp] at hb; cases hb
  | ok pB =>
    rw [hnp] at hb; simp only at hb
    generalize hcfg : BalCfg.mk fb.valuation pB.span pB.periods fb.close fb.mapping fb.remap fb.accountFilter
      fb.commodityFilter = cfgB at hb
    generalize hdB : (if fb.close = true then (Builder.ofList ds).ensureDays pB.startDates else Builder.ofList ds).build
      = daysB at hb
    cases hrun : Balance.run cfgB daysB with
    | error e => rw [hrun] at hb; cases hb
    | ok st =>
      rw [hrun] at hb; simp only at hb
      injection hb with hb; injection hb with h1 h2
      subst h1; subst h2
      have hdaysB : daysB = (if fb.close = true then pB.startDates else []).foldl insertDay (Builder.ofList ds).days := by
        rw [← hdB]
        cases fb.close <;> rfl
      have hm : Matches f.cfg cfgB v := by
        rw [← hcfg]
        exact ⟨hv, hbv, hacc, hcom, hmap, hremap⟩
      have hbase := (ofList_spec openKind ds).1
      have hsortedB : List.Pairwise (· < ·) (daysB.map (·.date)) := by
        rw [hdaysB, List.pairwise_map]
        exact ensureDays_sorted _ _ hbase
      have hdatesB : ∀ d ∈ daysB, ∀ t ∈ d.transactions, t.date = d.date := by
        intro d hd
        rw [hdaysB] at hd
        exact (ensure_day_txs ds _ d hd).1
      have hinv : MTM.CloseInv ({} : BalState) := by intro k hk; cases hk
      obtain ⟨perfsB, hpB⟩ := balance_run_rev hm daysB {} {} st ⟨rfl, rfl, rfl, rfl, rfl⟩ hinv hdatesB hrun
      -- the window of the balance command
      have hspan : cfgB.span = BalanceCmd.window fb (Builder.ofList ds) := by
        rw [← hcfg]; exact newPartition_span hnp
      have hstart : cfgB.span.start = (Builder.ofList ds).min := by
        rw [hspan]
        unfold BalanceCmd.window Period.clip
        simp only
        split <;> omega
      have hper : cfgB.periods = pB.periods := by rw [← hcfg]
      have hstop : D ≤ cfgB.span.stop := by
        obtain ⟨p, hp1, hp2⟩ := List.mem_map.mp hD
        obtain ⟨hsp, hshape⟩ := periods_shape hnp
        have hspan' : cfgB.span = pB.span := by rw [← hcfg]
        rw [hspan', hsp, ← hp2]
        rcases hshape with h1 | ⟨L, hL, _, hbnd, _⟩
        · rw [h1] at hp1
          simp only [List.mem_singleton] at hp1
          rw [hp1]; exact Int.le_refl _
        · rw [hL] at hp1
          exact (hbnd p (List.mem_reverse.mp hp1)).2.2
      obtain ⟨stF, hrun', hval⟩ := C20_values_are_valued_balance f.cfg cfgB v hm daysB perfsB hsortedB hdatesB hpB
        (by rw [hper]; exact (endDates_increasing hnp).1) D (by rw [hper]; exact hD)
        (by
          intro pre d post hsplit hle
          by_cases hmin : (Builder.ofList ds).min ≤ d.date
          · left
            simp only [Period.contains, Bool.and_eq_true, Bool.not_eq_true', decide_eq_false_iff_not]
            constructor <;> omega
          · right
            intro x hx
            have hxd : x.date ≤ d.date := by
              rw [hsplit, List.map_append, List.pairwise_append] at hsortedB
              rcases List.mem_append.mp hx with hx | hx
              · have := hsortedB.2.2 x.date (List.mem_map.mpr ⟨x, hx, rfl⟩) d.date (by simp)
                omega
              · simp only [List.mem_singleton] at hx; rw [hx]; exact Int.le_refl _
            have hxm : x ∈ daysB := by
              rw [hsplit]
              rcases List.mem_append.mp hx with hx | hx
              · exact List.mem_append_left _ hx
              · simp only [List.mem_singleton] at hx
                rw [hx]; exact List.mem_append_right _ List.mem_cons_self
            rw [hdaysB] at hxm
            exact (ensure_day_txs ds _ x hxm).2 (by omega))
      rw [hrun] at hrun'
      injection hrun' with e; subst e
      -- the portfolio run over its own days records the same values
      have hext : EmptyExt days daysB := by
        rw [hdays, hdaysB]
        exact emptyExt_ensure _ _ _
      have hds1 : DSorted perfs := dsorted_of_dates (by rw [perfFrom_dates days {} perfs hp]; exact hsortedP)
      have hds2 : DSorted perfsB := dsorted_of_dates (by rw [perfFrom_dates daysB {} perfsB hpB]; exact hsortedB)
      have hsame := perf_emptyExt hext {} perfs perfsB boundary_empty hp hpB hds1 hds2 D
      intro c
      have e : valueAt perfs D = valueAt perfsB D := hsame
      rw [e]
      exact hval c

/-- **command level, the weights**: on a period end day `D` of `knut portfolio weights` that is also a column of
`knut balance -v` (same interval flags: every one), the weights added are, commodity by commodity of `V1`,
`balance figure of the commodity / Σ balance figures`, the figures being those of the balance COMMAND for `D` -/
theorem C20_command_weights_are_shares_of_valued_balance (f : Flags) (fb : BalanceFlags) (v : Commodity)
    (ds : List Directive) (hv : f.valuation = some v) (hbv : fb.valuation = some v)
    (hacc : fb.accountFilter = f.accountFilter) (hcom : fb.commodityFilter = f.commodityFilter)
    (hmap : fb.mapping = []) (hremap : ∀ s, fb.remap s = false)
    (hfrom : fb.from?.getD 0 ≤ (Builder.ofList ds).min)
    (part : Partition) (days : List Day) (perfs : List DayPerf)
    (hs : setup f ds = .ok (part, days)) (hp : perfFrom f.cfg {} days = .ok perfs)
    (es : List Entry) (partB : Partition) (hb : BalanceCmd.entries fb ds = .ok (es, partB))
    (p : DayPerf) (hpm : p ∈ perfs) (hD : p.date ∈ partB.endDates)
    (mapping : List MapRule) (u u' : Universe) (adds : List Add)
    (hq : queryDay mapping u p.date p.v1 = some (adds, u')) :
    (∀ c, p.v1.get c 0 = balanceValue es c p.date) ∧
    adds.map (·.weight) = p.v1.map (fun e => balanceValue es e.1 p.date /
      ((p.v1.map (fun e' => balanceValue es e'.1 p.date)).sum)) := by
  have hval := C20_command_values_are_valued_balance f fb v ds hv hbv hacc hcom hmap hremap hfrom part days perfs hs hp
    es partB hb p.date hD
  have hsorted := (setup_days hs).1
  rw [C20_valueAt_record perfs (by rw [perfFrom_dates days {} perfs hp]; exact hsorted) p hpm] at hval
  refine ⟨hval, ?_⟩
  have hn := perfFrom_v1_nodup days [] {} perfs (reach_empty f.cfg) hp p hpm
  have hmem : ∀ e ∈ p.v1, e.2 = balanceValue es e.1 p.date := by
    intro e he
    rw [← hval e.1, get_of_mem_nodup hn he]
  rw [(C20_weights_share mapping u u' p.date p.v1 adds hq).1]
  have hsum : sumVals p.v1 = (p.v1.map (fun e' => balanceValue es e'.1 p.date)).sum := by
    unfold sumVals
    congr 1
    apply List.map_congr_left
    intro e he
    exact hmem e he
  rw [hsum]
  apply List.map_congr_left
  intro e he
  rw [hmem e he]

/-! ### Non-vacuity: the journal of `Properties/C20Periods.lean` through both pipelines -/

def pB : BalCfg := { valuation := some "CHF", span := ⟨1, 3⟩, periods := [⟨1, 1⟩, ⟨2, 2⟩, ⟨3, 3⟩] }

example : Matches pF.cfg pB "CHF" := ⟨rfl, rfl, rfl, rfl, rfl, fun _ => rfl⟩

/-- the balance report of the three days: 200, then 220 (a value adjustment of 20), then 220 USD and 50 CHF -/
example : (match Balance.run pB [pDay1, pDay2, pDay3] with
    | .ok st => decide (balanceValue st.entries "USD" 1 = 200 ∧ balanceValue st.entries "USD" 2 = 220 ∧
        balanceValue st.entries "USD" 3 = 220 ∧ balanceValue st.entries "CHF" 3 = 50 ∧
        balanceValue st.entries "CHF" 2 = 0 ∧ st.entries.length = 10)
    | .error _ => false) = true := by decide +kernel

/-- the hypotheses of `C20_values_are_valued_balance` hold for this journal and every column `D ∈ {1, 2, 3}` -/
example (D : Int) (hD : D ∈ pB.periods.map (·.stop)) :
    ∃ stF, Balance.run pB [pDay1, pDay2, pDay3] = .ok stF ∧
      ∀ c, (valueAt pPerfs D).get c 0 = balanceValue stF.entries c D := by
  apply C20_values_are_valued_balance pF.cfg pB "CHF" ⟨rfl, rfl, rfl, rfl, rfl, fun _ => rfl⟩ [pDay1, pDay2, pDay3] pPerfs
    (by decide) (by decide +kernel) p_perfs (by decide) D hD
  intro pre d post hsplit _
  left
  rcases p_split hsplit with ⟨_, rfl⟩ | ⟨_, rfl⟩ | ⟨_, rfl⟩ <;> decide

/-- the balance COMMAND on the same journal (daily columns, closing transactions on the period starts): it succeeds,
its columns are the days 1, 2, 3 and it shows 220 USD and 50 CHF on day 3 -/
def pFB : BalanceFlags := { valuation := some "CHF", to := 3, interval := .daily }

example : (match BalanceCmd.entries pFB pDs with
    | .ok (es, pb) => decide (pb.endDates = [1, 2, 3] ∧ balanceValue es "USD" 2 = 220 ∧ balanceValue es "USD" 3 = 220 ∧
        balanceValue es "CHF" 3 = 50)
    | .error _ => false) = true := by decide +kernel

/-- the hypotheses of `C20_command_values_are_valued_balance` hold for the two commands on this journal -/
example (es : List Entry) (partB : Partition) (hb : BalanceCmd.entries pFB pDs = .ok (es, partB)) (D : Int)
    (hD : D ∈ partB.endDates) (c : Commodity) : (valueAt pPerfs D).get c 0 = balanceValue es c D :=
  C20_command_values_are_valued_balance pF pFB "CHF" pDs rfl rfl rfl rfl rfl (fun _ => rfl) (by decide +kernel)
    pPart [pDay1, pDay2, pDay3] pPerfs p_setup p_perfs es partB hb D hD c

/-- the value of the portfolio at the end of day 2 is the 220 of the balance -/
example : (valueAt pPerfs 2).get "USD" 0 = 220 := by decide +kernel

end Knut.C20
