package main

import (
	"fmt"
	"go/ast"
	"path/filepath"
	"strings"
)

// Facts for C14 (called from extractFacts):
//
//   c14StdoutWriterLast  for each report command's execute function: is the first use of standard output the
//                        creation of a bufio.Writer, and does nothing but the function's final return (no early
//                        `return err`) follow it in its block?  Then a failing command has written nothing.
//   c14ParseRecGuards    the shape of syntax.parseRec: the chain check (a range over `ancestors` comparing
//                        path.Clean of both sides and returning an error) comes before os.ReadFile, and the
//                        include callback joins with path.Join(filepath.Dir(file), …).

func c14IsStdoutRef(n ast.Node) bool {
	switch x := n.(type) {
	case *ast.SelectorExpr:
		if id, ok := x.X.(*ast.Ident); ok && id.Name == "os" && x.Sel.Name == "Stdout" {
			return true
		}
		if x.Sel.Name == "OutOrStdout" {
			return true
		}
	}
	return false
}

func c14Contains(n ast.Node, pred func(ast.Node) bool) bool {
	found := false
	if n == nil {
		return false
	}
	ast.Inspect(n, func(m ast.Node) bool {
		if m != nil && pred(m) {
			found = true
		}
		return !found
	})
	return found
}

func c14CountReturns(stmts []ast.Stmt) int {
	n := 0
	for _, s := range stmts {
		ast.Inspect(s, func(m ast.Node) bool {
			if _, ok := m.(*ast.FuncLit); ok {
				return false
			}
			if _, ok := m.(*ast.ReturnStmt); ok {
				n++
			}
			return true
		})
	}
	return n
}

// c14WriterLast checks the discipline in one statement list (recursing into nested blocks that hold the first
// use of standard output). Returns (found a stdout use, discipline holds).
func c14WriterLast(stmts []ast.Stmt) (bool, bool) {
	for i, s := range stmts {
		if !c14Contains(s, c14IsStdoutRef) {
			continue
		}
		// first statement of this list that touches standard output
		switch x := s.(type) {
		case *ast.AssignStmt:
			isWriter := len(x.Rhs) == 1 && c14Contains(x.Rhs[0], func(n ast.Node) bool {
				c, ok := n.(*ast.CallExpr)
				if !ok {
					return false
				}
				se, ok := c.Fun.(*ast.SelectorExpr)
				if !ok || se.Sel.Name != "NewWriter" {
					return false
				}
				id, ok := se.X.(*ast.Ident)
				return ok && id.Name == "bufio"
			})
			if !isWriter {
				return true, false
			}
			rest := stmts[i+1:]
			if len(rest) == 0 {
				return true, false
			}
			_, lastIsReturn := rest[len(rest)-1].(*ast.ReturnStmt)
			return true, lastIsReturn && c14CountReturns(rest) == 1
		case *ast.IfStmt:
			if c14Contains(x.Cond, c14IsStdoutRef) || (x.Init != nil && c14Contains(x.Init, c14IsStdoutRef)) {
				return true, false
			}
			okAll := true
			if c14Contains(x.Body, c14IsStdoutRef) {
				_, ok := c14WriterLast(x.Body.List)
				okAll = okAll && ok
			}
			if x.Else != nil && c14Contains(x.Else, c14IsStdoutRef) {
				if b, isBlock := x.Else.(*ast.BlockStmt); isBlock {
					_, ok := c14WriterLast(b.List)
					okAll = okAll && ok
				} else {
					okAll = false
				}
			}
			// nothing after the if may write either: later statements of this list must not touch stdout
			for _, later := range stmts[i+1:] {
				if c14Contains(later, c14IsStdoutRef) {
					okAll = false
				}
			}
			return true, okAll
		default:
			return true, false
		}
	}
	return false, false
}

func extractFactsC14(o *factOut, repo string) {
	type site struct{ file, fn, name string }
	sites := []site{
		{"cmd/commands/balance.go", "execute", "balance.execute"},
		{"cmd/commands/check.go", "execute", "check.execute"},
		{"cmd/commands/check.go", "writeFile", "check.writeFile"},
		{"cmd/commands/infer.go", "execute", "infer.execute"},
		{"cmd/commands/print.go", "execute", "print.execute"},
		{"cmd/commands/transcode.go", "execute", "transcode.execute"},
		{"cmd/commands/portfolio/weights.go", "execute", "weights.execute"},
	}
	var parts []string
	for _, s := range sites {
		ff, err := parseGo(filepath.Join(repo, s.file))
		if err != nil {
			o.missing("c14StdoutWriterLast", err.Error())
			return
		}
		fd := ff.funcDecl(s.fn)
		ok := false
		if fd != nil && fd.Body != nil {
			found, good := c14WriterLast(fd.Body.List)
			ok = found && good
		}
		parts = append(parts, fmt.Sprintf("(%s, %v)", leanStr(s.name), ok))
	}
	o.def("c14StdoutWriterLast", "List (String × Bool)", "["+strings.Join(parts, ", ")+"]")

	// ---- syntax.parseRec
	ff, err := parseGo(filepath.Join(repo, "lib/syntax/syntax.go"))
	if err != nil {
		o.missing("c14ParseRecGuards", err.Error())
		return
	}
	chainFirst, cleanBoth, readAfter, joinDir := false, false, false, false
	if fd := ff.funcDecl("parseRec"); fd != nil && fd.Body != nil && len(fd.Body.List) > 0 {
		if rs, ok := fd.Body.List[0].(*ast.RangeStmt); ok {
			if id, ok := rs.X.(*ast.Ident); ok && id.Name == "ancestors" {
				chainFirst = c14CountReturns(rs.Body.List) == 1
				cleanBoth = len(callsIn(rs.Body, "Clean")) == 2
			}
		}
		// os.ReadFile does not occur in the first statement and does occur later
		readAfter = len(callsIn(fd.Body.List[0], "ReadFile")) == 0 && len(callsIn(fd.Body, "ReadFile")) == 1
		for _, c := range callsIn(fd.Body, "Join") {
			if se, ok := c.Fun.(*ast.SelectorExpr); ok {
				if id, ok := se.X.(*ast.Ident); ok && id.Name == "path" && len(c.Args) == 2 && len(callsIn(c.Args[0], "Dir")) == 1 {
					joinDir = true
				}
			}
		}
	}
	o.def("c14ParseRecGuards", "List (String × Bool)", fmt.Sprintf("[(\"chain-check-first\", %v), (\"clean-both-sides\", %v), (\"read-after-check\", %v), (\"join-dir-of-includer\", %v)]",
		chainFirst, cleanBoth, readAfter, joinDir))
}
