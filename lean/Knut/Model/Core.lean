import Knut.Basic.Dec
/-!
# Core model types: accounts, commodities, postings, transactions
(`lib/model/account`, `lib/model/commodity`, `lib/model/posting`, `lib/model/transaction`)
-/
namespace Knut

inductive AccountType | assets | liabilities | equity | income | expenses
  deriving DecidableEq, Repr, Inhabited

def AccountType.name : AccountType → String
  | .assets => "Assets" | .liabilities => "Liabilities" | .equity => "Equity"
  | .income => "Income" | .expenses => "Expenses"

/-- `account.Types` order (used by `account.Compare` and the report's level-1 sort) -/
def AccountType.ord : AccountType → Nat
  | .assets => 0 | .liabilities => 1 | .equity => 2 | .income => 3 | .expenses => 4

def AccountType.ofName (s : String) : Option AccountType :=
  if s = "Assets" then some .assets else if s = "Liabilities" then some .liabilities
  else if s = "Equity" then some .equity else if s = "Income" then some .income
  else if s = "Expenses" then some .expenses else none

/-- An account is its list of segments; the registry interns accounts by name, so pointer
equality in Go is equality of the segment list here. Invariant (`Account.wf`): non-empty and the
first segment is a type name. -/
structure Account where
  segments : List String
  deriving DecidableEq, Repr, Inhabited

def Account.name (a : Account) : String := String.intercalate ":" a.segments

def Account.type? (a : Account) : Option AccountType :=
  match a.segments with
  | [] => none
  | s :: _ => AccountType.ofName s

def Account.wf (a : Account) : Bool := a.type?.isSome

def Account.isAL (a : Account) : Bool :=
  match a.type? with | some .assets => true | some .liabilities => true | _ => false

def Account.isIE (a : Account) : Bool :=
  match a.type? with | some .income => true | some .expenses => true | _ => false

def Account.level (a : Account) : Nat := a.segments.length

def Account.ofName (s : String) : Account := ⟨(s.split (· == ':')).toList.map (·.toString)⟩

abbrev Commodity := String

/-- `posting.Posting` (without the source pointer) -/
structure Posting where
  account : Account
  other : Account
  commodity : Commodity
  quantity : Rat
  value : Rat := 0
  deriving DecidableEq, Repr, Inhabited

/-- `posting.Builder.Build`: one booking becomes a credit/debit pair; a negative booking is
normalised by swapping the accounts. -/
def postingBuild (credit debit : Account) (c : Commodity) (quantity : Rat) (value : Rat := 0) : List Posting :=
  let swap := decide (quantity < 0) || (decide (quantity = 0) && decide (value < 0))
  let cr := if swap then debit else credit
  let dr := if swap then credit else debit
  let q := if swap then -quantity else quantity
  let v := if swap then -value else value
  [ { account := cr, other := dr, commodity := c, quantity := -q, value := -v },
    { account := dr, other := cr, commodity := c, quantity := q, value := v } ]

/-- `transaction.Transaction` (without the source pointer) -/
structure Transaction where
  date : Int
  description : String
  postings : List Posting
  targets : Option (List Commodity) := none
  deriving DecidableEq, Repr, Inhabited

end Knut
