import Knut.Properties.C01
import Knut.FactsAgree.TransReportTotals
import Knut.FactsAgree.TransQuery
/-!
# C01 (the Delta clause) on the generated definitions

`Properties/C01.lean` proves that every value behind the `Delta` row of the balance report is zero (`C01_delta_cells_zero`) about the
model's entry list.  In Go the row is computed by `Renderer.Render` as

  `totalAL, totalEIE := r.Totals(KeyMapper{Date: Identity, Commodity: IdentityIf(valuation == nil)}.Build()); totalAL.Plus(totalEIE)`

`Report.Insert`, `Report.Totals` and `Amounts.Plus` are translated, and `FactsAgree/TransReport*.lean`, `TransAmountsSum.lean` prove them
equal to the model (`Totals_agrees`, `logSum_cellAt`, `Plus_agrees`) for EVERY iteration order of the maps involved.  This module
composes them: `C01_delta_cells_go` — on the report that ANY log of `Insert` calls leaves, for every admissible family of iteration orders,
the map handed to `render` for the `Delta` row holds, at every column date and commodity, the model's `cellAt` of the entries of the log
— and `C01_delta_zero_go_partial`: that value is ZERO when the entries of the log are those of a balanced run of the model.

**Partial** in that last hypothesis `hlog : esOf log = st.entries`: the log of `Insert` calls that the translated `Query.Into` makes
(per posting proved equal to the model's `queryPosting`: `TransQuery.Query_Posting_model`) over a journal processed by the translated stages
is not composed over the whole journal here.  Hypotheses on the log that stay: commodities interned with non-empty names (`hcom`).
-/
namespace Knut.C01Go
open Knut Knut.GoSem Knut.Balance
open Knut.Generated.Go
open Knut.FactsAgree.TransAmountsSum Knut.FactsAgree.TransReport
open Knut.FactsAgree.TransQuery (entryOf)

/-- the report after a log of `Insert` calls on a new report -/
def reportOf (part : date.Partition) (log : Log) : balance.Report :=
  log.foldl (fun r e => balance.Report.Insert r e.1 e.2) (balance.NewReport part)

theorem cellAt_cons (x : Knut.Entry) (es : List Knut.Entry) (byC : Bool) (c : Option Knut.Commodity) (d : Int) :
    BalanceReport.cellAt (x :: es) byC c d =
      (if (x.date = some d && (if byC then some x.commodity else none) = c) = true then x.amount else 0)
        + BalanceReport.cellAt es byC c d := by
  unfold BalanceReport.cellAt BalanceReport.sumAmounts
  by_cases h : (decide (x.date = some d) && decide ((if byC then some x.commodity else none) = c)) = true
  · simp only [List.filter_cons, h, ↓reduceIte, List.map_cons, List.sum_cons]
  · simp only [List.filter_cons, h]; exact (Rat.zero_add _).symm

/-- the cells of the two sections add up to the cell of all kept inserts -/
theorem cellAt_sec_split (log : Log) (byC : Bool) (c : Option Knut.Commodity) (d : Int) :
    BalanceReport.cellAt (esOf (sec true log)) byC c d + BalanceReport.cellAt (esOf (sec false log)) byC c d
      = BalanceReport.cellAt (esOf log) byC c d := by
  induction log with
  | nil => simp [sec, esOf, BalanceReport.cellAt, BalanceReport.sumAmounts, Rat.add_zero]
  | cons e rest ih =>
    by_cases hz : e.1.Account = GoZero.zero
    · have h1 : sec true (e :: rest) = sec true rest := by simp [sec, hz]
      have h2 : sec false (e :: rest) = sec false rest := by simp [sec, hz]
      have h3 : esOf (e :: rest) = esOf rest := by simp [esOf, entryOf, hz]
      rw [h1, h2, h3, ih]
    · obtain ⟨x, hx⟩ : ∃ x, entryOf e = some x := by simp [entryOf, hz]
      have h3 : esOf (e :: rest) = x :: esOf rest := by simp [esOf, hx]
      by_cases hal : account.Account.IsAL e.1.Account = true
      · have h1 : sec true (e :: rest) = e :: sec true rest := by simp [sec, hz, hal]
        have h2 : sec false (e :: rest) = sec false rest := by simp [sec, hz, hal]
        have h4 : esOf (e :: sec true rest) = x :: esOf (sec true rest) := by simp [esOf, hx]
        rw [h1, h2, h3, h4, cellAt_cons, cellAt_cons, ← ih]
        grind
      · have hal' : account.Account.IsAL e.1.Account = false := by simpa using hal
        have h1 : sec true (e :: rest) = sec true rest := by simp [sec, hz, hal']
        have h2 : sec false (e :: rest) = e :: sec false rest := by simp [sec, hz, hal']
        have h4 : esOf (e :: sec false rest) = x :: esOf (sec false rest) := by simp [esOf, hx]
        rw [h1, h2, h3, h4, cellAt_cons, cellAt_cons, ← ih]
        grind

theorem mem_sec {al : Bool} {log : Log} {e : amounts.Key × Rat} (h : e ∈ sec al log) : e ∈ log ∧ e.1.Account ≠ GoZero.zero := by
  unfold sec at h
  obtain ⟨h1, h2⟩ := List.mem_filter.mp h
  simp only [Bool.and_eq_true, Bool.not_eq_true', decide_eq_false_iff_not] at h2
  exact ⟨h1, h2.1⟩

/-- **the amounts behind the Delta row**: on the report any log of `Insert` calls leaves, `Totals` with the renderer's mapper never
panics, leaves the report unchanged, and `totalAL.Plus(totalEIE)` holds at every column date and commodity the model's cell of the
entries of the log — for EVERY admissible family of iteration orders (of `Totals`: `Orders`; of `Plus`: a permutation of the keys) -/
theorem C01_delta_cells_go (cur : String → Bool) (part : date.Partition) (log : Log) (byCommodity : Bool)
    (hcom : ∀ e ∈ log, e.1.Commodity = Knut.FactsAgree.TransPosting.commodityGo cur e.1.Commodity.name ∧ e.1.Commodity.name ≠ "")
    (o1 o2 o4 o5 : List String → List amounts.Key) (ord3 ord6 : List String → List String)
    (h1 : Orders (sec true log) [] (mfR byCommodity) [] (reportOf part log).AL o1 o2 ord3)
    (h2 : Orders (sec false log) [] (mfR byCommodity) [] (reportOf part log).EIE o4 o5 ord6) :
    ∃ al eie, balance.Report.Totals (reportOf part log) (pureFn (mfR byCommodity)) o1 o2 ord3 o4 o5 ord6 =
        GoSem.Outcome.ok (reportOf part log, al, eie) ∧
      ∀ op : List amounts.Key, op.Perm (AMap.keys eie) →
        ∀ (c : Option Knut.Commodity), (∀ s, c = some s → s ≠ "") → ∀ d : Int, d ≠ 0 →
          AMap.get (amounts.Amounts.Plus al eie op) (amounts.DateCommodityKey d (comGo cur c)) 0 =
            BalanceReport.cellAt (esOf log) byCommodity c d := by
  obtain ⟨al, eie, hT, wa, _, va, we, _, ve⟩ := Totals_agrees part log (mfR byCommodity) o1 o2 o4 o5 ord3 ord6 h1 h2
  refine ⟨al, eie, hT, ?_⟩
  intro op hop c hc d hd
  obtain ⟨_, hplus, _⟩ := Plus_agrees wa we hop
  rw [hplus, va, ve]
  rw [logSum_cellAt cur (sec true log) (fun e he => (mem_sec he).2) (fun e he => hcom e (mem_sec he).1) byCommodity c hc d hd,
    logSum_cellAt cur (sec false log) (fun e he => (mem_sec he).2) (fun e he => hcom e (mem_sec he).1) byCommodity c hc d hd]
  exact cellAt_sec_split log byCommodity c d

/-- **every value behind the Delta row is zero** on the translated code, when the entries of the log of inserts are those of a run
of the model's balance pipeline on a journal of paired transactions, unfiltered -/
theorem C01_delta_zero_go_partial (cur : String → Bool) (part : date.Partition) (log : Log) (byCommodity : Bool)
    (hcom : ∀ e ∈ log, e.1.Commodity = Knut.FactsAgree.TransPosting.commodityGo cur e.1.Commodity.name ∧ e.1.Commodity.name ≠ "")
    (o1 o2 o4 o5 : List String → List amounts.Key) (ord3 ord6 : List String → List String)
    (h1 : Orders (sec true log) [] (mfR byCommodity) [] (reportOf part log).AL o1 o2 ord3)
    (h2 : Orders (sec false log) [] (mfR byCommodity) [] (reportOf part log).EIE o4 o5 ord6)
    (cfg : BalCfg) (hu : Unfiltered cfg) (days : List Day) (hp : C01.PairedDays days) (st : BalState)
    (hrun : Balance.run cfg days = .ok st) (hlog : esOf log = st.entries) :
    ∃ al eie, balance.Report.Totals (reportOf part log) (pureFn (mfR byCommodity)) o1 o2 ord3 o4 o5 ord6 =
        GoSem.Outcome.ok (reportOf part log, al, eie) ∧
      ∀ op : List amounts.Key, op.Perm (AMap.keys eie) →
        ∀ (c : Option Knut.Commodity), (∀ s, c = some s → s ≠ "") → ∀ d : Int, d ≠ 0 →
          AMap.get (amounts.Amounts.Plus al eie op) (amounts.DateCommodityKey d (comGo cur c)) 0 = 0 := by
  obtain ⟨al, eie, hT, hcells⟩ := C01_delta_cells_go cur part log byCommodity hcom o1 o2 o4 o5 ord3 ord6 h1 h2
  refine ⟨al, eie, hT, ?_⟩
  intro op hop c hc d hd
  rw [hcells op hop c hc d hd, hlog]
  exact C01.C01_delta_cells_zero cfg hu days hp st hrun byCommodity c d

/-! ## the log of `Query.Into`

`Processor.Process` calls the `Posting` closure of `Query.Into(report)` for every posting of every transaction that reaches the query
stage; the closure's calls `report.Insert(k, v)` are the LOG the theorems above start from.  `queryAllGo` folds the translated closure
over a list of Go transactions; `queryAll_model` composes `TransQuery.Query_Posting_model` over it: the entries of the log are the model's
`queryTx` of the transactions, in order.  With it the hypothesis `hlog` of `C01_delta_zero_go_partial` is reduced to: the Go transactions
that reach the query stage stand for the model's (`TRel`: dates, postings; `Src` pointers and descriptions arbitrary). -/

/-- the `Posting` closure over the postings of one transaction (the first error or panic ends the run) -/
def queryPostings (tg : transaction.Transaction) :
    journal.Query.Into.State → List posting.Posting → GoSem.Outcome (journal.Query.Into.State × Option GoSem.Error)
  | st, [] => .ok (st, none)
  | st, b :: bs =>
    (journal.Query.Into.Posting st tg b).bind fun r =>
      match r.2 with
      | none => queryPostings tg r.1 bs
      | some e => .ok (r.1, some e)

/-- … over the transactions that reach the query stage, in order -/
def queryAllGo : journal.Query.Into.State → List transaction.Transaction →
    GoSem.Outcome (journal.Query.Into.State × Option GoSem.Error)
  | st, [] => .ok (st, none)
  | st, tg :: tgs =>
    (queryPostings tg st tg.Postings).bind fun r =>
      match r.2 with
      | none => queryAllGo r.1 tgs
      | some e => .ok (r.1, some e)

/-- how `cmd/commands/balance.go` (not translated) sets up `Where` and `Select` for a model configuration: `Where` computes the two
filters, `Select` the account mapping and the column; both look at a transaction through its date only -/
structure QueryFor (cur : String → Bool) (cfg : BalCfg) (q : journal.Query) (w : amounts.Key → Bool) (s : amounts.Key → amounts.Key) :
    Prop where
  where_ : q.Where = some (fun k => GoSem.Outcome.ok (w k))
  select : q.Select = some (fun k => GoSem.Outcome.ok (s k))
  val : (q.Valuation = GoZero.zero) ↔ cfg.valuation = none
  hw : ∀ (tg : transaction.Transaction) (src : GoSem.Ref) (p : Knut.Posting),
    w (Knut.FactsAgree.TransQuery.keyOf q.Valuation tg (Knut.FactsAgree.TransPosting.postingGo cur src p)) =
      (cfg.accountFilter p.account.name && cfg.commodityFilter p.commodity)
  hs : ∀ (tg : transaction.Transaction) (t : Knut.Transaction) (src : GoSem.Ref) (p : Knut.Posting) (amt : Rat), tg.Date = t.date →
    entryOf (s (Knut.FactsAgree.TransQuery.keyOf q.Valuation tg (Knut.FactsAgree.TransPosting.postingGo cur src p)), amt) =
      (mapAccount cfg p.account).map fun a =>
        { date := alignIn cfg.periods t.date, account := a, commodity := p.commodity, amount := amt }

open Knut.FactsAgree.TransProcess (AllRel PRel TRel) in
theorem queryPostings_model {cur : String → Bool} {cfg : BalCfg} {w : amounts.Key → Bool} {s : amounts.Key → amounts.Key}
    (tg : transaction.Transaction) (t : Knut.Transaction) (hdate : tg.Date = t.date) :
    ∀ (bs : List posting.Posting) (ps : List Knut.Posting), AllRel (PRel cur) bs ps →
      ∀ (st : journal.Query.Into.State), QueryFor cur cfg st.query w s →
      ∃ st', queryPostings tg st bs = .ok (st', none) ∧ st'.query = st.query ∧
        esOf st'.c = esOf st.c ++ ps.filterMap (Balance.queryPosting cfg t) := by
  intro bs ps hrel
  induction hrel with
  | nil => intro st _; exact ⟨st, rfl, rfl, by simp⟩
  | @cons b p bs ps hb _ ih =>
    intro st hq
    have hb' : b = Knut.FactsAgree.TransPosting.postingGo cur b.Src p := hb
    obtain ⟨st1, h1, hq1, he1⟩ := Knut.FactsAgree.TransQuery.Query_Posting_model cur cfg st w s hq.where_ hq.select hq.val tg t b.Src p
      (hq.hw tg b.Src p) (fun amt => hq.hs tg t b.Src p amt hdate)
    rw [← hb'] at h1
    obtain ⟨st2, h2, hq2, he2⟩ := ih st1 (by rw [hq1]; exact hq)
    refine ⟨st2, ?_, by rw [hq2, hq1], ?_⟩
    · simp only [queryPostings, h1, GoSem.Outcome.bind]
      exact h2
    · unfold esOf at he2 ⊢
      rw [he2, he1, List.filterMap_cons]
      cases Balance.queryPosting cfg t p <;> simp

open Knut.FactsAgree.TransProcess (AllRel PRel TRel) in
/-- **the log of `Query.Into` over the transactions that reach it**: no error, no panic (`Where`/`Select` are set), the query is
unchanged, and the entries `Report.Insert` keeps of the log grow by exactly the model's `queryTx` of every transaction, in order -/
theorem queryAll_model {cur : String → Bool} {cfg : BalCfg} {w : amounts.Key → Bool} {s : amounts.Key → amounts.Key} :
    ∀ (tgs : List transaction.Transaction) (ts : List Knut.Transaction), AllRel (TRel cur) tgs ts →
      ∀ (st : journal.Query.Into.State), QueryFor cur cfg st.query w s →
      ∃ st', queryAllGo st tgs = .ok (st', none) ∧ st'.query = st.query ∧
        esOf st'.c = esOf st.c ++ ts.flatMap (Balance.queryTx cfg) := by
  intro tgs ts hrel
  induction hrel with
  | nil => intro st _; exact ⟨st, rfl, rfl, by simp⟩
  | @cons tg t tgs ts ht _ ih =>
    intro st hq
    obtain ⟨st1, h1, hq1, he1⟩ := queryPostings_model (w := w) (s := s) tg t ht.1 tg.Postings t.postings ht.2.2.1 st hq
    obtain ⟨st2, h2, hq2, he2⟩ := ih st1 (by rw [hq1]; exact hq)
    refine ⟨st2, ?_, by rw [hq2, hq1], ?_⟩
    · simp only [queryAllGo, h1, GoSem.Outcome.bind]
      exact h2
    · rw [he2, he1, List.flatMap_cons, List.append_assoc]
      rfl

/-- the transactions that reach the query stage in a run of the model, all days in order (`Balance.run` with the entries left out) -/
def runTxs (cfg : BalCfg) : BalState → List Day → Except BalErr (List Knut.Transaction)
  | _, [] => .ok []
  | st, d :: ds =>
    match Balance.dayTxs cfg st d with
    | .error e => .error e
    | .ok (st1, txs) =>
      match runTxs cfg { st1 with entries := st1.entries ++ txs.flatMap (Balance.queryTx cfg) } ds with
      | .error e => .error e
      | .ok rest => .ok (txs ++ rest)

/-- the stages before the query do not touch the entries (the argument inside `Proofs/Balance.sumSel_day`, as a lemma) -/
theorem dayTxs_entries (cfg : BalCfg) (st st1 : BalState) (d : Day) (txs : List Knut.Transaction)
    (hd : Balance.dayTxs cfg st d = .ok (st1, txs)) : st1.entries = st.entries := by
  unfold Balance.dayTxs at hd
  simp only [bind, Except.bind] at hd
  cases hc : Balance.checkStage st d with
  | error e => rw [hc] at hd; cases hd
  | ok s1 =>
    rw [hc] at hd; simp only at hd
    have e1 : s1.entries = st.entries := by
      unfold Balance.checkStage at hc
      split at hc
      · injection hc with hc; subst hc; rfl
      · cases hc
    cases hv : Balance.valuationStage cfg s1 d with
    | error e => rw [hv] at hd; cases hd
    | ok r2 =>
      obtain ⟨s2, t2⟩ := r2
      rw [hv] at hd; simp only at hd
      injection hd with hd
      have e2 : s2.entries = s1.entries := by
        unfold Balance.valuationStage at hv
        cases hval : cfg.valuation with
        | none => rw [hval] at hv; simp only at hv; injection hv with hv; injection hv with hv _; subst hv; rfl
        | some v =>
          rw [hval] at hv; simp only [bind, Except.bind] at hv
          cases hp : Balance.pricesDay v s1 d with
          | error e => rw [hp] at hv; cases hv
          | ok sp =>
            rw [hp] at hv; simp only at hv
            have e3 : sp.entries = s1.entries := by
              unfold Balance.pricesDay at hp
              simp only [bind, Except.bind] at hp
              split at hp
              · cases hp
              · injection hp with hp; subst hp; rfl
            unfold Balance.valuateDay at hv
            simp only [bind, Except.bind] at hv
            split at hv
            · cases hv
            · split at hv
              · cases hv
              · injection hv with hv; injection hv with hv _; subst hv; exact e3
      unfold Balance.closeStage at hd
      split at hd
      · injection hd with hd _; subst hd
        have hacc : ∀ (ts : List Knut.Transaction) (s : BalState), (Balance.accumulate s ts).entries = s.entries := by
          intro ts
          unfold Balance.accumulate
          induction ts with
          | nil => intro s; rfl
          | cons t rest ih =>
            intro s
            simp only [List.foldl_cons]
            rw [ih]
            generalize t.postings = ps
            induction ps generalizing s with
            | nil => rfl
            | cons p ps ihp =>
              simp only [List.foldl_cons]
              rw [ihp]
              split <;> rfl
        rw [hacc, e2, e1]
      · injection hd with hd _; subst hd; rw [e2, e1]

theorem run_entries (cfg : BalCfg) : ∀ (days : List Day) (st0 st : BalState), days.foldlM (Balance.day cfg) st0 = .ok st →
    ∃ all, runTxs cfg st0 days = .ok all ∧ st.entries = st0.entries ++ all.flatMap (Balance.queryTx cfg) := by
  intro days
  induction days with
  | nil =>
    intro st0 st h
    simp only [List.foldlM_nil, pure, Except.pure] at h
    injection h with h; subst h
    exact ⟨[], rfl, by simp⟩
  | cons d rest ih =>
    intro st0 st h
    simp only [List.foldlM_cons, bind, Except.bind] at h
    cases hd : Balance.day cfg st0 d with
    | error e => rw [hd] at h; cases h
    | ok st1 =>
      rw [hd] at h
      simp only at h
      unfold Balance.day at hd
      simp only [bind, Except.bind] at hd
      cases hx : Balance.dayTxs cfg st0 d with
      | error e => rw [hx] at hd; cases hd
      | ok r =>
        obtain ⟨sx, txs⟩ := r
        rw [hx] at hd
        simp only at hd
        injection hd with hd
        subst hd
        obtain ⟨all, ha, he⟩ := ih _ st h
        refine ⟨txs ++ all, ?_, ?_⟩
        · simp only [runTxs, hx, ha]
        · rw [he, List.flatMap_append]
          simp only [dayTxs_entries cfg st0 sx d txs hx, List.append_assoc]

/-- **every value behind the Delta row is zero**, with the log produced by the translated `Query.Into`: the translated closure run
over Go transactions that stand for the transactions reaching the query stage in a run of the model (paired transactions, unfiltered), then
`Totals` and `Plus` on the report these inserts leave, for every admissible family of iteration orders.
Still partial in `hrel`: that the Go transactions after the translated stages `check`/`ComputePrices`/`Valuate`/`Filter`/`CloseAccounts`
(per day proved equal to the model in `FactsAgree/TransProcess.lean`) stand for the model's is not composed over the journal. -/
theorem C01_delta_zero_query_go_partial (cur : String → Bool) (part : date.Partition) (byCommodity : Bool)
    (cfg : BalCfg) (hu : Unfiltered cfg) (days : List Day) (hp : C01.PairedDays days) (st : BalState)
    (hrun : Balance.run cfg days = .ok st) (all : List Knut.Transaction) (hall : runTxs cfg {} days = .ok all)
    (q : journal.Query) (w : amounts.Key → Bool) (s : amounts.Key → amounts.Key)
    (hq : QueryFor cur cfg (journal.Query.Into.init q).query w s)
    (tgs : List transaction.Transaction) (hrel : Knut.FactsAgree.TransProcess.AllRel (Knut.FactsAgree.TransProcess.TRel cur) tgs all) :
    ∃ qs, queryAllGo (journal.Query.Into.init q) tgs = .ok (qs, none) ∧ esOf qs.c = st.entries ∧
      ((∀ e ∈ qs.c, e.1.Commodity = Knut.FactsAgree.TransPosting.commodityGo cur e.1.Commodity.name ∧ e.1.Commodity.name ≠ "") →
        ∀ (o1 o2 o4 o5 : List String → List amounts.Key) (ord3 ord6 : List String → List String),
          Orders (sec true qs.c) [] (mfR byCommodity) [] (reportOf part qs.c).AL o1 o2 ord3 →
          Orders (sec false qs.c) [] (mfR byCommodity) [] (reportOf part qs.c).EIE o4 o5 ord6 →
          ∃ al eie, balance.Report.Totals (reportOf part qs.c) (pureFn (mfR byCommodity)) o1 o2 ord3 o4 o5 ord6 =
              GoSem.Outcome.ok (reportOf part qs.c, al, eie) ∧
            ∀ op : List amounts.Key, op.Perm (AMap.keys eie) →
              ∀ (c : Option Knut.Commodity), (∀ s, c = some s → s ≠ "") → ∀ d : Int, d ≠ 0 →
                AMap.get (amounts.Amounts.Plus al eie op) (amounts.DateCommodityKey d (comGo cur c)) 0 = 0) := by
  obtain ⟨qs, h1, _, he⟩ := queryAll_model tgs all hrel (journal.Query.Into.init q) hq
  obtain ⟨all', ha', hent⟩ := run_entries cfg days {} st hrun
  rw [hall] at ha'
  injection ha' with ha'
  subst ha'
  have hc0 : esOf (journal.Query.Into.init q).c = [] := by
    rw [Knut.FactsAgree.TransQuery.Query_init_agrees]; rfl
  have hlog : esOf qs.c = st.entries := by
    rw [he, hc0, hent]
  refine ⟨qs, h1, hlog, ?_⟩
  intro hcom o1 o2 o4 o5 ord3 ord6 h1' h2'
  exact C01_delta_zero_go_partial cur part qs.c byCommodity hcom o1 o2 o4 o5 ord3 ord6 h1' h2' cfg hu days hp st hrun hlog

/-! ### Non-vacuity of `QueryFor`: an unfiltered, unmapped report over the single period 1 … 10; `Where` accepts everything, `Select`
replaces the date by the period end `Align` gives (the zero time after the window) -/

def cfg0 : BalCfg := { span := ⟨1, 10⟩, periods := [⟨1, 10⟩] }
def sel0 (k : amounts.Key) : amounts.Key := { k with Date := (alignIn [⟨1, 10⟩] k.Date).getD 0 }
def q0 : journal.Query :=
  { Select := some (fun k => GoSem.Outcome.ok (sel0 k)), Where := some (fun _ => GoSem.Outcome.ok true), Valuation := GoZero.zero }

theorem accountGo_ne_zero (a : Knut.Account) : Knut.FactsAgree.TransAccount.accountGo a ≠ GoZero.zero := by
  intro h
  have hs : a.segments = [] := congrArg account.Account.segments h
  have ht := congrArg account.Account.accountType h
  cases a with
  | mk segs =>
    simp only at hs
    subst hs
    revert ht
    decide

example (cur : String → Bool) : QueryFor cur cfg0 (journal.Query.Into.init q0).query (fun _ => true) sel0 := by
  have hq : (journal.Query.Into.init q0).query = q0 := by
    rw [Knut.FactsAgree.TransQuery.Query_init_agrees]; rfl
  rw [hq]
  refine ⟨rfl, rfl, ⟨fun _ => rfl, fun _ => rfl⟩, fun _ _ _ => rfl, ?_⟩
  intro tg t src p amt hdate
  have hm : mapAccount cfg0 p.account = some p.account := by
    simp [mapAccount, cfg0, shorten, mappingLevel]
  rw [hm]
  unfold entryOf
  simp only [sel0, Knut.FactsAgree.TransQuery.keyOf, Knut.FactsAgree.TransPosting.postingGo, accountGo_ne_zero, if_false, hdate,
    Option.map_some, Option.some.injEq]
  have hal : alignIn cfg0.periods t.date = alignIn [⟨1, 10⟩] t.date := rfl
  rw [hal]
  have hd : (if (alignIn [⟨1, 10⟩] t.date).getD 0 = 0 then none else some ((alignIn [⟨1, 10⟩] t.date).getD 0))
      = alignIn [⟨1, 10⟩] t.date := by
    unfold alignIn
    by_cases h10 : (10 : Int) < t.date <;> simp [List.find?, h10]
  rw [hd]
  cases p with
  | mk acc oth com qty val =>
    cases acc
    rfl

/-! ### Non-vacuity: the empty log (a journal without bookings): every order family is admissible, both totals are empty, every Delta
cell is 0 -/
example : ∃ al eie, balance.Report.Totals (reportOf ⟨⟨1, 2⟩, 1, []⟩ []) (pureFn (mfR true)) (fun _ => []) (fun _ => []) (fun _ => [])
    (fun _ => []) (fun _ => []) (fun _ => []) = GoSem.Outcome.ok (reportOf ⟨⟨1, 2⟩, 1, []⟩ [], al, eie) ∧
    AMap.get (amounts.Amounts.Plus al eie []) (amounts.DateCommodityKey 5 (comGo (fun _ => true) (some "CHF"))) 0 = 0 := by
  have hO : ∀ n : Node, n = MNode.new "" → Orders [] [] (mfR true) [] n (fun _ => []) (fun _ => []) (fun _ => []) := by
    intro n hn
    subst hn
    refine ⟨?_, ?_, ?_⟩
    · intro q m hm
      cases q with
      | nil => simp only [MNode.nodeAt?_nil, Option.some.injEq] at hm; subst hm; simp [MNode.new, AMap.keys]; try rfl
      | cons s rest => simp [MNode.nodeAt?_cons, MNode.new, AMap.find?] at hm
    · intro q m hm
      cases q with
      | nil => simp only [MNode.nodeAt?_nil, Option.some.injEq] at hm; subst hm; simp [MNode.new, AMap.keys]
      | cons s rest => simp [MNode.nodeAt?_cons, MNode.new, AMap.find?] at hm
    · intro q x hx
      exfalso
      unfold possible at hx
      simp [AMap.keys] at hx
  obtain ⟨al, eie, hT, hcells⟩ := C01_delta_cells_go (fun _ => true) ⟨⟨1, 2⟩, 1, []⟩ [] true (by intro e he; cases he)
    (fun _ => []) (fun _ => []) (fun _ => []) (fun _ => []) (fun _ => []) (fun _ => [])
    (hO _ rfl) (hO _ rfl)
  refine ⟨al, eie, hT, ?_⟩
  have hk : ([] : List amounts.Key).Perm (AMap.keys eie) := by
    obtain ⟨al', eie', hT', _, _, _, we, ce, ve⟩ := Totals_agrees ⟨⟨1, 2⟩, 1, []⟩ [] (mfR true) (fun _ => []) (fun _ => [])
      (fun _ => []) (fun _ => []) (fun _ => []) (fun _ => []) (hO _ rfl) (hO _ rfl)
    have hT2 := hT
    unfold reportOf at hT2
    rw [hT'] at hT2
    injection hT2 with hT2
    have : eie' = eie := by simpa using congrArg (fun x => x.2.2) hT2
    subst this
    have : AMap.keys eie' = [] := by
      apply List.eq_nil_iff_forall_not_mem.mpr
      intro x hx
      have := (ce x).mp hx
      rw [ve x] at this
      simp [sec, logSum] at this
    rw [this]
  have := hcells [] hk (some "CHF") (by intro s hs; injection hs with hs; subst hs; decide) 5 (by decide)
  rw [this]
  simp [esOf, BalanceReport.cellAt, BalanceReport.sumAmounts]

end Knut.C01Go
