import Knut.Properties.C11
import Knut.FactsAgree.TransDate
/-!
# C11 on the generated definitions

The theorems of `Properties/C11.lean` are about the hand-written model (`newPartition`, `alignIn`); the agreement
theorems of `FactsAgree/TransDate.lean` prove the definitions generated from `/repo`'s `lib/common/date/date.go`
(`Knut.Generated.Go.date.*`) equal to that model.  This module COMPOSES the two: every main clause of C11 is stated
here about `Go.date.NewPartition` (with the fuel its two loops are called with in the generated text: `fuelGe end
period.Start`, `fuelLt 0 (len-1)`), `Go.date.Partition.Align` (Go's binary search), `Partition.Contains` and
`StartOf`, on Go values (`date.Period`, `date.Partition`; a `time.Time` is its day number, an `Interval` an `int`).

Hypotheses that stay: `IvOK interval` (`Once … Yearly`, the six constants; for every other `int` see
`NewPartition_other`: the code then behaves as for `Daily`), and the hypothesis of the model theorem itself.
Nothing about fuel is assumed: `NewPartition_total` shows the generated definition never answers `outOfFuel`.
-/
namespace Knut.C11Go
open Knut Knut.Date
open Knut.Generated.Go
open Knut.FactsAgree.TransDate

/-- the values of `date.Interval` that knut builds (`Once … Yearly`) -/
def IvOK (i : Int) : Prop := 0 ≤ i ∧ i ≤ 5

/-- inverse of `ivGo` on `IvOK` -/
def ivOf (i : Int) : Knut.Interval :=
  if i = 0 then .once else if i = 1 then .daily else if i = 2 then .weekly else if i = 3 then .monthly
  else if i = 4 then .quarterly else .yearly

theorem ivGo_ivOf {i : Int} (h : IvOK i) : ivGo (ivOf i) = i := by
  unfold IvOK at h
  have : i = 0 ∨ i = 1 ∨ i = 2 ∨ i = 3 ∨ i = 4 ∨ i = 5 := by omega
  rcases this with h | h | h | h | h | h <;> subst h <;> rfl

theorem ivOf_ivGo (iv : Knut.Interval) : ivOf (ivGo iv) = iv := by cases iv <;> rfl

theorem ivOf_once {i : Int} (h : IvOK i) : ivOf i = .once ↔ i = date.Once := by
  constructor
  · intro e; have := ivGo_ivOf h; rw [e] at this; exact this.symm
  · intro e; subst e; rfl

/-- membership of a day in a Go period: `Period.Contains` -/
def inP (p : date.Period) (d : Int) : Prop := p.Start ≤ d ∧ d ≤ p.End

theorem inP_iff_Contains (p : date.Period) (d : Int) : inP p d ↔ date.Period.Contains p d = true := by
  have := Period_Contains_agrees (periodOfGo p) d
  rw [periodGo_periodOfGo] at this
  rw [this]
  unfold inP Knut.Period.contains periodOfGo
  simp only [Bool.and_eq_true, Bool.not_eq_true', decide_eq_false_iff_not]
  constructor <;> intro ⟨x, y⟩ <;> constructor <;> omega

theorem inP_periodGo (p : Knut.Period) (d : Int) : inP (periodGo p) d ↔ C11.inP p d := Iff.rfl

/-- each period starts the day after the previous one ends (Go values) -/
def Consecutive : List date.Period → Prop
  | [] => True
  | [_] => True
  | p :: q :: rest => p.End + 1 = q.Start ∧ Consecutive (q :: rest)

theorem consecutive_map : ∀ L : List Knut.Period, Knut.Consecutive L → Consecutive (L.map periodGo)
  | [], _ => trivial
  | [_], _ => trivial
  | _ :: q :: rest, h => ⟨h.1, consecutive_map (q :: rest) h.2⟩

/-- **the bridge**: a successful run of the generated `NewPartition` IS a successful run of the model on the same window,
and its result is the model's partition field by field. -/
theorem NewPartition_ok {period : date.Period} {interval : Int} {last : Int} {G : date.Partition}
    (hiv : IvOK interval) (h : date.NewPartition period interval last = GoSem.Outcome.ok G) :
    ∃ P, newPartition (periodOfGo period) (ivOf interval) last = Knut.Outcome.ok P ∧ G = partitionGo P := by
  have ha := NewPartition_agrees (periodOfGo period) (ivOf interval) last
  rw [periodGo_periodOfGo, ivGo_ivOf hiv, h] at ha
  cases hm : newPartition (periodOfGo period) (ivOf interval) last with
  | ok P => rw [hm] at ha; simp only [outcomeGo] at ha; injection ha with ha; exact ⟨P, rfl, ha⟩
  | panic m => rw [hm] at ha; simp only [outcomeGo] at ha; cases ha

/-- the generated `NewPartition` never runs out of the fuel its loops are called with, and panics exactly on a window
that starts at Go's zero time -/
theorem NewPartition_total (period : date.Period) (interval : Int) (last : Int) (hiv : IvOK interval) :
    (period.Start = 0 ∧
        date.NewPartition period interval last = GoSem.Outcome.panic "can't create partition with zero time") ∨
    (period.Start ≠ 0 ∧ ∃ G, date.NewPartition period interval last = GoSem.Outcome.ok G) := by
  have ha := NewPartition_agrees (periodOfGo period) (ivOf interval) last
  rw [periodGo_periodOfGo, ivGo_ivOf hiv] at ha
  by_cases hz : period.Start = 0
  · left
    refine ⟨hz, ?_⟩
    rw [ha, C11.C11_zero_start_panics _ _ _ (by simpa [periodOfGo] using hz)]; rfl
  · right
    refine ⟨hz, ?_⟩
    rw [ha]
    unfold newPartition
    have : (periodOfGo period).start ≠ 0 := hz
    simp only [this, if_false, outcomeGo]
    exact ⟨_, rfl⟩

theorem mem_periods {P : Knut.Partition} {p : date.Period} (hp : p ∈ (partitionGo P).periods) :
    periodOfGo p ∈ P.periods ∧ periodGo (periodOfGo p) = p := by
  simp only [partitionGo, List.mem_map] at hp
  obtain ⟨q, hq, rfl⟩ := hp
  exact ⟨by simpa using hq, rfl⟩

/-- **consecutive** -/
theorem C11_consecutive_go {period : date.Period} {interval : Int} {last : Int} {G : date.Partition}
    (hiv : IvOK interval) (h : date.NewPartition period interval last = GoSem.Outcome.ok G) :
    Consecutive G.periods := by
  obtain ⟨P, hm, rfl⟩ := NewPartition_ok hiv h
  exact consecutive_map _ (C11.C11_consecutive hm)

/-- **cover**: without `--last`, a day is in the window iff it is in some period -/
theorem C11_cover_go {period : date.Period} {interval : Int} {last : Int} {G : date.Partition}
    (hiv : IvOK interval) (h : date.NewPartition period interval last = GoSem.Outcome.ok G) (hl : last ≤ 0) (d : Int) :
    inP period d ↔ ∃ p ∈ G.periods, inP p d := by
  obtain ⟨P, hm, rfl⟩ := NewPartition_ok hiv h
  have := C11.C11_cover hm hl d
  show C11.inP (periodOfGo period) d ↔ _
  rw [this]
  constructor
  · intro ⟨p, hp, x⟩; exact ⟨periodGo p, by simp only [partitionGo]; exact List.mem_map_of_mem hp, x⟩
  · intro ⟨p, hp, x⟩; exact ⟨periodOfGo p, (mem_periods hp).1, x⟩

/-- **non-overlapping**: a day lies in at most one period -/
theorem C11_disjoint_go {period : date.Period} {interval : Int} {last : Int} {G : date.Partition}
    (hiv : IvOK interval) (h : date.NewPartition period interval last = GoSem.Outcome.ok G) (hl : last ≤ 0) (d : Int)
    (p q : date.Period) (hp : p ∈ G.periods) (hq : q ∈ G.periods) (h1 : inP p d) (h2 : inP q d) : p = q := by
  obtain ⟨P, hm, rfl⟩ := NewPartition_ok hiv h
  have := C11.C11_disjoint hm hl d _ _ (mem_periods hp).1 (mem_periods hq).1 h1 h2
  rw [← (mem_periods hp).2, ← (mem_periods hq).2, this]

/-- **never straddles a boundary**: all days of a period lie in the calendar unit of the period's last day, the unit
being what the generated `StartOf` computes -/
theorem C11_within_unit_go {period : date.Period} {interval : Int} {last : Int} {G : date.Partition}
    (hiv : IvOK interval) (h : date.NewPartition period interval last = GoSem.Outcome.ok G) (hl : last ≤ 0)
    (hne : interval ≠ date.Once) (p : date.Period) (hp : p ∈ G.periods) (d : Int) (hd : inP p d) :
    date.StartOf d interval = date.StartOf p.End interval := by
  obtain ⟨P, hm, rfl⟩ := NewPartition_ok hiv h
  have hne' : ivOf interval ≠ .once := fun e => hne ((ivOf_once hiv).mp e)
  have := C11.C11_within_unit hm hl hne' _ (mem_periods hp).1 d hd
  rw [← ivGo_ivOf hiv, StartOf_agrees, StartOf_agrees]
  exact this

/-- **maximal**: a period starts at the window start or at the start of a calendar unit -/
theorem C11_maximal_start_go {period : date.Period} {interval : Int} {last : Int} {G : date.Partition}
    (hiv : IvOK interval) (h : date.NewPartition period interval last = GoSem.Outcome.ok G) (hl : last ≤ 0)
    (hne : interval ≠ date.Once) (p : date.Period) (hp : p ∈ G.periods) :
    p.Start = period.Start ∨
      (p.Start = date.StartOf p.End interval ∧ date.StartOf p.Start interval = p.Start) := by
  obtain ⟨P, hm, rfl⟩ := NewPartition_ok hiv h
  have hne' : ivOf interval ≠ .once := fun e => hne ((ivOf_once hiv).mp e)
  have := C11.C11_maximal_start hm hl hne' _ (mem_periods hp).1
  rw [← ivGo_ivOf hiv, StartOf_agrees, StartOf_agrees]
  exact this

theorem head?_map_go (L : List Knut.Period) (p : date.Period) (h : (L.map periodGo).head? = some p) :
    L.head? = some (periodOfGo p) := by
  cases L with
  | nil => simp at h
  | cons a L => simp at h ⊢; rw [← h]; rfl

theorem getLast?_map_go (L : List Knut.Period) (p : date.Period) (h : (L.map periodGo).getLast? = some p) :
    L.getLast? = some (periodOfGo p) := by
  rw [List.getLast?_map] at h
  cases hl : L.getLast? with
  | none => rw [hl] at h; simp at h
  | some a => rw [hl] at h; simp at h; rw [← h]; rfl

/-- the oldest period starts at the window start, the newest ends at the window end -/
theorem C11_ends_go {period : date.Period} {interval : Int} {last : Int} {G : date.Partition}
    (hiv : IvOK interval) (h : date.NewPartition period interval last = GoSem.Outcome.ok G) (hl : last ≤ 0)
    (hne : interval ≠ date.Once) :
    (∀ p, G.periods.head? = some p → p.Start = period.Start) ∧
    (∀ p, G.periods.getLast? = some p → p.End = period.End) := by
  obtain ⟨P, hm, rfl⟩ := NewPartition_ok hiv h
  have hne' : ivOf interval ≠ .once := fun e => hne ((ivOf_once hiv).mp e)
  have ⟨a, b⟩ := C11.C11_ends hm hl hne'
  exact ⟨fun p hp => a _ (head?_map_go _ p hp), fun p hp => b _ (getLast?_map_go _ p hp)⟩

/-- **`--last n`** keeps exactly the `n` most recent periods of the full partition -/
theorem C11_last_go {period : date.Period} {interval : Int} {last : Int} {G G0 : date.Partition}
    (hiv : IvOK interval) (h : date.NewPartition period interval last = GoSem.Outcome.ok G)
    (h0 : date.NewPartition period interval 0 = GoSem.Outcome.ok G0) (hl : 0 < last) (hne : interval ≠ date.Once) :
    G.periods = G0.periods.drop (G0.periods.length - last.toNat) := by
  obtain ⟨P, hm, rfl⟩ := NewPartition_ok hiv h
  obtain ⟨P0, hm0, rfl⟩ := NewPartition_ok hiv h0
  have hne' : ivOf interval ≠ .once := fun e => hne ((ivOf_once hiv).mp e)
  have := C11.C11_last hm hm0 hl hne'
  simp only [partitionGo, List.length_map, this, List.map_drop]

/-- **Align** (the generated binary search): a day inside a shown period is attributed to that period's end date -/
theorem C11_align_inside_go {period : date.Period} {interval : Int} {last : Int} {G : date.Partition}
    (hiv : IvOK interval) (h : date.NewPartition period interval last = GoSem.Outcome.ok G) (hl : last ≤ 0)
    (hne : interval ≠ date.Once) (p : date.Period) (hp : p ∈ G.periods) (d : Int) (hd : inP p d) :
    date.Partition.Align G d = GoSem.Outcome.ok p.End := by
  obtain ⟨P, hm, rfl⟩ := NewPartition_ok hiv h
  have hne' : ivOf interval ≠ .once := fun e => hne ((ivOf_once hiv).mp e)
  rw [Align_agrees hm, C11.C11_align_inside hm hl hne' _ (mem_periods hp).1 d hd]
  rfl

/-- **Align**: a day after the window end belongs to no column — Go's zero `time.Time` (day 0) -/
theorem C11_align_after_go {period : date.Period} {interval : Int} {last : Int} {G : date.Partition}
    (hiv : IvOK interval) (h : date.NewPartition period interval last = GoSem.Outcome.ok G) (hl : last ≤ 0)
    (hne : interval ≠ date.Once) (d : Int) (hd : period.End < d) :
    date.Partition.Align G d = GoSem.Outcome.ok 0 := by
  obtain ⟨P, hm, rfl⟩ := NewPartition_ok hiv h
  have hne' : ivOf interval ≠ .once := fun e => hne ((ivOf_once hiv).mp e)
  rw [Align_agrees hm, C11.C11_align_after hm hl hne' d hd]
  rfl

/-- **Align**: a day before the first shown period is attributed to the first period (for every `--last`) -/
theorem C11_align_before_go {period : date.Period} {interval : Int} {last : Int} {G : date.Partition}
    (hiv : IvOK interval) (h : date.NewPartition period interval last = GoSem.Outcome.ok G)
    (p : date.Period) (rest : List date.Period) (hp : G.periods = p :: rest) (d : Int) (hd : d ≤ p.End) :
    date.Partition.Align G d = GoSem.Outcome.ok p.End := by
  obtain ⟨P, hm, rfl⟩ := NewPartition_ok hiv h
  simp only [partitionGo] at hp
  cases hP : P.periods with
  | nil => rw [hP] at hp; simp at hp
  | cons a L =>
    rw [hP] at hp
    simp only [List.map_cons, List.cons.injEq] at hp
    rw [Align_agrees hm, C11.C11_align_before hm a L hP d (by rw [← hp.1] at hd; exact hd), ← hp.1]
    rfl

/-- the generated `Align` never panics and never runs out of fuel on a partition that `NewPartition` built -/
theorem C11_align_total_go {period : date.Period} {interval : Int} {last : Int} {G : date.Partition}
    (hiv : IvOK interval) (h : date.NewPartition period interval last = GoSem.Outcome.ok G) (d : Int) :
    ∃ e, date.Partition.Align G d = GoSem.Outcome.ok e ∧ (e = 0 ∨ ∃ p ∈ G.periods, e = p.End ∧ d ≤ e) := by
  obtain ⟨P, hm, rfl⟩ := NewPartition_ok hiv h
  refine ⟨_, Align_agrees hm d, ?_⟩
  unfold Knut.Partition.align alignIn
  cases hf : P.periods.find? (fun p => !(p.stop < d)) with
  | none => left; rfl
  | some q =>
    right
    refine ⟨periodGo q, by simp only [partitionGo]; exact List.mem_map_of_mem (List.mem_of_find?_eq_some hf), rfl, ?_⟩
    have := List.find?_some hf
    simp at this ⊢; omega

/-- **inverted window** (`start > end`): no period at all … -/
theorem C11_inverted_go {period : date.Period} {interval : Int} {last : Int} {G : date.Partition}
    (hiv : IvOK interval) (h : date.NewPartition period interval last = GoSem.Outcome.ok G)
    (hne : interval ≠ date.Once) (hinv : period.End < period.Start) : G.periods = [] := by
  obtain ⟨P, hm, rfl⟩ := NewPartition_ok hiv h
  have hne' : ivOf interval ≠ .once := fun e => hne ((ivOf_once hiv).mp e)
  simp only [partitionGo, C11.C11_inverted hm hne' hinv, List.map_nil]

/-- … or, for `Once`, the single empty period that contains no date -/
theorem C11_inverted_once_go {period : date.Period} {last : Int} {G : date.Partition}
    (h : date.NewPartition period date.Once last = GoSem.Outcome.ok G) (hinv : period.End < period.Start) :
    G.periods = [period] ∧ ∀ d, ¬ inP period d := by
  obtain ⟨P, hm, rfl⟩ := NewPartition_ok (interval := date.Once) ⟨by decide, by decide⟩ h
  have ⟨a, b⟩ := C11.C11_inverted_once (span := periodOfGo period) hm hinv
  exact ⟨by simp only [partitionGo, a]; rfl, b⟩

/-- **which days enter a report**: the generated `Partition.Contains` is membership in the requested window -/
theorem C11_contains_iff_window_go {period : date.Period} {interval : Int} {last : Int} {G : date.Partition}
    (hiv : IvOK interval) (h : date.NewPartition period interval last = GoSem.Outcome.ok G) (d : Int) :
    date.Partition.Contains G d = true ↔ inP period d := by
  obtain ⟨P, hm, rfl⟩ := NewPartition_ok hiv h
  rw [Partition_Contains_agrees]
  exact C11.C11_contains_iff_window hm d

/-- what the partition records: the window and the interval it was asked for -/
theorem C11_fields_go {period : date.Period} {interval : Int} {last : Int} {G : date.Partition}
    (hiv : IvOK interval) (h : date.NewPartition period interval last = GoSem.Outcome.ok G) :
    G.span = period ∧ G.interval = interval := by
  obtain ⟨P, hm, rfl⟩ := NewPartition_ok hiv h
  unfold newPartition at hm
  split at hm
  · cases hm
  · injection hm with hm; subst hm
    exact ⟨rfl, ivGo_ivOf hiv⟩

/-! ### `int` values outside `Once … Yearly`

`date.Interval` is an `int`; no code of knut builds a value outside the six constants (`ParseInterval` returns one of
them), but the generated definitions are total on `Int`: there `StartOf` is the identity (`StartOf_other`), so
`NewPartition` builds the `Daily` periods. -/

theorem loop1_other (period : date.Period) (p last : Int) (hp : p < 0 ∨ 5 < p) :
    ∀ (fuel : Nat) (periods : List date.Period) (start counter e : Int),
      date.NewPartition.loop1 period p last fuel periods start counter e
        = date.NewPartition.loop1 period date.Daily last fuel periods start counter e := by
  intro fuel
  induction fuel with
  | zero => intro periods start counter e; unfold date.NewPartition.loop1; rfl
  | succ n ih =>
    intro periods start counter e
    have hd : date.StartOf e date.Daily = e := by
      have := StartOf_agrees e .daily; simpa [ivGo, startOf, date.Daily] using this
    rw [date.NewPartition.loop1, date.NewPartition.loop1]
    simp only [StartOf_other e p hp, hd, ih]

/-- for an `int` that is none of the six constants `NewPartition` is `NewPartition … Daily` with that `int` recorded -/
theorem NewPartition_other (period : date.Period) (p last : Int) (hp : p < 0 ∨ 5 < p) :
    date.NewPartition period p last
      = GoSem.Outcome.bind (date.NewPartition period date.Daily last)
          (fun G => GoSem.Outcome.ok { G with interval := p }) := by
  have h1 : p ≠ date.Once := by unfold date.Once; omega
  have h2 : date.Daily ≠ date.Once := by decide
  unfold date.NewPartition
  split
  · rfl
  · simp only [h1, h2, decide_false, Bool.false_eq_true, if_false, loop1_other period p last hp]
    cases date.NewPartition.loop1 period date.Daily last (GoSem.fuelGe period.End period.Start) GoSem.GoZero.zero
      GoSem.GoZero.zero GoSem.GoZero.zero period.End with
    | ok st =>
      simp only [GoSem.Outcome.bind]
      cases date.NewPartition.loop2 (GoSem.fuelLt 0 (GoSem.len st.1 - 1)) st.1 0 (GoSem.len st.1 - 1) <;> rfl
    | panic m => rfl
    | outOfFuel => rfl

/-! ### Non-vacuity: the hypotheses are satisfiable on the generated definition itself
(2024-02-01 … 2024-02-29 as day numbers 738916 … 738944). -/
example : date.NewPartition ⟨738916, 738944⟩ date.Weekly 0 = GoSem.Outcome.ok ⟨⟨738916, 738944⟩, 2,
      [⟨738916, 738919⟩, ⟨738920, 738926⟩, ⟨738927, 738933⟩, ⟨738934, 738940⟩, ⟨738941, 738944⟩]⟩ ∧
    IvOK date.Weekly ∧ date.Weekly ≠ date.Once := ⟨by decide +kernel, ⟨by decide, by decide⟩, by decide⟩
example : date.NewPartition ⟨738916, 738944⟩ date.Weekly 2 =
    GoSem.Outcome.ok ⟨⟨738916, 738944⟩, 2, [⟨738934, 738940⟩, ⟨738941, 738944⟩]⟩ := by decide +kernel
example : date.Partition.Align ⟨⟨738916, 738944⟩, 2, [⟨738934, 738940⟩, ⟨738941, 738944⟩]⟩ 738935
    = GoSem.Outcome.ok 738940 := by decide +kernel
example : date.NewPartition ⟨738916, 738944⟩ 17 0 =
    GoSem.Outcome.bind (date.NewPartition ⟨738916, 738944⟩ date.Daily 0) (fun G => GoSem.Outcome.ok { G with interval := 17 }) :=
  NewPartition_other _ _ _ (by omega)

end Knut.C11Go
