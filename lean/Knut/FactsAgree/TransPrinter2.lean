import Knut.FactsAgree.TransPrinter
/-!
# The translated format printer agrees with the model printer, part 2: `Initialize`, `Format`, `syntax.FormatFile`

* `Initialize_agrees`: the two nested loops of `Printer.Initialize` compute `initDirs` — the widest credit/debit account (in runes) over
  the bookings of the transactions, extracting **only these two fields** (`initBookings`); a panic exactly when one of these extractions
  violates a slice bound.  The model's `initPadding` extracts every field of every directive first; `initDirs_of_views` shows that the two
  agree whenever the model's extraction succeeds, and `format_none_of_views_none` that the model answers `none` (a panic) anyway when it
  does not — which is what the Go loop then does a little later (`formatLoop_none_of_views_none`).
* `Format_loop_agrees`: the loop of `Printer.Format` writes gap, directive, gap, … (`formatDirs`, the model's `formatLoop` without the
  final gap: `formatLoop_eq`).
* `Format_tree_agrees`: `Printer.Format` on the Go representation of **any** tree = the model's `format` on the tree: the same bytes
  appended to the writer, `count` advanced by their number, the padding set, a nil error — or the slice-bounds panic where the model
  answers `none`.
* **`Format_agrees`** (top level): `syntax.FormatFile(w, f)` (`goFormatFile`: the pinned text `p := printer.New(w); return p.Format(f)`)
  on the tree the translated parser returns for a text that parses writes exactly `Syntax.format text tree`.
* `formatFile_agrees`: parse + format as in `formatRunner.formatFile` (`goFormatRun`, a hand-written composition of `goSyntaxParse` and
  `goFormatFile` into an empty buffer) against the model's `formatFile`: `written out` / `rejected e` / `panic`.
-/
set_option linter.unusedSimpArgs false
namespace Knut.FactsAgree.TransPrinter
open Knut Knut.GoSem Knut.Syntax Knut.Utf8
open Knut.Generated.Go
open Knut.FactsAgree.TransScanner Knut.FactsAgree.TransParser

/-! ### Initialize -/

/-- what `Printer.Initialize` computes over the bookings of one transaction: only the credit and the debit account are extracted -/
def initBookings (text : Bytes) : List Syntax.Booking → Nat → Option Nat
  | [], m => some m
  | b :: bs, m =>
    (b.credit.range.extract text).bind fun cr =>
      (b.debit.range.extract text).bind fun db =>
        initBookings text bs (max (max m (runeCount cr)) (runeCount db))

/-- what `Printer.Initialize` computes: the bookings of the transactions, every other directive is skipped -/
def initDirs (text : Bytes) : List Syntax.Directive → Nat → Option Nat
  | [], m => some m
  | d :: ds, m =>
    match d.body with
    | .transaction t => (initBookings text t.bookings m).bind (initDirs text ds)
    | _ => initDirs text ds m

/-- `p` with the padding `m` -/
def setPad (p : printer.Printer) (m : Nat) : printer.Printer := { p with padding := (m : Int) }

@[simp] theorem setPad_padding (p : printer.Printer) (m : Nat) : (setPad p m).padding = (m : Int) := rfl
@[simp] theorem setPad_writer (p : printer.Printer) (m : Nat) : (setPad p m).writer = p.writer := rfl
@[simp] theorem setPad_count (p : printer.Printer) (m : Nat) : (setPad p m).count = p.count := rfl

theorem setPad_self (p : printer.Printer) (m : Nat) (h : p.padding = (m : Int)) : setPad p m = p := by
  cases p; simp only [setPad] at *; subst h; rfl

theorem setPad_setPad (p : printer.Printer) (m n : Nat) : setPad (setPad p m) n = setPad p n := rfl

theorem wr_setPad (p : printer.Printer) (m : Nat) (bs : Bytes) : wr (setPad p m) bs = setPad (wr p bs) m := rfl

/-- `if l := utf8.RuneCountInString(s); l > p.padding { p.padding = l }` -/
theorem pad_step (p : printer.Printer) (m : Nat) (h : p.padding = (m : Int)) (s : Bytes) :
    (if decide (Syn.RuneCountInString s > p.padding) = true then { p with padding := Syn.RuneCountInString s } else p) =
      setPad p (max m (runeCount s)) := by
  rw [runeCount_eq, h]
  by_cases hc : m < runeCount s
  · have h1 : ((runeCount s : Int) > (m : Int)) := by omega
    have h2 : max m (runeCount s) = runeCount s := by omega
    simp only [h1, decide_true, if_true, h2, setPad]
  · have h1 : ¬ ((runeCount s : Int) > (m : Int)) := by omega
    have h2 : max m (runeCount s) = m := by omega
    simp only [h1, decide_false, Bool.false_eq_true, if_false, h2, setPad_self p m h]

section
variable {text : Bytes} {path : String}

/-- the inner loop of `Initialize` -/
theorem Initialize_loop2 (bs : List Syntax.Booking) : ∀ (p : printer.Printer) (m : Nat), p.padding = (m : Int) →
    printer.Printer.Initialize.range2 (bs.map (goBooking text path)) p =
      (ofOpt (initBookings text bs m)).bind fun m' => .ok (setPad p m') := by
  induction bs with
  | nil =>
    intro p m h
    simp only [List.map_nil, printer.Printer.Initialize.range2, initBookings, ofOpt_some, obind_ok', setPad_self p m h]
  | cons b rest ih =>
    intro p m h
    rw [List.map_cons, printer.Printer.Initialize.range2]
    simp only [goBooking, goAccount, Extract_goRange, initBookings]
    xcase b.credit.range.extract text
    rename_i cr
    rw [pad_step p m h cr]
    xcase b.debit.range.extract text
    rename_i db
    rw [pad_step (setPad p (max m (runeCount cr))) (max m (runeCount cr)) rfl db]
    rw [ih _ (max (max m (runeCount cr)) (runeCount db)) rfl]
    cases initBookings text rest (max (max m (runeCount cr)) (runeCount db)) <;> rfl

/-- the outer loop of `Initialize` -/
theorem Initialize_loop1 (ds : List Syntax.Directive) : ∀ (p : printer.Printer) (m : Nat), p.padding = (m : Int) →
    printer.Printer.Initialize.range1 (ds.map (goDirective text path)) p =
      (ofOpt (initDirs text ds m)).bind fun m' => .ok (setPad p m') := by
  induction ds with
  | nil =>
    intro p m h
    simp only [List.map_nil, printer.Printer.Initialize.range1, initDirs, ofOpt_some, obind_ok', setPad_self p m h]
  | cons d rest ih =>
    intro p m h
    obtain ⟨r, body⟩ := d
    rw [List.map_cons, printer.Printer.Initialize.range1]
    cases body with
    | transaction t =>
      simp only [goDirective, goBody, goTransaction, Bool.not_true, Bool.false_eq_true, if_false, initDirs,
        Initialize_loop2 t.bookings p m h]
      cases hb : initBookings text t.bookings m with
      | none => rfl
      | some m1 =>
        simp only [ofOpt_some, obind_ok', Option.bind_some]
        rw [ih (setPad p m1) m1 rfl]
        cases initDirs text rest m1 <;> rfl
    | «open» o => simp only [goDirective, goBody, Bool.not_false, if_true, initDirs, ih p m h]
    | close c => simp only [goDirective, goBody, Bool.not_false, if_true, initDirs, ih p m h]
    | assertion a => simp only [goDirective, goBody, Bool.not_false, if_true, initDirs, ih p m h]
    | price pr => simp only [goDirective, goBody, Bool.not_false, if_true, initDirs, ih p m h]
    | «include» i => simp only [goDirective, goBody, Bool.not_false, if_true, initDirs, ih p m h]

/-- `Printer.Initialize` -/
theorem Initialize_agrees (p : printer.Printer) (m : Nat) (h : p.padding = (m : Int)) (ds : List Syntax.Directive) :
    printer.Printer.Initialize p (ds.map (goDirective text path)) = (ofOpt (initDirs text ds m)).bind fun m' => .ok (setPad p m') := by
  unfold printer.Printer.Initialize
  rw [Initialize_loop1 ds p m h]
  cases initDirs text ds m <;> rfl

end

/-! ### `Initialize` against the model's `initPadding` -/

/-- the fold of `paddingV` from any start value -/
theorem foldl_pad_init (bs : List BookingV) : ∀ (m : Nat),
    bs.foldl (fun m b => max (max m (runeCount b.credit)) (runeCount b.debit)) m =
      max m (bs.foldl (fun m b => max (max m (runeCount b.credit)) (runeCount b.debit)) 0) := by
  induction bs with
  | nil => intro m; simp
  | cons b rest ih =>
    intro m
    simp only [List.foldl_cons]
    rw [ih (max (max m (runeCount b.credit)) (runeCount b.debit)), ih (max (max 0 (runeCount b.credit)) (runeCount b.debit))]
    omega

section
variable {text : Bytes}

theorem viewBooking_some {b : Syntax.Booking} {v : BookingV} (h : viewBooking text b = some v) :
    b.credit.range.extract text = some v.credit ∧ b.debit.range.extract text = some v.debit := by
  unfold viewBooking at h
  simp only [Option.bind_eq_bind, Option.pure_def] at h
  cases h1 : b.credit.range.extract text with
  | none => simp [h1] at h
  | some cr =>
    cases h2 : b.debit.range.extract text with
    | none => simp [h1, h2] at h
    | some db =>
      cases h3 : b.quantity.range.extract text with
      | none => simp [h1, h2, h3] at h
      | some q =>
        cases h4 : b.commodity.range.extract text with
        | none => simp [h1, h2, h3, h4] at h
        | some c =>
          simp only [h1, h2, h3, h4, Option.bind_some, Option.some.injEq] at h
          subst h
          exact ⟨rfl, rfl⟩

/-- when the model extracts every booking, `Initialize` finds the fold of their widths -/
theorem initBookings_of_views (bs : List Syntax.Booking) : ∀ (vs : List BookingV) (m : Nat), bs.mapM (viewBooking text) = some vs →
    initBookings text bs m = some (vs.foldl (fun m b => max (max m (runeCount b.credit)) (runeCount b.debit)) m) := by
  induction bs with
  | nil =>
    intro vs m h
    simp only [List.mapM_nil, Option.pure_def, Option.some.injEq] at h
    subst h; rfl
  | cons b rest ih =>
    intro vs m h
    simp only [List.mapM_cons, Option.bind_eq_bind, Option.pure_def] at h
    cases hv : viewBooking text b with
    | none => simp [hv] at h
    | some v =>
      cases hr : rest.mapM (viewBooking text) with
      | none => simp [hv, hr] at h
      | some ws =>
        simp only [hv, hr, Option.bind_some, Option.some.injEq] at h
        subst h
        obtain ⟨hc, hd⟩ := viewBooking_some hv
        simp only [initBookings, hc, hd, Option.bind_some, List.foldl_cons]
        exact ih ws _ hr

theorem viewTx_shape (oa : Option (Option AccrualV)) (op : Option (Option (List Bytes))) (od os : Option Bytes)
    (ob : Option (List BookingV)) (v : DirV)
    (h : (oa.bind fun accr => op.bind fun perf => od.bind fun date => os.bind fun desc => ob.bind fun bks =>
      some (DirV.transaction accr perf date desc bks)) = some v) :
    ∃ bks, ob = some bks ∧ paddingV v = bks.foldl (fun m b => max (max m (runeCount b.credit)) (runeCount b.debit)) 0 := by
  cases oa <;> cases op <;> cases od <;> cases os <;> cases ob <;> simp only [Option.bind_some, Option.bind_none, reduceCtorEq] at h
  simp only [Option.some.injEq] at h
  subst h
  exact ⟨_, rfl, rfl⟩

/-- the bookings of a transaction the model could extract -/
theorem viewTransaction_bookings {t : Syntax.Transaction} {v : DirV} (h : viewTransaction text t = some v) :
    ∃ bks, t.bookings.mapM (viewBooking text) = some bks ∧
      paddingV v = bks.foldl (fun m b => max (max m (runeCount b.credit)) (runeCount b.debit)) 0 := by
  unfold viewTransaction at h
  cases hA : t.addons.accrual.range.empty <;> cases hP : t.addons.performance.range.empty <;>
    simp only [hA, hP, Bool.not_true, Bool.not_false, Bool.false_eq_true, if_true, if_false] at h
  · exact viewTx_shape (Option.map some (viewAccrual text t.addons.accrual))
      (Option.map some (List.mapM (fun (c : Syntax.Commodity) => c.range.extract text) t.addons.performance.targets)) _ _ _ v h
  · exact viewTx_shape (Option.map some (viewAccrual text t.addons.accrual)) (some none) _ _ _ v h
  · exact viewTx_shape (some none)
      (Option.map some (List.mapM (fun (c : Syntax.Commodity) => c.range.extract text) t.addons.performance.targets)) _ _ _ v h
  · exact viewTx_shape (some none) (some none) _ _ _ v h

/-- a directive that is not a transaction does not contribute to the padding -/
theorem paddingV_other {d : Syntax.Directive} {v : DirV} (h : viewDirective text d = some v)
    (hd : ∀ t, d.body ≠ .transaction t) : paddingV v = 0 := by
  obtain ⟨r, body⟩ := d
  unfold viewDirective at h
  cases body with
  | transaction t => exact absurd rfl (hd t)
  | «open» o =>
    simp only [Option.bind_eq_bind, Option.pure_def] at h
    cases h1 : o.date.range.extract text <;> cases h2 : o.account.range.extract text <;> simp [h1, h2] at h
    subst h; rfl
  | close c =>
    simp only [Option.bind_eq_bind, Option.pure_def] at h
    cases h1 : c.date.range.extract text <;> cases h2 : c.account.range.extract text <;> simp [h1, h2] at h
    subst h; rfl
  | assertion a =>
    simp only [Option.bind_eq_bind, Option.pure_def] at h
    cases h1 : a.date.range.extract text <;> cases h2 : a.balances.mapM (viewBalance text) <;> simp [h1, h2] at h
    subst h; rfl
  | price pr =>
    simp only [Option.bind_eq_bind, Option.pure_def] at h
    cases h1 : pr.date.range.extract text <;> cases h2 : pr.commodity.range.extract text <;>
      cases h3 : pr.price.range.extract text <;> cases h4 : pr.target.range.extract text <;> simp [h1, h2, h3, h4] at h
    subst h; rfl
  | «include» i =>
    simp only [Option.bind_eq_bind, Option.pure_def] at h
    cases h1 : i.includePath.content.extract text <;> simp [h1] at h
    subst h; rfl

/-- when the model extracts every directive, `Initialize` computes the model's padding -/
theorem initDirs_of_views (ds : List Syntax.Directive) : ∀ (vs : List DirV) (m : Nat), ds.mapM (viewDirective text) = some vs →
    initDirs text ds m = some (vs.foldl (fun m v => max m (paddingV v)) m) := by
  induction ds with
  | nil =>
    intro vs m h
    simp only [List.mapM_nil, Option.pure_def, Option.some.injEq] at h
    subst h; rfl
  | cons d rest ih =>
    intro vs m h
    simp only [List.mapM_cons, Option.bind_eq_bind, Option.pure_def] at h
    cases hv : viewDirective text d with
    | none => simp [hv] at h
    | some v =>
      cases hr : rest.mapM (viewDirective text) with
      | none => simp [hv, hr] at h
      | some ws =>
        simp only [hv, hr, Option.bind_some, Option.some.injEq] at h
        subst h
        simp only [List.foldl_cons]
        cases hb : d.body with
        | transaction t =>
          have hv' : viewTransaction text t = some v := by
            have := hv; unfold viewDirective at this; rw [hb] at this; exact this
          obtain ⟨bks, hm, hp⟩ := viewTransaction_bookings hv'
          simp only [initDirs, hb, initBookings_of_views t.bookings bks m hm, Option.bind_some]
          rw [ih ws _ hr, hp, ← foldl_pad_init bks m]
        | «open» o =>
          have h0 := paddingV_other hv (by intro t; rw [hb]; exact fun e => nomatch e)
          simp only [initDirs, hb, h0, Nat.max_zero, ih ws m hr]
        | close c =>
          have h0 := paddingV_other hv (by intro t; rw [hb]; exact fun e => nomatch e)
          simp only [initDirs, hb, h0, Nat.max_zero, ih ws m hr]
        | assertion a =>
          have h0 := paddingV_other hv (by intro t; rw [hb]; exact fun e => nomatch e)
          simp only [initDirs, hb, h0, Nat.max_zero, ih ws m hr]
        | price pr =>
          have h0 := paddingV_other hv (by intro t; rw [hb]; exact fun e => nomatch e)
          simp only [initDirs, hb, h0, Nat.max_zero, ih ws m hr]
        | «include» i =>
          have h0 := paddingV_other hv (by intro t; rw [hb]; exact fun e => nomatch e)
          simp only [initDirs, hb, h0, Nat.max_zero, ih ws m hr]

end

/-! ### Format -/

/-- the loop of `Printer.Format`: the bytes written (gap, directive, gap, …) and the position reached; the model's `formatLoop`
without the final gap -/
def formatDirs (text : Bytes) (padding : Nat) : Nat → List Syntax.Directive → Option (Bytes × Nat)
  | pos, [] => some ([], pos)
  | pos, d :: ds =>
    (sliceChecked text pos d.range.start).bind fun gap =>
      (printDirective text padding d).bind fun r =>
        (formatDirs text padding d.range.stop ds).map fun x => (gap ++ r ++ x.1, x.2)

theorem formatLoop_eq (text : Bytes) (padding : Nat) (ds : List Syntax.Directive) : ∀ (pos : Nat),
    formatLoop text padding pos ds =
      (formatDirs text padding pos ds).bind fun x => (sliceChecked text x.2 text.length).map fun tail => x.1 ++ tail := by
  induction ds with
  | nil => intro pos; simp [formatLoop, formatDirs]
  | cons d rest ih =>
    intro pos
    simp only [formatLoop, formatDirs, Option.bind_eq_bind, Option.pure_def, ih]
    cases sliceChecked text pos d.range.start with
    | none => rfl
    | some gap =>
      cases printDirective text padding d with
      | none => rfl
      | some r =>
        cases formatDirs text padding d.range.stop rest with
        | none => rfl
        | some x =>
          simp only [Option.bind_some, Option.map_some]
          cases sliceChecked text x.2 text.length with
          | none => rfl
          | some tail => simp only [Option.map_some, Option.bind_some, List.append_assoc]

section
variable {text : Bytes} {path : String}

/-- the loop of `Printer.Format` -/
theorem Format_loop_agrees (pd : Nat) (ds : List Syntax.Directive) : ∀ (p : printer.Printer) (pos : Nat), p.padding = (pd : Int) →
    printer.Printer.Format.range1 text (ds.map (goDirective text path)) p (pos : Int) =
      (ofOpt (formatDirs text pd pos ds)).bind fun x => .ok (Flow.next (wr p x.1, (x.2 : Int))) := by
  induction ds with
  | nil => intro p pos _; simp [printer.Printer.Format.range1, formatDirs]
  | cons d rest ih =>
    intro p pos hp
    rw [List.map_cons, printer.Printer.Format.range1]
    have hs : (goDirective text path d).Range.Start = (d.range.start : Int) := rfl
    have he : (goDirective text path d).Range.End = (d.range.stop : Int) := rfl
    simp only [hs, he, slice_nat, formatDirs, Write_eq]
    xcase sliceChecked text pos d.range.start
    rename_i gap
    simp only [decide_true, Bool.not_true, Bool.false_eq_true, if_false,
      PrintDirective_agrees (wr p gap) pd (by simp only [wr_padding]; exact hp) d]
    xcase printDirective text pd d
    rename_i r
    rw [ih (wr (wr p gap) r) d.range.stop (by simp only [wr_padding]; exact hp)]
    cases formatDirs text pd d.range.stop rest with
    | none => rfl
    | some x =>
      simp only [Option.map_some, ofOpt_some, obind_ok', wr_wr, List.append_assoc, decide_true, Bool.not_true, Bool.false_eq_true,
        if_false]

/-- if the model cannot extract some directive, its loop answers `none` for every padding (so does the Go loop: it panics at that
directive at the latest) -/
theorem formatLoop_none_of_views_none (pd : Nat) (ds : List Syntax.Directive) : ∀ (pos : Nat),
    ds.mapM (viewDirective text) = none → formatLoop text pd pos ds = none := by
  induction ds with
  | nil => intro pos h; simp at h
  | cons d rest ih =>
    intro pos h
    simp only [List.mapM_cons, Option.bind_eq_bind, Option.pure_def] at h
    simp only [formatLoop, Option.bind_eq_bind, Option.pure_def, printDirective]
    cases sliceChecked text pos d.range.start with
    | none => rfl
    | some gap =>
      cases hv : viewDirective text d with
      | none => rfl
      | some v =>
        have hr : rest.mapM (viewDirective text) = none := by
          cases hm : rest.mapM (viewDirective text) with
          | none => rfl
          | some ws => simp [hv, hm] at h
        simp only [Option.map_some, Option.bind_some, ih d.range.stop hr, Option.bind_none]

/-- **`Printer.Format` on the Go representation of any tree is the model's `format`**: the padding is computed
(`initPadding`), then gap, directive, gap, … are appended to the writer; the error is nil; a slice-bounds panic exactly where the
model answers `none` -/
theorem Format_tree_agrees (p : printer.Printer) (hp : p.padding = 0) (f : Syntax.File) :
    printer.Printer.Format p (goFile text path f) =
      (ofOpt (initPadding text f.directives)).bind fun pd =>
        (ofOpt (formatLoop text pd 0 f.directives)).bind fun out => .ok (setPad (wr p out) pd, .nil) := by
  unfold printer.Printer.Format
  have hd : (goFile text path f).Directives = f.directives.map (goDirective text path) := rfl
  have ht : (goFile text path f).Range.Text = text := rfl
  have hz : (GoZero.zero : Int) = ((0 : Nat) : Int) := rfl
  rw [hd, ht, hz, Initialize_agrees p 0 (by simpa using hp) f.directives]
  unfold initPadding
  cases hi : initDirs text f.directives 0 with
  | none =>
    -- `Initialize` panics: the model cannot extract either
    cases hm : f.directives.mapM (viewDirective text) with
    | none => rfl
    | some vs => rw [initDirs_of_views f.directives vs 0 hm] at hi; cases hi
  | some pd0 =>
    simp only [ofOpt_some, obind_ok']
    rw [Format_loop_agrees pd0 f.directives (setPad p pd0) 0 rfl]
    have key : ∀ pd, ((ofOpt (formatDirs text pd 0 f.directives)).bind fun x =>
        (Outcome.ok (Flow.next (wr (setPad p pd0) x.1, (x.2 : Int))) :
          Outcome (Flow (printer.Printer × Int) (printer.Printer × directives.GoError)))).bind (fun r8 =>
          match r8 with
          | Flow.ret v => Outcome.ok v
          | Flow.next st7 =>
            (slice text st7.2 (len text)).bind fun t9 =>
              Outcome.ok ((printer.Printer.Write st7.1 t9).1, (printer.Printer.Write st7.1 t9).2.2)) =
        (ofOpt (formatLoop text pd 0 f.directives)).bind fun out => .ok (setPad (wr p out) pd0, .nil) := by
      intro pd
      rw [formatLoop_eq]
      cases formatDirs text pd 0 f.directives with
      | none => rfl
      | some x =>
        simp only [ofOpt_some, obind_ok', len, slice_nat, Option.bind_some, Write_eq]
        cases sliceChecked text x.2 text.length with
        | none => rfl
        | some tail => simp only [ofOpt_some, obind_ok', Option.map_some, wr_wr, wr_setPad]
    cases hm : f.directives.mapM (viewDirective text) with
    | none =>
      -- `Initialize` passes (the failing field is not an account of a booking), the loop panics
      simp only [Option.map_none, ofOpt_none, obind_panic]
      have := key pd0
      rw [formatLoop_none_of_views_none pd0 f.directives 0 hm] at this
      exact this
    | some vs =>
      rw [initDirs_of_views f.directives vs 0 hm] at hi
      simp only [Option.some.injEq] at hi
      simp only [Option.map_some, ofOpt_some, obind_ok', hi]
      exact key pd0

end

/-! ### `syntax.FormatFile` and the whole of `formatRunner.formatFile` -/

/-- `syntax.FormatFile(w, f)`: the source text `p := printer.New(w); return p.Format(f)` is pinned by the translator (a change of it
is reported as `trans-reject Printer FormatFile`).  The writer handed to `New` is the one `Format` writes through, so the state of `w`
afterwards is the `writer` field of the printer `Format` returns. -/
def goFormatFile (w : Syn.Writer) (f : directives.File) : Outcome (Syn.Writer × directives.GoError) :=
  (printer.Printer.Format (printer.New w) f).bind fun r => .ok (r.1.writer, r.2)

/-- `syntax.FormatFile` on the Go representation of any tree: the model's `format` appended to the writer, nil error; the
slice-bounds panic exactly where the model answers `none` -/
theorem FormatFile_tree_agrees (text : Bytes) (path : String) (w : Bytes) (f : Syntax.File) :
    goFormatFile w (goFile text path f) = (ofOpt (format text f)).bind fun out => .ok (w ++ out, .nil) := by
  unfold goFormatFile
  rw [Format_tree_agrees (printer.New w) rfl f]
  unfold format
  simp only [Option.bind_eq_bind]
  cases initPadding text f.directives with
  | none => rfl
  | some pd =>
    simp only [ofOpt_some, obind_ok', Option.bind_some]
    cases formatLoop text pd 0 f.directives <;> rfl

/-- **top level**: for every text that parses (to the tree `f`), `syntax.FormatFile` on the tree the translated parser returns
(`goFile text path f`, by `ParseFile_agrees`) writes exactly `Syntax.format text f` — the same bytes, and the same slice-bounds panic
outcome (which `C08_format_total` excludes for a parsed tree).  With `ParseFile_agrees` the C08 theorems about `parseText` and `format`
speak about definitions generated from the current Go source. -/
theorem Format_agrees (text : Bytes) (path : String) (f : Syntax.File) (_hp : parseText path text = .ok f) (w : Bytes) :
    goFormatFile w (goFile text path f) = (ofOpt (format text f)).bind fun out => .ok (w ++ out, .nil) :=
  FormatFile_tree_agrees text path w f

/-- `formatRunner.formatFile` up to the replacement of the file: `syntax.ParseFile` (`goSyntaxParse`, no callback), then
`syntax.FormatFile` into an empty `bytes.Buffer` (hand-written composition of the two) -/
def goFormatRun (fuel : Nat) (text : Bytes) (path : String) : Outcome (Syn.Writer × directives.GoError) :=
  (goSyntaxParse fuel text path ⟨false⟩).bind fun r =>
    if r.2 ≠ .nil then .ok ([], r.2) else goFormatFile [] r.1

/-- parse + format in the translation against the model's `formatFile`: the formatted text in the buffer with a nil error, or the
parser's error chain and nothing written, or the slice-bounds panic; never `outOfFuel` (for a fuel above the token count) -/
theorem formatFile_agrees (text : Bytes) (path : String) (fuel : Nat) (hf : (decodeAll text).length < fuel) :
    match formatFile path text with
    | .written out => goFormatRun fuel text path = .ok (out, .nil)
    | .rejected e => e ≠ [] ∧ goFormatRun fuel text path = .ok ([], goErr text path e)
    | .panic => goFormatRun fuel text path = .panic slicePanic := by
  have hP := goSyntaxParse_agrees text path ⟨false⟩ fuel hf
  unfold formatFile goFormatRun
  cases hp : parseText path text with
  | error e =>
    rw [hp] at hP
    obtain ⟨hne, pv, hr⟩ := hP
    simp only [hr, obind_ok', ne_eq, goErr_ne_nil text path hne, not_false_eq_true, if_true]
    first | exact ⟨hne, rfl⟩ | exact ⟨hne, trivial⟩
  | ok f =>
    rw [hp] at hP
    simp only [hP, obind_ok', ne_eq, not_true_eq_false, if_false, FormatFile_tree_agrees]
    cases format text f with
    | none => rfl
    | some out => simp only [ofOpt_some, obind_ok', List.nil_append]

/-- non-vacuity: the worked example of C07 (a comment line and an `open` directive) is formatted by the translation: the text itself -/
example : goFormatRun 24 (bytesOf exText) "j.knut" = .ok (bytesOf exText, .nil) := by
  have := formatFile_agrees (bytesOf exText) "j.knut" 24 (by rw [ex_decode]; decide)
  have hm : format (bytesOf exText) ⟨⟨0, 23⟩, [⟨⟨3, 22⟩, .open ⟨⟨3, 22⟩, ⟨⟨3, 13⟩⟩, ⟨⟨19, 22⟩, false⟩⟩⟩]⟩ = some (bytesOf exText) := by
    decide
  have hf : formatFile "j.knut" (bytesOf exText) = .written (bytesOf exText) := by
    simp only [formatFile, ex_parse, hm]
  rw [hf] at this
  exact this

/-- non-vacuity of the booking path (padding computed by `Initialize`, `padRight`, `%10s`): a transaction with one booking, on a
hand-written tree -/
example : goFormatFile [] (goFile (bytesOf "2020-01-01 \"x\"\nA:B C:D 1 CHF\n") "j"
      ⟨⟨0, 29⟩, [⟨⟨0, 29⟩, .transaction ⟨⟨0, 29⟩, ⟨⟨0, 10⟩⟩, ⟨⟨11, 14⟩, ⟨12, 13⟩⟩,
        [⟨⟨15, 28⟩, ⟨⟨15, 18⟩, false⟩, ⟨⟨19, 22⟩, false⟩, ⟨⟨23, 24⟩⟩, ⟨⟨25, 28⟩⟩⟩], Addons.zero⟩⟩]⟩) =
    .ok (bytesOf "2020-01-01 \"x\"\nA:B C:D          1 CHF\n", .nil) := by
  rw [FormatFile_tree_agrees]
  have hm : format (bytesOf "2020-01-01 \"x\"\nA:B C:D 1 CHF\n")
      ⟨⟨0, 29⟩, [⟨⟨0, 29⟩, .transaction ⟨⟨0, 29⟩, ⟨⟨0, 10⟩⟩, ⟨⟨11, 14⟩, ⟨12, 13⟩⟩,
        [⟨⟨15, 28⟩, ⟨⟨15, 18⟩, false⟩, ⟨⟨19, 22⟩, false⟩, ⟨⟨23, 24⟩⟩, ⟨⟨25, 28⟩⟩⟩], Addons.zero⟩⟩]⟩ =
      some (bytesOf "2020-01-01 \"x\"\nA:B C:D          1 CHF\n") := by decide +kernel
  rw [hm]
  rfl

/-- non-vacuity of the panic side: a range beyond the end of the text -/
example : goFormatFile [] (goFile (bytesOf "x") "j" ⟨⟨0, 1⟩, [⟨⟨0, 1⟩, .include ⟨⟨0, 1⟩, ⟨⟨0, 1⟩, ⟨0, 5⟩⟩⟩⟩]⟩) = .panic slicePanic := by
  rw [FormatFile_tree_agrees]
  have hm : format (bytesOf "x") ⟨⟨0, 1⟩, [⟨⟨0, 1⟩, .include ⟨⟨0, 1⟩, ⟨⟨0, 1⟩, ⟨0, 5⟩⟩⟩⟩]⟩ = none := by decide +kernel
  rw [hm]
  rfl

end Knut.FactsAgree.TransPrinter
