import Knut.Properties.C10
import Knut.FactsAgree.TransTransaction
/-!
# C10 on the generated definitions

The theorems of `Properties/C10.lean` are about the model `Accrual.create`/`expand`; `FactsAgree/TransTransaction.lean` proves the
function translated from `/repo`'s `transaction.expand` (`lib/model/transaction/transaction.go`) equal to `Accrual.expand`
(`expand_agrees`: the same transactions in order, the same error, the same panics of `NewPartition` / `QuoRem`).  This module composes
the two.  The object of every statement is the call `transaction.Create` makes for an annotated transaction,

  `expandGo cur src psrc accr ti ad` = `Go.transaction.expand (the built transaction) accr ext1 ext2 ext3 ext4`

with the EXT parameters of the translation fixed to what the untranslated callees return when they succeed: `ext1` = the accrual account
created by the registry, no error; `ext2`, `ext3` = the parsed start and end dates, no error; `ext4` = the interval text
(`expand_account_error`, `expand_start_error`, `expand_end_error` of the agreement module say that an error of one of them is returned
unchanged).  The built transaction is `txGo … (inputTx ti)`: date, description, the posting pair of every booking, the targets; `Src`
pointers arbitrary.  Go values out: a list of `transaction.Transaction` and an error; quantities are summed on the Go values
(`bookedGo`).  Hypotheses that stay: `hwf` (the booking accounts are valid: `posting.Create`, which runs before `expand`, succeeded)
and `hacc` (the accrual account is valid: `ext1` carries no error).
-/
namespace Knut.C10Go
open Knut Knut.Dec Knut.Accrual Knut.Spec
open Knut.Generated.Go
open Knut.FactsAgree.TransTransaction Knut.FactsAgree.TransPosting Knut.FactsAgree.TransAccount Knut.FactsAgree.TransDate

/-- the transaction `transaction.Create` has built when it calls `expand` -/
def inputTx (ti : TxInput) : Knut.Transaction :=
  { date := ti.date, description := ti.description, postings := postingsOf ti.bookings, targets := ti.targets }

/-- the call of the translated `expand` (successful registry and date parsing as ext parameters) -/
def expandGo (cur : String → Bool) (src psrc accr : GoSem.Ref) (ti : TxInput) (ad : Addon) :
    GoSem.Outcome (List transaction.Transaction × Option GoSem.Error) :=
  transaction.expand (txGo cur src psrc (inputTx ti)) accr (accountGo ad.account, none) (ad.start, none) (ad.stop, none)
    (ivName ad.interval)

theorem create_eq_expand {ti : TxInput} {ad : Addon} (ha : ti.accrual = some ad)
    (hwf : ti.bookings.all (fun b => b.credit.wf && b.debit.wf) = true) : create ti = Accrual.expand (inputTx ti) ad := by
  unfold create
  simp only [hwf, ha, inputTx]
  rfl

/-- **the bridge**: a successful run of the translated `expand` is a successful run of the model's `create`, and the transactions
returned are the model's, converted field by field (descriptions as `Builder.Build` leaves them) -/
theorem expand_ok {cur : String → Bool} {src psrc accr : GoSem.Ref} {ti : TxInput} {ad : Addon}
    {G : List transaction.Transaction} (ha : ti.accrual = some ad)
    (hwf : ti.bookings.all (fun b => b.credit.wf && b.debit.wf) = true) (hacc : ad.account.wf = true)
    (h : expandGo cur src psrc accr ti ad = .ok (G, none)) :
    ∃ gen, create ti = .ok gen ∧ G = gen.map (txGoD cur src ⟨0⟩) := by
  unfold expandGo at h
  rw [expand_agrees cur src psrc accr (inputTx ti) ad hacc] at h
  rw [create_eq_expand ha hwf]
  cases he : Accrual.expand (inputTx ti) ad with
  | ok txs => rw [he] at h; simp at h; exact ⟨txs, rfl, h.symm⟩
  | error => rw [he] at h; simp at h
  | panic s => rw [he] at h; simp at h

/-- the translated `expand` never runs out of fuel and never fails on an index: it returns the transactions, or the error of an
inverted window, or panics with one of the model's two panics -/
theorem expand_total (cur : String → Bool) (src psrc accr : GoSem.Ref) (ti : TxInput) (ad : Addon) (hacc : ad.account.wf = true) :
    (∃ G, expandGo cur src psrc accr ti ad = .ok (G, none)) ∨
    expandGo cur src psrc accr ti ad = .ok ([], some ⟨"accrual period ends before it starts"⟩) ∨
    (∃ s, expandGo cur src psrc accr ti ad = .panic s ∧ Accrual.expand (inputTx ti) ad = .panic s) := by
  unfold expandGo
  rw [expand_agrees cur src psrc accr (inputTx ti) ad hacc]
  cases Accrual.expand (inputTx ti) ad with
  | ok txs => exact Or.inl ⟨_, rfl⟩
  | error => exact Or.inr (Or.inl rfl)
  | panic s => exact Or.inr (Or.inr ⟨s, rfl, rfl⟩)

/-! ### the predicates on Go values -/

theorem accountGo_inj {a b : Knut.Account} (h : accountGo a = accountGo b) : a = b := by
  have := congrArg account.Account.segments h
  cases a; cases b; simpa [accountGo] using this

theorem commodityGo_inj (cur : String → Bool) {a b : Knut.Commodity} (h : commodityGo cur a = commodityGo cur b) : a = b := by
  simpa [commodityGo] using congrArg commodity.Commodity.name h

/-- total quantity booked on an account in a commodity by Go postings -/
def bookedGo (a : account.Account) (c : commodity.Commodity) : List posting.Posting → Rat
  | [] => 0
  | p :: ps => (if p.Account = a ∧ p.Commodity = c then p.Quantity else 0) + bookedGo a c ps

/-- … by Go transactions -/
def bookedTxsGo (a : account.Account) (c : commodity.Commodity) : List transaction.Transaction → Rat
  | [] => 0
  | t :: ts => bookedGo a c t.Postings + bookedTxsGo a c ts

theorem bookedGo_map (cur : String → Bool) (src : GoSem.Ref) (a : Knut.Account) (c : Knut.Commodity) (ps : List Knut.Posting) :
    bookedGo (accountGo a) (commodityGo cur c) (ps.map (postingGo cur src)) = booked a c ps := by
  induction ps with
  | nil => rfl
  | cons p rest ih =>
    simp only [List.map_cons, bookedGo, booked, ih]
    congr 1
    by_cases h : p.account = a ∧ p.commodity = c
    · obtain ⟨h1, h2⟩ := h
      subst h1; subst h2
      simp [postingGo]
    · have : ¬ ((postingGo cur src p).Account = accountGo a ∧ (postingGo cur src p).Commodity = commodityGo cur c) := by
        intro ⟨x, y⟩
        exact h ⟨accountGo_inj x, commodityGo_inj cur y⟩
      simp only [h, this, if_false]

theorem bookedTxsGo_map (cur : String → Bool) (src psrc : GoSem.Ref) (a : Knut.Account) (c : Knut.Commodity)
    (ts : List Knut.Transaction) :
    bookedTxsGo (accountGo a) (commodityGo cur c) (ts.map (txGoD cur src psrc)) = bookedTxs a c ts := by
  induction ts with
  | nil => rfl
  | cons t rest ih =>
    simp only [List.map_cons, bookedTxsGo, bookedTxs, ih]
    congr 1
    exact bookedGo_map cur psrc a c t.postings

/-- a Go transaction of exactly two postings that are negations of each other, one of them on `acc` -/
def balancedPairGo (acc : account.Account) (g : transaction.Transaction) : Prop :=
  ∃ p q, g.Postings = [p, q] ∧ p.Commodity = q.Commodity ∧ p.Quantity = -q.Quantity ∧ p.Account = q.Other ∧
    q.Account = p.Other ∧ (p.Account = acc ∨ q.Account = acc)

theorem balancedPairGo_of (cur : String → Bool) (src psrc : GoSem.Ref) (acc : Knut.Account) (t : Knut.Transaction)
    (h : balancedPair acc t = true) : balancedPairGo (accountGo acc) (txGoD cur src psrc t) := by
  unfold balancedPair at h
  split at h
  · rename_i p q hpq
    simp only [Bool.and_eq_true, Bool.or_eq_true, decide_eq_true_eq] at h
    obtain ⟨⟨⟨⟨h1, h2⟩, h3⟩, h4⟩, h5⟩ := h
    refine ⟨postingGo cur psrc p, postingGo cur psrc q, by simp [txGoD, txGo, hpq], ?_, ?_, ?_, ?_, ?_⟩
    · simp [postingGo, h1]
    · simp [postingGo, h2]
    · simp [postingGo, h3]
    · simp [postingGo, h4]
    · rcases h5 with h5 | h5
      · exact Or.inl (by simp [postingGo, h5])
      · exact Or.inr (by simp [postingGo, h5])
  · cases h

/-! ### the clauses -/

/-- **each generated transaction balances**: every transaction the translated `expand` returns consists of two postings that are
negations of each other, one of them on the accrual account -/
theorem C10_each_balances_go {cur : String → Bool} {src psrc accr : GoSem.Ref} {ti : TxInput} {ad : Addon}
    {G : List transaction.Transaction} (ha : ti.accrual = some ad)
    (hwf : ti.bookings.all (fun b => b.credit.wf && b.debit.wf) = true) (hacc : ad.account.wf = true)
    (h : expandGo cur src psrc accr ti ad = .ok (G, none)) :
    ∀ g ∈ G, balancedPairGo (accountGo ad.account) g := by
  obtain ⟨gen, hc, rfl⟩ := expand_ok ha hwf hacc h
  intro g hg
  obtain ⟨t, ht, rfl⟩ := List.mem_map.mp hg
  exact balancedPairGo_of cur src ⟨0⟩ ad.account t (C10.C10_each_balances ha hc t ht)

/-- **conservation, every account**: for every account (the accrual account included) and every commodity, the total booked over all
returned Go transactions equals what the input Go transaction books -/
theorem C10_conserves_all_go {cur : String → Bool} {src psrc accr : GoSem.Ref} {ti : TxInput} {ad : Addon}
    {G : List transaction.Transaction} (ha : ti.accrual = some ad)
    (hwf : ti.bookings.all (fun b => b.credit.wf && b.debit.wf) = true) (hacc : ad.account.wf = true)
    (h : expandGo cur src psrc accr ti ad = .ok (G, none)) (a : Knut.Account) (c : Knut.Commodity) :
    bookedTxsGo (accountGo a) (commodityGo cur c) G
      = bookedGo (accountGo a) (commodityGo cur c) (txGo cur src psrc (inputTx ti)).Postings := by
  obtain ⟨gen, hc, rfl⟩ := expand_ok ha hwf hacc h
  rw [bookedTxsGo_map]
  simp only [txGo, inputTx]
  rw [bookedGo_map]
  exact C10.C10_conserves_all ha hc a c

/-- **the accrual account nets to zero** in every commodity when the original transaction does not itself book on it -/
theorem C10_accrual_nets_zero_go {cur : String → Bool} {src psrc accr : GoSem.Ref} {ti : TxInput} {ad : Addon}
    {G : List transaction.Transaction} (ha : ti.accrual = some ad)
    (hwf : ti.bookings.all (fun b => b.credit.wf && b.debit.wf) = true) (hacc : ad.account.wf = true)
    (h : expandGo cur src psrc accr ti ad = .ok (G, none))
    (huntouched : ∀ b ∈ ti.bookings, b.credit ≠ ad.account ∧ b.debit ≠ ad.account) (c : Knut.Commodity) :
    bookedTxsGo (accountGo ad.account) (commodityGo cur c) G = 0 := by
  obtain ⟨gen, hc, rfl⟩ := expand_ok ha hwf hacc h
  rw [bookedTxsGo_map]
  exact C10.C10_accrual_nets_zero ha hc huntouched c

/-- **dates and periods**: the returned list is, posting by posting in order, what `Legs` says (an income/expense posting gives one
transaction per period of the C11 partition of the window, dated at the period ends and described `"<description> (accrual i/n)"`;
any other posting one transaction on the original date), and the dates of the Go transactions are those of the monitor's predicate -/
theorem C10_dates_go {cur : String → Bool} {src psrc accr : GoSem.Ref} {ti : TxInput} {ad : Addon}
    {G : List transaction.Transaction} (ha : ti.accrual = some ad)
    (hwf : ti.bookings.all (fun b => b.credit.wf && b.debit.wf) = true) (hacc : ad.account.wf = true)
    (h : expandGo cur src psrc accr ti ad = .ok (G, none)) :
    ∃ gen, G = gen.map (txGoD cur src ⟨0⟩) ∧ G.map (·.Date) = gen.map (·.date) ∧
      Legs (inputTx ti) ad (postingsOf ti.bookings) gen ∧
      accrualOK (postingsOf ti.bookings) ti.date ad gen = true := by
  obtain ⟨gen, hc, rfl⟩ := expand_ok ha hwf hacc h
  refine ⟨gen, rfl, ?_, C10.C10_dates ha hc, C10.C10_accrualOK ha hc⟩
  simp [txGoD, txGo, Function.comp_def]

/-- **a non-empty window expands**: with `start ≤ end` and a start other than Go's zero time the translated `expand` returns
transactions (no error, no panic, not out of fuel) -/
theorem C10_expands_go (cur : String → Bool) (src psrc accr : GoSem.Ref) (ti : TxInput) (ad : Addon) (ha : ti.accrual = some ad)
    (hwf : ti.bookings.all (fun b => b.credit.wf && b.debit.wf) = true) (hacc : ad.account.wf = true)
    (hle : ad.start ≤ ad.stop) (h0 : ad.start ≠ 0) : ∃ G, expandGo cur src psrc accr ti ad = .ok (G, none) := by
  obtain ⟨gen, hg⟩ := C10.C10_expands ti ad ha hwf hacc hle h0
  rw [create_eq_expand ha hwf] at hg
  unfold expandGo
  rw [expand_agrees cur src psrc accr (inputTx ti) ad hacc, hg]
  exact ⟨_, rfl⟩

/-- an empty window (`end < start`) is rejected with the error before any expansion -/
theorem C10_inverted_rejected_go (cur : String → Bool) (src psrc accr : GoSem.Ref) (ti : TxInput) (ad : Addon)
    (ha : ti.accrual = some ad) (hwf : ti.bookings.all (fun b => b.credit.wf && b.debit.wf) = true) (hacc : ad.account.wf = true)
    (hinv : ad.stop < ad.start) :
    expandGo cur src psrc accr ti ad = .ok ([], some ⟨"accrual period ends before it starts"⟩) := by
  have hg := C10.C10_inverted_rejected ti ad ha hinv
  rw [create_eq_expand ha hwf] at hg
  unfold expandGo
  rw [expand_agrees cur src psrc accr (inputTx ti) ad hacc, hg]

/-- the guard of the code, stated as it is: a window starting at Go's zero time panics in the translated `NewPartition` as soon as an
income/expense posting is reached (known finding) -/
theorem C10_zero_start_panics_go (cur : String → Bool) (src psrc accr : GoSem.Ref) (ti : TxInput) (ad : Addon)
    (ha : ti.accrual = some ad) (hwf : ti.bookings.all (fun b => b.credit.wf && b.debit.wf) = true) (hacc : ad.account.wf = true)
    (h0 : ad.start = 0) (hle : ad.start ≤ ad.stop) (hie : ∃ p ∈ postingsOf ti.bookings, p.account.isIE = true) :
    expandGo cur src psrc accr ti ad = .panic "can't create partition with zero time" := by
  have hg := C10.C10_zero_start_panics ti ad ha hwf hacc h0 hle hie
  rw [create_eq_expand ha hwf] at hg
  unfold expandGo
  rw [expand_agrees cur src psrc accr (inputTx ti) ad hacc, hg]

/-- number of transactions of a successful result -/
def lenOf : Result → Nat
  | .ok l => l.length
  | _ => 0

/-! ### Non-vacuity: the README example (12000 USD of taxes accrued monthly over 2020) through the translated `expand` -/
example : ∃ G, expandGo (fun _ => true) ⟨1⟩ ⟨2⟩ ⟨3⟩ C10.readme
    { interval := .monthly, start := 737424, stop := 737759, account := ⟨["Assets", "PrepaidTax"]⟩ } = .ok (G, none) :=
  C10_expands_go _ _ _ _ C10.readme _ rfl (by decide) (by decide) (by decide) (by decide)

example : ∃ G, expandGo (fun _ => true) ⟨1⟩ ⟨2⟩ ⟨3⟩ C10.readme
    { interval := .monthly, start := 737424, stop := 737759, account := ⟨["Assets", "PrepaidTax"]⟩ } = .ok (G, none) ∧
    G.length = 13 ∧ bookedTxsGo (accountGo ⟨["Assets", "PrepaidTax"]⟩) (commodityGo (fun _ => true) "USD") G = 0 := by
  obtain ⟨G, hG⟩ := C10_expands_go (fun _ => true) ⟨1⟩ ⟨2⟩ ⟨3⟩ C10.readme
    { interval := .monthly, start := 737424, stop := 737759, account := ⟨["Assets", "PrepaidTax"]⟩ } rfl (by decide) (by decide)
    (by decide) (by decide)
  refine ⟨G, hG, ?_, C10_accrual_nets_zero_go rfl (by decide) (by decide) hG (by decide) "USD"⟩
  obtain ⟨gen, hc, rfl⟩ := expand_ok (ti := C10.readme) rfl (by decide) (by decide) hG
  rw [List.length_map]
  have h13 : lenOf (create C10.readme) = 13 := by decide +kernel
  rw [hc] at h13
  exact h13

end Knut.C10Go
