package main

// C14 — commands fail cleanly on every input.
//
// Every case is one run of the freshly built knut binary in its own scratch directory, with a wall-clock
// bound and an address-space limit. Monitors (Lean predicate Spec.Clean.failsCleanly via the driver op c14mon):
// terminates by itself, exit 0 or non-zero with a diagnostic, no crash trace, a failing report command leaves
// stdout empty, an error in an included file fails the command. Correspondence: the outcome class
// (ok / error / panic) is compared with Cmd.run of the Lean model on the very file system the run saw (every
// path string the loader can ask for, read back from the OS), path.Clean / path.Join with the model's.

import (
	"bytes"
	"context"
	"fmt"
	"os"
	"os/exec"
	"path"
	"path/filepath"
	"regexp"
	"strings"
	"syscall"
	"time"
	"unicode/utf8"
)

func init() { runners["C14"] = runC14 }

type c14File struct {
	Rel  string `json:"rel"`
	Data string `json:"data"`
	Kind string `json:"kind,omitempty"` // "" regular file, "dir", "symlink" (Data = target), "mode000"
}

type c14Case struct {
	Stream     string
	Index      int
	Kind       string // generator sub-kind
	Files      []c14File
	Cmd        string   // check | check-write | balance | print | format | infer | transcode | returns | weights
	Argv       []string // full argv after the binary name (paths relative to the case directory)
	Path       string   // the positional argument
	Train      string   // infer -t
	Bal        *BalFlags
	Val        string // -v of transcode
	Acct       string
	Inplace    bool
	Model      bool   // the model covers command and flags: compare the outcome class
	ExpectFail bool   // by construction a file of the include graph is missing / cyclic / malformed
	Sched      int    // KNUT_VERIF_SEED (0: none)
	Procs      int    // GOMAXPROCS (0: default)
	Known      string // key of the known finding this case is built to exhibit
	Tags       []string

	// observation
	ending   string // e<status> | timeout | killed
	stdout   string
	stderr   string
	wall     time.Duration
	maxRSSKB int64
	fsWire   string
	fsOK     bool
	dir      string // the scratch directory of the run (absolute paths in argv and files name it)
}

func (tc *c14Case) Input() map[string]any {
	return map[string]any{"kind": tc.Kind, "argv": tc.Argv, "files": tc.Files, "sched_seed": tc.Sched, "gomaxprocs": tc.Procs, "dir": tc.dir,
		"how": "write the files into an empty directory, cd into it, run knut with argv"}
}

// report tells whether the command is one of the report commands the property names: balance, print, transcode,
// infer, check --write. (portfolio returns prints period by period while the journal is processed, so a journal
// that fails late leaves a partial report on standard output: observed, tagged, outside the statement.)
func (tc *c14Case) report() bool {
	switch tc.Cmd {
	case "balance", "print", "transcode", "check-write":
		return true
	case "infer":
		return !tc.Inplace
	}
	return false
}

var c14DateRe = regexp.MustCompile(`[0-9]{4}-[0-9]{2}-[0-9]{2}`)

// wideWindow tells whether the dates in the files span more than three centuries while a fine interval is in
// play (a --days/--weeks/--months report or an @accrue annotation): the number of periods, and with it time and
// memory, then runs into the hundreds of thousands (recorded finding calendar-wide-window-memory).
func (tc *c14Case) wideWindow() bool {
	lo, hi := 10000, -1
	accrue := false
	for _, f := range tc.Files {
		if strings.Contains(f.Data, "@accrue") {
			accrue = true
		}
		for _, m := range c14DateRe.FindAllString(f.Data, -1) {
			y := int(m[0]-'0')*1000 + int(m[1]-'0')*100 + int(m[2]-'0')*10 + int(m[3]-'0')
			if y < lo {
				lo = y
			}
			if y > hi {
				hi = y
			}
		}
	}
	if hi-lo < 300 {
		return false
	}
	fine := accrue
	for _, a := range tc.Argv {
		if a == "--days" || a == "--weeks" || a == "--months" {
			fine = true
		}
	}
	return fine
}

const c14Timeout = 10 * time.Second
const c14VMemKB = 4 << 20     // ulimit -v: 4 GiB of address space (the Go runtime reserves far more than it touches)
const c14MaxRSSKB = 700 << 10 // resident set bound

// c14Materialize writes the files of the case under dir.
func c14Materialize(dir string, files []c14File) {
	os.MkdirAll(dir, 0o755)
	for _, f := range files {
		full := filepath.Join(dir, f.Rel)
		os.MkdirAll(filepath.Dir(full), 0o755)
		switch f.Kind {
		case "dir":
			os.MkdirAll(full, 0o755)
		case "symlink":
			os.Symlink(f.Data, full)
		case "mode000":
			os.WriteFile(full, []byte(f.Data), 0o644)
			os.Chmod(full, 0)
		default:
			os.WriteFile(full, []byte(f.Data), 0o644)
		}
	}
}

// c14Exec runs knut in dir under the limits and records the observation.
func c14Exec(bin, dir string, tc *c14Case) {
	ctx, cancel := context.WithTimeout(context.Background(), c14Timeout)
	defer cancel()
	script := fmt.Sprintf("ulimit -v %d; exec \"$0\" \"$@\"", c14VMemKB)
	args := append([]string{"-c", script, bin}, tc.Argv...)
	cmd := exec.CommandContext(ctx, "/bin/sh", args...)
	cmd.Dir = dir
	var so, se bytes.Buffer
	cmd.Stdout, cmd.Stderr = &c14Capped{buf: &so, max: 4 << 20}, &c14Capped{buf: &se, max: 1 << 20}
	cmd.Env = append(os.Environ(), "NO_COLOR=1")
	if tc.Sched != 0 {
		cmd.Env = append(cmd.Env, fmt.Sprintf("KNUT_VERIF_SEED=%d", tc.Sched))
	}
	if tc.Procs != 0 {
		cmd.Env = append(cmd.Env, fmt.Sprintf("GOMAXPROCS=%d", tc.Procs))
	}
	cmd.SysProcAttr = &syscall.SysProcAttr{Setpgid: true}
	cmd.Cancel = func() error { return syscall.Kill(-cmd.Process.Pid, syscall.SIGKILL) }
	t0 := time.Now()
	err := cmd.Run()
	tc.wall = time.Since(t0)
	tc.stdout, tc.stderr = so.String(), se.String()
	if cmd.ProcessState != nil {
		if ru, ok := cmd.ProcessState.SysUsage().(*syscall.Rusage); ok {
			tc.maxRSSKB = ru.Maxrss
		}
	}
	switch {
	case ctx.Err() != nil:
		tc.ending = "timeout"
	case err == nil:
		tc.ending = "e0"
	default:
		if ee, ok := err.(*exec.ExitError); ok {
			if ws, ok := ee.Sys().(syscall.WaitStatus); ok && ws.Signaled() {
				tc.ending = "killed"
			} else {
				tc.ending = fmt.Sprintf("e%d", ee.ExitCode())
			}
		} else {
			tc.ending = "killed"
			tc.stderr += "\nharness: " + err.Error()
		}
	}
}

type c14Capped struct {
	buf *bytes.Buffer
	max int
}

func (w *c14Capped) Write(p []byte) (int, error) {
	if room := w.max - w.buf.Len(); room > 0 {
		if len(p) > room {
			w.buf.Write(p[:room])
		} else {
			w.buf.Write(p)
		}
	}
	return len(p), nil
}

func c14Crash(stderr string) bool {
	return strings.Contains(stderr, "panic:") || strings.Contains(stderr, "goroutine ") || strings.Contains(stderr, "fatal error:") ||
		strings.Contains(stderr, "SIGABRT") || strings.Contains(stderr, "SIGSEGV")
}

// c14ImplClass is the outcome class of the run: ok | error | panic | timeout | killed.
func (tc *c14Case) implClass() string {
	switch {
	case tc.ending == "timeout" || tc.ending == "killed":
		return tc.ending
	case strings.Contains(tc.stderr, "panic:"):
		return "panic"
	case c14Crash(tc.stderr):
		return "killed"
	case tc.ending == "e0":
		return "ok"
	}
	return "error"
}

// ---------------------------------------------------------------- the file system as the loader sees it

// c14Quoted returns, for every double quote in the text, the bytes up to the next double quote: a superset of
// the include paths any parse of the text can deliver.
func c14Quoted(data []byte) []string {
	var res []string
	prev := -1
	for i, b := range data {
		if b == '"' {
			if prev >= 0 {
				res = append(res, string(data[prev+1:i]))
			}
			prev = i
		}
	}
	return res
}

// c14FS reads back from the OS every path string the loader can ask for, starting from the roots (as passed on
// the command line, relative to dir), and returns the wire form for the driver. ok=false: too large for the
// model, or not expressible (path strings that are not valid UTF-8).
func c14FS(dir string, roots []string, single []string) (string, bool) {
	const maxEntries, maxBytes = 400, 300 << 10
	seen := map[string]bool{}
	var entries []string
	total := 0
	queue := append([]string{}, roots...)
	add := func(p string, data []byte) bool {
		total += len(data) + len(p)
		entries = append(entries, Hex(p)+":"+Hex(string(data)))
		return len(entries) <= maxEntries && total <= maxBytes
	}
	for len(queue) > 0 {
		p := queue[0]
		queue = queue[1:]
		if seen[p] {
			continue
		}
		seen[p] = true
		if !utf8.ValidString(p) || strings.ContainsRune(p, 0) {
			continue // never readable, and the model's lossy decoding cannot hit an existing file either
		}
		// read exactly what the loader reads: the raw string, resolved by the OS against the working directory
		data, err := c14ReadRaw(dir, p)
		if err != nil {
			continue
		}
		if !add(p, data) {
			return "", false
		}
		for _, inc := range c14Quoted(data) {
			queue = append(queue, path.Join(filepath.Dir(p), inc))
		}
	}
	for _, p := range single {
		if seen[p] || !utf8.ValidString(p) {
			continue
		}
		seen[p] = true
		if data, err := c14ReadRaw(dir, p); err == nil {
			if !add(p, data) {
				return "", false
			}
		}
	}
	if len(entries) == 0 {
		return "-", true
	}
	return strings.Join(entries, ","), true
}

// c14ReadRaw reads path p as a process with working directory dir would (no lexical cleaning).
func c14ReadRaw(dir, p string) ([]byte, error) {
	if p == "" {
		return nil, os.ErrNotExist
	}
	if strings.HasPrefix(p, "/") {
		return os.ReadFile(p)
	}
	return os.ReadFile(dir + "/" + p)
}

// ---------------------------------------------------------------- generators

var c14Cmds = []string{"check", "check-write", "balance", "print", "format", "infer", "transcode", "returns", "weights"}

// c14Argv builds the argv of the case from its structured fields.
func (tc *c14Case) buildArgv() {
	switch tc.Cmd {
	case "check":
		tc.Argv = []string{"check", tc.Path}
	case "check-write":
		tc.Argv = []string{"check", "--write", tc.Path}
	case "print":
		tc.Argv = []string{"print", tc.Path}
	case "format":
		tc.Argv = []string{"format", tc.Path}
	case "transcode":
		tc.Argv = []string{"transcode"}
		if tc.Val != "" {
			tc.Argv = append(tc.Argv, "-v", tc.Val)
		}
		tc.Argv = append(tc.Argv, tc.Path)
	case "infer":
		tc.Argv = []string{"infer", "-t", tc.Train}
		if tc.Acct != "" {
			tc.Argv = append(tc.Argv, "-a", tc.Acct)
		}
		if tc.Inplace {
			tc.Argv = append(tc.Argv, "-i")
		}
		tc.Argv = append(tc.Argv, tc.Path)
	case "balance":
		tc.Argv = append(append([]string{"balance"}, tc.Bal.Args()...), tc.Path)
	case "returns", "weights":
		a := []string{"portfolio", tc.Cmd}
		f := tc.Bal
		if f.Val != "" {
			a = append(a, "-v", f.Val)
		}
		if f.From != 0 {
			a = append(a, "--from", fmtDate(f.From))
		}
		if f.To != 0 {
			a = append(a, "--to", fmtDate(f.To))
		}
		if f.Last != 0 {
			a = append(a, "--last", itoa(f.Last))
		}
		if f.Interval > 0 {
			a = append(a, intervalFlag[f.Interval])
		}
		tc.Argv = append(a, tc.Path)
	}
}

// c14WindowFlags draws window flags (the part of the balance flags that decides the outcome class).
func c14WindowFlags(r *RNG, lo, hi int, val string) *BalFlags {
	f := &BalFlags{Val: val}
	pickDay := func() int {
		switch r.Intn(8) {
		case 0:
			return 1 // 0001-01-02
		case 1:
			return maxDay
		case 2:
			return lo - r.Range(1, 400)
		case 3:
			return hi + r.Range(1, 400)
		default:
			if hi > lo {
				return lo + r.Intn(hi-lo+1)
			}
			return lo
		}
	}
	if r.Chance(1, 2) {
		f.From = pickDay()
	}
	if r.Chance(2, 3) {
		f.To = pickDay() // inverted windows arise naturally
	}
	// the flag parser accepts 0001-01-01 .. 9999-12-31 only (0 stands for "flag absent")
	if f.From < 0 || f.From > maxDay {
		f.From = 1
	}
	if f.To < 0 || f.To > maxDay {
		f.To = maxDay
	}
	f.Interval = Pick(r, []int{0, 0, 1, 2, 3, 4, 5})
	// keep the number of periods moderate: the report is as wide as the window has periods
	span := maxDay
	if f.From != 0 && f.To != 0 {
		span = f.To - f.From
	} else if hi-lo < 4000 && hi >= lo {
		span = hi - lo + 800
	}
	if f.Interval == 1 && span > 3000 {
		f.Interval = 3
	}
	if f.Interval == 2 && span > 20000 {
		f.Interval = 5
	}
	switch r.Intn(6) {
	case 0:
		f.Last = r.Range(1, 5)
	case 1:
		f.Last = -r.Range(1, 1000)
	case 2:
		f.Last = Pick(r, []int{2147483647, 1 << 40, -(1 << 40)})
	}
	switch r.Intn(6) {
	case 0:
		f.Digits = r.Range(1, 40)
	case 1:
		f.Digits = -r.Range(1, 40)
	}
	f.CSV = r.Chance(1, 5)
	f.Thousands = r.Chance(1, 5)
	f.Diff = r.Chance(1, 4)
	f.NoClose = r.Chance(1, 4)
	f.SortAlpha = r.Chance(1, 4)
	return f
}

// c14Journal draws a small mostly-valid journal; returns the journal, its day range.
// c14Val: a valuation commodity; mostly the usual upper-case code, sometimes a name which is a valid knut commodity but
// unusual elsewhere (lower or mixed case, leading digit, non-ASCII letters)
func c14Val(r *RNG) string {
	if r.Chance(2, 3) {
		return "CHF"
	}
	return Pick(r, []string{"USD", "chf", "Eur", "1INCH", "X1", "Ünit", "a"})
}

func c14Journal(r *RNG, val string) (*Journal, int, int) {
	base := 737000 + r.Intn(1500)
	span := Pick(r, []int{0, 5, 40, 400})
	o := JGenOpts{MaxAccounts: r.Range(2, 6), MaxDays: r.Range(1, 6), Unicode: r.Chance(1, 3), BaseDay: base, SpanDays: span,
		Accruals: r.Chance(1, 4), Mutate: r.Chance(1, 5)}
	if val != "" {
		o.Prices, o.Valuation, o.DropPrices = true, val, r.Chance(1, 5)
	}
	j, _ := GenJournal(r, o)
	return j, base, base + span
}

// c14Split distributes the directives over nfiles texts (file 0 is the root); returns the texts without include lines.
func c14Split(r *RNG, j *Journal, nfiles int) [][]JDir {
	res := make([][]JDir, nfiles)
	for _, d := range j.Dirs {
		k := r.Intn(nfiles)
		res[k] = append(res[k], d)
	}
	return res
}

// c14Text is the text of one file: the directives, the include lines at positions drawn from r, then the raw text (a
// bad leaf; not a directive list, it stays last). The bytes around them come from a layout drawn from lr (layout.go):
// how the file begins, what separates two directives, how it ends — also without a final newline after the last
// directive, an include among them — and whether the includes are moved to the end or the beginning of the file.
func c14Text(ds []JDir, incs []string, raw string, r, lr *RNG) string {
	pos := make([]int, len(incs))
	for i := range incs {
		pos[i] = r.Intn(len(ds) + 1)
	}
	var items []layItem
	for i := 0; i <= len(ds); i++ {
		for q, p := range pos {
			if p == i {
				items = append(items, layItem{Text: incs[q], Include: true})
			}
		}
		if i < len(ds) {
			items = append(items, layDir(ds[i]))
		}
	}
	fixed := len(items)
	if raw != "" {
		items = append(items, layItem{Text: strings.TrimSuffix(raw, "\n"), Block: true})
	}
	lay := layDraw(lr, len(items))
	return lay.render(lay.arrange(items, fixed))
}

// c14Spell respells a relative include path without changing what it names.
func c14Spell(r *RNG, fromDir, rel string) string {
	switch r.Intn(5) {
	case 0:
		return "./" + rel
	case 1:
		return "x/../" + rel
	case 2:
		if fromDir != "." && fromDir != "" {
			return "../" + path.Base(fromDir) + "/" + rel
		}
	case 3:
		return strings.ReplaceAll(rel, "/", "//")
	}
	return rel
}

var c14BadLeaf = []struct{ name, text string }{
	{"syntax-garbage", "2020-01-01 open\n"},
	{"syntax-quote", "2020-01-01 \"unterminated\nAssets:A Expenses:B 1 CHF\n"},
	{"syntax-bytes", "\xff\xfe\x00"},
	{"bad-date", "2020-13-45 open Assets:Q\n"},
	{"bad-account-type", "2020-01-01 open Foo:Bar\n"},
	{"unopened-account", "2020-01-05 \"x\"\nAssets:NeverOpened Expenses:NeverOpened 1 CHF\n"},
	{"failed-assertion", "2020-01-05 open Assets:Fresh\n2020-01-06 balance Assets:Fresh 7 CHF\n"},
	{"accrual-inverted", "2020-01-01 open Assets:P\n2020-01-01 open Expenses:P\n@accrue monthly 2021-01-01 2020-01-01 Assets:P\n2020-01-05 \"x\"\nAssets:P Expenses:P 12 CHF\n"},
	{"zero-price", "2020-01-01 price AAA 0 CHF\n"},
}

// c14LeafFails tells whether a journal containing the bad leaf must make the command fail.
func c14LeafFails(name, cmd string) bool {
	syntactic := strings.HasPrefix(name, "syntax-")
	switch cmd {
	case "format":
		return false // reads the one file only
	case "infer":
		return syntactic // the training run parses, it does not build the journal
	}
	return name != "zero-price" // rejected only where prices are computed
}

// c14GenGraph: include graphs.
func c14GenGraph(c *Ctx, i int) *c14Case {
	r := c.Rng("graph", i)
	tc := &c14Case{Stream: "graph", Index: i, Model: true}
	val := ""
	tc.Cmd = Pick(r, c14Cmds)
	if tc.Cmd == "transcode" || ((tc.Cmd == "balance" || tc.Cmd == "returns" || tc.Cmd == "weights") && r.Chance(1, 2)) {
		val = c14Val(r)
	}
	j, lo, hi := c14Journal(r, val)
	kinds := []string{"tree", "tree", "self", "two-cycle", "long-cycle", "diamond", "missing", "dir-as-file", "unreadable", "deep-chain", "siblings",
		"bad-leaf", "bad-leaf", "bad-leaf-busy", "dotdot-alias", "dotdot-growing", "symlink-loop", "twice", "odd-names", "empty-include", "bushy"}
	tc.Kind = Pick(r, kinds)
	dirs := []string{".", "sub", "sub/deep", "other"}
	type node struct {
		rel  string
		incs []string
		ds   []JDir
		raw  string // raw text appended
	}
	var nodes []*node
	mk := func(n int) {
		parts := c14Split(r, j, n)
		for k := 0; k < n; k++ {
			name := "main.knut"
			if k > 0 {
				name = path.Join(Pick(r, dirs), fmt.Sprintf("f%d.knut", k))
			}
			nodes = append(nodes, &node{rel: name, ds: parts[k]})
		}
	}
	link := func(from, to int) {
		rel, _ := filepath.Rel(path.Dir(nodes[from].rel), nodes[to].rel)
		nodes[from].incs = append(nodes[from].incs, c14Spell(r, path.Dir(nodes[from].rel), rel))
	}
	tree := func(n int) {
		mk(n)
		for k := 1; k < n; k++ {
			link(r.Intn(k), k)
		}
	}
	switch tc.Kind {
	case "tree":
		tree(r.Range(1, 6))
	case "self":
		tree(r.Range(1, 3))
		k := r.Intn(len(nodes))
		link(k, k)
		tc.ExpectFail = true
	case "two-cycle":
		tree(r.Range(2, 4))
		a := r.Intn(len(nodes)-1) + 1
		link(a, 0)
		tc.ExpectFail = true
	case "long-cycle":
		n := r.Range(3, 9)
		mk(n)
		for k := 0; k+1 < n; k++ {
			link(k, k+1)
		}
		link(n-1, r.Intn(n-1))
		tc.ExpectFail = true
	case "diamond":
		mk(4)
		link(0, 1)
		link(0, 2)
		link(1, 3)
		link(2, 3)
		// the shared file is loaded twice: keep it free of opens, which cannot be repeated
		var keep []JDir
		for _, d := range nodes[3].ds {
			if d.Kind == 't' || d.Kind == 'p' {
				keep = append(keep, d)
			} else {
				nodes[0].ds = append(nodes[0].ds, d)
			}
		}
		nodes[3].ds = keep
	case "missing":
		tree(r.Range(1, 5))
		k := r.Intn(len(nodes))
		nodes[k].incs = append(nodes[k].incs, Pick(r, []string{"nothere.knut", "sub/nothere.knut", "../nothere.knut", "main.knut/x.knut", strings.Repeat("n", 300) + ".knut"}))
		tc.ExpectFail = true
	case "dir-as-file":
		tree(r.Range(1, 4))
		tc.Files = append(tc.Files, c14File{Rel: "adir", Kind: "dir"})
		k := r.Intn(len(nodes))
		rel, _ := filepath.Rel(path.Dir(nodes[k].rel), "adir")
		nodes[k].incs = append(nodes[k].incs, Pick(r, []string{rel, rel + "/", ".", "..", "./"}))
		tc.ExpectFail = true
	case "empty-include":
		tree(r.Range(1, 3))
		k := r.Intn(len(nodes))
		nodes[k].incs = append(nodes[k].incs, "")
		tc.ExpectFail = true
	case "unreadable":
		tree(r.Range(2, 5))
		k := r.Intn(len(nodes)-1) + 1
		if os.Geteuid() == 0 {
			// chmod 000 does not stop root: use a dangling symbolic link or a symbolic link to itself instead
			tc.Files = append(tc.Files, c14File{Rel: nodes[k].rel, Kind: "symlink", Data: Pick(r, []string{"gone.knut", path.Base(nodes[k].rel)})})
			tc.Tags = append(tc.Tags, "unreadable-as-root:symlink")
		} else {
			tc.Files = append(tc.Files, c14File{Rel: nodes[k].rel, Kind: "mode000", Data: "2020-01-01 open Assets:Z\n"})
		}
		nodes[k].rel = "" // not written as a regular file
		tc.ExpectFail = true
	case "deep-chain":
		n := r.Range(15, c.N(60, 250))
		mk(n)
		for k := 0; k+1 < n; k++ {
			link(k, k+1)
		}
		if r.Chance(1, 2) {
			bad := Pick(r, c14BadLeaf)
			nodes[n-1].raw = bad.text
			tc.Tags = append(tc.Tags, "leaf:"+bad.name)
			tc.ExpectFail = c14LeafFails(bad.name, tc.Cmd)
		}
	case "siblings":
		n := r.Range(20, c.N(80, 300))
		mk(n)
		for k := 1; k < n; k++ {
			link(0, k)
		}
		if r.Chance(1, 2) {
			bad := c14BadLeaf[r.Intn(6)]
			nodes[r.Intn(n-1)+1].raw = bad.text
			tc.Tags = append(tc.Tags, "leaf:"+bad.name)
			tc.ExpectFail = c14LeafFails(bad.name, tc.Cmd)
		}
	case "bushy":
		// wide AND nested: many included files that each include a few more (more loader goroutines waiting for their
		// children than any concurrency limit; seeded change C19-c deadlocked here)
		w := r.Range(17, 45)
		per := r.Range(1, 3)
		n := 1 + w + w*per
		mk(n)
		for k := 1; k <= w; k++ {
			link(0, k)
		}
		for k := w + 1; k < n; k++ {
			link(1+(k-w-1)%w, k)
		}
		if r.Chance(1, 2) {
			bad := c14BadLeaf[r.Intn(6)]
			nodes[r.Intn(n-1)+1].raw = bad.text
			tc.Tags = append(tc.Tags, "leaf:"+bad.name)
			tc.ExpectFail = c14LeafFails(bad.name, tc.Cmd)
		}
	case "bad-leaf", "bad-leaf-busy":
		n := r.Range(2, 6)
		if tc.Kind == "bad-leaf-busy" {
			// many files with many directives around the bad one: an error while the pipeline is full
			n = r.Range(8, 30)
			for q := 0; q < 3; q++ {
				j2, _, _ := c14Journal(r, val)
				j.Dirs = append(j.Dirs, j2.Dirs...)
			}
		}
		tree(n)
		bad := Pick(r, c14BadLeaf)
		k := r.Intn(n-1) + 1
		if r.Chance(1, 2) {
			nodes[k].raw = bad.text
		} else {
			nodes[k].ds = nil
			nodes[k].raw = bad.text
		}
		tc.Tags = append(tc.Tags, "leaf:"+bad.name)
		tc.ExpectFail = c14LeafFails(bad.name, tc.Cmd)
	case "dotdot-alias":
		tree(r.Range(1, 3))
		// the case directory is named by the harness: ../<dirname>/main.knut names main.knut again
		nodes[len(nodes)-1].incs = append(nodes[len(nodes)-1].incs, "{UP}/"+nodes[0].rel)
		tc.ExpectFail = true
	case "dotdot-growing":
		mk(1)
		// enough ..'s to pass the root from any depth, then the absolute path of the file itself: every level is a
		// new cleaned path string naming the same file, until the name is too long for the OS
		nodes[0].incs = append(nodes[0].incs, "{ROOTUP}{ABS}/main.knut")
		tc.ExpectFail = true
		tc.Model = false
	case "symlink-loop":
		mk(1)
		tc.Files = append(tc.Files, c14File{Rel: "loop", Kind: "symlink", Data: "."})
		nodes[0].incs = append(nodes[0].incs, "loop/main.knut")
		tc.ExpectFail = true
	case "twice":
		tree(r.Range(2, 4))
		k := len(nodes) - 1
		var keep []JDir
		for _, d := range nodes[k].ds {
			if d.Kind == 't' || d.Kind == 'p' {
				keep = append(keep, d)
			} else {
				nodes[0].ds = append(nodes[0].ds, d)
			}
		}
		nodes[k].ds = keep
		link(0, k)
	case "odd-names":
		mk(3)
		nodes[1].rel = "sub dir/f ü.knut"
		nodes[2].rel = "日本/-dash.knut"
		link(0, 1)
		link(1, 2)
	}
	lr := c.Rng("graph/bytes", i) // the byte layout of the files has a generator of its own
	for _, nd := range nodes {
		if nd.rel == "" {
			continue
		}
		tc.Files = append(tc.Files, c14File{Rel: nd.rel, Data: c14Text(nd.ds, nd.incs, nd.raw, r, lr)})
	}
	tc.Path = Pick(r, []string{"main.knut", "main.knut", "./main.knut", "sub/../main.knut", "{ABS}/main.knut"})
	if tc.Path == "sub/../main.knut" {
		tc.Files = append(tc.Files, c14File{Rel: "sub", Kind: "dir"})
	}
	tc.Bal = c14WindowFlags(r, lo, hi, val)
	if tc.Cmd == "balance" && r.Chance(1, 3) {
		// the complete flag vector of the report checks: filters, mappings, remap, show (patterns in the driver's regex subset)
		f := GenBalFlags(r, j, val, BalGenOpts{Valued: true})
		tc.Bal = &f
		tc.Tags = append(tc.Tags, "full-balance-flags")
	}
	tc.Val = val
	if tc.Cmd == "infer" {
		tc.Train = tc.Path
		tc.Path = "main.knut"
		if len(tc.Files) > 1 && r.Chance(1, 2) {
			tc.Path = tc.Files[len(tc.Files)-1].Rel
		}
		tc.Inplace = r.Chance(1, 4)
		// the target is parsed alone; an error elsewhere in the graph still fails the command through the training run
	}
	if tc.Cmd == "format" {
		// format reads the one file only: errors in included files do not concern it
		tc.ExpectFail = false
	}
	tc.Sched = Pick(r, []int{0, 1 + r.Intn(1000), 1 + r.Intn(1000)})
	tc.Procs = Pick(r, []int{0, 0, 1, 2})
	tc.buildArgv()
	return tc
}

var c14Tokens = []string{"@accrue ", "@performance(", "include \"", "\"", "\n", "\r\n", "\xff", "$macro", " ", "\t", "-", ":", ".", ",", "(", ")", "0001-01-01", "9999-12-31", "0000-00-00",
	"open ", "close ", "balance ", "price ", "daily ", "monthly ", "once ", "Assets:A", "CHF", "1e5", "١٢٣", "\x00", "// c\n", "# c\n", "* c\n", "2020-02-30 ", "99999999999999999999999999999999999999999999.000000000000000000000000000001"}

// c14GenBytes: arbitrary bytes and mutated journals in a single file.
func c14GenBytes(c *Ctx, i int) *c14Case {
	r := c.Rng("bytes", i)
	tc := &c14Case{Stream: "bytes", Index: i, Model: true}
	tc.Cmd = Pick(r, c14Cmds)
	val := ""
	if tc.Cmd == "transcode" || r.Chance(1, 3) {
		val = c14Val(r)
	}
	j, lo, hi := c14Journal(r, val)
	text, _ := j.Text()
	data := []byte(text)
	switch r.Intn(9) {
	case 0:
		tc.Kind = "random-bytes"
		n := r.Intn(200)
		data = make([]byte, n)
		for k := range data {
			data[k] = byte(r.Intn(256))
		}
	case 1:
		tc.Kind = "random-ascii"
		n := r.Intn(300)
		alphabet := "0123456789-:. \n\"@abcAXopenclsbi/*#"
		data = make([]byte, n)
		for k := range data {
			data[k] = alphabet[r.Intn(len(alphabet))]
		}
	case 2:
		tc.Kind = "truncated"
		if len(data) > 0 {
			data = data[:r.Intn(len(data))]
		}
	case 3:
		tc.Kind = "intact"
	case 4:
		tc.Kind = "layout"
		// comment lines, blank lines and trailing blanks between directives: nothing a command may trip over
		lines := strings.SplitAfter(text, "\n\n")
		var b strings.Builder
		for _, l := range lines {
			b.WriteString(l)
			switch r.Intn(5) {
			case 0:
				b.WriteString(Pick(r, []string{"# note\n", "// note\n", "* heading\n", "#\n", "* ü \"quoted\" include \"x\"\n"}))
			case 1:
				b.WriteString(Pick(r, []string{"\n", "   \n", "\t\n", "\r\n"}))
			}
		}
		data = []byte(b.String())
	default:
		tc.Kind = "mutated"
		for m := r.Range(1, 4); m > 0 && len(data) > 0; m-- {
			p := r.Intn(len(data))
			switch r.Intn(5) {
			case 0:
				data[p] ^= byte(1 << r.Intn(8))
			case 1:
				data = append(data[:p], data[p+1:]...)
			case 2, 3:
				tok := Pick(r, c14Tokens)
				data = append(data[:p], append([]byte(tok), data[p:]...)...)
			case 4:
				q := r.Intn(len(data))
				if q < p {
					p, q = q, p
				}
				data = append(data[:q], append(append([]byte{}, data[p:q]...), data[q:]...)...)
			}
		}
	}
	tc.Files = []c14File{{Rel: "main.knut", Data: string(data)}}
	tc.Path = "main.knut"
	tc.Bal = c14WindowFlags(r, lo, hi, val)
	tc.Val = val
	if tc.Cmd == "infer" {
		tc.Train = "main.knut"
		if r.Chance(1, 2) {
			tt, _ := j.Text()
			tc.Files = append(tc.Files, c14File{Rel: "train.knut", Data: tt})
			tc.Train = "train.knut"
		}
		tc.Acct = Pick(r, []string{"", "", "Expenses:Food", "Assets:Bank", "NoType:X", "", "Expenses:TBD"})
		tc.Inplace = r.Chance(1, 4)
	}
	tc.Procs = Pick(r, []int{0, 0, 1})
	tc.buildArgv()
	return tc
}

var c14Special = []struct{ name, text string }{
	{"empty", ""},
	{"whitespace", "\n\n  \n\t\n"},
	{"comments", "# a\n// b\n* c\n"},
	{"opens-only", "2020-01-01 open Assets:A\n2020-01-02 open Expenses:B\n"},
	{"prices-only", "2020-01-01 price USD 0.9 CHF\n2020-02-01 price USD 0.95 CHF\n"},
	{"tx-zero-time", "0001-01-01 open Assets:A\n0001-01-01 open Expenses:B\n\n0001-01-01 \"first day\"\nAssets:A Expenses:B 5 CHF\n"},
	{"tx-zero-time-and-later", "0001-01-01 open Assets:A\n0001-01-01 open Expenses:B\n\n0001-01-01 \"first day\"\nAssets:A Expenses:B 5 CHF\n\n2020-01-01 \"later\"\nAssets:A Expenses:B 5 CHF\n"},
	{"tx-year-zero", "0000-06-01 open Assets:A\n0000-06-01 open Expenses:B\n\n0000-06-01 \"year zero\"\nAssets:A Expenses:B 5 CHF\n"},
	{"tx-day-two", "0001-01-02 open Assets:A\n0001-01-02 open Expenses:B\n\n0001-01-02 \"x\"\nAssets:A Expenses:B 5 CHF\n"},
	{"tx-last-day", "9999-12-31 open Assets:A\n9999-12-31 open Expenses:B\n\n9999-12-31 \"x\"\nAssets:A Expenses:B 5 CHF\n"},
	{"open-zero-time-tx-later", "0001-01-01 open Assets:A\n0001-01-01 open Expenses:B\n\n2020-01-01 \"x\"\nAssets:A Expenses:B 5 CHF\n"},
	{"price-zero-time", "0001-01-01 price USD 2 CHF\n2020-01-01 open Assets:A\n2020-01-01 open Expenses:B\n\n2020-01-01 \"x\"\nAssets:A Expenses:B 5 USD\n"},
	{"accrual-inverted", "2020-01-01 open Assets:A\n2020-01-01 open Expenses:B\n2020-01-01 open Assets:P\n\n@accrue monthly 2020-06-01 2020-01-31 Assets:P\n2020-01-05 \"x\"\nAssets:A Expenses:B 12 CHF\n"},
	{"accrual-zero-start", "2020-01-01 open Assets:A\n2020-01-01 open Expenses:B\n2020-01-01 open Assets:P\n\n@accrue monthly 0001-01-01 0001-12-31 Assets:P\n2020-01-05 \"x\"\nAssets:A Expenses:B 12 CHF\n"},
	{"accrual-zero-start-no-ie", "2020-01-01 open Assets:A\n2020-01-01 open Assets:B\n2020-01-01 open Assets:P\n\n@accrue monthly 0001-01-01 0001-12-31 Assets:P\n2020-01-05 \"x\"\nAssets:A Assets:B 12 CHF\n"},
	{"accrual-one-day", "2020-01-01 open Assets:A\n2020-01-01 open Expenses:B\n2020-01-01 open Assets:P\n\n@accrue daily 2020-03-01 2020-03-01 Assets:P\n2020-01-05 \"x\"\nAssets:A Expenses:B 12 CHF\n"},
	{"accrual-once", "2020-01-01 open Assets:A\n2020-01-01 open Expenses:B\n2020-01-01 open Assets:P\n\n@accrue once 2020-03-01 2020-05-01 Assets:P\n2020-01-05 \"x\"\nAssets:A Expenses:B 12 CHF\n"},
	{"accrual-bad-account", "2020-01-01 open Assets:A\n2020-01-01 open Expenses:B\n\n@accrue monthly 2020-01-01 2020-03-31 Nope:P\n2020-01-05 \"x\"\nAssets:A Expenses:B 12 CHF\n"},
	{"accrual-unopened", "2020-01-01 open Assets:A\n2020-01-01 open Expenses:B\n\n@accrue monthly 2020-01-01 2020-03-31 Assets:P\n2020-01-05 \"x\"\nAssets:A Expenses:B 12 CHF\n"},
	{"accrual-long", "2000-01-01 open Assets:A\n2000-01-01 open Expenses:B\n2000-01-01 open Assets:P\n\n@accrue monthly 2000-01-01 2040-12-31 Assets:P\n2020-01-05 \"x\"\nAssets:A Expenses:B 1000 CHF\n"},
	{"zero-price", "2020-01-01 price USD 0 CHF\n2020-01-01 open Assets:A\n2020-01-01 open Expenses:B\n\n2020-01-02 \"x\"\nAssets:A Expenses:B 5 USD\n"},
	{"negative-price", "2020-01-01 price USD -2 CHF\n2020-01-01 open Assets:A\n2020-01-01 open Expenses:B\n\n2020-01-02 \"x\"\nAssets:A Expenses:B 5 USD\n"},
	{"self-price", "2020-01-01 price CHF 2 CHF\n2020-01-01 open Assets:A\n2020-01-01 open Expenses:B\n\n2020-01-02 \"x\"\nAssets:A Expenses:B 5 CHF\n"},
	{"tiny-price", "2020-01-01 price USD 0.000000000001 CHF\n2020-01-01 open Assets:A\n2020-01-01 open Expenses:B\n\n2020-01-02 \"x\"\nAssets:A Expenses:B 5 USD\n"},
	{"no-price", "2020-01-01 open Assets:A\n2020-01-01 open Expenses:B\n\n2020-01-02 \"x\"\nAssets:A Expenses:B 5 USD\n"},
	{"bad-date-feb30", "2020-02-30 open Assets:A\n"},
	{"bad-date-month13", "2020-13-01 open Assets:A\n"},
	{"bad-date-day00", "2020-01-00 open Assets:A\n"},
	{"leap-day", "2020-02-29 open Assets:A\n2100-02-28 open Assets:B\n"},
	{"not-leap-day", "2100-02-29 open Assets:A\n"},
	{"unicode-digits", "٢٠٢٠-٠١-٠١ open Assets:A\n"},
	{"unicode-amount", "2020-01-01 open Assets:A\n2020-01-01 open Expenses:B\n\n2020-01-02 \"x\"\nAssets:A Expenses:B ١٢ CHF\n"},
	{"huge-amount", "2020-01-01 open Assets:A\n2020-01-01 open Expenses:B\n\n2020-01-02 \"x\"\nAssets:A Expenses:B 123456789012345678901234567890123456789012345678901234567890.123456789012345678901234567890 CHF\n"},
	{"macro-account", "2020-01-01 open Assets:A\n\n2020-01-02 \"x\"\nAssets:A $expenses 5 CHF\n"},
	{"failed-assertion", "2020-01-01 open Assets:A\n2020-01-02 balance Assets:A 5 CHF\n"},
	{"close-nonzero", "2020-01-01 open Assets:A\n2020-01-01 open Expenses:B\n\n2020-01-02 \"x\"\nAssets:A Expenses:B 5 CHF\n2020-01-03 close Assets:A\n"},
	{"double-open", "2020-01-01 open Assets:A\n2020-01-02 open Assets:A\n"},
	{"crlf", "2020-01-01 open Assets:A\r\n2020-01-01 open Expenses:B\r\n\r\n2020-01-02 \"x\"\r\nAssets:A Expenses:B 5 CHF\r\n"},
	{"no-final-newline", "2020-01-01 open Assets:A"},
	{"bom", "\xef\xbb\xbf2020-01-01 open Assets:A\n"},
	{"performance-empty", "2020-01-01 open Assets:A\n2020-01-01 open Expenses:B\n\n@performance()\n2020-01-02 \"x\"\nAssets:A Expenses:B 5 CHF\n"},
	{"many-days", ""}, // filled in below
}

// c14GenSpecial: boundary journals (dates, accruals, prices, empty) under drawn window flags.
func c14GenSpecial(c *Ctx, i int) *c14Case {
	r := c.Rng("special", i)
	tc := &c14Case{Stream: "special", Index: i, Model: true}
	sp := c14Special[i%len(c14Special)]
	text := sp.text
	if sp.name == "many-days" {
		var b strings.Builder
		b.WriteString("2000-01-01 open Assets:A\n2000-01-01 open Expenses:B\n\n")
		for k := 0; k < r.Range(50, 300); k++ {
			fmt.Fprintf(&b, "%s \"d%d\"\nAssets:A Expenses:B %d CHF\n\n", fmtDate(730120+k*r.Range(1, 40)), k, k)
		}
		text = b.String()
	}
	tc.Kind = sp.name
	tc.Cmd = Pick(r, c14Cmds)
	val := ""
	if tc.Cmd == "transcode" || r.Chance(1, 2) {
		val = Pick(r, []string{"CHF", "CHF", "USD"})
	}
	lo, hi := 737000, 738000
	switch {
	case strings.Contains(sp.name, "zero") || strings.Contains(sp.name, "day-two"):
		lo, hi = 1, 800
	case sp.name == "tx-last-day":
		lo, hi = maxDay-800, maxDay
	}
	tc.Bal = c14WindowFlags(r, lo, hi, val)
	if sp.name == "tx-zero-time-and-later" || sp.name == "accrual-long" {
		// window of 2000 years or more: coarse intervals only
		if tc.Bal.Interval != 0 && tc.Bal.Interval < 4 {
			tc.Bal.Interval = 5
		}
	}
	tc.Val = val
	tc.Files = []c14File{{Rel: "main.knut", Data: text}}
	tc.Path = "main.knut"
	if tc.Cmd == "infer" {
		tc.Train = "main.knut"
		tc.Inplace = r.Chance(1, 4)
	}
	tc.buildArgv()
	return tc
}

// c14GenFlags: argv-level cases the model does not cover (cobra, regexp, strconv): monitors only.
func c14GenFlags(c *Ctx, i int) *c14Case {
	r := c.Rng("flags", i)
	tc := &c14Case{Stream: "flags", Index: i}
	j, _, _ := c14Journal(r, "CHF")
	text, _ := j.Text()
	tc.Files = []c14File{{Rel: "main.knut", Data: text}, {Rel: "adir", Kind: "dir"}, {Rel: "bad.yaml", Data: ":\n  - [\x00"}, {Rel: "uni.yaml", Data: "Equity:\n  - AAPL\n"}}
	sub := Pick(r, [][]string{{"balance"}, {"check"}, {"print"}, {"format"}, {"infer"}, {"transcode"}, {"portfolio", "returns"}, {"portfolio", "weights"}})
	tc.Cmd = sub[len(sub)-1]
	windowed := tc.Cmd == "balance" || tc.Cmd == "returns" || tc.Cmd == "weights"
	type variant struct {
		name string
		args []string
		ok   bool // applies to this command
	}
	vs := []variant{
		{"no-path", nil, true},
		{"two-paths", []string{"main.knut", "main.knut"}, true},
		{"missing-path", []string{"nothere.knut"}, true},
		{"dir-path", []string{"adir"}, true},
		{"empty-path", []string{""}, true},
		{"unknown-flag", []string{"--no-such-flag", "main.knut"}, true},
		{"flag-without-value", []string{"main.knut", "--from"}, windowed},
		{"bad-from", []string{"--from", Pick(r, []string{"2020-13-01", "garbage", "", "20200101", "10000-01-01", "-1"}), "main.knut"}, windowed},
		{"bad-to", []string{"--to", Pick(r, []string{"2020-02-30", "x", ""}), "main.knut"}, windowed},
		{"bad-last", []string{"--last", Pick(r, []string{"abc", "1.5", "99999999999999999999", ""}), "main.knut"}, windowed},
		{"bad-digits", []string{"--digits", Pick(r, []string{"abc", "99999999999", "-99999999999", "1.5"}), "main.knut"}, tc.Cmd == "balance" || tc.Cmd == "weights"},
		{"bad-regex", []string{Pick(r, []string{"--account", "--commodity"}), Pick(r, []string{"(", "[a-", "*", "a{2,1}", "\\", "(?P<x"}), "main.knut"}, windowed},
		{"bad-regex-show", []string{"-s", "(", "main.knut"}, tc.Cmd == "balance"},
		{"bad-remap", []string{"--remap", "[", "main.knut"}, tc.Cmd == "balance"},
		{"bad-map", []string{"-m", Pick(r, []string{"-1,x", "1:-2,x", "x", "1:2:3", "", ",", "1,(", "99999999999999999999", "-0"}), "main.knut"}, tc.Cmd == "balance" || tc.Cmd == "weights"},
		{"huge-map", []string{"-m", Pick(r, []string{"2147483647", "1:2147483647", "9223372036854775807,."}), "main.knut"}, tc.Cmd == "balance" || tc.Cmd == "weights"},
		{"huge-map-suffix", []string{"-m", Pick(r, []string{"9223372036854775807:1,.", "9223372036854775806:2,.", "4611686018427387904:4611686018427387904,.", "1:9223372036854775807,.", "9223372036854775807:9223372036854775807"}), "main.knut"}, tc.Cmd == "balance" || tc.Cmd == "weights"},
		{"two-intervals", []string{"--days", "--weeks", "main.knut"}, windowed},
		{"empty-valuation", []string{"-v", "", "main.knut"}, windowed || tc.Cmd == "transcode"},
		{"bad-valuation", []string{"-v", Pick(r, []string{"bad commodity!", "CH F", "-", "\"", "Ünit", strings.Repeat("C", 5000)}), "main.knut"}, windowed || tc.Cmd == "transcode"},
		{"unknown-valuation", []string{"-v", "ZZZ", "main.knut"}, windowed || tc.Cmd == "transcode"},
		{"no-valuation", []string{"main.knut"}, tc.Cmd == "transcode" || tc.Cmd == "returns" || tc.Cmd == "weights"},
		{"cpuprofile-unwritable", []string{"--cpuprofile", "nodir/x.prof", "main.knut"}, tc.Cmd == "balance" || tc.Cmd == "returns"},
		{"infer-no-training", []string{"main.knut"}, tc.Cmd == "infer"},
		{"infer-missing-training", []string{"-t", "nothere.knut", "main.knut"}, tc.Cmd == "infer"},
		{"infer-dir-training", []string{"-t", "adir", "main.knut"}, tc.Cmd == "infer"},
		{"infer-bad-account", []string{"-t", "main.knut", "-a", Pick(r, []string{"", "NoType:X", "Assets::", ":", "Assets:A B", "\xff"}), "main.knut"}, tc.Cmd == "infer"},
		{"universe-missing", []string{"--universe", "nothere.yaml", "-v", "CHF", "main.knut"}, tc.Cmd == "weights"},
		{"universe-bad", []string{"--universe", "bad.yaml", "-v", "CHF", "main.knut"}, tc.Cmd == "weights"},
		{"universe-dir", []string{"--universe", "adir", "-v", "CHF", "main.knut"}, tc.Cmd == "weights"},
		{"universe-ok", []string{"--universe", "uni.yaml", "-v", "CHF", "main.knut"}, tc.Cmd == "weights"},
		{"help", []string{"--help"}, true},
		{"format-many", []string{"main.knut", "nothere.knut", "adir", "main.knut"}, tc.Cmd == "format"},
		{"format-none", nil, tc.Cmd == "format"},
		{"check-both", []string{"--write", "--no-check", "main.knut"}, tc.Cmd == "check"},
		{"check-no-check", []string{"--no-check", "main.knut"}, tc.Cmd == "check"},
		{"last-with-once", []string{"--last", "3", "main.knut"}, windowed},
		{"from-zero-time", []string{"--from", "0001-01-01", "main.knut"}, windowed},
		{"to-zero-time", []string{"--to", "0001-01-01", "--days", "main.knut"}, windowed},
		{"from-after-to", []string{"--from", "2021-01-01", "--to", "2020-01-01", Pick(r, []string{"--days", "--months", "--years"}), "main.knut"}, windowed},
		{"to-max", []string{"--to", "9999-12-31", "--years", "main.knut"}, windowed},
	}
	var app []variant
	for _, v := range vs {
		if v.ok {
			app = append(app, v)
		}
	}
	v := Pick(r, app)
	tc.Kind = v.name
	tc.Argv = append(append([]string{}, sub...), v.args...)
	if tc.Cmd == "check" && len(v.args) > 0 && v.args[0] == "--write" {
		tc.Cmd = "check-write"
	}
	return tc
}

// c14GenKnownSlow: the flag values known to make balance run for minutes (recorded finding); a handful per run.
func c14GenKnownSlow(c *Ctx, i int) *c14Case {
	r := c.Rng("slow", i)
	tc := &c14Case{Stream: "slow", Index: i}
	tc.Files = []c14File{{Rel: "main.knut", Data: "2020-01-01 open Assets:A\n2020-01-01 open Expenses:B\n\n2020-01-02 \"x\"\nAssets:A Expenses:B 5 CHF\n"}}
	switch i % 3 {
	case 0:
		tc.Kind, tc.Cmd, tc.Known = "absurd-digits", "balance", "absurd-digits-hang"
		tc.Argv = []string{"balance", "--digits", Pick(r, []string{"100000000", "2147483647", "-2147483648", "-100000000"}), "main.knut"}
	case 1:
		tc.Kind, tc.Cmd, tc.Known = "calendar-wide-daily-window", "balance", "calendar-wide-window-memory"
		tc.Files[0].Data = "0001-01-02 open Assets:A\n0001-01-02 open Expenses:B\n\n0001-01-02 \"x\"\nAssets:A Expenses:B 5 CHF\n\n9999-12-31 \"y\"\nAssets:A Expenses:B 5 CHF\n"
		tc.Argv = []string{"balance", "--days", "main.knut"}
	case 2:
		tc.Kind, tc.Cmd, tc.Known = "calendar-wide-daily-accrual", "check", "calendar-wide-window-memory"
		tc.Files[0].Data = "2020-01-01 open Assets:A\n2020-01-01 open Expenses:B\n\n@accrue daily 0001-01-02 9999-12-31 Assets:A\n2020-01-02 \"x\"\nAssets:A Expenses:B 5 CHF\n"
		tc.Argv = []string{"check", "main.knut"}
	}
	return tc
}

// ---------------------------------------------------------------- runner

func c14Subst(s, dir string) string {
	if !strings.Contains(s, "{") {
		return s
	}
	depth := strings.Count(dir, "/")
	// many more ..'s than needed: every level of the recursion then adds some 150 bytes to the path, so that the
	// OS limit is reached after a few dozen levels (the chain check is quadratic in the number of levels)
	s = strings.ReplaceAll(s, "{ROOTUP}", strings.Repeat("../", depth+40))
	s = strings.ReplaceAll(s, "{ABS}", dir)
	s = strings.ReplaceAll(s, "{UP}", "../"+filepath.Base(dir))
	return s
}

func (tc *c14Case) subst(dir string) {
	for k := range tc.Files {
		tc.Files[k].Data = c14Subst(tc.Files[k].Data, dir)
	}
	for k := range tc.Argv {
		tc.Argv[k] = c14Subst(tc.Argv[k], dir)
	}
	tc.Path = c14Subst(tc.Path, dir)
	tc.Train = c14Subst(tc.Train, dir)
	// ROOTUP followed by ABS gives "..//abs": fine, path.Join cleans
}

func c14ModelCmd(cmd string) (string, string) {
	if cmd == "check-write" {
		return "check", "write=1"
	}
	return cmd, ""
}

func (tc *c14Case) extraWire() string {
	_, w := c14ModelCmd(tc.Cmd)
	var kv []string
	if w != "" {
		kv = append(kv, w)
	}
	if tc.Cmd == "transcode" && tc.Val != "" {
		kv = append(kv, "val="+Hex(tc.Val))
	}
	if tc.Cmd == "infer" {
		kv = append(kv, "train="+Hex(tc.Train))
		if tc.Acct != "" {
			kv = append(kv, "acct="+Hex(tc.Acct))
		}
		if tc.Inplace {
			kv = append(kv, "inplace=1")
		}
	}
	if len(kv) == 0 {
		return "-"
	}
	return strings.Join(kv, ";")
}

func runC14(c *Ctx) {
	root, _ := filepath.Abs(filepath.Join(c.WorkDir, "c14"))
	os.MkdirAll(root, 0o755)
	knut, _ := filepath.Abs(c.KnutBin)
	// ---- path.Clean / path.Join against the model
	c14Paths(c)
	// ---- reports that cannot be written
	if !c.Replay || c.OnlyStr == "fullstdout" {
		runC14FullStdout(c)
	}

	// cases are generated, run and evaluated chunk by chunk, so that the harness itself stays small (the resident
	// set the kernel reports for a child starts from that of the process that spawned it)
	type c14Job struct {
		g func(*Ctx, int) *c14Case
		i int
	}
	var jobs []c14Job
	gen := func(stream string, n int, g func(*Ctx, int) *c14Case) {
		for i := 0; i < n; i++ {
			if c.Want(stream, i) {
				jobs = append(jobs, c14Job{g, i})
			}
		}
	}
	gen("graph", c.N(1100, 24000), c14GenGraph)
	gen("bytes", c.N(700, 16000), c14GenBytes)
	gen("special", c.N(600, 12000), c14GenSpecial)
	gen("flags", c.N(500, 8000), c14GenFlags)
	gen("flagmix", c.N(700, 12000), c14GenFlagMix) // the report flags in pairs and triples (c14flags.go)
	gen("contra", c.N(400, 8000), c14GenContra) // journals whose files contradict each other (c14contra.go)
	gen("slow", c.N(3, 12), c14GenKnownSlow)
	if c.Replay && c.OnlyStr == "directed" {
		// a finding of the directed search carries its own input (the absolute paths in it name the scratch
		// directory of the original run, which is recreated under the same name)
		if d := c14FromReplay(c); d != nil {
			c14RunDirected(c, knut, root, d)
		}
		return
	}

	bt := c.NewBatch()
	bt.Limit = 400
	var maxWall time.Duration
	var maxRSS int64
	slowest, largest := "", ""
	var suspects []*c14Case // cases on which model and binary disagree: searched further below
	knownSeen := map[string]int{}
	// at most three reports per recorded finding, so that every key that occurs is listed
	monitorKnown := func(tc *c14Case, pred string, in any, detail, key string) {
		knownSeen[key]++
		if knownSeen[key] <= 3 {
			c.MonitorKnown(tc.Stream, tc.Index, pred, in, detail, key)
		} else {
			c.Monitored++
		}
	}
	td := today()
	const chunk = 2500
	for start := 0; start < len(jobs); start += chunk {
		end := min(start+chunk, len(jobs))
		cases := make([]*c14Case, 0, end-start)
		for _, jb := range jobs[start:end] {
			cases = append(cases, jb.g(c, jb.i))
		}
		parallelFor(len(cases), 12, func(k int) {
			tc := cases[k]
			dir := filepath.Join(root, fmt.Sprintf("%s%d", tc.Stream, tc.Index))
			os.RemoveAll(dir)
			tc.subst(dir)
			tc.dir = dir
			c14Materialize(dir, tc.Files)
			if tc.Model {
				// the file system before the run (format and infer -i rewrite files)
				roots, single := []string{tc.Path}, []string(nil)
				if tc.Cmd == "infer" {
					roots, single = []string{tc.Train}, []string{tc.Path}
				}
				if tc.Cmd == "format" {
					roots, single = nil, []string{tc.Path}
				}
				tc.fsWire, tc.fsOK = c14FS(dir, roots, single)
			}
			c14Exec(knut, dir, tc)
			// make everything removable again
			filepath.Walk(dir, func(p string, info os.FileInfo, err error) error {
				if err == nil && info.Mode()&os.ModeSymlink == 0 {
					os.Chmod(p, 0o755)
				}
				return nil
			})
			os.RemoveAll(dir)
		})

		for _, tc := range cases {
			tc := tc
			c.Evals++
			in := tc.Input()
			cls := tc.implClass()
			if tc.wall > maxWall && tc.Known == "" {
				maxWall = tc.wall
				slowest = fmt.Sprintf("%s/%d %s %s", tc.Stream, tc.Index, tc.Kind, strings.Join(tc.Argv, " "))
			}
			if tc.maxRSSKB > maxRSS && tc.Known == "" {
				maxRSS = tc.maxRSSKB
				largest = fmt.Sprintf("%s/%d %s %s", tc.Stream, tc.Index, tc.Kind, strings.Join(tc.Argv, " "))
			}
			c.Class(fmt.Sprintf("c14/%s/%s/%s/%s", tc.Stream, tc.Kind, tc.Cmd, cls))
			c.Tag("cmd:" + tc.Cmd)
			c.Tag("class:" + cls)
			for _, t := range tc.Tags {
				c.Tag(t)
			}
			if tc.Sched != 0 {
				c.Tag("schedule-perturbed")
			}
			if (tc.Cmd == "returns" || tc.Cmd == "weights") && cls == "error" && tc.stdout != "" {
				c.Tag("observed:portfolio-" + tc.Cmd + "-partial-stdout-on-failure")
			}
			if tc.Index < 2 && (tc.Stream == "graph" || tc.Stream == "flags") {
				c.Sample(map[string]any{"argv": tc.Argv, "files": len(tc.Files), "kind": tc.Kind, "ending": tc.ending, "stderr": clip(tc.stderr)[:min(len(tc.stderr), 300)]})
			}
			detail := fmt.Sprintf("%s after %.2fs, max RSS %d KB\nstdout (%d bytes): %q\nstderr: %s", tc.ending, tc.wall.Seconds(), tc.maxRSSKB, len(tc.stdout),
				clip(tc.stdout)[:min(len(tc.stdout), 200)], clip(tc.stderr)[:min(len(tc.stderr), 1500)])

			// ---- built to exhibit a recorded finding: resource use growing with a flag value / the window
			if tc.Known != "" {
				if cls == "timeout" || cls == "killed" || tc.maxRSSKB > c14MaxRSSKB {
					monitorKnown(tc, "terminates_within_bounds", in, detail, tc.Known)
				} else {
					c.Monitor(tc.Stream, tc.Index, "fails_cleanly", in, cls == "ok" || cls == "error", detail)
				}
				continue
			}
			// ---- memory stays bounded; a window over centuries at a fine interval is the recorded resource finding
			wide := tc.wideWindow()
			if wide {
				c.Tag("wide-window")
			}
			if tc.maxRSSKB > c14MaxRSSKB || cls == "timeout" || cls == "killed" {
				if wide {
					monitorKnown(tc, "terminates_within_bounds", in, detail, "calendar-wide-window-memory")
					continue
				}
			}
			c.Monitor(tc.Stream, tc.Index, "memory_bounded", in, tc.maxRSSKB <= c14MaxRSSKB, detail)

			// ---- the model's outcome class, then the property predicate (a predicted panic is the recorded finding)
			finish := func(modelAns string) {
				known := ""
				if strings.HasPrefix(modelAns, "panic ") && cls == "panic" {
					site := UnHex(strings.TrimPrefix(modelAns, "panic "))
					if strings.HasPrefix(site, "accrual: ") {
						known = "accrual-window-starting-0001-01-01"
					} else if strings.Contains(site, "zero time") {
						known = "transaction-dated-0001-01-01"
					}
				} else if modelAns == "panic" && cls == "panic" && strings.Contains(tc.stderr, "can't create partition with zero time") {
					known = "transaction-dated-0001-01-01" // portfolio: class only
				}
				so, se, cr, ef := b2s(tc.stdout == ""), b2s(strings.TrimSpace(tc.stderr) == ""), b2s(c14Crash(tc.stderr)), b2s(tc.ExpectFail)
				bt.Add(func(mon string) {
					switch {
					case mon == "ok":
						c.Monitored++
					case known != "":
						monitorKnown(tc, "fails_cleanly", in, detail+"\n=> "+mon+" (model predicts this panic)", known)
					default:
						c.Monitor(tc.Stream, tc.Index, strings.ReplaceAll(strings.TrimPrefix(mon, "fail "), "-", "_"), in, false, detail+"\n=> "+mon)
					}
				}, "c14mon", b2s(tc.report()), tc.ending, so, se, cr, ef)
			}
			if !tc.Model || !tc.fsOK || len(tc.fsWire) > 900000 {
				if tc.Model {
					c.Tag("model-skipped:fs-too-large")
				}
				finish("")
				continue
			}
			mcmd, _ := c14ModelCmd(tc.Cmd)
			if dbg := os.Getenv("C14_DEBUG"); dbg != "" && c.Replay {
				os.WriteFile(dbg, []byte(strings.Join([]string{"c14run", mcmd, Hex(tc.Path), "BAL", tc.extraWire(), tc.fsWire}, " ")+"\n"), 0o644)
			}
			bal := "-"
			if tc.Bal != nil && (tc.Cmd == "balance" || tc.Cmd == "returns" || tc.Cmd == "weights") {
				bal = tc.Bal.Wire(td)
			}
			bt.Add(func(ans string) {
				mclass := strings.Fields(ans + " x")[0]
				if !c.Compare(tc.Stream, tc.Index, "outcome_class_"+tc.Cmd, in, cls, mclass) {
					suspects = append(suspects, tc)
				}
				if mclass == "ok" && strings.HasPrefix(ans, "ok ") && cls == "ok" && tc.Cmd != "returns" && tc.Cmd != "weights" {
					// stdout emptiness on success as well (cheap byte-level sanity of the composed model)
					c.Compare(tc.Stream, tc.Index, "stdout_empty_"+tc.Cmd, in, b2s(tc.stdout == ""), strings.TrimPrefix(ans, "ok "))
				}
				finish(ans)
			}, "c14run", mcmd, Hex(tc.Path), bal, tc.extraWire(), tc.fsWire)
		}
		bt.Flush()
		// drop what is no longer needed (the suspects keep their files for the directed search)
		keep := map[*c14Case]bool{}
		for _, sc := range suspects {
			keep[sc] = true
		}
		for _, tc := range cases {
			if !keep[tc] {
				tc.stdout, tc.stderr, tc.fsWire, tc.Files = "", "", "", nil
			}
		}
	}
	bt.Flush()
	// ---- directed search around disagreements: the same tree and command under other schedules and processor
	// counts, with the model's own verdict on the include graph as the expectation of the monitor
	if len(suspects) > 8 {
		suspects = suspects[:8]
	}
	for _, tc := range suspects {
		if c.Replay {
			break
		}
		loadRoot := tc.Path
		if tc.Cmd == "infer" {
			loadRoot = tc.Train
		}
		expect := tc.ExpectFail
		if tc.Cmd != "format" && tc.fsOK {
			if ans := c.Drv.Ask("c14load", Hex(loadRoot), tc.fsWire); strings.HasPrefix(ans, "error") {
				expect = true
			}
		}
		for k := 0; k < 6; k++ {
			d := *tc
			d.Stream, d.Index = "directed", tc.Index*10+k
			d.Sched, d.Procs = 1000+7*k, []int{1, 2, 4, 0, 16, 8}[k]
			d.ExpectFail = expect
			c14RunDirected(c, knut, root, &d)
		}
	}
	runC14Late(c) // ---- journals that fail late, after a long valid prefix (c14late.go; last: its journals are large)
	c.Extra["directed_around"] = len(suspects)
	c.Extra["max_wall_s"] = maxWall.Seconds()
	c.Extra["slowest_case"] = slowest
	c.Extra["largest_case"] = largest
	c.Extra["known_finding_runs"] = knownSeen
	c.Extra["max_rss_kb"] = maxRSS
	c.Extra["timeout_s"] = c14Timeout.Seconds()
	c.Extra["ulimit_v_kb"] = c14VMemKB
	c.Extra["running_as_root"] = os.Geteuid() == 0
	c.Notes = append(c.Notes, "every case: own scratch directory, /bin/sh -c 'ulimit -v; exec knut …', wall-clock bound, stdout/stderr captured; the model sees the file system through the path strings the loader can form")
}

// c14RunDirected runs one already substituted case and applies the monitors (no model comparison).
func c14RunDirected(c *Ctx, knut, root string, d *c14Case) {
	dir := d.dir // the directory of the original run: absolute paths in the case name it
	if dir == "" {
		dir = filepath.Join(root, fmt.Sprintf("%s%d", d.Stream, d.Index))
	}
	os.RemoveAll(dir)
	c14Materialize(dir, d.Files)
	c14Exec(knut, dir, d)
	os.RemoveAll(dir)
	c.Evals++
	c.Class(fmt.Sprintf("c14/directed/%s/%s/%s", d.Kind, d.Cmd, d.implClass()))
	detail := fmt.Sprintf("%s after %.2fs, max RSS %d KB\nstdout (%d bytes)\nstderr: %s", d.ending, d.wall.Seconds(), d.maxRSSKB, len(d.stdout), clip(d.stderr)[:min(len(d.stderr), 1500)])
	mon := c.Drv.Ask("c14mon", b2s(d.report()), d.ending, b2s(d.stdout == ""), b2s(strings.TrimSpace(d.stderr) == ""), b2s(c14Crash(d.stderr)), b2s(d.ExpectFail))
	if mon == "ok" {
		c.Monitored++
		return
	}
	c.Monitor(d.Stream, d.Index, strings.ReplaceAll(strings.TrimPrefix(mon, "fail "), "-", "_"), d.Input(), false, detail+"\n=> "+mon)
}

// c14FromReplay rebuilds a directed case from the input recorded in a finding.
func c14FromReplay(c *Ctx) *c14Case {
	in := c.ReplayInput
	if in == nil {
		return nil
	}
	d := &c14Case{Stream: "directed", Index: c.OnlyIndex, ExpectFail: true}
	d.Kind, _ = in["kind"].(string)
	d.dir, _ = in["dir"].(string)
	if a, ok := in["argv"].([]any); ok {
		for _, x := range a {
			d.Argv = append(d.Argv, fmt.Sprint(x))
		}
	}
	if fs, ok := in["files"].([]any); ok {
		for _, x := range fs {
			if m, ok := x.(map[string]any); ok {
				f := c14File{}
				f.Rel, _ = m["rel"].(string)
				f.Data, _ = m["data"].(string)
				f.Kind, _ = m["kind"].(string)
				d.Files = append(d.Files, f)
			}
		}
	}
	if v, ok := in["sched_seed"].(float64); ok {
		d.Sched = int(v)
	}
	if v, ok := in["gomaxprocs"].(float64); ok {
		d.Procs = int(v)
	}
	if len(d.Argv) > 0 {
		d.Cmd = d.Argv[0]
		if d.Cmd == "portfolio" && len(d.Argv) > 1 {
			d.Cmd = d.Argv[1]
		}
		for _, a := range d.Argv {
			if a == "--write" && d.Cmd == "check" {
				d.Cmd = "check-write"
			}
		}
	}
	return d
}

// c14Paths compares path.Clean and path.Join(filepath.Dir(a), b) with the model.
func c14Paths(c *Ctx) {
	n := c.N(3000, 60000)
	bt := c.NewBatch()
	elems := []string{"", ".", "..", "a", "b", "sub", "main.knut", "ü", "a.b", "...", "..a", " "}
	gen := func(r *RNG) string {
		var b strings.Builder
		if r.Chance(1, 4) {
			b.WriteString("/")
		}
		for k, m := 0, r.Intn(7); k < m; k++ {
			b.WriteString(Pick(r, elems))
			if k+1 < m || r.Chance(1, 4) {
				b.WriteString(Pick(r, []string{"/", "/", "/", "//"}))
			}
		}
		return b.String()
	}
	for i := 0; i < n; i++ {
		i := i
		if !c.Want("paths", i) {
			continue
		}
		r := c.Rng("paths", i)
		a, b := gen(r), gen(r)
		c.Evals++
		want := path.Clean(a)
		bt.Add(func(ans string) {
			c.Compare("paths", i, "path_clean", map[string]any{"path": a}, want, UnHex(ans))
		}, "c14clean", Hex(a))
		wantJ := path.Join(filepath.Dir(a), b)
		bt.Add(func(ans string) {
			c.Compare("paths", i, "resolve_include", map[string]any{"includer": a, "include": b}, wantJ, UnHex(ans))
		}, "c14resolve", Hex(a), Hex(b))
		if i%500 == 0 {
			c.Class("c14/paths/" + bucket(strings.Count(a, "/")))
		}
	}
	bt.Flush()
}
