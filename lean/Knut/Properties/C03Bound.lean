import Knut.Proofs.MTM
/-!
# C03 — the quantitative mark-to-market bound (the induction over days left open in `Properties/C03.lean`)

`Knut.MTM` (Proofs/MTM.lean) defines the valuation trace of ONE position `(a, c)`, `c ≠ V`:
a list of days `DayStep = (pPrev, pCur, qs)` (yesterday's and today's price of `c` in `V`, the signed quantities booked
today), consistent (`Consistent p0 ds`: `pPrev` of a day is `pCur` of the day before, `p0` before the first day), and
the state `St = (W, Q, steps)` updated by `stepDay` exactly as `Valuate` does:

* `adjustment Q pPrev pCur = if Q = 0 ∨ pCur − pPrev = 0 then 0 else Truncate₈((pCur − pPrev)·Q)`,
* `booked pCur qs = Σ_{q ∈ qs, q ≠ 0} Truncate₈(q·pCur)`,
* `W' = W + adjustment + booked`, `Q' = Q + Σ qs`, `steps' = steps + [adjustment computed] + #{q ≠ 0}`.

Proved for all traces:

* `C03_trunc_close`, `C03_trunc_close_abs` – `|Truncate_n(r) − r| < 10⁻ⁿ`, toward zero;
* `C03_mtm_bound` – starting from `W = Q = 0`: `|W_D − Q_D·p_D| ≤ steps_D / 10⁸`;
* `C03_mtm_bound_window` – from any state (a window start `F`): `|(W_D − W_F) − (Q_D·p_D − Q_F·p_F)| ≤ (steps_D − steps_F) / 10⁸`
  (this is the form the report shows with `--from`: the value CHANGE inside the window);
* `C03_adjustment_term`, `C03_adjustment_posting`, `C03_booked_term` – the terms of the trace are the terms of the model:
  `Balance.adjustStep` books `adjustment Q pp cp` on the account, `Balance.valuePosting` gives a day's bookings on
  the position values summing to `booked`.

Not mechanised (association-list bookkeeping only): that the per-position projections of `Balance.valuateDay`'s state
(`vQty.get (a, c)`, the sum of values booked on `(a, c)`) evolve by `stepDay`.  The monitor
`shown_equals_mark_to_market` compares `Spec.mtm` with the real report on every run.
-/
namespace Knut.C03
open Knut Knut.Dec Knut.MTM

/-- **`Truncate(n)` is within one unit of the `n`-th decimal, toward zero** -/
theorem C03_trunc_close (n : Nat) (r : Rat) :
    (0 ≤ r → -(1 / (10 : Rat) ^ n) < trunc n r - r ∧ trunc n r - r ≤ 0) ∧
    (r ≤ 0 → 0 ≤ trunc n r - r ∧ trunc n r - r < 1 / (10 : Rat) ^ n) :=
  trunc_close n r

theorem C03_trunc_close_abs (n : Nat) (r : Rat) : (trunc n r - r).abs < 1 / (10 : Rat) ^ n :=
  trunc_close_abs n r

/-- **mark-to-market bound** for a position opened inside the trace -/
theorem C03_mtm_bound (p0 : Rat) (ds : List DayStep) (hc : Consistent p0 ds) :
    ((run {} ds).W - (run {} ds).Q * lastPrice p0 ds).abs ≤ ((run {} ds).steps : Rat) / (10 : Rat) ^ 8 := by
  obtain ⟨h1, h2⟩ := run_bound p0 ds {} hc
  rw [← mul_ulp]
  unfold dev at h1 h2
  have e0 : (({} : St).steps : Rat) = 0 := rfl
  have e1 : ({} : St).W = 0 := rfl
  have e2 : ({} : St).Q = 0 := rfl
  rw [e0, e1, e2] at h1 h2
  apply abs_le_of <;> grind

/-- the same as a pair of inequalities -/
theorem C03_mtm_bound_pair (p0 : Rat) (ds : List DayStep) (hc : Consistent p0 ds) :
    -(((run {} ds).steps : Rat) / (10 : Rat) ^ 8) ≤ (run {} ds).W - (run {} ds).Q * lastPrice p0 ds ∧
    (run {} ds).W - (run {} ds).Q * lastPrice p0 ds ≤ ((run {} ds).steps : Rat) / (10 : Rat) ^ 8 := by
  obtain ⟨h1, h2⟩ := run_bound p0 ds {} hc
  rw [← mul_ulp]
  unfold dev at h1 h2
  have e0 : (({} : St).steps : Rat) = 0 := rfl
  have e1 : ({} : St).W = 0 := rfl
  have e2 : ({} : St).Q = 0 := rfl
  rw [e0, e1, e2] at h1 h2
  constructor <;> grind

/-- the step counter never decreases (so the subtraction below is an honest one) -/
theorem C03_steps_mono (s : St) (ds : List DayStep) : s.steps ≤ (run s ds).steps := steps_mono s ds

/-- **windowed mark-to-market bound**: from an arbitrary state `s` (the state at the window start `F`, price `p0`) -/
theorem C03_mtm_bound_window (p0 : Rat) (ds : List DayStep) (s : St) (hc : Consistent p0 ds) :
    (((run s ds).W - s.W) - ((run s ds).Q * lastPrice p0 ds - s.Q * p0)).abs
      ≤ (((run s ds).steps - s.steps : Nat) : Rat) / (10 : Rat) ^ 8 := by
  obtain ⟨h1, h2⟩ := run_bound p0 ds s hc
  rw [← mul_ulp, natCast_sub_of_le (steps_mono s ds)]
  unfold dev at h1 h2
  apply abs_le_of <;> grind

/-- the adjustment `Balance.adjustStep` books for an asset/liability position `(a, c)`, `c ≠ V`, with both prices
known is the `adjustment` term of the trace (nothing if the position is closed or the price did not move) -/
theorem C03_adjustment_term (v : Commodity) (date : Int) (prev cur : Option Prices.NPrices)
    (acc : List Transaction) (a : Account) (c : Commodity) (q pp cp : Rat)
    (hc : c ≠ v) (hal : a.isAL = true)
    (hp : Balance.lookupPrice prev c = .ok pp) (hcur : Balance.lookupPrice cur c = .ok cp) :
    Balance.adjustStep v date prev cur acc ((a, c), q) =
      .ok (if adjSkipped q pp cp then acc else
        acc ++ [{ date := date, description := "Adjust value of " ++ c ++ " in account " ++ a.name,
                  postings := postingBuild (valuationAccountFor a) a c 0 (adjustment q pp cp),
                  targets := some [c] }]) :=
  adjustStep_eq v date prev cur acc a c q pp cp hc hal hp hcur

/-- … and the posting of that transaction on `a` has quantity 0 and value `g` (the other one is on `Income:…`) -/
theorem C03_adjustment_posting (a : Account) (c : Commodity) (g : Rat) (hal : a.isAL = true) :
    ∀ p ∈ postingBuild (valuationAccountFor a) a c 0 g, p.account = a →
      p.quantity = 0 ∧ p.value = g ∧ p.commodity = c :=
  adjustment_posting_value a c g hal

/-- the values `Balance.valuePosting` gives to a day's (not yet valued) bookings in commodity `c ≠ V` sum to the
`booked` term of the trace, and the quantities are unchanged -/
theorem C03_booked_term (v : Commodity) (cur : Option Prices.NPrices) (c : Commodity) (pr : Rat)
    (hc : c ≠ v) (hcur : Balance.lookupPrice cur c = .ok pr) (ps ps' : List Posting)
    (hps : ∀ p ∈ ps, p.commodity = c ∧ p.value = 0)
    (h : ps.mapM (Balance.valuePosting v cur) = .ok ps') :
    (ps'.map (·.value)).sum = booked pr (ps.map (·.quantity)) ∧ ps'.map (·.quantity) = ps.map (·.quantity) :=
  valuePostings_sum v cur c pr hc hcur ps ps' hps h

/-! Non-vacuity: buy 1 at 1/3; the price moves to 2/3 and 2 more (and a zero booking) are booked; the price moves to
0.123456789 and 1 is sold (`MTM.exampleTrace`).  The trace is consistent, five truncations happen, the running value deviates from the
exact mark-to-market value by 2·10⁻⁹ ≠ 0, within the bound 5·10⁻⁸. -/
example : Consistent 0 exampleTrace := ⟨rfl, rfl, rfl, trivial⟩
example : run {} exampleTrace = { W := 12345679/50000000, Q := 2, steps := 5 } := by decide +kernel
example : (run {} exampleTrace).W - (run {} exampleTrace).Q * lastPrice 0 exampleTrace = 1/500000000 := by
  decide +kernel

end Knut.C03
