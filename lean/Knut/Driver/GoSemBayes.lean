import Knut.Wire
import Knut.GoSem.SynBayes
import Knut.Driver.GoSemSyn
/-! Driver ops `gosembayes …`: what `Knut/GoSem/SynBayes.lean` and the translator's reading of maps add for the translation of
`lib/syntax/bayes` (`cmpOrdered` on byte strings, `sortedKeys` of a set built by `Add`, `Syn.rangeKeys`, the two counting statements of
`Model.update` as `AMap.set` / `AMap.get` / `getDefault`), evaluated for the differential stream `gosembayes` of C11
(`harness/gosem_bayes.go`), which compares each with real Go on byte strings that include invalid UTF-8. -/
namespace Knut.Driver.GoSemBayes
open Knut Knut.Wire Knut.GoSem Knut.Driver.GoSemSyn

def showList (l : List (List UInt8)) : String :=
  if l.isEmpty then "-" else ",".intercalate (l.map fun b => "x" ++ hexOf b)

/-- the association list that `set.New` and a sequence of `Add` calls build (the term the translator emits for `s.Add(x)`) -/
def setOf (l : List (List UInt8)) : AMap (List UInt8) Unit := l.foldl (fun s t => AMap.set s t ()) []

/-- a program of `m[a]++` (`m`, account) and `dict.GetDefault(tm, t, ctor)[a]++` (token, account), with the terms the translator emits -/
def run : List String → AMap (List UInt8) Int → AMap (List UInt8) (AMap (List UInt8) Int) →
    Option (AMap (List UInt8) Int × AMap (List UInt8) (AMap (List UInt8) Int))
  | [], m, tm => some (m, tm)
  | [_], _, _ => none
  | op :: acc :: rest, m, tm =>
    match bytesOf (let t := (acc.drop 1).toString; if t = "" then "-" else t) with
    | none => none
    | some account =>
      if op = "m" then run rest (AMap.set m account (AMap.get m account GoZero.zero + (1 : Int))) tm
      else
        match bytesOf (let t := (op.drop 1).toString; if t = "" then "-" else t) with
        | none => none
        | some token =>
          run rest m (AMap.set tm token (AMap.set (getDefault tm token []) account
            (AMap.get (getDefault tm token []) account GoZero.zero + (1 : Int))))

def handle (fields : List String) : Option String :=
  match fields with
  | ["gosembayes", "cmp", a, b] =>
    match bytesOf a, bytesOf b with
    | some a, some b => some (toString (cmpOrdered a b))
    | _, _ => some "bad-op"
  | ["gosembayes", "sortedkeys", l] =>
    match parts l with
    | some l => some (showList (sortedKeys (setOf l) cmpOrdered))
    | none => some "bad-op"
  | ["gosembayes", "rangekeys", ord, l] =>
    match parts ord, parts l with
    | some ord, some l => some (showList (Syn.rangeKeys ord (setOf l)))
    | _, _ => some "bad-op"
  | ["gosembayes", "counts", prog] =>
    match run (if prog = "-" then [] else splitOn prog ',') [] [] with
    | none => some "bad-op"
    | some (m, tm) =>
      let ms := (sortedKeys m cmpOrdered).map fun k => s!"{hexOf k}={AMap.get m k 0}"
      let ts := (sortedKeys tm cmpOrdered).flatMap fun t =>
        let inner := AMap.get tm t []
        (sortedKeys inner cmpOrdered).map fun k => s!"{hexOf t}/{hexOf k}={AMap.get inner k 0}"
      some (" ".intercalate (ms ++ ["|"] ++ ts))
  | _ => none

end Knut.Driver.GoSemBayes
