import Knut.Model.JournalPrinter
import Knut.Syntax.CharClass
/-!
# Shared pieces of the importer models (`cmd/importer/*`)

Every importer reads records with `encoding/csv` (or `encoding/json`), turns rows into directives added to a
`journal.Builder` and prints the builder with `journal.Print`.  The models take the records **as Go's decoder
returned them** (decoding is trusted glue, mirrored by the harness with the importer's own reader settings and
`FieldsPerRecord = -1`; the field-count checks of the reader are part of the models).

Outcomes: `ok` (exit 0, the printed journal on stdout), `error` (the importer returns an error: exit 1),
`panic` (a Go runtime panic: index out of range, slice bounds, `MustGet` on an invalid name, nil dereference).

This file models the library functions the importers call on field values:
`decimal.NewFromString`, `time.Parse` for the five layouts in use, `strings.TrimSpace/Fields/Trim/ReplaceAll`,
the regular expressions (`\s+`, `\d\d.\d\d.\d\d\d\d`, …) and the registry look-ups.
-/
namespace Knut.Import
open Knut

/-- outcome of an importer run -/
inductive Res (α : Type) where
  | ok (a : α)
  | error
  | panic
  deriving Repr, DecidableEq, Inhabited

namespace Res
def bind {α β : Type} : Res α → (α → Res β) → Res β
  | .ok a, f => f a
  | .error, _ => .error
  | .panic, _ => .panic

instance : Monad Res where
  pure := .ok
  bind := Res.bind

/-- a Go `error` result -/
def ofOption {α : Type} : Option α → Res α
  | some a => .ok a
  | none => .error

/-- a Go `Must…` call -/
def must {α : Type} : Option α → Res α
  | some a => .ok a
  | none => .panic

@[simp] theorem bind_ok {α β : Type} (a : α) (f : α → Res β) : (Res.ok a >>= f) = f a := rfl
@[simp] theorem bind_error {α β : Type} (f : α → Res β) : ((Res.error : Res α) >>= f) = .error := rfl
@[simp] theorem bind_panic {α β : Type} (f : α → Res β) : ((Res.panic : Res α) >>= f) = .panic := rfl
@[simp] theorem pure_eq {α : Type} (a : α) : (pure a : Res α) = .ok a := rfl

theorem bind_eq_ok {α β : Type} {x : Res α} {f : α → Res β} {b : β} (h : (x >>= f) = .ok b) :
    ∃ a, x = .ok a ∧ f a = .ok b := by
  cases x with
  | ok a => exact ⟨a, rfl, h⟩
  | error => cases h
  | panic => cases h
end Res

/-- a decoded record -/
abbrev Rec := List String

/-- `r[i]` (index out of range panics) -/
def fld (r : Rec) (i : Nat) : Res String :=
  match r[i]? with
  | some s => .ok s
  | none => .panic

/-- `r[i]` for an index the code has already bounds-checked -/
def fldD (r : Rec) (i : Nat) : String := (r[i]?).getD ""

/-! ## `decimal.NewFromString` -/

def isDig (c : Char) : Bool := '0' ≤ c && c ≤ '9'

def digitsVal (cs : List Char) : Nat := cs.foldl (fun acc c => acc * 10 + (c.toNat - '0'.toNat)) 0

/-- `[+-]?[0-9]+` as `strconv.ParseInt(_, 10, _)` and `big.Int.SetString(_, 10)` accept it -/
def parseSignedInt (cs : List Char) : Option Int :=
  let neg := cs.head? == some '-'
  let ds := match cs with
    | '-' :: r => r
    | '+' :: r => r
    | _ => cs
  if ds.isEmpty || !ds.all isDig then none
  else some (if neg then -(digitsVal ds : Int) else (digitsVal ds : Int))

def int32Min : Int := -2147483648
def int32Max : Int := 2147483647

/-- value `v · 10^e` -/
def scale10 (v : Int) (e : Int) : Rat :=
  if 0 ≤ e then ((v * (10 : Int) ^ e.toNat : Int) : Rat) else mkRat v (10 ^ (-e).toNat)

/-- `decimal.NewFromString`: optional exponent after the first `E`/`e`, at most one `.` anywhere in the mantissa, the
remaining characters an optionally signed digit string. -/
def newFromString (s : String) : Option Rat :=
  let cs := s.toList
  let mant := cs.takeWhile (fun c => c != 'E' && c != 'e')
  let rest := cs.dropWhile (fun c => c != 'E' && c != 'e')
  let expo : Option Int := match rest with
    | [] => some 0
    | _ :: e => (parseSignedInt e).bind (fun x => if int32Min ≤ x && x ≤ int32Max then some x else none)
  match expo with
  | none => none
  | some ex =>
    if (mant.filter (· == '.')).length > 1 then none else
    let intChars := mant.filter (· != '.')
    let fracLen : Nat := match mant.dropWhile (· != '.') with
      | [] => 0
      | _ :: f => f.length
    match parseSignedInt intChars with
    | none => none
    | some v =>
      let e : Int := ex - fracLen
      if e < int32Min || int32Max < e then none else some (scale10 v e)

def removeChar (x : Char) (s : String) : String := String.ofList (s.toList.filter (· != x))

/-- `decimal.NewFromString(strings.ReplaceAll(s, "'", ""))` (cumulus, postfinance, revolut, swissquote) -/
def parseDecimalApos (s : String) : Option Rat := newFromString (removeChar '\'' s)

/-- interactivebrokers `parseDecimal`: thousands separator `,` -/
def parseDecimalComma (s : String) : Option Rat := newFromString (removeChar ',' s)

/-! ## `time.Parse` for the layouts the importers use -/

/-- elements of a layout -/
inductive LEl where
  | day2      -- `02`: exactly two digits
  | day       -- `2`: one or two digits
  | mon2      -- `01`: exactly two digits, range checked at once
  | monShort  -- `Jan`
  | monLong   -- `January`
  | year4     -- `2006`
  | lit (cs : List Char)
  deriving Repr

def charVal (c : Char) : Nat := c.toNat - '0'.toNat

/-- `getnum(value, fixed)` -/
def getnum (fixed : Bool) : List Char → Option (Nat × List Char)
  | [] => none
  | a :: rest =>
    if !isDig a then none else
    match rest with
    | b :: rest' => if isDig b then some (charVal a * 10 + charVal b, rest') else if fixed then none else some (charVal a, rest)
    | [] => if fixed then none else some (charVal a, [])

def cutspace : List Char → List Char
  | ' ' :: r => cutspace r
  | cs => cs

/-- `skip(value, prefix)`: a space in the layout matches any run of spaces (or the end of the value).
The fuel is the length of the prefix (every step shortens it), which keeps the recursion structural. -/
def skipLitF : Nat → List Char → List Char → Option (List Char)
  | _, v, [] => some v
  | 0, _, _ :: _ => none
  | n + 1, v, ' ' :: p =>
    match v with
    | [] => skipLitF n [] (cutspace p)
    | c :: _ => if c != ' ' then none else skipLitF n (cutspace v) (cutspace p)
  | _ + 1, [], _ :: _ => none
  | n + 1, c :: v, x :: p => if c == x then skipLitF n v p else none

def skipLit (v p : List Char) : Option (List Char) := skipLitF p.length v p

/-- `match` of `time/format.go`: equal ignoring ASCII case -/
def matchFold : List Char → List Char → Bool
  | [], [] => true
  | a :: s, b :: t =>
    (a == b || (let x := a.toNat ||| 32; let y := b.toNat ||| 32; x == y && 97 ≤ x && x ≤ 122)) && matchFold s t
  | _, _ => false

/-- `lookup(tab, val)`: index of the first name that is a case-insensitive prefix of the value -/
def lookupName (tab : List String) (v : List Char) : Option (Nat × List Char) :=
  let rec go (i : Nat) : List String → Option (Nat × List Char)
    | [] => none
    | n :: rest =>
      let k := n.length
      if k ≤ v.length && matchFold (v.take k) n.toList then some (i, v.drop k) else go (i + 1) rest
  go 0 tab

def shortMonths : List String := ["Jan", "Feb", "Mar", "Apr", "May", "Jun", "Jul", "Aug", "Sep", "Oct", "Nov", "Dec"]
def longMonths : List String := ["January", "February", "March", "April", "May", "June", "July", "August", "September",
  "October", "November", "December"]

structure YMD where
  y : Int := 0
  m : Int := -1
  d : Int := -1
  deriving Repr

def parseEls : List LEl → YMD → List Char → Option YMD
  | [], acc, v => if v.isEmpty then some acc else none          -- extra text
  | .lit p :: els, acc, v => (skipLit v p).bind (parseEls els acc)
  | .day2 :: els, acc, v => (getnum true v).bind (fun (n, v') => parseEls els { acc with d := n } v')
  | .day :: els, acc, v => (getnum false v).bind (fun (n, v') => parseEls els { acc with d := n } v')
  | .mon2 :: els, acc, v =>
    (getnum true v).bind (fun (n, v') => if n = 0 || 12 < n then none else parseEls els { acc with m := n } v')
  | .monShort :: els, acc, v => (lookupName shortMonths v).bind (fun (i, v') => parseEls els { acc with m := i + 1 } v')
  | .monLong :: els, acc, v => (lookupName longMonths v).bind (fun (i, v') => parseEls els { acc with m := i + 1 } v')
  | .year4 :: els, acc, v =>
    match v with
    | a :: b :: c :: d :: v' =>
      if isDig a && isDig b && isDig c && isDig d then
        parseEls els { acc with y := (charVal a * 1000 + charVal b * 100 + charVal c * 10 + charVal d : Nat) } v'
      else none
    | _ => none

def daysIn (y m : Int) : Int :=
  if m = 2 then (if Date.isLeap y then 29 else 28)
  else if m = 4 || m = 6 || m = 9 || m = 11 then 30 else 31

/-- `time.Parse(layout, s)` as a day number; all five layouts set year, month and day -/
def parseDate (layout : List LEl) (s : String) : Option Int :=
  (parseEls layout {} s.toList).bind (fun r =>
    if r.d < 1 || daysIn r.y r.m < r.d then none else some (Date.ofCivil r.y r.m r.d))

/-- `02.01.2006` -/
def layoutDMYdot : List LEl := [.day2, .lit ['.'], .mon2, .lit ['.'], .year4]
/-- `02-01-2006` -/
def layoutDMYdash : List LEl := [.day2, .lit ['-'], .mon2, .lit ['-'], .year4]
/-- `2006-01-02` -/
def layoutYMD : List LEl := [.year4, .lit ['-'], .mon2, .lit ['-'], .day2]
/-- `2 Jan 2006` -/
def layoutDMonY : List LEl := [.day, .lit [' '], .monShort, .lit [' '], .year4]
/-- `January 2, 2006` -/
def layoutLong : List LEl := [.monLong, .lit [' '], .day, .lit [',', ' '], .year4]

/-- `s[:10]` followed by `time.Parse`: the slice panics on fewer than ten bytes; a non-ASCII byte among the first ten
makes the parse fail -/
def parseDatePrefix10 (layout : List LEl) (s : String) : Res Int :=
  let bs := s.toUTF8
  if bs.size < 10 then .panic else
  let pre := (bs.toList.take 10)
  if pre.all (fun b => b.toNat < 128) then
    Res.ofOption (parseDate layout (String.ofList (pre.map (fun b => Char.ofNat b.toNat))))
  else .error

/-! ## strings and regular expressions -/

theorem length_dropWhile_le {α : Type} (p : α → Bool) (l : List α) : (l.dropWhile p).length ≤ l.length := by
  induction l with
  | nil => simp
  | cons a t ih => simp only [List.dropWhile_cons]; split <;> simp <;> omega

/-- `unicode.IsSpace` -/
def isSpaceU (c : Char) : Bool :=
  let n := c.toNat
  (9 ≤ n && n ≤ 13) || n == 32 || n == 0x85 || n == 0xA0 || n == 0x1680 || (0x2000 ≤ n && n ≤ 0x200a) ||
  n == 0x2028 || n == 0x2029 || n == 0x202f || n == 0x205f || n == 0x3000

/-- regexp `\s` = `[\t\n\f\r ]` -/
def isSpaceRe (c : Char) : Bool := c == '\t' || c == '\n' || c == '\x0c' || c == '\r' || c == ' '

def trimLeft (p : Char → Bool) (cs : List Char) : List Char := cs.dropWhile p
def trimRight (p : Char → Bool) (cs : List Char) : List Char := (cs.reverse.dropWhile p).reverse

/-- `strings.TrimSpace` -/
def trimSpace (s : String) : String := String.ofList (trimRight isSpaceU (trimLeft isSpaceU s.toList))

/-- `strings.Trim(s, cutset)` -/
def trimCutset (cut : List Char) (s : String) : String :=
  String.ofList (trimRight (fun c => cut.contains c) (trimLeft (fun c => cut.contains c) s.toList))

/-- `regexp.MustCompile(`\s+`).ReplaceAllString(s, " ")` -/
def collapseWsChars : List Char → List Char
  | [] => []
  | c :: rest =>
    if isSpaceRe c then ' ' :: collapseWsChars (rest.dropWhile isSpaceRe) else c :: collapseWsChars rest
termination_by cs => cs.length
decreasing_by
  all_goals simp_wf
  · have := length_dropWhile_le isSpaceRe rest; omega

def collapseWs (s : String) : String := String.ofList (collapseWsChars s.toList)

/-- `strings.Fields` -/
def fieldsChars : List Char → List (List Char)
  | [] => []
  | c :: rest =>
    if isSpaceU c then fieldsChars rest
    else (c :: rest.takeWhile (fun x => !isSpaceU x)) :: fieldsChars (rest.dropWhile (fun x => !isSpaceU x))
termination_by cs => cs.length
decreasing_by
  all_goals simp_wf
  · have := length_dropWhile_le (fun x => !isSpaceU x) rest; omega

def fields (s : String) : List String := (fieldsChars s.toList).map String.ofList

def joinWith (sep : String) (xs : List String) : String := String.intercalate sep xs

/-- does the list start with the given characters? returns the rest -/
def stripPrefix : List Char → List Char → Option (List Char)
  | cs, [] => some cs
  | [], _ :: _ => none
  | c :: cs, p :: ps => if c == p then stripPrefix cs ps else none

/-- `\d\d.\d\d.\d\d\d\d` at the start of the list (`.` = any character but newline) -/
def dateReHere : List Char → Bool
  | a :: b :: x :: c :: d :: y :: e :: f :: g :: h :: _ =>
    isDig a && isDig b && x != '\n' && isDig c && isDig d && y != '\n' && isDig e && isDig f && isDig g && isDig h
  | _ => false

def anySuffix (p : List Char → Bool) : List Char → Bool
  | [] => p []
  | c :: cs => p (c :: cs) || anySuffix p cs

/-- `regexp.MustCompile(`\d\d.\d\d.\d\d\d\d`).MatchString` (unanchored) -/
def dateRe (s : String) : Bool := anySuffix dateReHere s.toList

def isUpperA (c : Char) : Bool := 'A' ≤ c && c ≤ 'Z'
def isAlphaA (c : Char) : Bool := ('A' ≤ c && c ≤ 'Z') || ('a' ≤ c && c ≤ 'z')
def isAlnumA (c : Char) : Bool := isAlphaA c || isDig c

/-- `<word> [A-Z]+ <mid> [A-Z]+` at the start of the list -/
def fxReHere (word mid : List Char) (cs : List Char) : Bool :=
  match stripPrefix cs word with
  | none => false
  | some r1 =>
    let u1 := r1.takeWhile isUpperA
    if u1.isEmpty then false else
    match stripPrefix (r1.dropWhile isUpperA) mid with
    | none => false
    | some r2 => (r2.head?.map isUpperA).getD false

/-- `Sold [A-Z]+ to [A-Z]+` -/
def fxSellRe (s : String) : Bool := anySuffix (fxReHere "Sold ".toList " to ".toList) s.toList
/-- `Bought [A-Z]+ from [A-Z]+` -/
def fxBuyRe (s : String) : Bool := anySuffix (fxReHere "Bought ".toList " from ".toList) s.toList

/-- first submatch of `Paid Out \(([A-Za-z]+)\)` -/
def paidOutRe (s : String) : Option String :=
  let rec go : List Char → Option String
    | [] => none
    | c :: cs =>
      match stripPrefix (c :: cs) "Paid Out (".toList with
      | some r =>
        let w := r.takeWhile isAlphaA
        if !w.isEmpty && (r.dropWhile isAlphaA).head? == some ')' then some (String.ofList w) else go cs
      | none => go cs
  go s.toList

/-- `regexp.MustCompile("[A-Za-z0-9]+").FindString` ("" when there is no match) -/
def firstAlnumRun (s : String) : String :=
  let cs := s.toList.dropWhile (fun c => !isAlnumA c)
  String.ofList (cs.takeWhile isAlnumA)

/-! ## registry -/

/-- `commodity.isValidCommodity` -/
def validCommodity (s : String) : Bool := !s.isEmpty && s.toList.all (fun c => Syntax.isAlphanumeric c.toNat)

/-- `Commodities().Get(name)` -/
def getCommodity (s : String) : Res Commodity := if validCommodity s then .ok s else .error
/-- `Commodities().MustGet(name)` -/
def mustCommodity (s : String) : Res Commodity := if validCommodity s then .ok s else .panic

/-- `account.isValidSegment` -/
def validSegment (s : String) : Bool := !s.isEmpty && s.toList.all (fun c => Syntax.isAlphanumeric c.toNat)

def validAccount (a : Account) : Bool :=
  match a.segments with
  | [] => false
  | t :: rest => (AccountType.ofName t).isSome && rest.all validSegment

/-- an account flag (`flags.AccountFlag.Value`): the registry rejects invalid names -/
def accountFlag (s : String) : Res Account :=
  let a := Account.ofName s
  if validAccount a then .ok a else .error

/-- `Accounts().TBDAccount()` -/
def tbd : Account := ⟨["Expenses", "TBD"]⟩

/-- `Accounts().ValuationAccountFor(a)` -/
def valuationAccountFor (a : Account) : Account := ⟨"Income" :: a.segments.drop 1⟩

/-! ## building and printing -/

/-- `posting.Builder{Credit, Debit, Commodity, Quantity}` -/
structure PB where
  credit : Account
  debit : Account
  commodity : Commodity
  quantity : Rat
  deriving Repr

/-- `posting.Builders.Build` -/
def buildPostings (bs : List PB) : List Posting :=
  bs.flatMap (fun b => postingBuild b.credit b.debit b.commodity b.quantity)

/-- `strings.ReplaceAll(desc, "\"", "'")`: the journal syntax has no escape for a double quote -/
def replaceQuotes (s : String) : String := String.ofList (s.toList.map (fun c => if c == '"' then '\'' else c))

/-- `transaction.Builder{Date, Description, Postings, Targets}.Build()`: the built transaction stores the description
with every double quote replaced by a single quote, so that `journal.Sort` orders by the text that is printed -/
def mkTx (date : Int) (desc : String) (bs : List PB) (targets : Option (List Commodity) := none) : Directive :=
  .tx { date := date, description := replaceQuotes desc, postings := buildPostings bs, targets := targets }

/-- `journal.Print(builder.Build())` over the directives in the order they were added -/
def render (ds : List Directive) : String := JournalPrinter.print (Builder.ofList ds).build

/-- `decimal.String()` -/
def decStr (r : Rat) : String := Dec.showDec r

end Knut.Import
