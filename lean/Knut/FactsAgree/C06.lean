import Knut.Generated.Census
/-! # C06 — the census of order-sensitive sites equals its reviewed expectation

`harness extract` (harness/facts_c06.go) walks, on every run of `bin/check`, every non-test Go file of /repo that
`go build -tags verif` compiles (main.go, cmd/**, lib/**), type-checked from source, and writes to
`Knut/Generated/Census.lean` every place where the result of a run can depend on something else than the input:

* `maprange` — a `range` over a map-typed expression, or over the result of a function that returns a slice in map order
  (dict.Keys, dict.Values, Set.Slice: found by a fixpoint, not by name); `mapcall` — a call of such a function elsewhere;
* `mapcallback` — a call of a function that runs a function it is given inside a map range (multimap Node.PostOrder, Amounts.SumOver /
  SumIntoBy / SumBy and what hands on to them), with that function, classified like the body of a map range;
* `sortcall` — a call of a function that hands one of its parameters on as the comparator of a sort (dict.SortedKeys,
  dict.SortedValues, Set.Sorted, Amounts.Index, multimap Node.Sort), with the comparator in the fingerprint; `sort` — every call of
  sort.Slice / sort.Sort / slices.Sort* / compare.Sort;
* `floatacc` — a float `+=`, `-=`, `*=`, `/=`, `x = x + …` (class `d` inside a map range or a channel range, `s` otherwise);
* `nondet` — time.Now & co., math/rand, crypto/rand, os.Getenv / Getpid / Hostname …, runtime.NumCPU / GOMAXPROCS / Gosched.

(Goroutines, channel operations and locks are in `FactsAgree/C06Conc.lean`.)  A `maprange` / `mapcallback` site is classified mechanically from its body:
**b** the loop only appends to one slice whose first later use is the first argument of an unconditional sort; **c** the body only performs
commutative-associative accumulation (exact decimals, integers, set inserts, writes under the loop's own key, min/max) guarded by pure
conditions that read nothing the loop writes; **d** anything else — the fingerprint then carries the effect tokens that disqualified it and a
hash of the normalised body (locals numbered, string literals and comments dropped, no positions).  **Class a** is an attribute next to these:
`Census.translated` lists the functions that the Go→Lean translator covers with every iteration order as an explicit parameter of the generated
definitions; the comment of such a site names the agreement theorem that quantifies over the orders, a class-d site of such a function has the
verdict `translated`, and `translated_still_covers` / `alsoTranslated_still_covered` check that the translator still covers them.  Kept apart
from b/c/d on purpose: when the translator grows, the list grows and no site changes.

This module is the REVIEWED expectation: one table per file (a changed, new or vanished site of a file fails the theorem named after
the file), the list of files with their counts (a site in a file that had none), and the allowlist of the class-d sites, each with a
verdict — `irrelevant` (the order cannot change the result), `unreachable` (no path to standard output), `translated` (class a) or `finding`
(the order CAN reach standard output: a genuine defect, recorded in known_findings.jsonl and design/09-defects.md, never allowlisted as harmless) —,
the reason, and the theorem of `Properties/C06*.lean` that covers the shape.  `harness extract` also prints every difference as
`census-new-site C06 <file>:<function>: <kind> class <c> [<fingerprint>]` (or `census-changed-site`, `census-gone-site`), which
`bin/check` adds to the broken obligations.  After a change of /repo: re-run `harness extract`, REVIEW the printed sites, then edit the
tables here — `bin/census-sync --write` rewrites them in the generated order, keeps the comments of unchanged sites and marks the others
`TODO REVIEW` (a site that can reach standard output in an order-dependent way is a finding, not an allowlist entry).

What this does not show: that the mechanical classes are right for code the classifier has never seen (it is conservative: anything it
does not recognise is class d), order leaks that are no `range`/sort/float/clock site (pointer values printed or compared, `select`
with several ready cases: see C06Conc), and the totality of the comparators named in the fingerprints (argued in the comments; the
named comparators `commodity.Compare`, `compare.Time`, `transaction.Compare`, `account.Compare` are tied by the translator's
agreement theorems). -/
namespace Knut.FactsAgree.C06
open Knut.Generated

abbrev Site := Census.Site

/-- `cmd/commands/fetch.go` -/
def cmd_commands_fetch_go : List Site := [
  -- `knut fetch` asks the quote server for the year that ends now: clock and network are inputs of this command, which is outside C06's claim
  ("cmd/commands/fetch.go", "fetchRunner.fetch", "nondet", "-", "time.Now"),
  -- `knut fetch` asks the quote server for the year that ends now: clock and network are inputs of this command, which is outside C06's claim
  ("cmd/commands/fetch.go", "fetchRunner.fetch", "nondet", "-", "time.Now"),
  -- ALLOWLISTED (irrelevant): the map is keyed by date, every price is added to the day of its own date, the file is printed from the sorted days
  ("cmd/commands/fetch.go", "fetchRunner.writeFile", "maprange", "d", "over map[time.Time]*price.Price; call:journal.Builder.Add h=858a3c3a")
]
theorem census_cmd_commands_fetch_go : Census.cmd_commands_fetch_go = cmd_commands_fetch_go := rfl

/-- `cmd/importer/revolut2/revolut2.go` -/
def cmd_importer_revolut2_revolut2_go : List Site := [
  -- comparator (date, then commodity name): a total order on the keys of p.balance, which are DateCommodityKey(date, commodity) only (C06_sort_oracle_irrelevant); tied to stdout by c06.go's `import revolut2` runs
  ("cmd/importer/revolut2/revolut2.go", "parser.addBalances", "sortcall", "b", "amounts.Amounts.Index by #5aa7368d")
]
theorem census_cmd_importer_revolut2_revolut2_go : Census.cmd_importer_revolut2_revolut2_go = cmd_importer_revolut2_revolut2_go := rfl

/-- `lib/amounts/amounts.go` -/
def lib_amounts_amounts_go : List Site := [
  -- class a: TransAmountsSum.Clone_agrees (every permutation of the keys)
  ("lib/amounts/amounts.go", "Amounts.Clone", "maprange", "c", "over amounts.Amounts; put[k]"),
  -- class a: TransAmountsSum.Commodities_agrees (every permutation of the keys)
  ("lib/amounts/amounts.go", "Amounts.Commodities", "maprange", "c", "over amounts.Amounts; acc:set.Set.Add"),
  -- TransAmountsSum.CommoditiesSorted_agrees: sorted by name for every order; commodity.Compare is total on interned commodities (commodity_Compare_smaller)
  ("lib/amounts/amounts.go", "Amounts.CommoditiesSorted", "sortcall", "b", "dict.SortedKeys by commodity.Compare"),
  -- class a: TransAmountsSum.Dates_agrees
  ("lib/amounts/amounts.go", "Amounts.Dates", "maprange", "c", "over amounts.Amounts; acc:set.Set.Add"),
  -- TransAmountsSum.DatesSorted_agrees; compare.Time is a total order on UTC-midnight dates (compare_Time_eq)
  ("lib/amounts/amounts.go", "Amounts.DatesSorted", "sortcall", "b", "dict.SortedKeys by compare.Time"),
  -- sorted only when the comparator is not nil: every CALLER is a `sortcall` site of its own with its comparator in the fingerprint (a nil comparator is class d there)
  ("lib/amounts/amounts.go", "Amounts.Index", "maprange", "b", "over amounts.Amounts; append then compare.Sort(if non-nil) by <param>"),
  -- see the callers
  ("lib/amounts/amounts.go", "Amounts.Index", "sort", "-", "compare.Sort by <param>"),
  -- class a: TransAmountsSum.Minus_agrees
  ("lib/amounts/amounts.go", "Amounts.Minus", "maprange", "c", "over amounts.Amounts; dec.Sub"),
  -- class a: TransAmountsSum.Plus_agrees
  ("lib/amounts/amounts.go", "Amounts.Plus", "maprange", "c", "over amounts.Amounts; dec.Add"),
  -- class a: TransAmountsSum.SumIntoBy_agrees (every permutation of the keys; every order of the deletion loop that reaches all keys)
  ("lib/amounts/amounts.go", "Amounts.SumIntoBy", "maprange", "c", "over amounts.Amounts; delete[k]"),
  -- class a: TransAmountsSum.SumIntoBy_agrees (every permutation of the keys; every order of the deletion loop that reaches all keys)
  ("lib/amounts/amounts.go", "Amounts.SumIntoBy", "maprange", "d", "over amounts.Amounts; dec.Add,call:value h=0e5d1e16"),
  -- class a: TransAmountsSum.SumOver_agrees (= the filtered sum, C06_sum_oracle_irrelevant)
  ("lib/amounts/amounts.go", "Amounts.SumOver", "maprange", "d", "over amounts.Amounts; dec.Add,call:value h=3839e290")
]
theorem census_lib_amounts_amounts_go : Census.lib_amounts_amounts_go = lib_amounts_amounts_go := rfl

/-- `lib/common/compare/compare.go` -/
def lib_common_compare_compare_go : List Site := [
  -- the one place where sort.Slice is called: less = (cmp(ts[i], ts[j]) == Smaller); unstable, so the result is a function of the multiset only for a total antisymmetric cmp (C06_sort_oracle_irrelevant) - every caller's comparator is in the census
  ("lib/common/compare/compare.go", "Sort", "sort", "-", "sort.Slice by #836547ef")
]
theorem census_lib_common_compare_compare_go : Census.lib_common_compare_compare_go = lib_common_compare_compare_go := rfl

/-- `lib/common/cpr/hook_verif.go` -/
def lib_common_cpr_hook_verif_go : List Site := [
  -- verif build only: the schedule perturbation of the checks (seeded by KNUT_VERIF_SEED); hook_off.go is empty
  ("lib/common/cpr/hook_verif.go", "hookYield", "nondet", "-", "runtime.Gosched"),
  -- verif build only: the schedule perturbation of the checks (seeded by KNUT_VERIF_SEED); hook_off.go is empty
  ("lib/common/cpr/hook_verif.go", "hookYield", "nondet", "-", "time.Sleep"),
  -- verif build only: KNUT_VERIF_SEED / KNUT_VERIF_TRACE select the perturbation; the plain build does not read the environment
  ("lib/common/cpr/hook_verif.go", "init", "nondet", "-", "os.Getenv"),
  -- verif build only: KNUT_VERIF_SEED / KNUT_VERIF_TRACE select the perturbation; the plain build does not read the environment
  ("lib/common/cpr/hook_verif.go", "init", "nondet", "-", "os.Getenv")
]
theorem census_lib_common_cpr_hook_verif_go : Census.lib_common_cpr_hook_verif_go = lib_common_cpr_hook_verif_go := rfl

/-- `lib/common/date/date.go` -/
def lib_common_date_date_go : List Site := [
  -- default end of the period flags (cmd/flags/templates.go): the current date is an input of balance / register / portfolio; the checks pass --to explicitly
  ("lib/common/date/date.go", "Today", "nondet", "-", "time.Now")
]
theorem census_lib_common_date_date_go : Census.lib_common_date_date_go = lib_common_date_date_go := rfl

/-- `lib/common/dict/dict.go` -/
def lib_common_dict_dict_go : List Site := [
  -- ALLOWLISTED (irrelevant by its callers): hands out map order - every call of it is a `mapcall` / `maprange over call` site of its own
  ("lib/common/dict/dict.go", "Keys", "maprange", "d", "over map[K]V; append unsorted h=a6ce1bcd"),
  -- Keys sorted at once with the caller's comparator: every caller is a `sortcall` site
  ("lib/common/dict/dict.go", "SortedKeys", "mapcall", "b", "call dict.Keys then compare.Sort by <param>"),
  -- translator: pinned text = prelude `sortedKeys` (TransPrice.sortedKeys_agrees)
  ("lib/common/dict/dict.go", "SortedKeys", "sort", "-", "compare.Sort by <param>"),
  -- Values sorted at once with the caller's comparator: every caller is a `sortcall` site
  ("lib/common/dict/dict.go", "SortedValues", "mapcall", "b", "call dict.Values then compare.Sort by <param>"),
  -- see the callers
  ("lib/common/dict/dict.go", "SortedValues", "sort", "-", "compare.Sort by <param>"),
  -- ALLOWLISTED (irrelevant by its callers): as Keys
  ("lib/common/dict/dict.go", "Values", "maprange", "d", "over map[K]V; append unsorted h=a6ce1bcd")
]
theorem census_lib_common_dict_dict_go : Census.lib_common_dict_dict_go = lib_common_dict_dict_go := rfl

/-- `lib/common/multimap/multimap.go` -/
def lib_common_multimap_multimap_go : List Site := [
  -- ALLOWLISTED (irrelevant by its callers): visits the children in map order - pinned by source text in the translator (GoSem/Multimap.lean `MNode.postOrder` takes the order of every node's children as a parameter); the closures passed to it are sites of their callers
  ("lib/common/multimap/multimap.go", "Node.PostOrder", "maprange", "d", "over map[string]*multimap.Node[V]; call:multimap.Node.PostOrder h=29297716"),
  -- ALLOWLISTED (irrelevant): sorts every child's subtree; the recursive calls write disjoint nodes (`MNode.sort`)
  ("lib/common/multimap/multimap.go", "Node.Sort", "maprange", "d", "over map[string]*multimap.Node[V]; call:multimap.Node.Sort h=0c5d30ff"),
  -- children sorted by the caller's comparator: the callers are `sortcall` sites
  ("lib/common/multimap/multimap.go", "Node.Sort", "sortcall", "b", "dict.SortedValues by <param>"),
  -- the recursive call hands the comparator on
  ("lib/common/multimap/multimap.go", "Node.Sort", "sortcall", "b", "multimap.Node.Sort by <param>")
]
theorem census_lib_common_multimap_multimap_go : Census.lib_common_multimap_multimap_go = lib_common_multimap_multimap_go := rfl

/-- `lib/common/set/set.go` -/
def lib_common_set_set_go : List Site := [
  -- ALLOWLISTED (irrelevant by its callers): hands out map order - only caller is Set.Sorted
  ("lib/common/set/set.go", "Set.Slice", "maprange", "d", "over set.Set[T]; append unsorted h=a6ce1bcd"),
  -- sorted at once with the caller's comparator: every caller is a `sortcall` site
  ("lib/common/set/set.go", "Set.Sorted", "mapcall", "b", "call set.Set.Slice then compare.Sort by <param>"),
  -- see the callers
  ("lib/common/set/set.go", "Set.Sorted", "sort", "-", "compare.Sort by <param>")
]
theorem census_lib_common_set_set_go : Census.lib_common_set_set_go = lib_common_set_set_go := rfl

/-- `lib/journal/beancount/beancount.go` -/
def lib_journal_beancount_beancount_go : List Site := [
  -- a day's transactions before printing: transaction.Compare = cmpTx (TransTransaction.Compare_agrees); ties are equal in every printed field
  ("lib/journal/beancount/beancount.go", "Transcode", "sort", "-", "compare.Sort by transaction.Compare")
]
theorem census_lib_journal_beancount_beancount_go : Census.lib_journal_beancount_beancount_go = lib_journal_beancount_beancount_go := rfl

/-- `lib/journal/check/check.go` -/
def lib_journal_check_check_go : List Site := [
  -- class a: TransCheck.close_agrees (every order that reaches all keys; which non-zero position an error names is in the error text on stderr)
  ("lib/journal/check/check.go", "Checker.close", "maprange", "d", "over amounts.Amounts; delete[k],return h=38c580c5"),
  -- `check --write`: balances collected, then sorted by assertion.CompareBalance (account, commodity: total on the keys AccountCommodityKey) - C06_sort_oracle_irrelevant; tied by c06.go's `check --write` runs
  ("lib/journal/check/check.go", "Checker.dayEnd", "maprange", "b", "over amounts.Amounts; append then slices.SortFunc by assertion.CompareBalance"),
  -- see the map range
  ("lib/journal/check/check.go", "Checker.dayEnd", "sort", "-", "slices.SortFunc by assertion.CompareBalance")
]
theorem census_lib_journal_check_check_go : Census.lib_journal_check_check_go = lib_journal_check_check_go := rfl

/-- `lib/journal/journal.go` -/
def lib_journal_journal_go : List Site := [
  -- days sorted by date, one day per date (CompareDays is total on the values of j.days): C06_journal_deterministic
  ("lib/journal/journal.go", "Builder.Build", "sortcall", "b", "dict.SortedValues by CompareDays"),
  -- ALLOWLISTED (unreachable): a debugging helper without callers; no fmt verb ever receives a Performance
  ("lib/journal/journal.go", "Performance.String", "maprange", "d", "over map[*commodity.Commodity]float64; call:fmt.Fprintf h=4f787498"),
  -- ALLOWLISTED (unreachable): a debugging helper without callers; no fmt verb ever receives a Performance
  ("lib/journal/journal.go", "Performance.String", "maprange", "d", "over map[*commodity.Commodity]float64; call:fmt.Fprintf h=4f787498"),
  -- ALLOWLISTED (unreachable): a debugging helper without callers; no fmt verb ever receives a Performance
  ("lib/journal/journal.go", "Performance.String", "maprange", "d", "over map[*commodity.Commodity]float64; call:fmt.Fprintf h=4f787498"),
  -- ALLOWLISTED (unreachable): a debugging helper without callers; no fmt verb ever receives a Performance
  ("lib/journal/journal.go", "Performance.String", "maprange", "d", "over map[*commodity.Commodity]float64; call:fmt.Fprintf h=4f787498"),
  -- ALLOWLISTED (unreachable): a debugging helper without callers; no fmt verb ever receives a Performance
  ("lib/journal/journal.go", "Performance.String", "maprange", "d", "over map[*commodity.Commodity]float64; call:fmt.Fprintf h=4f787498"),
  -- ALLOWLISTED (unreachable): a debugging helper without callers; no fmt verb ever receives a Performance
  ("lib/journal/journal.go", "Performance.String", "maprange", "d", "over map[*commodity.Commodity]float64; call:fmt.Fprintf h=4f787498")
]
theorem census_lib_journal_journal_go : Census.lib_journal_journal_go = lib_journal_journal_go := rfl

/-- `lib/journal/performance/performance.go` -/
def lib_journal_performance_performance_go : List Site := [
  -- over the postings of ONE transaction in their fixed order; across the transactions of a day the cells of Inflow/Outflow receive their addends in the day's transaction order = file arrival order (known finding returns-ill-conditioned-period-float-sum-in-arrival-order)
  ("lib/journal/performance/performance.go", "Calculator.ComputeFlows", "floatacc", "s", "+= element in range"),
  -- over the postings of ONE transaction in their fixed order; across the transactions of a day the cells of Inflow/Outflow receive their addends in the day's transaction order = file arrival order (known finding returns-ill-conditioned-period-float-sum-in-arrival-order)
  ("lib/journal/performance/performance.go", "Calculator.ComputeFlows", "floatacc", "s", "+= element in range"),
  -- over the postings of ONE transaction in their fixed order; across the transactions of a day the cells of Inflow/Outflow receive their addends in the day's transaction order = file arrival order (known finding returns-ill-conditioned-period-float-sum-in-arrival-order)
  ("lib/journal/performance/performance.go", "Calculator.ComputeFlows", "floatacc", "s", "-= element in range"),
  -- portfolioFlows over the day's transactions in arrival order (same known finding)
  ("lib/journal/performance/performance.go", "Calculator.ComputeFlows", "floatacc", "s", "-= var in range"),
  -- ALLOWLISTED (irrelevant): see the map range
  ("lib/journal/performance/performance.go", "Calculator.ComputeValues", "floatacc", "d", "+= element in maprange"),
  -- class a: TransPerformance.ComputeValues_range_agrees / ComputeValues_DayEnd_agrees (every iteration order); the keys of `values` are CommodityKey(c) only, so every float cell of the fresh map gets exactly one addend
  ("lib/journal/performance/performance.go", "Calculator.ComputeValues", "maprange", "d", "over amounts.Amounts; float+=,write-through-expression h=a5f485a1"),
  -- running product over the days in date order (the days are sorted; cpr.Seq keeps the order: C19)
  ("lib/journal/performance/performance.go", "Perf", "floatacc", "s", "*= var in closure"),
  -- one addend each (v0 += sum(...))
  ("lib/journal/performance/performance.go", "Performance", "floatacc", "s", "+= var in straight"),
  -- one addend each (v0 += sum(...))
  ("lib/journal/performance/performance.go", "Performance", "floatacc", "s", "+= var in straight"),
  -- one addend each (v0 += sum(...))
  ("lib/journal/performance/performance.go", "Performance", "floatacc", "s", "+= var in straight"),
  -- one addend each (v0 += sum(...))
  ("lib/journal/performance/performance.go", "Performance", "floatacc", "s", "+= var in straight"),
  -- ALLOWLISTED (irrelevant): see the map range
  ("lib/journal/performance/performance.go", "split", "floatacc", "d", "+= element in maprange"),
  -- ALLOWLISTED (irrelevant): see the map range
  ("lib/journal/performance/performance.go", "split", "floatacc", "d", "+= element in maprange"),
  -- class a: translated (Generated.TransPerformance.split takes the order); agreement theorem pending (TransPerformance part 1: ComputeValues, sum, Performance); the cells are indexed by the loop's own key: one addend per cell and call
  ("lib/journal/performance/performance.go", "split", "maprange", "d", "over map[*commodity.Commodity]float64; float+=,write-through-expression h=d1f0968f"),
  -- over the keys sorted by name (fix 6606650): fixed order
  ("lib/journal/performance/performance.go", "sum", "floatacc", "s", "+= var in range"),
  -- commodity.Compare is total on interned commodities
  ("lib/journal/performance/performance.go", "sum", "sortcall", "b", "dict.SortedKeys by commodity.Compare")
]
theorem census_lib_journal_performance_performance_go : Census.lib_journal_performance_performance_go = lib_journal_performance_performance_go := rfl

/-- `lib/journal/performance/universe.go` -/
def lib_journal_performance_universe_go : List Site := [
  -- ALLOWLISTED (irrelevant): a commodity listed twice is an ERROR whichever class is seen first (C06-e turns that into first-arrival-wins); otherwise every commodity is written once
  ("lib/journal/performance/universe.go", "fromYAML", "maprange", "d", "over performance.yamlUniverseFile; append,call:commodity.Registry.Get,reads-what-the-loop-writes,return h=043f90dd")
]
theorem census_lib_journal_performance_universe_go : Census.lib_journal_performance_universe_go = lib_journal_performance_universe_go := rfl

/-- `lib/journal/process.go` -/
def lib_journal_process_go : List Site := [
  -- class a: TransProcess.Close_range_agrees / CloseAccounts_day_agrees (closing transactions in the order of the keys; sorted by the Sort stage, summed by the reports)
  ("lib/journal/process.go", "CloseAccounts", "maprange", "d", "over amounts.Amounts; append h=aae72965"),
  -- the Sort stage: a day's transactions by transaction.Compare = cmpTx. GAP found by the review (reported, see design/06-C06.md): Compare does not look at Targets (`@performance`), so same-day transactions of different files that differ only there tie and `print` shows them in arrival order
  ("lib/journal/process.go", "Sort", "sort", "-", "compare.Sort by transaction.Compare"),
  -- class a: TransProcess.DayStart_range_agrees / Valuate_DayStart_agrees (adjustment transactions in the order of the keys, for every order; sorted by the Sort stage, summed by the reports)
  ("lib/journal/process.go", "Valuate", "maprange", "d", "over amounts.Amounts; append,call:account.Registry.ValuationAccountFor,return h=59989ba6")
]
theorem census_lib_journal_process_go : Census.lib_journal_process_go = lib_journal_process_go := rfl

/-- `lib/model/account/registry.go` -/
def lib_model_account_registry_go : List Site := [
  -- ALLOWLISTED (irrelevant): creates the five type accounts, each under its own name
  ("lib/model/account/registry.go", "NewRegistry", "maprange", "d", "over map[string]account.Type; call:account.Registry.Get h=733eecfd")
]
theorem census_lib_model_account_registry_go : Census.lib_model_account_registry_go = lib_model_account_registry_go := rfl

/-- `lib/model/price/prices.go` -/
def lib_model_price_prices_go : List Site := [
  -- neighbours in name order (C06-a reverts this): TransPrice.normalize_loop_agrees; C12 normalize invariance
  ("lib/model/price/prices.go", "Prices.normalize", "sortcall", "b", "dict.SortedKeys by commodity.Compare")
]
theorem census_lib_model_price_prices_go : Census.lib_model_price_prices_go = lib_model_price_prices_go := rfl

/-- `lib/reports/balance/renderer.go` -/
def lib_reports_balance_renderer_go : List Site := [
  -- ALLOWLISTED (irrelevant): the mapper handed to Totals (→ PostOrder → SumIntoBy, run in map order) is KeyMapper{Date: Identity, Commodity: IdentityIf(b)}.Build(): a pure function of the key (TransAmountsSum.KeyMapper_Build_agrees, TransReportTotals.mfR_Build)
  ("lib/reports/balance/renderer.go", "Renderer.Render", "mapcallback", "d", "balance.Report.Totals with #b6a538bd"),
  -- ALLOWLISTED (irrelevant): the same mapper handed to SumBy; TransAmountsSum.SumBy_agrees holds for every order
  ("lib/reports/balance/renderer.go", "Renderer.renderNode", "mapcallback", "d", "amounts.Amounts.SumBy with #7340a964")
]
theorem census_lib_reports_balance_renderer_go : Census.lib_reports_balance_renderer_go = lib_reports_balance_renderer_go := rfl

/-- `lib/reports/balance/report.go` -/
def lib_reports_balance_report_go : List Site := [
  -- children by segment: total on siblings (distinct segments); C06Report.rows_order_perm
  ("lib/reports/balance/report.go", "Report.SortAlpha", "sortcall", "b", "multimap.Node.Sort by local{#7e61bf03}"),
  -- children by segment: total on siblings (distinct segments); C06Report.rows_order_perm
  ("lib/reports/balance/report.go", "Report.SortAlpha", "sortcall", "b", "multimap.Node.Sort by local{#7e61bf03}"),
  -- class a: the filter `k.Valuation != nil` handed to SumOver is pure (TransAmountsSum.SumOver_agrees: every order)
  ("lib/reports/balance/report.go", "Report.SortWeighted", "mapcallback", "d", "amounts.Amounts.SumOver with a function literal; return h=e3490b2d"),
  -- class a: computeWeights run in post-order over AL (children of every node in map order: MNode.postOrder takes the order per path); it writes the visited node's Weight from exact decimals
  ("lib/reports/balance/report.go", "Report.SortWeighted", "mapcallback", "d", "multimap.Node.PostOrder with a function literal; assign,call:amounts.Amounts.SumOver,write-through-local-reference h=99d77b96"),
  -- class a: the same over EIE
  ("lib/reports/balance/report.go", "Report.SortWeighted", "mapcallback", "d", "multimap.Node.PostOrder with a function literal; assign,call:amounts.Amounts.SumOver,write-through-local-reference h=99d77b96"),
  -- class a: translated (Generated.TransReport.Report.SortWeighted takes the children's order per path); no agreement theorem yet; the weights are exact decimals added up: C06_comm_fold_oracle_irrelevant
  ("lib/reports/balance/report.go", "Report.SortWeighted", "maprange", "c", "over map[string]*multimap.Node[balance.Value]; dec.Add"),
  -- (type at level 1, weight, segment): total on siblings; C06Report.rows_order_perm, table_perm (needs accounts that start with a type name: table_perm_needs_wf)
  ("lib/reports/balance/report.go", "Report.SortWeighted", "sortcall", "b", "multimap.Node.Sort by local{#7080b596}"),
  -- (type at level 1, weight, segment): total on siblings; C06Report.rows_order_perm, table_perm (needs accounts that start with a type name: table_perm_needs_wf)
  ("lib/reports/balance/report.go", "Report.SortWeighted", "sortcall", "b", "multimap.Node.Sort by local{#7080b596}"),
  -- class a: TransReportTotals.Totals_agrees (every iteration order of every node's amounts and children): the closure sums the node's amounts into the AL total
  ("lib/reports/balance/report.go", "Report.Totals", "mapcallback", "d", "multimap.Node.PostOrder with a function literal; call:amounts.Amounts.SumIntoBy h=b6dc443e"),
  -- class a: the same for EIE
  ("lib/reports/balance/report.go", "Report.Totals", "mapcallback", "d", "multimap.Node.PostOrder with a function literal; call:amounts.Amounts.SumIntoBy h=b6dc443e"),
  -- ALLOWLISTED (irrelevant): first child in map order whose account is below level 1 decides, but every child's account has the node's path as its parent, so all candidates are the same registry account
  ("lib/reports/balance/report.go", "setAccounts", "maprange", "d", "over map[string]*multimap.Node[balance.Value]; assign,call:balance.setAccounts,reads-what-the-loop-writes h=195dfa7d")
]
theorem census_lib_reports_balance_report_go : Census.lib_reports_balance_report_go = lib_reports_balance_report_go := rfl

/-- `lib/reports/register/register.go` -/
def lib_reports_register_register_go : List Site := [
  -- dates: total
  ("lib/reports/register/register.go", "Renderer.Render", "sortcall", "b", "dict.SortedKeys by compare.Time"),
  -- fix e77962c: the comparator is extended by every displayed column, so tied keys print the same row
  ("lib/reports/register/register.go", "Renderer.renderNode", "sortcall", "b", "amounts.Amounts.Index by local{compareAccountAndCommodities | compareAccount | compare.Combine(·, compareSource) | compare.Combine(·, compareDescription)}")
]
theorem census_lib_reports_register_register_go : Census.lib_reports_register_register_go = lib_reports_register_register_go := rfl

/-- `lib/reports/weights/weights.go` -/
def lib_reports_weights_weights_go : List Site := [
  -- the day's total over the commodities in name order (fix 19865c1): fixed order
  ("lib/reports/weights/weights.go", "Query.Execute", "floatacc", "s", "+= var in range"),
  -- fix 19865c1 (known finding weights-float-sum-in-map-order, fixed): commodity.Compare is total on interned commodities
  ("lib/reports/weights/weights.go", "Query.Execute", "sortcall", "b", "dict.SortedKeys by commodity.Compare"),
  -- fix 54048cb (second part of the same finding): r.Add adds the weights of commodities that a mapping collapses into one node in name order
  ("lib/reports/weights/weights.go", "Query.Execute", "sortcall", "b", "dict.SortedKeys by commodity.Compare"),
  -- -a: children by segment, total on siblings
  ("lib/reports/weights/weights.go", "Renderer.Render", "sortcall", "b", "multimap.Node.Sort by multimap.SortAlpha"),
  -- dates: total
  ("lib/reports/weights/weights.go", "Renderer.Render", "sortcall", "b", "set.Set.Sorted by compare.Time"),
  -- called from the map range of Query.Execute (see there)
  ("lib/reports/weights/weights.go", "Report.Add", "floatacc", "s", "+= element in straight"),
  -- ALLOWLISTED (irrelevant): see the map range
  ("lib/reports/weights/weights.go", "Report.PropagateWeights", "floatacc", "d", "+= element in maprange"),
  -- ALLOWLISTED (irrelevant): the closure writes only the visited node's Weights, from its children (complete in post-order, taken in name order); siblings are independent
  ("lib/reports/weights/weights.go", "Report.PropagateWeights", "mapcallback", "d", "multimap.Node.PostOrder with a function literal; assign,call:dict.SortedKeys,float+=,write-through-local-reference h=07a58be6"),
  -- ALLOWLISTED (irrelevant): the parent's cell of the loop's own key (the date) gets one addend per child, and the children come in name order (fix 19865c1)
  ("lib/reports/weights/weights.go", "Report.PropagateWeights", "maprange", "d", "over map[time.Time]float64; float+= h=1e0e5819"),
  -- fix 19865c1: children in name order; strings: total
  ("lib/reports/weights/weights.go", "Report.PropagateWeights", "sortcall", "b", "dict.SortedKeys by compare.Ordered[string]"),
  -- over the dates in ascending order (fix 19865c1): fixed order
  ("lib/reports/weights/weights.go", "Report.SortWeighted", "floatacc", "s", "+= var in range"),
  -- ALLOWLISTED (irrelevant): the closure writes only the visited node's Weight, from its own Weights in date order
  ("lib/reports/weights/weights.go", "Report.SortWeighted", "mapcallback", "d", "multimap.Node.PostOrder with a function literal; assign,call:dict.SortedKeys,write-through-local-reference h=a3074081"),
  -- fix 19865c1; compare.Time is total
  ("lib/reports/weights/weights.go", "Report.SortWeighted", "sortcall", "b", "dict.SortedKeys by compare.Time"),
  -- (weight, segment) with weights compared exactly: total on siblings
  ("lib/reports/weights/weights.go", "Report.SortWeighted", "sortcall", "b", "multimap.Node.Sort by #524849c8")
]
theorem census_lib_reports_weights_weights_go : Census.lib_reports_weights_weights_go = lib_reports_weights_weights_go := rfl

/-- `lib/syntax/bayes/bayes.go` -/
def lib_syntax_bayes_bayes_go : List Site := [
  -- candidates in name order, first maximum wins: total
  ("lib/syntax/bayes/bayes.go", "Model.inferAccount", "sortcall", "b", "dict.SortedKeys by compare.Ordered[string]"),
  -- over the tokens in sorted order: fixed
  ("lib/syntax/bayes/bayes.go", "Model.scoreCandidate", "floatacc", "s", "+= var in range"),
  -- over the tokens in sorted order: fixed
  ("lib/syntax/bayes/bayes.go", "Model.scoreCandidate", "floatacc", "s", "+= var in range"),
  -- tokens are strings: total
  ("lib/syntax/bayes/bayes.go", "Model.scoreCandidate", "sortcall", "b", "dict.SortedKeys by compare.Ordered[token]"),
  -- ALLOWLISTED (irrelevant): one integer counter per (token, account) is incremented; the tokens of a set are pairwise different (C06_comm_fold_oracle_irrelevant; the same argument makes the model independent of the arrival order of the training files)
  ("lib/syntax/bayes/bayes.go", "Model.update", "maprange", "d", "over set.Set[bayes.token]; int+=,write-through-expression h=df28d4e3")
]
theorem census_lib_syntax_bayes_bayes_go : Census.lib_syntax_bayes_bayes_go = lib_syntax_bayes_bayes_go := rfl

/-- the files that have such sites, with the number of sites of each: a site in any other file, or one more or less in
one of these, fails here (`harness extract` prints the site as `census-new-site C06 <file>:<function>: …`) -/
theorem census_files_and_counts : Census.files = [
  ("cmd/commands/fetch.go", 3),
  ("cmd/importer/revolut2/revolut2.go", 1),
  ("lib/amounts/amounts.go", 12),
  ("lib/common/compare/compare.go", 1),
  ("lib/common/cpr/hook_verif.go", 4),
  ("lib/common/date/date.go", 1),
  ("lib/common/dict/dict.go", 6),
  ("lib/common/multimap/multimap.go", 4),
  ("lib/common/set/set.go", 3),
  ("lib/journal/beancount/beancount.go", 1),
  ("lib/journal/check/check.go", 3),
  ("lib/journal/journal.go", 7),
  ("lib/journal/performance/performance.go", 16),
  ("lib/journal/performance/universe.go", 1),
  ("lib/journal/process.go", 3),
  ("lib/model/account/registry.go", 1),
  ("lib/model/price/prices.go", 1),
  ("lib/reports/balance/renderer.go", 2),
  ("lib/reports/balance/report.go", 11),
  ("lib/reports/register/register.go", 2),
  ("lib/reports/weights/weights.go", 14),
  ("lib/syntax/bayes/bayes.go", 5)
] := rfl

-- ALLOWLIST-SECTION (the tables above are what `harness extract` compares with; below, the class-d sites again, with verdict, reason, covering theorem)

structure Allowed where
  site : Site
  /-- `irrelevant`: the order cannot change the result; `unreachable`: no path to standard output; `finding`: a genuine defect (recorded);
      `translated`: the site lies in a function of `Census.translated` (class a) and the named agreement theorem quantifies over the order -/
  verdict : String
  reason : String
  /-- the theorem of Properties/C06*.lean whose shape this is -/
  cover : String

def allowlist : List Allowed := [
  ⟨("cmd/commands/fetch.go", "fetchRunner.writeFile", "maprange", "d", "over map[time.Time]*price.Price; call:journal.Builder.Add h=858a3c3a"),
   "irrelevant", "the map is keyed by date and Builder.Add puts every price into the day of its own date; the file is printed from the days sorted by date",
   "C06_journal_deterministic"⟩,
  ⟨("lib/amounts/amounts.go", "Amounts.SumIntoBy", "maprange", "d", "over amounts.Amounts; dec.Add,call:value h=0e5d1e16"),
   "translated", "TransAmountsSum.SumIntoBy_agrees: for every permutation of the keys every lookup is dest[x] + the sum of am[k] over the keys that pred accepts and mapr sends to x; pred and mapr are the callers' functions (their `mapcallback` sites)",
   "C06_sum_oracle_irrelevant"⟩,
  ⟨("lib/amounts/amounts.go", "Amounts.SumOver", "maprange", "d", "over amounts.Amounts; dec.Add,call:value h=3839e290"),
   "translated", "TransAmountsSum.SumOver_agrees: the filtered sum, for every permutation of the keys; pred is the caller's function (`mapcallback` site)",
   "C06_sum_oracle_irrelevant"⟩,
  ⟨("lib/common/dict/dict.go", "Keys", "maprange", "d", "over map[K]V; append unsorted h=a6ce1bcd"),
   "irrelevant", "hands out map order; every call is a site of its own: SortedKeys sorts at once with the caller's comparator",
   "C06_sort_oracle_irrelevant"⟩,
  ⟨("lib/common/dict/dict.go", "Values", "maprange", "d", "over map[K]V; append unsorted h=a6ce1bcd"),
   "irrelevant", "hands out map order; every call is a site of its own: SortedValues sorts at once with the caller's comparator",
   "C06_sort_oracle_irrelevant"⟩,
  ⟨("lib/common/multimap/multimap.go", "Node.PostOrder", "maprange", "d", "over map[string]*multimap.Node[V]; call:multimap.Node.PostOrder h=29297716"),
   "irrelevant", "visits the children in map order and calls the caller's closure: pinned by source text in the translator, MNode.postOrder takes every node's order of children as a parameter; the closures are sites of the callers (balance Totals: TransReportTotals.Totals_agrees for every order)",
   "C06_comm_fold_oracle_irrelevant"⟩,
  ⟨("lib/common/multimap/multimap.go", "Node.Sort", "maprange", "d", "over map[string]*multimap.Node[V]; call:multimap.Node.Sort h=0c5d30ff"),
   "irrelevant", "sorts the subtree of every child; the recursive calls write disjoint nodes",
   "C06_comm_fold_oracle_irrelevant"⟩,
  ⟨("lib/common/set/set.go", "Set.Slice", "maprange", "d", "over set.Set[T]; append unsorted h=a6ce1bcd"),
   "irrelevant", "hands out map order; its only caller Set.Sorted sorts at once with the caller's comparator",
   "C06_sort_oracle_irrelevant"⟩,
  ⟨("lib/journal/check/check.go", "Checker.close", "maprange", "d", "over amounts.Amounts; delete[k],return h=38c580c5"),
   "translated", "TransCheck.close_agrees: for every order that reaches all keys the account is rejected iff one of its positions is not zero (close_loop_error / close_loop_ok); which position the message names goes to stderr",
   "C06_comm_fold_oracle_irrelevant"⟩,
  ⟨("lib/journal/journal.go", "Performance.String", "maprange", "d", "over map[*commodity.Commodity]float64; call:fmt.Fprintf h=4f787498"),
   "unreachable", "debugging helper without callers; no fmt verb receives a Performance",
   "-"⟩,
  ⟨("lib/journal/journal.go", "Performance.String", "maprange", "d", "over map[*commodity.Commodity]float64; call:fmt.Fprintf h=4f787498"),
   "unreachable", "debugging helper without callers; no fmt verb receives a Performance",
   "-"⟩,
  ⟨("lib/journal/journal.go", "Performance.String", "maprange", "d", "over map[*commodity.Commodity]float64; call:fmt.Fprintf h=4f787498"),
   "unreachable", "debugging helper without callers; no fmt verb receives a Performance",
   "-"⟩,
  ⟨("lib/journal/journal.go", "Performance.String", "maprange", "d", "over map[*commodity.Commodity]float64; call:fmt.Fprintf h=4f787498"),
   "unreachable", "debugging helper without callers; no fmt verb receives a Performance",
   "-"⟩,
  ⟨("lib/journal/journal.go", "Performance.String", "maprange", "d", "over map[*commodity.Commodity]float64; call:fmt.Fprintf h=4f787498"),
   "unreachable", "debugging helper without callers; no fmt verb receives a Performance",
   "-"⟩,
  ⟨("lib/journal/journal.go", "Performance.String", "maprange", "d", "over map[*commodity.Commodity]float64; call:fmt.Fprintf h=4f787498"),
   "unreachable", "debugging helper without callers; no fmt verb receives a Performance",
   "-"⟩,
  ⟨("lib/journal/performance/performance.go", "Calculator.ComputeValues", "floatacc", "d", "+= element in maprange"),
   "irrelevant", "the keys of values are CommodityKey(c) only, so k -> k.Commodity is injective: every float cell of the fresh map gets exactly one addend",
   "C06_comm_fold_oracle_irrelevant"⟩,
  ⟨("lib/journal/performance/performance.go", "Calculator.ComputeValues", "maprange", "d", "over amounts.Amounts; float+=,write-through-expression h=a5f485a1"),
   "translated", "TransPerformance.ComputeValues_range_agrees / ComputeValues_DayEnd_agrees for every iteration order; the keys of values are CommodityKey(c) only, so every float cell of the fresh map gets exactly one addend",
   "C06_comm_fold_oracle_irrelevant"⟩,
  ⟨("lib/journal/performance/performance.go", "split", "floatacc", "d", "+= element in maprange"),
   "irrelevant", "the cells are indexed by the loop's own key: one addend per cell and call",
   "C06_comm_fold_oracle_irrelevant"⟩,
  ⟨("lib/journal/performance/performance.go", "split", "floatacc", "d", "+= element in maprange"),
   "irrelevant", "the cells are indexed by the loop's own key: one addend per cell and call",
   "C06_comm_fold_oracle_irrelevant"⟩,
  ⟨("lib/journal/performance/performance.go", "split", "maprange", "d", "over map[*commodity.Commodity]float64; float+=,write-through-expression h=d1f0968f"),
   "translated", "Generated.TransPerformance.split takes the order (agreement theorem pending, TransPerformance part 1); the cells are indexed by the loop's own key: one addend per cell and call",
   "C06_comm_fold_oracle_irrelevant"⟩,
  ⟨("lib/journal/performance/universe.go", "fromYAML", "maprange", "d", "over performance.yamlUniverseFile; append,call:commodity.Registry.Get,reads-what-the-loop-writes,return h=043f90dd"),
   "irrelevant", "a commodity listed twice is an error whichever class is met first (exit status and stdout do not depend on the order; the message on stderr names the commodity); otherwise every commodity is written once under its own key; Registry.Get is get-or-create",
   "C06_comm_fold_oracle_irrelevant"⟩,
  ⟨("lib/journal/process.go", "CloseAccounts", "maprange", "d", "over amounts.Amounts; append h=aae72965"),
   "translated", "TransProcess.Close_range_agrees / CloseAccounts_day_agrees: the closing transactions are appended in the order of the keys, for every order; the day's transactions are sorted by the Sort stage (print, register, transcode) or summed (balance)",
   "C06_sorted_fold_oracle_irrelevant"⟩,
  ⟨("lib/journal/process.go", "Valuate", "maprange", "d", "over amounts.Amounts; append,call:account.Registry.ValuationAccountFor,return h=59989ba6"),
   "translated", "TransProcess.DayStart_range_agrees / Valuate_DayStart_agrees: the adjustment transactions are appended in the order of the keys, for every order; sorted by the Sort stage or summed; a missing price is an error whichever position meets it first",
   "C06_sorted_fold_oracle_irrelevant"⟩,
  ⟨("lib/model/account/registry.go", "NewRegistry", "maprange", "d", "over map[string]account.Type; call:account.Registry.Get h=733eecfd"),
   "irrelevant", "creates the five type accounts, each under its own name",
   "C06_comm_fold_oracle_irrelevant"⟩,
  ⟨("lib/reports/balance/renderer.go", "Renderer.Render", "mapcallback", "d", "balance.Report.Totals with #b6a538bd"),
   "irrelevant", "the mapper handed to Totals (run in map order by PostOrder and SumIntoBy) is KeyMapper{Date: Identity, Commodity: IdentityIf(b)}.Build(), a pure function of the key (TransAmountsSum.KeyMapper_Build_agrees, TransReportTotals.mfR_Build, Totals_agrees for every order)",
   "C06_report_cells_deterministic"⟩,
  ⟨("lib/reports/balance/renderer.go", "Renderer.renderNode", "mapcallback", "d", "amounts.Amounts.SumBy with #7340a964"),
   "irrelevant", "the same pure mapper handed to SumBy (TransAmountsSum.SumBy_agrees for every order)",
   "C06_report_cells_deterministic"⟩,
  ⟨("lib/reports/balance/report.go", "Report.SortWeighted", "mapcallback", "d", "amounts.Amounts.SumOver with a function literal; return h=e3490b2d"),
   "translated", "the filter k.Valuation != nil handed to SumOver is pure (TransAmountsSum.SumOver_agrees for every order)",
   "C06_sum_oracle_irrelevant"⟩,
  ⟨("lib/reports/balance/report.go", "Report.SortWeighted", "mapcallback", "d", "multimap.Node.PostOrder with a function literal; assign,call:amounts.Amounts.SumOver,write-through-local-reference h=99d77b96"),
   "translated", "the filter k.Valuation != nil handed to SumOver is pure (TransAmountsSum.SumOver_agrees for every order)",
   "C06_sum_oracle_irrelevant"⟩,
  ⟨("lib/reports/balance/report.go", "Report.SortWeighted", "mapcallback", "d", "multimap.Node.PostOrder with a function literal; assign,call:amounts.Amounts.SumOver,write-through-local-reference h=99d77b96"),
   "translated", "the filter k.Valuation != nil handed to SumOver is pure (TransAmountsSum.SumOver_agrees for every order)",
   "C06_sum_oracle_irrelevant"⟩,
  ⟨("lib/reports/balance/report.go", "Report.Totals", "mapcallback", "d", "multimap.Node.PostOrder with a function literal; call:amounts.Amounts.SumIntoBy h=b6dc443e"),
   "translated", "TransReportTotals.Totals_agrees: for every iteration order of every node's amounts and children each total holds per key the sum of the inserted amounts of its section",
   "C06_report_cells_deterministic"⟩,
  ⟨("lib/reports/balance/report.go", "Report.Totals", "mapcallback", "d", "multimap.Node.PostOrder with a function literal; call:amounts.Amounts.SumIntoBy h=b6dc443e"),
   "translated", "TransReportTotals.Totals_agrees: for every iteration order of every node's amounts and children each total holds per key the sum of the inserted amounts of its section",
   "C06_report_cells_deterministic"⟩,
  ⟨("lib/reports/balance/report.go", "setAccounts", "maprange", "d", "over map[string]*multimap.Node[balance.Value]; assign,call:balance.setAccounts,reads-what-the-loop-writes h=195dfa7d"),
   "irrelevant", "the first child in map order whose account is below level 1 decides, but every child's account has this node's path as its parent, so every candidate is the same registry account",
   "C06Report.table_perm"⟩,
  ⟨("lib/reports/weights/weights.go", "Report.PropagateWeights", "floatacc", "d", "+= element in maprange"),
   "irrelevant", "the parent's cell of the loop's own key (the date) gets one addend per child; the children come in name order since fix 19865c1",
   "C06_sorted_fold_oracle_irrelevant"⟩,
  ⟨("lib/reports/weights/weights.go", "Report.PropagateWeights", "mapcallback", "d", "multimap.Node.PostOrder with a function literal; assign,call:dict.SortedKeys,float+=,write-through-local-reference h=07a58be6"),
   "irrelevant", "the closure PostOrder runs (siblings in map order) writes only the visited node's Weights, from its children, which post-order has completed and which are taken in name order",
   "C06_comm_fold_oracle_irrelevant"⟩,
  ⟨("lib/reports/weights/weights.go", "Report.PropagateWeights", "maprange", "d", "over map[time.Time]float64; float+= h=1e0e5819"),
   "irrelevant", "the parent's cell of the loop's own key (the date) gets one addend per child; the children come in name order since fix 19865c1",
   "C06_sorted_fold_oracle_irrelevant"⟩,
  ⟨("lib/reports/weights/weights.go", "Report.SortWeighted", "mapcallback", "d", "multimap.Node.PostOrder with a function literal; assign,call:dict.SortedKeys,write-through-local-reference h=a3074081"),
   "irrelevant", "the closure writes only the visited node's Weight, the sum of its own Weights in date order",
   "C06_comm_fold_oracle_irrelevant"⟩,
  ⟨("lib/syntax/bayes/bayes.go", "Model.update", "maprange", "d", "over set.Set[bayes.token]; int+=,write-through-expression h=df28d4e3"),
   "irrelevant", "one integer counter per (token, account) is incremented; the tokens of a set are pairwise different",
   "C06_comm_fold_oracle_irrelevant"⟩
]

/-- every site that is not mechanically classified as harmless is in the reviewed allowlist, and nothing else is -/
theorem classD_is_the_allowlist : Census.classD = allowlist.map (·.site) := by decide +kernel

theorem allowlist_verdicts : allowlist.all (fun a => ["irrelevant", "unreachable", "finding", "translated"].contains a.verdict) = true := by decide

/-- class a: every site whose verdict relies on the translator lies in a function that the translator still covers with the iteration
order as an explicit parameter (`Census.translated` is regenerated from Generated/Trans.lean on every run; it may GROW without a change here) -/
theorem translated_still_covers :
    (allowlist.filter (·.verdict == "translated")).all (fun a => Census.translated.contains (a.site.1, a.site.2.1)) = true := by decide

/-- the class-c sites (commutative accumulation, recognised mechanically) that the review also ties to an agreement theorem of the translator -/
def alsoTranslated : List (String × String) := [
  ("lib/amounts/amounts.go", "Amounts.Clone"), ("lib/amounts/amounts.go", "Amounts.Commodities"), ("lib/amounts/amounts.go", "Amounts.Dates"),
  ("lib/amounts/amounts.go", "Amounts.Minus"), ("lib/amounts/amounts.go", "Amounts.Plus"), ("lib/amounts/amounts.go", "Amounts.SumIntoBy"),
  ("lib/reports/balance/report.go", "Report.SortWeighted")]
theorem alsoTranslated_still_covered : alsoTranslated.all (fun x => Census.translated.contains x) = true := by decide

/-- the OPEN findings among the class-d sites (function, kind): order-dependent and reaching standard output, not claimed harmless.
None at /repo 54048cb: the review found `weights-float-sum-in-map-order` (portfolio weights: float sums in map order in Query.Execute,
PropagateWeights and SortWeighted made rows of equal weight swap from run to run), repaired by 19865c1 and 54048cb; those sites are now
`sortcall` sites over dict.SortedKeys. -/
theorem open_findings : (allowlist.filter (·.verdict == "finding")).map (fun a => (a.site.2.1, a.site.2.2.1)) =
    [] := by decide

/-- **known findings that hang on sites which are not class d** (a sort whose comparator is not total on what is printed, a float sum
over a slice that is in arrival order): (site, key of known_findings.jsonl).  The verdict of these sites is `finding`, not a claim of
harmlessness; the site has to be in the census still — when it changes (for instance because /repo repaired it), this list has to
be looked at again. -/
def siteFindings : List (Site × String) := [
  -- transaction.Compare does not look at Targets: same-day transactions of different files that differ only there tie, `print` shows them in arrival order
  (("lib/journal/process.go", "Sort", "sort", "-", "compare.Sort by transaction.Compare"),
   "print-same-day-transactions-differing-only-in-targets-in-arrival-order"),
  -- portfolio returns has no Sort stage: the day's flows are added in float64 in the arrival order of the day's transactions
  (("lib/journal/performance/performance.go", "Calculator.ComputeFlows", "floatacc", "s", "-= var in range"),
   "returns-ill-conditioned-period-float-sum-in-arrival-order"),
  (("lib/journal/performance/performance.go", "Calculator.ComputeFlows", "floatacc", "s", "+= element in range"),
   "returns-ill-conditioned-period-float-sum-in-arrival-order")]

theorem siteFindings_in_census : siteFindings.all (fun x => Census.all.contains x.1) = true := by decide +kernel

/-- no map range is left unclassified for want of a type -/
theorem no_untyped_range : (Census.classD.filter (fun s => s.2.2.1 == "range?")) = [] := by decide

end Knut.FactsAgree.C06
