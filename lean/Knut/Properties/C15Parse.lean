import Knut.Proofs.InferReparse
import Knut.Proofs.InferExample
import Knut.Proofs.SyntaxExamples
import Knut.Properties.C15
/-!
# C15 — the text `knut infer` writes parses, and is the formatted input apart from the inferred accounts

`inferCmd sc placeholder training path target` is `inferRunner.execute` (`Model/Infer.lean`): `training` are the
(path, text) pairs of the training file and of everything it includes, `target` the text of the target file; the
outcome `.written out` carries the bytes written to stdout resp. into the target file. `trainingTxs training`
(`Proofs/InferReparse.lean`) are the transactions of all training files in arrival order, i.e. what
`inferRunner.train` feeds to `bayes.Model.Update`; `train placeholder txs` is the trained model and
`(train placeholder txs).inferDir sc` what `bayes.Model.Infer` does to the extracted fields of one directive
(`Properties/C15.lean` says which fields it can change and to what).

As in `Properties/C15.lean` every theorem holds for every score function and comparison `sc`. The parser is the
model of C07, the formatter the model of C08; the print-then-parse argument is the one of C08
(`parseDirective_complete`), run on the *edited* fields (`Proofs/InferParse.lean`): an inferred account is the text
of an account node of a parsed training file, hence a well-formed account, and the column width is a parameter of
the rendering.
-/
namespace Knut.C15
open Knut Knut.Syntax Knut.Infer Knut.Spec.Infer Knut.Spec.Syntax

variable {S : Type} (sc : Scorer S)

/-- **the result parses**: whenever `knut infer` writes a text — for all training files, every target and every
placeholder — that text parses; the directives of the result have exactly the fields of the directives of the target
with `Infer` applied (`vs.map inferDir`: same number and kinds of directives, every field byte for byte except the
placeholder account fields `Infer` replaced); the text outside the directives is the target's, gap by gap; and the
result is laid out as the formatter lays it out (`format out g = some out`). -/
theorem C15_output_parses (placeholder : Bytes) (training : List (String × Bytes)) (path : String) (target out : Bytes)
    (h : inferCmd sc placeholder training path target = .written out) :
    ∃ txs f g vs, trainingTxs training = some txs ∧ parseText path target = .ok f ∧
      f.directives.mapM (viewDirective target) = some vs ∧
      parseText path out = .ok g ∧
      g.directives.mapM (viewDirective out) = some (vs.map ((train placeholder txs).inferDir sc)) ∧
      viewsOK placeholder (trainingAccounts placeholder txs) vs (vs.map ((train placeholder txs).inferDir sc)) = true ∧
      gapsOf out 0 (g.directives.map (·.range)) = gapsOf target 0 (f.directives.map (·.range)) ∧
      format out g = some out := by
  obtain ⟨txs, f, h1, h2, h3, hacc⟩ := inferCmd_written sc h
  have hedit := inferDir_ok sc (train placeholder txs) (C15_no_empty_key placeholder txs) (trained_keys_accB hacc)
  obtain ⟨out', g, vs, r1, r2, _, r3, r4, r5, r6⟩ := formatWith_roundtrip hedit h2
  have e : out' = out := by
    unfold inferFormat at h3
    rw [r1] at h3
    exact Option.some.inj h3
  subst e
  exact ⟨txs, f, g, vs, h1, h2, r2, r3, r4, C15_viewsOK sc placeholder txs _ (fun _ => Iff.rfl) vs, r5, r6⟩

/-- **the result is the formatted input apart from the inferred accounts**: `knut format` of the target succeeds
(`fmt`), and the monitor predicate `inferOK` — evaluated on the real output of every generated case — holds of the
model: `fmt` and `out` both parse, their directives' fields are related by `viewsOK` (equal except placeholder
account fields of bookings, which hold a learnable account different from the other account, or are unchanged exactly
when there is none), the text between the directives is identical, and `out` is a fixed point of `format`. -/
theorem C15_output_is_formatted_input_modulo_accounts (placeholder : Bytes) (training : List (String × Bytes))
    (path : String) (target out : Bytes) (h : inferCmd sc placeholder training path target = .written out) :
    ∃ txs fmt, trainingTxs training = some txs ∧ formatFile path target = .written fmt ∧
      inferOK placeholder (trainingAccounts placeholder txs) path fmt out = true := by
  obtain ⟨txs, f, g, vs, h1, h2, h3, h4, h5, h6, h7, h8⟩ := C15_output_parses sc placeholder training path target out h
  obtain ⟨fmt, f2, hfmt, p2, v2, _, g2, _⟩ := roundtrip h2
  have hff : formatFile path target = .written fmt := by simp [formatFile, h2, hfmt]
  refine ⟨txs, fmt, h1, hff, ?_⟩
  rw [h3] at v2
  unfold inferOK
  simp only [p2, h4, v2, h5, h6, g2, h7, h8, beq_self_eq_true, Bool.and_self]

/-- … spelled out without the executable predicate: the formatted target `fmt` parses to directives with fields `vs`,
the result parses to directives with fields `vs.map inferDir`, gaps equal. -/
theorem C15_output_fields_vs_formatted (placeholder : Bytes) (training : List (String × Bytes))
    (path : String) (target out : Bytes) (h : inferCmd sc placeholder training path target = .written out) :
    ∃ txs fmt f' g vs, trainingTxs training = some txs ∧ formatFile path target = .written fmt ∧
      parseText path fmt = .ok f' ∧ f'.directives.mapM (viewDirective fmt) = some vs ∧
      parseText path out = .ok g ∧
      g.directives.mapM (viewDirective out) = some (vs.map ((train placeholder txs).inferDir sc)) ∧
      gapsOf out 0 (g.directives.map (·.range)) = gapsOf fmt 0 (f'.directives.map (·.range)) := by
  obtain ⟨txs, f, g, vs, h1, h2, h3, h4, h5, _, h7, _⟩ := C15_output_parses sc placeholder training path target out h
  obtain ⟨fmt, f2, hfmt, p2, v2, _, g2, _⟩ := roundtrip h2
  have hff : formatFile path target = .written fmt := by simp [formatFile, h2, hfmt]
  exact ⟨txs, fmt, f2, g, vs, h1, hff, p2, by rw [v2, h3], h4, h5, by rw [h7, g2]⟩

/-- **running `infer` again on its own output changes nothing, and neither does `format`**: with the same training
files, `knut infer` on `out` writes `out` again — whether or not a placeholder is left in it (a field that is still the
placeholder had no candidate the first time and has none the second time; every other field is not the placeholder,
which is never learnt) — and `knut format` leaves `out` as it is. -/
theorem C15_idempotent_after (placeholder : Bytes) (training : List (String × Bytes)) (path : String) (target out : Bytes)
    (h : inferCmd sc placeholder training path target = .written out) :
    inferCmd sc placeholder training path out = .written out ∧ formatFile path out = .written out := by
  obtain ⟨txs, f, g, vs, h1, h2, h3, h4, h5, _, _, h8⟩ := C15_output_parses sc placeholder training path target out h
  have hfix : (vs.map ((train placeholder txs).inferDir sc)).map ((train placeholder txs).inferDir sc) =
      vs.map ((train placeholder txs).inferDir sc) := by
    rw [List.map_map]
    apply List.map_congr_left
    intro w _
    exact inferDir_idem sc (train placeholder txs) (C15_no_empty_key placeholder txs)
      (by rw [train_account]; exact C15_no_placeholder_key placeholder txs) w
  refine ⟨inferCmd_of sc h1 h4 ?_, by simp [formatFile, h4, h8]⟩
  unfold inferFormat
  rw [formatWith_fixed h5 hfix, h8]

/-- a second `Infer` with the same model leaves every booking as the first one left it (the field-level statement
behind `C15_idempotent_after`) -/
theorem C15_infer_idempotent (placeholder : Bytes) (txs : List TTx) (desc : Bytes) (b : BookingV) :
    (train placeholder txs).inferBooking sc desc ((train placeholder txs).inferBooking sc desc b) =
      (train placeholder txs).inferBooking sc desc b :=
  inferBooking_idem sc (train placeholder txs) (C15_no_empty_key placeholder txs)
    (by rw [train_account]; exact C15_no_placeholder_key placeholder txs) desc b

/-! ### non-vacuity -/

section Examples

/-- the hypothesis is satisfiable: the worked example of C07/C08 (a comment line and an `open` directive) as training
file and as target is written back unchanged … -/
theorem ex_infer : inferCmd sc tbd [("j.knut", bytesOf exText)] "j.knut" (bytesOf exText) = .written (bytesOf exText) := by
  unfold inferCmd
  simp only [List.mapM_cons, List.mapM_nil, ex_parse, Except.toOption, Option.map_some, Option.pure_def,
    Option.bind_eq_bind, Option.bind_some]
  have h1 : fileTxs (bytesOf exText) ⟨⟨0, 23⟩, [⟨⟨3, 22⟩, .open ⟨⟨3, 22⟩, ⟨⟨3, 13⟩⟩, ⟨⟨19, 22⟩, false⟩⟩⟩]⟩ = some [] := by
    decide
  simp only [h1, Option.bind_some, List.flatten_cons, List.flatten_nil, List.append_nil]
  have h2 : inferFormat sc (train tbd []) (bytesOf exText) ⟨⟨0, 23⟩, [⟨⟨3, 22⟩, .open ⟨⟨3, 22⟩, ⟨⟨3, 13⟩⟩, ⟨⟨19, 22⟩, false⟩⟩⟩]⟩ =
      some (bytesOf exText) := by
    have hv : List.mapM (viewDirective (bytesOf exText)) [⟨⟨3, 22⟩, .open ⟨⟨3, 22⟩, ⟨⟨3, 13⟩⟩, ⟨⟨19, 22⟩, false⟩⟩⟩] =
        some [.open (bytesOf "2020-01-01") (bytesOf "A:B")] := by decide
    rw [inferFormat, formatWith_fixed hv (by rfl)]
    decide
  simp only [h2]

/-- … and the theorems then say: it parses, and a second run and `format` reproduce it -/
example : ∃ g, parseText "j.knut" (bytesOf exText) = .ok g ∧ format (bytesOf exText) g = some (bytesOf exText) := by
  obtain ⟨_, _, g, _, _, _, _, h4, _, _, _, h8⟩ :=
    C15_output_parses exactScorer tbd [("j.knut", bytesOf exText)] "j.knut" (bytesOf exText) (bytesOf exText) (ex_infer _)
  exact ⟨g, h4, h8⟩

example : formatFile "j.knut" (bytesOf exText) = .written (bytesOf exText) :=
  (C15_idempotent_after exactScorer tbd [("j.knut", bytesOf exText)] "j.knut" (bytesOf exText) (bytesOf exText) (ex_infer _)).2

/-- the field-level idempotence on the example of `Properties/C15.lean`: after `food` has been inferred for the debit
side, a second `Infer` keeps it -/
example (desc : Bytes) :
    ((train tbd [exTx]).inferBooking sc desc ((train tbd [exTx]).inferBooking sc desc ⟨bank, tbd, [49], [67]⟩)).debit = food := by
  rw [C15_infer_idempotent]
  exact ex_debit_food sc desc

/-- the text `2020-01-02 "m"` / `B F 1 C` / `B T 1 C` (as the formatter lays it out), with placeholder `T` -/
def exT : Bytes := bytesOf "2020-01-02 \"m\"\nB F          1 C\nB T          1 C\n"
/-- … and with `F` in its place -/
def exF : Bytes := bytesOf "2020-01-02 \"m\"\nB F          1 C\nB F          1 C\n"

/-- **a run that replaces a placeholder**: with `exT` as its own training file and `T` as placeholder, `knut infer`
writes `exF` — the booking `B F 1 C` is learnable, the booking `B T 1 C` gets the only learnable account other than its
credit account — for every score function (`Proofs/InferExample.lean`) … -/
theorem ex_infer_trx : inferCmd sc (bytesOf "T") [("j.knut", exT)] "j.knut" exT = .written exF := by
  have := Ex.infer_example sc
  rw [Ex.text_T, Ex.text_F] at this
  exact this

/-- … so the theorems say: `exF` parses, is laid out as the formatter lays it out, has the gaps of `exT`, … -/
example : ∃ f g, parseText "j.knut" exT = .ok f ∧ parseText "j.knut" exF = .ok g ∧ format exF g = some exF ∧
    gapsOf exF 0 (g.directives.map (·.range)) = gapsOf exT 0 (f.directives.map (·.range)) := by
  obtain ⟨_, f, g, _, _, h2, _, h4, _, _, h7, h8⟩ :=
    C15_output_parses exactScorer (bytesOf "T") [("j.knut", exT)] "j.knut" exT exF (ex_infer_trx _)
  exact ⟨f, g, h2, h4, h8, h7⟩

/-- … and a second run (same training file) and `knut format` both leave `exF` as it is -/
example : inferCmd sc (bytesOf "T") [("j.knut", exT)] "j.knut" exF = .written exF ∧ formatFile "j.knut" exF = .written exF :=
  C15_idempotent_after sc (bytesOf "T") [("j.knut", exT)] "j.knut" exT exF (ex_infer_trx sc)

end Examples

end Knut.C15
