package main

import (
	"context"
	"fmt"
	"os"
	"path/filepath"
	"regexp"
	"runtime"
	"sort"
	"strings"
	"time"

	"github.com/sboehler/knut/lib/journal"
	"github.com/sboehler/knut/lib/model"
	"github.com/sboehler/knut/lib/model/price"
	"github.com/sboehler/knut/lib/model/registry"
	"github.com/shopspring/decimal"
)

func init() { runners["C12"] = runC12 }

// ---------------------------------------------------------------- inputs

type c12Decl struct {
	Com, Price, Tgt string
	Day             int  // days stream only
	Empty           bool // days stream only: some other directive on that day (no price)
	File            int  // shared stream only: the included file f<File>.knut holding the directive
}

type c12Query struct{ Com, Amount string }

type c12Case struct {
	Shape   string
	Names   []string
	Decls   []c12Decl
	V       string
	Queries []c12Query
	// shared stream only: the journal is root.knut including Files files f0..f<Files-1>; Parents[f] = the file whose first
	// lines include f (-1 = root.knut); PreV: the valuation commodity is registered before loading (as the flag -v does)
	Files   int
	Parents []int
	PreV    bool
}

func (k c12Case) input() map[string]any {
	ds := make([]any, len(k.Decls))
	for i, d := range k.Decls {
		if d.Empty {
			ds[i] = map[string]any{"day": d.Day, "empty": true}
		} else {
			ds[i] = map[string]any{"com": d.Com, "price": d.Price, "tgt": d.Tgt, "day": d.Day}
		}
		if k.Files > 1 {
			ds[i].(map[string]any)["file"] = d.File
		}
	}
	qs := make([]any, len(k.Queries))
	for i, q := range k.Queries {
		qs[i] = map[string]any{"com": q.Com, "amount": q.Amount}
	}
	if k.Files > 1 {
		ps := make([]any, len(k.Parents))
		for i, p := range k.Parents {
			ps[i] = p
		}
		tree := map[string]any{}
		for name, text := range c12TreeFiles(k) {
			tree[name] = text
		}
		return map[string]any{"shape": k.Shape, "v": k.V, "decls": ds, "queries": qs, "files": k.Files, "parents": ps, "pre_v": k.PreV, "tree": tree,
			"load": "journal.FromPath(root.knut) with a fresh registry, repeated under GOMAXPROCS 16/2/4/8; the included files are converted concurrently"}
	}
	return map[string]any{"shape": k.Shape, "v": k.V, "decls": ds, "queries": qs, "journal": c12Journal(k)}
}

// c12Journal renders the case as journal text (for reading a finding / reproducing it with the knut binary).
func c12Journal(k c12Case) string {
	var b strings.Builder
	for i, d := range k.Decls {
		if d.Empty {
			continue
		}
		day := d.Day
		if day == 0 {
			day = 737000 + i // graph stream: one declaration per day, in order
		}
		fmt.Fprintf(&b, "%s price %s %s %s\n", dayTime(day).Format("2006-01-02"), d.Com, d.Price, d.Tgt)
	}
	return b.String()
}

func c12CaseFromInput(in map[string]any) c12Case {
	var k c12Case
	k.Shape, _ = in["shape"].(string)
	k.V, _ = in["v"].(string)
	if ds, ok := in["decls"].([]any); ok {
		for _, x := range ds {
			m, _ := x.(map[string]any)
			var d c12Decl
			d.Com, _ = m["com"].(string)
			d.Price, _ = m["price"].(string)
			d.Tgt, _ = m["tgt"].(string)
			if f, ok := m["day"].(float64); ok {
				d.Day = int(f)
			}
			d.Empty, _ = m["empty"].(bool)
			if f, ok := m["file"].(float64); ok {
				d.File = int(f)
			}
			k.Decls = append(k.Decls, d)
		}
	}
	if f, ok := in["files"].(float64); ok {
		k.Files = int(f)
	}
	if ps, ok := in["parents"].([]any); ok {
		for _, x := range ps {
			f, _ := x.(float64)
			k.Parents = append(k.Parents, int(f))
		}
	}
	k.PreV, _ = in["pre_v"].(bool)
	if qs, ok := in["queries"].([]any); ok {
		for _, x := range qs {
			m, _ := x.(map[string]any)
			var q c12Query
			q.Com, _ = m["com"].(string)
			q.Amount, _ = m["amount"].(string)
			k.Queries = append(k.Queries, q)
		}
	}
	return k
}

// name pool: prefixes of one another, digits before upper case before lower case before non-ASCII
// letters (byte order), so that "sorted by name" has many near-ties.
var c12NamePool = []string{"A", "AA", "AAA", "AAB", "AB", "B", "BBB", "CHF", "CHF2", "EUR", "USD", "Z", "a", "aa", "b", "x1", "1x", "0", "00", "9A",
	"Ä", "É", "Ωm", "б", "日本", "GOOG", "BTC", "ETH", "Z9", "z"}

func c12Names(r *RNG, n int) []string {
	pool := append([]string(nil), c12NamePool...)
	for i := len(pool) - 1; i > 0; i-- {
		j := r.Intn(i + 1)
		pool[i], pool[j] = pool[j], pool[i]
	}
	return pool[:n]
}

func c12Price(r *RNG, malformed bool) string {
	k := r.Intn(20)
	if malformed && r.Chance(1, 3) {
		return Pick(r, []string{"0", "0.0", "-0", "0.00000000", "000"})
	}
	switch {
	case k < 5:
		return Pick(r, []string{"1", "2", "3", "5", "7", "10", "100", "4", "8"})
	case k < 8:
		return Pick(r, []string{"0.5", "0.25", "1.25", "0.2", "0.1", "1.5", "0.125", "2.5"})
	case k < 12:
		return fmt.Sprintf("%d.%0*d", r.Intn(300), r.Range(1, 6), r.Intn(100000))
	case k < 14: // exactly 8 decimals
		return fmt.Sprintf("%d.%08d", r.Intn(50), r.Intn(100000000))
	case k == 14: // more than 8 decimals
		return fmt.Sprintf("%d.%08d%d", r.Intn(50), r.Intn(100000000), r.Range(1, 99999))
	case k == 15: // huge: the stored reciprocal truncates to 0
		return fmt.Sprintf("%d", 100000000+r.Intn(1000000)*1000+r.Intn(3))
	case k == 16: // tiny: products truncate to 0
		return Pick(r, []string{"0.00000001", "0.000000001", "0.00000002", "0.0000000149", "0.00001"})
	case k == 17: // thirds and sevenths: rounding in Div matters
		return Pick(r, []string{"3", "7", "0.3", "0.7", "9", "11", "13", "0.03", "1.7", "6"})
	case k == 18 && malformed:
		return "-" + fmt.Sprintf("%d.%d", r.Intn(20), r.Range(1, 99))
	default:
		return fmt.Sprintf("%d.%02d", r.Range(1, 2000), r.Intn(100))
	}
}

var c12Shapes = []string{"line", "star", "tree", "diamond", "cycle", "complete", "two-components", "triangle", "sparse", "ladder"}

// c12Graph generates the edges (index pairs) of a price graph of the given shape.
func c12Graph(r *RNG, shape string, n int) [][2]int {
	var es [][2]int
	switch shape {
	case "line":
		for i := 0; i+1 < n; i++ {
			es = append(es, [2]int{i, i + 1})
		}
	case "star":
		for i := 1; i < n; i++ {
			es = append(es, [2]int{0, i})
		}
	case "tree":
		for i := 1; i < n; i++ {
			es = append(es, [2]int{r.Intn(i), i})
		}
	case "diamond": // 0 - {1..n-2} - (n-1): alternative paths of equal length
		for i := 1; i+1 < n; i++ {
			es = append(es, [2]int{0, i}, [2]int{i, n - 1})
		}
		if n < 3 {
			es = append(es, [2]int{0, n - 1})
		}
	case "cycle":
		for i := 0; i < n; i++ {
			es = append(es, [2]int{i, (i + 1) % n})
		}
	case "complete":
		for i := 0; i < n; i++ {
			for j := i + 1; j < n; j++ {
				es = append(es, [2]int{i, j})
			}
		}
	case "two-components":
		h := n / 2
		for i := 1; i < h; i++ {
			es = append(es, [2]int{r.Intn(i), i})
		}
		for i := h + 1; i < n; i++ {
			es = append(es, [2]int{h + r.Intn(i-h), i})
		}
		if r.Bool() && h+1 < n { // a cycle in the far component
			es = append(es, [2]int{h, n - 1})
		}
	case "triangle": // a direct and an indirect price for the same commodity, plus a tail
		es = append(es, [2]int{0, 1}, [2]int{1, 2 % n}, [2]int{0, 2 % n})
		for i := 3; i < n; i++ {
			es = append(es, [2]int{r.Intn(i), i})
		}
	case "ladder":
		for i := 0; i+2 < n; i += 2 {
			es = append(es, [2]int{i, i + 2}, [2]int{i + 1, i + 3 - boolInt(i+3 >= n)}, [2]int{i, i + 1})
		}
		es = append(es, [2]int{0, 1})
	default: // sparse random
		m := r.Range(0, n+2)
		for k := 0; k < m; k++ {
			es = append(es, [2]int{r.Intn(n), r.Intn(n)}) // self loops possible
		}
	}
	return es
}

func boolInt(b bool) int {
	if b {
		return 1
	}
	return 0
}

func c12Gen(r *RNG, malformed bool) c12Case {
	n := r.Range(2, 7)
	if r.Chance(1, 8) {
		n = r.Range(8, 10)
	}
	shape := Pick(r, c12Shapes)
	if n > 7 && shape == "complete" {
		shape = "sparse"
	}
	names := c12Names(r, n)
	k := c12Case{Shape: shape, Names: names}
	edges := c12Graph(r, shape, n)
	for _, e := range edges {
		a, b := e[0]%n, e[1]%n
		if r.Bool() {
			a, b = b, a
		}
		k.Decls = append(k.Decls, c12Decl{Com: names[a], Price: c12Price(r, malformed), Tgt: names[b]})
	}
	// shuffle the declaration order
	for i := len(k.Decls) - 1; i > 0; i-- {
		j := r.Intn(i + 1)
		k.Decls[i], k.Decls[j] = k.Decls[j], k.Decls[i]
	}
	// redeclarations over time: same pair again, either direction, new price
	if len(k.Decls) > 0 && r.Chance(2, 3) {
		for j := r.Range(1, 4); j > 0; j-- {
			d := k.Decls[r.Intn(len(k.Decls))]
			if r.Bool() {
				d.Com, d.Tgt = d.Tgt, d.Com
			}
			d.Price = c12Price(r, malformed)
			k.Decls = append(k.Decls, d)
		}
	}
	if malformed {
		switch r.Intn(6) {
		case 0: // a commodity priced in itself
			c := Pick(r, names)
			k.Decls = append(k.Decls, c12Decl{Com: c, Price: c12Price(r, false), Tgt: c})
		case 1: // no declarations at all
			k.Decls = nil
		case 2: // the same declaration twice
			if len(k.Decls) > 0 {
				k.Decls = append(k.Decls, k.Decls[r.Intn(len(k.Decls))])
			}
		}
	}
	k.V = Pick(r, names)
	if r.Chance(1, 12) {
		k.V = "NOWHERE" // a valuation commodity no declaration mentions
	}
	for _, c := range names {
		k.Queries = append(k.Queries, c12Query{c, genDecimal(r)})
	}
	k.Queries = append(k.Queries, c12Query{"UNKNOWN", genDecimal(r)}, c12Query{k.V, "1"})
	return k
}

// ---------------------------------------------------------------- implementation side

type c12Run struct {
	Answer   string            // same format as the driver's `c12` answer
	Accepted bool              // all Inserts succeeded
	Table    map[string]string // every entry of the NormalizedPrices map
	Vals     []string          // result of Valuate per query ("none" = error)
}

func c12Impl(k c12Case) (res c12Run) {
	defer func() {
		if p := recover(); p != nil {
			res = c12Run{Answer: fmt.Sprintf("panic %v", p)}
		}
	}()
	reg := registry.New()
	com := func(name string) *model.Commodity {
		c, err := reg.Commodities().Get(name)
		if err != nil {
			panic(err)
		}
		return c
	}
	ps := make(price.Prices)
	for i, d := range k.Decls {
		p, err := decimal.NewFromString(d.Price)
		if err != nil {
			panic(err)
		}
		if err := ps.Insert(com(d.Com), p, com(d.Tgt)); err != nil {
			return c12Run{Answer: fmt.Sprintf("error %d", i)}
		}
	}
	np := ps.Normalize(com(k.V))
	var b strings.Builder
	b.WriteString("ok")
	res.Accepted = true
	res.Table = map[string]string{}
	for c, p := range np {
		res.Table[c.Name()] = p.String()
	}
	for _, q := range k.Queries {
		a, _ := decimal.NewFromString(q.Amount)
		ps, vs := "none", "none"
		if p, err := np.Price(com(q.Com)); err == nil {
			ps = p.String()
		}
		if v, err := np.Valuate(com(q.Com), a); err == nil {
			vs = v.String()
		}
		res.Vals = append(res.Vals, vs)
		b.WriteString(" " + ps + "/" + vs)
	}
	res.Answer = b.String()
	return res
}

func c12DeclsField(ds []c12Decl, dated bool) string {
	if len(ds) == 0 {
		return "-"
	}
	parts := make([]string, len(ds))
	for i, d := range ds {
		switch {
		case dated && d.Empty:
			parts[i] = itoa(d.Day)
		case dated:
			parts[i] = fmt.Sprintf("%d:%s:%s:%s", d.Day, Hex(d.Com), d.Price, Hex(d.Tgt))
		default:
			parts[i] = fmt.Sprintf("%s:%s:%s", Hex(d.Com), d.Price, Hex(d.Tgt))
		}
	}
	return strings.Join(parts, ",")
}

func c12QueriesField(qs []c12Query) string {
	if len(qs) == 0 {
		return "-"
	}
	parts := make([]string, len(qs))
	for i, q := range qs {
		parts[i] = Hex(q.Com) + ":" + q.Amount
	}
	return strings.Join(parts, ",")
}

func c12TableField(t map[string]string) string {
	if len(t) == 0 {
		return "-"
	}
	names := make([]string, 0, len(t))
	for n := range t {
		names = append(names, n)
	}
	sort.Strings(names)
	parts := make([]string, len(names))
	for i, n := range names {
		parts[i] = Hex(n) + ":" + t[n]
	}
	return strings.Join(parts, ",")
}

// c12Decimals returns the number of fractional digits of a literal.
func c12Decimals(lit string) int {
	if i := strings.IndexByte(lit, '.'); i >= 0 {
		return len(strings.TrimRight(lit[i+1:], "0"))
	}
	return 0
}

// c12Latest: the last declaration of the unordered pair {a, b}, or nil (harness-side helper for classification only).
func c12Latest(ds []c12Decl, a, b string) *c12Decl {
	for i := len(ds) - 1; i >= 0; i-- {
		d := ds[i]
		if !d.Empty && ((d.Com == a && d.Tgt == b) || (d.Com == b && d.Tgt == a)) {
			return &ds[i]
		}
	}
	return nil
}

const c12KnownTrunc = "direct-price-cut-to-8-decimals"

// runCase: correspondence, repeated runs (map orders), monitors.
func (c *Ctx) c12RunCase(bt *Batch, stream string, i int, k c12Case, r *RNG) {
	c.Evals++
	in := k.input()
	first := c12Impl(k)
	// the model, under a randomly chosen enumeration order of its association lists
	oracle := r.Intn(4)
	bt.Add(func(model string) { c.Compare(stream, i, "c12", in, first.Answer, model) }, "c12", Hex(k.V), c12DeclsField(k.Decls, false), c12QueriesField(k.Queries), itoa(oracle))
	// repeated runs: fresh registry and maps, so Go's map iteration order differs
	reps := c.N(3, 6)
	for j := 1; j < reps; j++ {
		again := c12Impl(k)
		c.Monitor(stream, i, "C12_order_irrelevant(repeated runs give the same prices)", in, again.Answer == first.Answer, "run 0: "+first.Answer+" run "+itoa(j)+": "+again.Answer)
	}
	// zero prices are rejected, nothing else is
	acc := "0"
	if first.Accepted {
		acc = "1"
	}
	bt.Add(func(mon string) {
		c.Monitor(stream, i, "insertOK(zero price rejected, others accepted)", in, mon == "ok", "accepted="+acc+" => "+mon)
	}, "c12insmon", c12DeclsField(k.Decls, false), acc)
	if strings.HasPrefix(first.Answer, "panic") {
		c.Monitor(stream, i, "no panic", in, false, first.Answer)
		return
	}
	if !first.Accepted {
		c.Tag("insert-error")
		c.Class("c12/" + k.Shape + "/error")
		return
	}
	// the property predicate on the real table
	table := c12TableField(first.Table)
	bt.Add(func(mon string) {
		c.Monitor(stream, i, "priceOK", in, mon == "ok", "table "+c12ShowTable(first.Table)+" => "+mon)
	}, "c12mon", Hex(k.V), c12DeclsField(k.Decls, false), table)
	// Valuate: error exactly when there is no price, else Multiply(amount, price)
	vals := make([]string, len(k.Queries))
	for j, q := range k.Queries {
		vals[j] = Hex(q.Com) + ":" + q.Amount + ":" + first.Vals[j]
	}
	bt.Add(func(mon string) {
		c.Monitor(stream, i, "valuateOK", in, mon == "ok", "table "+c12ShowTable(first.Table)+" vals "+strings.Join(first.Vals, " ")+" => "+mon)
	}, "c12valmon", table, strings.Join(vals, ","))
	// strict reading of "the most recent declared price when the pair is declared directly": the declared digits, uncut
	for name, p := range first.Table {
		if name == k.V {
			continue
		}
		d := c12Latest(k.Decls, k.V, name)
		if d == nil || d.Com != name || d.Tgt != k.V {
			continue
		}
		want, _ := decimal.NewFromString(d.Price)
		got, _ := decimal.NewFromString(p)
		if want.Equal(got) {
			c.Monitor(stream, i, "directExact", in, true, "")
		} else if c12Decimals(d.Price) > 8 && got.Equal(want.Truncate(8)) {
			c.MonitorKnown(stream, i, "directExact", in, fmt.Sprintf("price %s %s %s declared, Normalize(%s) answers %s", d.Com, d.Price, d.Tgt, k.V, p), c12KnownTrunc)
			c.Tag("direct-cut")
		} else {
			c.Monitor(stream, i, "directExact", in, false, fmt.Sprintf("price %s %s %s declared, Normalize(%s) answers %s", d.Com, d.Price, d.Tgt, k.V, p))
		}
	}
	// class: shape x size x features
	reached := len(first.Table)
	redecl := 0
	seen := map[string]bool{}
	for _, d := range k.Decls {
		a, b := d.Com, d.Tgt
		if a > b {
			a, b = b, a
		}
		if seen[a+"|"+b] {
			redecl++
		}
		seen[a+"|"+b] = true
	}
	c.Class(fmt.Sprintf("c12/%s/n%d/reach%s/redecl%v/vIn%v", k.Shape, len(k.Names), bucket(reached), redecl > 0, k.V != "NOWHERE"))
	if reached < len(k.Names) {
		c.Tag("some-unreachable")
	}
	if redecl > 0 {
		c.Tag("redeclared")
	}
	if len(seen) > reached-1 && reached > 1 {
		c.Tag("alternative-paths")
	}
	if i >= 0 && i < 2 {
		c.Sample(map[string]any{"stream": stream, "input": in, "impl": first.Answer})
	}
}

func c12ShowTable(t map[string]string) string {
	names := make([]string, 0, len(t))
	for n := range t {
		names = append(names, n)
	}
	sort.Strings(names)
	var b strings.Builder
	for _, n := range names {
		fmt.Fprintf(&b, "%s=%s ", n, t[n])
	}
	return strings.TrimSpace(b.String())
}

// c12Around: variations of a case on which code and model differ (other valuation commodities,
// one declaration dropped, prefixes), to find one on which the property predicate itself fails.
func c12Around(k c12Case) []c12Case {
	var out []c12Case
	vs := append([]string{}, k.Names...)
	if len(vs) == 0 {
		seen := map[string]bool{}
		for _, d := range k.Decls {
			for _, n := range []string{d.Com, d.Tgt} {
				if !seen[n] {
					seen[n] = true
					vs = append(vs, n)
				}
			}
		}
	}
	variant := func(ds []c12Decl) {
		for _, v := range vs {
			k2 := k
			k2.Names = vs
			k2.Decls = append([]c12Decl(nil), ds...)
			k2.V = v
			k2.Queries = nil
			for _, n := range vs {
				k2.Queries = append(k2.Queries, c12Query{n, "1"})
			}
			out = append(out, k2)
		}
	}
	variant(k.Decls)
	for j := range k.Decls {
		ds := append(append([]c12Decl(nil), k.Decls[:j]...), k.Decls[j+1:]...)
		variant(ds)
		variant(k.Decls[:j+1])
	}
	// all prices replaced by small integers: makes a wrong path visible as a wrong number
	simple := append([]c12Decl(nil), k.Decls...)
	for j := range simple {
		simple[j].Price = []string{"2", "3", "5", "7", "11", "13", "17", "19"}[j%8]
	}
	variant(simple)
	return out
}

func runC12(c *Ctx) {
	// C12_STREAMS=a,b restricts a full run to some streams (development aid)
	on := func(st string) bool {
		only := os.Getenv("C12_STREAMS")
		return c.Replay || only == "" || strings.Contains(","+only+",", ","+st+",")
	}
	// decimal arithmetic the model relies on (Mul, Truncate, Div, String) against shopspring
	if (!c.Replay && on("dec")) || c.OnlyStr == "dec" {
		runDecStream(c, c.N(3000, 60000))
	}
	bt := c.NewBatch()
	defer bt.Flush()
	if c.Replay && c.ReplayInput != nil && (c.OnlyStr == "graph" || c.OnlyStr == "graph-directed" || c.OnlyStr == "malformed") {
		k := c12CaseFromInput(c.ReplayInput)
		stream, idx := c.OnlyStr, c.OnlyIndex
		c.Replay = false
		c.c12RunCase(bt, stream, idx, k, c.Rng(stream, idx))
		return
	}
	if c.Replay && c.ReplayInput != nil && (c.OnlyStr == "days" || c.OnlyStr == "requote" || c.OnlyStr == "shared") {
		k := c12CaseFromInput(c.ReplayInput)
		stream, idx := c.OnlyStr, c.OnlyIndex
		c.Replay = false
		c.c12DaysCase(bt, stream, idx, k)
		if stream == "requote" && idx%c12BalanceEvery == 0 {
			c.c12BalanceCase(stream, idx, k)
		}
		if stream == "shared" && idx%c12BalanceEvery == 0 {
			c.c12SharedBalanceCase(stream, idx, k)
		}
		return
	}
	var suspects []c12Case
	for _, st := range []struct {
		name      string
		n         int
		malformed bool
	}{{"graph", c.N(12000, 250000), false}, {"malformed", c.N(3000, 60000), true}} {
		for i := 0; i < st.n; i++ {
			if !c.Want(st.name, i) || !on(st.name) {
				continue
			}
			r := c.Rng(st.name, i)
			k := c12Gen(r, st.malformed)
			c.c12RunCase(bt, st.name, i, k, r)
		}
		bt.Flush()
	}
	// collect the disagreeing cases (their inputs are in the findings) for the directed search
	for _, f := range c.Findings {
		if f.Kind == "disagree" && f.What == "c12" && len(suspects) < 8 {
			if in, ok := f.Input.(map[string]any); ok {
				suspects = append(suspects, c12CaseFromInput(in))
			}
		}
	}
	if len(suspects) > 0 && !c.Replay {
		n := 0
		for _, s := range suspects {
			for _, k := range c12Around(s) {
				n++
				k.Shape = s.Shape + "-directed"
				c.c12RunCase(bt, "graph-directed", -n, k, c.Rng("graph-directed", n))
			}
		}
		bt.Flush()
		c.Notes = append(c.Notes, fmt.Sprintf("directed search: %d variations (every valuation commodity x one declaration dropped / prefixes / small-integer prices) of %d cases on which Normalize differs from the model", n, len(suspects)))
	}
	// ---- per-day normalisation through journal.Builder and journal.ComputePrices
	nd := c.N(3000, 50000)
	for i := 0; i < nd; i++ {
		if !c.Want("days", i) || !on("days") {
			continue
		}
		r := c.Rng("days", i)
		k := c12Gen(r, r.Chance(1, 10))
		base := 737000 + r.Intn(1000)
		span := r.Range(1, 6)
		for j := range k.Decls {
			k.Decls[j].Day = base + r.Intn(span)
		}
		// days that exist in the journal without a price (before, between and after)
		for j := r.Intn(4); j > 0; j-- {
			k.Decls = append(k.Decls, c12Decl{Day: base - 2 + r.Intn(span+4), Empty: true})
		}
		for j := len(k.Decls) - 1; j > 0; j-- {
			m := r.Intn(j + 1)
			k.Decls[j], k.Decls[m] = k.Decls[m], k.Decls[j]
		}
		k.Shape += "/days"
		c.c12MagDecls("days", i, &k)
		c.c12DaysCase(bt, "days", i, k)
	}
	bt.Flush()
	// ---- positions of a quote within a day: zero / negative / tiny quotes first, in the middle, last, re-quoted the same
	// day (same or inverse direction) or on another date; every c12BalanceEvery-th journal also through `knut balance -v`
	nq := c.N(2500, 40000)
	for i := 0; i < nq; i++ {
		if !c.Want("requote", i) || !on("requote") {
			continue
		}
		k := c12GenRequote(c.Rng("requote", i))
		c.c12MagDecls("requote", i, &k)
		c.c12DaysCase(bt, "requote", i, k)
		if i%c12BalanceEvery == 0 {
			c.c12BalanceCase("requote", i, k)
		}
	}
	bt.Flush()
	// ---- one price history spread over 2-8 included files which all introduce the same new commodities at the same moment
	// (the files are converted concurrently through one registry); loaded repeatedly, every load compared and monitored like a days case
	ns := c.N(500, 6000)
	for i := 0; i < ns; i++ {
		if !c.Want("shared", i) || !on("shared") {
			continue
		}
		k := c12GenShared(c.Rng("shared", i))
		c.c12MagDecls("shared", i, &k)
		c.c12DaysCase(bt, "shared", i, k)
		if i%c12BalanceEvery == 0 {
			c.c12SharedBalanceCase("shared", i, k)
		}
	}
	bt.Flush()
	// ---- the valued report of the binary with and without row filters: `knut balance -v V --csv -s .` [--commodity] [--account] [--to]
	nf := c.N(250, 4000)
	for i := 0; i < nf; i++ {
		if !c.Want("filter", i) || !on("filter") {
			continue
		}
		c.c12FilterCaseRun(bt, "filter", i, c12GenFilter(c.Rng("filter", i), false))
	}
	bt.Flush()
	// ---- the same valued reports with price literals of 15-40 digits (around 2^63, 2^64, 10^18, 10^19, the point anywhere,
	// leading zeros, long fractions, tiny values): the text goes through the parser, the model reads the same literals exactly
	nm := c.N(150, 4000)
	for i := 0; i < nm; i++ {
		if !c.Want("magnitude", i) || !on("magnitude") {
			continue
		}
		c.c12FilterCaseRun(bt, "magnitude", i, c12GenFilter(c.Rng("magnitude", i), true))
	}
}

const c12BalanceEvery = 10

// c12MagDecls: in a fifth of the cases of the streams days / requote / shared that are loaded from files (parser, price.Create,
// loading pipeline) one to three of the positive quotes are rewritten with a literal of c12MagPrice. Its draws come from a
// generator of its own (stream name + "-mag"), so the other cases of the stream are what they were.
func (c *Ctx) c12MagDecls(stream string, i int, k *c12Case) {
	if c.WorkDir == "" || !(i%3 == 0 || k.Files > 1) {
		return
	}
	r := c.Rng(stream+"-mag", i)
	if !r.Chance(1, 5) {
		return
	}
	var idx []int
	for j, d := range k.Decls {
		if p, err := decimal.NewFromString(d.Price); !d.Empty && err == nil && p.IsPositive() {
			idx = append(idx, j)
		}
	}
	if len(idx) == 0 {
		return
	}
	for m := r.Range(1, 3); m > 0; m-- {
		k.Decls[Pick(r, idx)].Price, _ = c12MagPrice(r)
	}
	k.Shape += "/mag"
	c.Tag("days-magnitude-literals")
}

// c12DaysCase: prices go through journal.Builder (grouping by date, file order within a day) and the
// ComputePrices processor; every day's Normalized table is compared and monitored.
func (c *Ctx) c12DaysCase(bt *Batch, stream string, i int, k c12Case) {
	c.Evals++
	in := k.input()
	type dayOut struct {
		day   int
		table map[string]string
		isNil bool
	}
	var days []dayOut
	// an include tree (stream shared): root.knut + its included files, written once, loaded repeatedly
	multi := k.Files > 1 && c.WorkDir != ""
	viaFile := c.WorkDir != "" && (i%3 == 0 || multi)
	if viaFile {
		c.Tag("days-via-file")
	}
	treeRoot := ""
	if multi {
		c.Tag("days-via-include-tree")
		treeRoot = c12WriteTree(filepath.Join(c.WorkDir, "c12shared"), k)
	}
	impl := func() (answer string) {
		defer func() {
			if p := recover(); p != nil {
				answer = fmt.Sprintf("panic %v", p)
			}
		}()
		days = nil
		reg := registry.New()
		com := func(name string) *model.Commodity {
			cm, err := reg.Commodities().Get(name)
			if err != nil {
				panic(err)
			}
			return cm
		}
		var jb *journal.Builder
		if k.PreV {
			com(k.V)
		}
		if multi {
			// the whole loading pipeline on an include tree: the files are parsed and converted concurrently, one shared registry
			var err error
			if jb, err = journal.FromPath(context.Background(), reg, treeRoot); err != nil {
				return "load-error " + err.Error()
			}
		} else if viaFile {
			// the whole loading pipeline: file -> parser -> price.Create -> journal.Builder
			var tb strings.Builder
			for n, d := range k.Decls {
				if d.Empty {
					fmt.Fprintf(&tb, "%s open Assets:Marker%d\n", dayTime(d.Day).Format("2006-01-02"), n)
				} else {
					fmt.Fprintf(&tb, "%s price %s %s %s\n", dayTime(d.Day).Format("2006-01-02"), d.Com, d.Price, d.Tgt)
				}
			}
			os.MkdirAll(c.WorkDir, 0o755)
			path := filepath.Join(c.WorkDir, "c12days.knut")
			if err := os.WriteFile(path, []byte(tb.String()), 0o644); err != nil {
				panic(err)
			}
			var err error
			if jb, err = journal.FromPath(context.Background(), reg, path); err != nil {
				return "load-error " + err.Error()
			}
		} else {
			jb = journal.New()
			for _, d := range k.Decls {
				if d.Empty {
					jb.Add(&model.Transaction{Date: dayTime(d.Day), Description: "x"})
					continue
				}
				p, _ := decimal.NewFromString(d.Price)
				jb.Add(&model.Price{Date: dayTime(d.Day), Commodity: com(d.Com), Price: p, Target: com(d.Tgt)})
			}
		}
		j := jb.Build()
		if err := j.Process(journal.ComputePrices(com(k.V))); err != nil {
			return "error"
		}
		var b strings.Builder
		b.WriteString("ok")
		for _, d := range j.Days {
			fmt.Fprintf(&b, " %d", dayNum(d.Date))
			o := dayOut{day: dayNum(d.Date), isNil: d.Normalized == nil, table: map[string]string{}}
			if d.Normalized == nil {
				b.WriteString("|nil")
			} else {
				for cm, p := range d.Normalized {
					if _, dup := o.table[cm.Name()]; dup && cm != com(cm.Name()) {
						continue // two entries of one name: the one of the registered commodity is reported
					}
					o.table[cm.Name()] = p.String()
				}
				for _, q := range k.Queries {
					if p, err := d.Normalized.Price(com(q.Com)); err == nil {
						b.WriteString("|" + p.String())
					} else {
						b.WriteString("|none")
					}
				}
			}
			days = append(days, o)
		}
		return b.String()
	}
	first := impl()
	firstDays := days
	bt.Add(func(model string) { c.Compare(stream, i, "c12days", in, first, model) },
		"c12days", Hex(k.V), c12DeclsField(k.Decls, true), c12QueriesField(k.Queries))
	reps := c.N(2, 4)
	if multi {
		reps = c.N(8, 16)
	}
	// runs whose answer differs from run 0 (only a schedule can make them differ): their tables are monitored like those of run 0
	type otherRun struct {
		run    int
		answer string
		days   []dayOut
	}
	var others []otherRun
	for j := 1; j < reps; j++ {
		var again string
		if multi { // the natural schedule with few and with many processors
			old := runtime.GOMAXPROCS([]int{16, 2, 4, 8}[j%4])
			again = impl()
			runtime.GOMAXPROCS(old)
		} else {
			again = impl()
		}
		if !c.Monitor(stream, i, "C12_order_irrelevant(repeated runs give the same prices)", in, again == first, "run 0: "+first+" run "+itoa(j)+": "+again) && len(others) < 2 {
			others = append(others, otherRun{j, again, days})
		}
	}
	// "a zero price is rejected", stated on the real outcome of the journal: a journal holding a zero price directive
	// must fail wherever that directive stands (first, last, re-quoted later the same day or on a later day, either
	// direction), and a journal without one must be accepted. Evaluated by the driver (Spec.insertOK).
	if strings.HasPrefix(first, "ok") || first == "error" {
		acc := "0"
		if first != "error" {
			acc = "1"
		}
		var priced []c12Decl
		for _, d := range k.Decls {
			if !d.Empty {
				priced = append(priced, d)
			}
		}
		bt.Add(func(mon string) {
			c.Monitor(stream, i, "insertOK(journal: a zero price directive is rejected wherever it stands, others accepted)", in, mon == "ok",
				"accepted="+acc+" zero price directives: "+c12ZeroDirectives(k)+" => "+mon)
		}, "c12insmon", c12DeclsField(priced, false), acc)
	}
	if !strings.HasPrefix(first, "ok") {
		zero := false
		for _, d := range k.Decls {
			if p, err := decimal.NewFromString(d.Price); !d.Empty && err == nil && p.IsZero() {
				zero = true
			}
		}
		c.Monitor(stream, i, "error only for a zero price", in, zero && first == "error", first)
		c.Class("c12days/error")
		return
	}
	// journal order: by day, file order within a day (stable sort of the file order) -- computed here, independently of the model
	sorted := make([]c12Decl, 0, len(k.Decls))
	for _, d := range k.Decls {
		if !d.Empty {
			sorted = append(sorted, d)
		}
	}
	sort.SliceStable(sorted, func(a, b int) bool { return sorted[a].Day < sorted[b].Day })
	nilDays, carried := 0, 0
	for _, o := range others {
		if !strings.HasPrefix(o.answer, "ok") {
			continue
		}
		for _, d := range o.days {
			var prefix []c12Decl
			for _, x := range sorted {
				if x.Day <= d.day {
					prefix = append(prefix, x)
				}
			}
			d := d
			in2 := map[string]any{"case": in, "day": d.day, "date": dayTime(d.day).Format("2006-01-02"), "run": o.run}
			if len(prefix) == 0 || d.isNil {
				c.Monitor(stream, i, "no table exactly before the first price", in2, d.isNil == (len(prefix) == 0), fmt.Sprintf("nil=%v declarations so far=%d", d.isNil, len(prefix)))
				continue
			}
			bt.Add(func(mon string) {
				c.Monitor(stream, i, "priceOK(day)", in2, mon == "ok", "table "+c12ShowTable(d.table)+" => "+mon)
			}, "c12mon", Hex(k.V), c12DeclsField(prefix, false), c12TableField(d.table))
		}
	}
	for _, d := range firstDays {
		var prefix []c12Decl
		own := false
		for _, x := range sorted {
			if x.Day <= d.day {
				prefix = append(prefix, x)
				own = own || x.Day == d.day
			}
		}
		d := d
		in2 := map[string]any{"case": in, "day": d.day, "date": dayTime(d.day).Format("2006-01-02")}
		if len(prefix) == 0 || d.isNil {
			c.Monitor(stream, i, "no table exactly before the first price", in2, d.isNil == (len(prefix) == 0), fmt.Sprintf("nil=%v declarations so far=%d", d.isNil, len(prefix)))
			nilDays++
			continue
		}
		if !own {
			carried++
		}
		bt.Add(func(mon string) {
			c.Monitor(stream, i, "priceOK(day)", in2, mon == "ok", "table "+c12ShowTable(d.table)+" => "+mon)
		}, "c12mon", Hex(k.V), c12DeclsField(prefix, false), c12TableField(d.table))
	}
	if len(others) > 0 {
		bt.Flush() // so that the verdicts of priceOK(day) on the differing runs are recorded next to the difference
	}
	if multi {
		c.Class(fmt.Sprintf("c12shared/%s/n%s/files%d/days%s/nil%v/carried%v", k.Shape, bucket(len(k.Names)), k.Files, bucket(len(firstDays)), nilDays > 0, carried > 0))
	} else {
		c.Class(fmt.Sprintf("c12days/%s/days%s/nil%v/carried%v/file%v", k.Shape, bucket(len(firstDays)), nilDays > 0, carried > 0, viaFile))
	}
	if i < 2 {
		c.Sample(map[string]any{"stream": stream, "input": in, "impl": first})
	}
}

// ---------------------------------------------------------------- stream requote: positions of a quote within a day

// c12ZeroDirectives lists the zero price directives of a case with their position among the price directives of their
// date (file order), for reading a finding.
func c12ZeroDirectives(k c12Case) string {
	perDay := map[int]int{}
	for _, d := range k.Decls {
		if !d.Empty {
			perDay[d.Day]++
		}
	}
	seen := map[int]int{}
	var out []string
	for _, d := range k.Decls {
		if d.Empty {
			continue
		}
		seen[d.Day]++
		if p, err := decimal.NewFromString(d.Price); err == nil && p.IsZero() {
			out = append(out, fmt.Sprintf("%s price %s %s %s (quote %d of %d that day)", dayTime(d.Day).Format("2006-01-02"), d.Com, d.Price, d.Tgt, seen[d.Day], perDay[d.Day]))
		}
	}
	if len(out) == 0 {
		return "none"
	}
	return strings.Join(out, "; ")
}

func c12HasZero(k c12Case) bool {
	for _, d := range k.Decls {
		if p, err := decimal.NewFromString(d.Price); !d.Empty && err == nil && p.IsZero() {
			return true
		}
	}
	return false
}

// where the odd (zero / negative / tiny) quote stands relative to the other quotes of its pair and of its day
var c12OddPositions = []string{"alone", "first", "middle", "last", "before-same", "before-inverse", "after-same", "after-inverse",
	"between-same", "between-inverse", "twice", "later-day-requote", "earlier-day-quote", "both-days"}

func c12OddPrice(r *RNG, kind string) string {
	switch kind {
	case "zero":
		return Pick(r, []string{"0", "0", "0.0", "-0", "0.00000000", "000", "-0.00", "0.000000000000"})
	case "negative":
		return "-" + Pick(r, []string{"1", "0.5", "15.93", "0.00000001", "100000000", "3"})
	default: // tiny, not zero: accepted; the stored reciprocal is huge, products truncate to 0
		return Pick(r, []string{"0.00000001", "0.000000001", "0.0000000001", "0.00000000000000000001", "0.0000000149"})
	}
}

// c12GenRequote: 2-4 commodities, 1-3 pairs quoted 0-5 times a day (either direction) over 1-4 dates, and one or two
// odd quotes placed at a chosen position of a day: alone, first, middle, last, before/after/between quotes of the same
// pair in the same or the inverse direction, twice, or re-quoted on another date. File order: by date, by date
// descending, or a random merge that keeps the order within every date.
func c12GenRequote(r *RNG) c12Case {
	n := r.Range(2, 4)
	names := c12Names(r, n)
	k := c12Case{Names: names}
	nd := r.Range(1, 4)
	base := 737000 + r.Intn(1000)
	type pair struct{ a, b int }
	var pairs []pair
	for j := r.Range(1, 3); j > 0; j-- {
		a, b := r.Intn(n), r.Intn(n-1)
		if b >= a {
			b++
		}
		pairs = append(pairs, pair{a, b})
	}
	// dates base+2*idx, idx 0 and nd+1 without background quotes (room for an earlier / later date)
	days := make([][]c12Decl, nd+2)
	quote := func(idx int, p pair, inverse bool, price string) c12Decl {
		a, b := p.a, p.b
		if inverse {
			a, b = b, a
		}
		return c12Decl{Com: names[a], Price: price, Tgt: names[b], Day: base + 2*idx}
	}
	for idx := 1; idx <= nd; idx++ {
		for j := r.Intn(6); j > 0; j-- {
			days[idx] = append(days[idx], quote(idx, Pick(r, pairs), r.Bool(), c12Price(r, false)))
		}
	}
	insertAt := func(l []c12Decl, at int, x c12Decl) []c12Decl {
		l = append(l, c12Decl{})
		copy(l[at+1:], l[at:])
		l[at] = x
		return l
	}
	k.Shape = "requote/none"
	odds := 0
	if r.Chance(5, 6) {
		odds = 1
		if r.Chance(1, 5) {
			odds = 2
		}
	}
	for o := 0; o < odds; o++ {
		kind := Pick(r, []string{"zero", "zero", "zero", "negative", "tiny"})
		pos := Pick(r, c12OddPositions)
		idx := r.Range(1, nd)
		p := Pick(r, pairs)
		inv := r.Bool()
		odd := func() c12Decl { return quote(idx, p, inv, c12OddPrice(r, kind)) }
		same := func(at int) c12Decl { return quote(at, p, inv, c12Price(r, false)) }
		inverse := func(at int) c12Decl { return quote(at, p, !inv, c12Price(r, false)) }
		l := days[idx]
		// three ascending insertion points
		at := r.Intn(len(l) + 1)
		at2 := at + 1 + r.Intn(len(l)-at+1)
		at3 := at2 + 1 + r.Intn(len(l)+2-at2)
		switch pos {
		case "alone":
			l = []c12Decl{odd()}
		case "first":
			l = insertAt(l, 0, odd())
		case "middle":
			l = insertAt(l, at, odd())
		case "last":
			l = append(l, odd())
		case "before-same":
			l = insertAt(insertAt(l, at, odd()), at2, same(idx))
		case "before-inverse":
			l = insertAt(insertAt(l, at, odd()), at2, inverse(idx))
		case "after-same":
			l = insertAt(insertAt(l, at, same(idx)), at2, odd())
		case "after-inverse":
			l = insertAt(insertAt(l, at, inverse(idx)), at2, odd())
		case "between-same":
			l = insertAt(insertAt(insertAt(l, at, same(idx)), at2, odd()), at3, same(idx))
		case "between-inverse":
			l = insertAt(insertAt(insertAt(l, at, inverse(idx)), at2, odd()), at3, inverse(idx))
		case "twice":
			l = insertAt(insertAt(l, at, odd()), at2, odd())
		case "later-day-requote":
			l = insertAt(l, at, odd())
			days[idx+1] = append(days[idx+1], same(idx+1))
		case "earlier-day-quote":
			l = insertAt(l, at, odd())
			days[idx-1] = append(days[idx-1], same(idx-1))
		default: // both-days
			l = insertAt(l, at, odd())
			days[idx-1] = append(days[idx-1], inverse(idx-1))
			days[idx+1] = append(days[idx+1], same(idx+1))
		}
		days[idx] = l
		if o == 0 {
			k.Shape = "requote/" + kind + "/" + pos
		} else {
			k.Shape += "+" + kind
		}
	}
	// file order
	switch r.Intn(3) {
	case 0:
		for _, l := range days {
			k.Decls = append(k.Decls, l...)
		}
	case 1:
		for j := len(days) - 1; j >= 0; j-- {
			k.Decls = append(k.Decls, days[j]...)
		}
	default: // random merge, order within a date kept
		rest := 0
		for _, l := range days {
			rest += len(l)
		}
		next := make([]int, len(days))
		for ; rest > 0; rest-- {
			t := r.Intn(rest)
			for j, l := range days {
				if left := len(l) - next[j]; t < left {
					k.Decls = append(k.Decls, l[next[j]])
					next[j]++
					break
				} else {
					t -= left
				}
			}
		}
	}
	// dates without a price, anywhere in the file
	for j := r.Intn(3); j > 0; j-- {
		k.Decls = insertAt(k.Decls, r.Intn(len(k.Decls)+1), c12Decl{Day: base - 1 + r.Intn(2*nd+5), Empty: true})
	}
	k.V = Pick(r, names)
	if r.Chance(1, 12) {
		k.V = "NOWHERE"
	}
	for _, c := range names {
		k.Queries = append(k.Queries, c12Query{c, "1"})
	}
	k.Queries = append(k.Queries, c12Query{"UNKNOWN", "1"})
	return k
}

// c12BalanceCase: the same journal given to the knut binary (`knut balance -v V`): it fails with the zero price error
// exactly when the journal holds a zero price directive.
func (c *Ctx) c12BalanceCase(stream string, i int, k c12Case) {
	if c.KnutBin == "" || c.WorkDir == "" {
		return
	}
	var tb strings.Builder
	for n, d := range k.Decls {
		if d.Empty {
			fmt.Fprintf(&tb, "%s open Assets:Marker%d\n", dayTime(d.Day).Format("2006-01-02"), n)
		} else {
			fmt.Fprintf(&tb, "%s price %s %s %s\n", dayTime(d.Day).Format("2006-01-02"), d.Com, d.Price, d.Tgt)
		}
	}
	os.MkdirAll(c.WorkDir, 0o755)
	path := filepath.Join(c.WorkDir, "c12balance.knut")
	if err := os.WriteFile(path, []byte(tb.String()), 0o644); err != nil {
		panic(err)
	}
	code, _, stderr := runKnut(c.KnutBin, 30*time.Second, nil, "balance", "-v", k.V, "--color=false", path)
	if code == -2 {
		c.Tag("balance-timeout-skipped")
		return
	}
	c.Evals++
	c.Tag("balance-v-binary")
	in := k.input()
	zero := c12HasZero(k)
	ok := (code == 0) == !zero
	if zero && code != 0 {
		ok = strings.Contains(stderr, "invalid price")
	}
	c.Monitor(stream, i, "knut balance -v: a journal with a zero price directive is rejected (invalid price), others accepted", in, ok,
		fmt.Sprintf("exit %d stderr %q zero price directives: %s", code, c12FirstLine(stderr), c12ZeroDirectives(k)))
}

func c12FirstLine(s string) string {
	if j := strings.IndexByte(s, '\n'); j >= 0 {
		return s[:j]
	}
	return s
}

// ---------------------------------------------------------------- stream shared: one price history spread over included files

// c12TreeFiles renders a shared case as its files: root.knut and f0.knut .. f<Files-1>.knut. A file starts with the include
// directives of its children (so that they are read while the parent is still being parsed), then holds its own directives
// in the order of k.Decls (File -1 = root.knut).
func c12TreeFiles(k c12Case) map[string]string {
	name := func(f int) string {
		if f < 0 {
			return "root.knut"
		}
		return fmt.Sprintf("f%d.knut", f)
	}
	texts := map[int]*strings.Builder{-1: {}}
	for f := 0; f < k.Files; f++ {
		texts[f] = &strings.Builder{}
	}
	for f := 0; f < k.Files; f++ {
		p := -1
		if f < len(k.Parents) && k.Parents[f] >= 0 && k.Parents[f] < k.Files && k.Parents[f] != f {
			p = k.Parents[f]
		}
		fmt.Fprintf(texts[p], "include \"%s\"\n", name(f))
	}
	for n, d := range k.Decls {
		b, ok := texts[d.File]
		if !ok {
			b = texts[-1]
		}
		if d.Empty {
			fmt.Fprintf(b, "%s open Assets:Marker%d\n", dayTime(d.Day).Format("2006-01-02"), n)
		} else {
			fmt.Fprintf(b, "%s price %s %s %s\n", dayTime(d.Day).Format("2006-01-02"), d.Com, d.Price, d.Tgt)
		}
	}
	out := map[string]string{}
	for f, b := range texts {
		out[name(f)] = b.String()
	}
	return out
}

// c12WriteTree writes the files of a shared case into dir (emptied first) and returns the path of root.knut.
func c12WriteTree(dir string, k c12Case) string {
	os.RemoveAll(dir)
	if err := os.MkdirAll(dir, 0o755); err != nil {
		panic(err)
	}
	for name, text := range c12TreeFiles(k) {
		if err := os.WriteFile(filepath.Join(dir, name), []byte(text), 0o644); err != nil {
			panic(err)
		}
	}
	return filepath.Join(dir, "root.knut")
}

// c12GenShared: a price graph of 2-40 commodities (all new to the registry when loading starts) whose history is spread over
// 2-8 included files. Every file quotes the pairs of the graph in the SAME order (each pair in every file, for larger graphs
// in about half of them), so all files mention the same not-yet-registered commodities in their first directives, at the same
// moment; the quotes of one pair stand on different dates in different files (never the same pair twice on one date, so the
// order in which the loader delivers the files cannot matter), in either direction. Files are siblings under root.knut, or
// (a quarter of the cases) some are included from another included file. Optional: a zero quote, dates without a price,
// the valuation commodity registered before loading.
func c12GenShared(r *RNG) c12Case {
	var n int
	switch s := r.Intn(25); {
	case s < 12:
		n = r.Range(2, 7)
	case s < 23:
		n = r.Range(8, 16)
	default:
		n = r.Range(17, 40)
	}
	shape := Pick(r, c12Shapes)
	if n > 7 && (shape == "complete" || shape == "ladder" || shape == "sparse") {
		shape = Pick(r, []string{"tree", "cycle", "triangle"})
	}
	if n > 16 {
		shape = Pick(r, []string{"line", "star", "tree", "two-components"})
	}
	var names []string
	if n <= len(c12NamePool) {
		names = c12Names(r, n)
	} else {
		names = c12Names(r, len(c12NamePool))
		for j := len(names); j < n; j++ {
			names = append(names, fmt.Sprintf("%s%d", Pick(r, []string{"K", "AA", "x", "Ä"}), j))
		}
	}
	k := c12Case{Shape: shape + "/shared", Names: names}
	// the pairs, each unordered pair once
	type pair struct{ a, b int }
	var pairs []pair
	seen := map[pair]bool{}
	for _, e := range c12Graph(r, shape, n) {
		a, b := e[0]%n, e[1]%n
		if a > b {
			a, b = b, a
		}
		if !seen[pair{a, b}] {
			seen[pair{a, b}] = true
			pairs = append(pairs, pair{a, b})
		}
	}
	for j := len(pairs) - 1; j > 0; j-- {
		m := r.Intn(j + 1)
		pairs[j], pairs[m] = pairs[m], pairs[j]
	}
	k.Files = r.Range(2, 8)
	k.Parents = make([]int, k.Files)
	nested := r.Chance(1, 4)
	for f := range k.Parents {
		k.Parents[f] = -1
		if nested && f > 0 && r.Bool() {
			k.Parents[f] = r.Intn(f)
		}
	}
	// date slots: at least one per file, so that the quotes of a pair (one per file at most) get different dates
	base := 737000 + r.Intn(1000)
	slots := make([]int, k.Files+r.Intn(3))
	gap := r.Range(1, 3)
	for j := range slots {
		slots[j] = base + j*gap
	}
	for j := len(slots) - 1; j > 0; j-- {
		m := r.Intn(j + 1)
		slots[j], slots[m] = slots[m], slots[j]
	}
	offs := make([]int, len(pairs))
	for j := range offs {
		offs[j] = r.Intn(len(slots))
	}
	for f := 0; f < k.Files; f++ {
		for j, p := range pairs {
			// small graphs: every pair in every file; larger ones: in the first file and about half of the others
			if n > 7 && f > 0 && r.Bool() {
				continue
			}
			a, b := p.a, p.b
			if r.Bool() {
				a, b = b, a
			}
			k.Decls = append(k.Decls, c12Decl{Com: names[a], Price: c12Price(r, false), Tgt: names[b], Day: slots[(f+offs[j])%len(slots)], File: f})
		}
	}
	if len(k.Decls) > 0 && r.Chance(1, 25) {
		k.Decls[r.Intn(len(k.Decls))].Price = c12OddPrice(r, "zero")
		k.Shape += "/zero"
	}
	// dates without a price, in any file or in root.knut
	for j := r.Intn(3); j > 0; j-- {
		k.Decls = append(k.Decls, c12Decl{Day: base - 2 + r.Intn(len(slots)*gap+4), Empty: true, File: r.Intn(k.Files+1) - 1})
	}
	k.V = Pick(r, names)
	if r.Chance(1, 12) {
		k.V = "NOWHERE"
	}
	k.PreV = r.Bool()
	for _, c := range names {
		k.Queries = append(k.Queries, c12Query{c, "1"})
	}
	k.Queries = append(k.Queries, c12Query{"UNKNOWN", "1"})
	return k
}

// c12SharedBalanceCase: the include tree of a shared case given to the knut binary, with one unit of every commodity of
// the graph booked (root.knut, after all quotes) on its own account: `knut balance -v V root.knut` under the natural
// schedule and under the scheduling hook (KNUT_VERIF_SEED), with 2 and 16 processors. Valuation fails exactly when a
// zero price was declared (invalid price) or some booked commodity is not connected to V by declarations (no price found).
func (c *Ctx) c12SharedBalanceCase(stream string, i int, k c12Case) {
	if c.KnutBin == "" || c.WorkDir == "" || k.Files < 2 {
		return
	}
	// connected to V by declarations (harness side, union-find over the names)
	parent := map[string]string{}
	var find func(x string) string
	find = func(x string) string {
		if p, ok := parent[x]; ok && p != x {
			r := find(p)
			parent[x] = r
			return r
		}
		return x
	}
	last, priced := 0, 0
	for _, d := range k.Decls {
		if d.Day > last {
			last = d.Day
		}
		if !d.Empty {
			priced++
			parent[find(d.Com)] = find(d.Tgt)
		}
	}
	if priced == 0 {
		return
	}
	var unconnected []string
	var extra strings.Builder
	first := 737000 - 400
	fmt.Fprintf(&extra, "%s open Equity:Opening\n", dayTime(first).Format("2006-01-02"))
	for j := range k.Names {
		fmt.Fprintf(&extra, "%s open Assets:P%d\n", dayTime(first).Format("2006-01-02"), j)
	}
	for j, n := range k.Names {
		fmt.Fprintf(&extra, "\n%s \"position\"\nEquity:Opening Assets:P%d 1 %s\n", dayTime(last+1).Format("2006-01-02"), j, n)
		if find(n) != find(k.V) {
			unconnected = append(unconnected, n)
		}
	}
	dir := filepath.Join(c.WorkDir, "c12sharedbin")
	root := c12WriteTree(dir, k)
	text, err := os.ReadFile(root)
	if err != nil {
		panic(err)
	}
	if err := os.WriteFile(root, append(text, extra.String()...), 0o644); err != nil {
		panic(err)
	}
	in := k.input()
	in["positions"] = extra.String()
	in["command"] = "knut balance -v " + k.V + " --color=false root.knut (root.knut = the includes and directives of the tree followed by `positions`)"
	zero := c12HasZero(k)
	for run, env := range [][]string{{"GOMAXPROCS=16"}, {"GOMAXPROCS=2"},
		{"GOMAXPROCS=16", fmt.Sprintf("KNUT_VERIF_SEED=%d", c.Seed*7919+uint64(i)*31+1)}, {"GOMAXPROCS=2", fmt.Sprintf("KNUT_VERIF_SEED=%d", c.Seed*7919+uint64(i)*31+2)}} {
		code, _, stderr := runKnut(c.KnutBin, 30*time.Second, env, "balance", "-v", k.V, "--color=false", root)
		if code == -2 {
			c.Tag("balance-timeout-skipped")
			continue
		}
		c.Evals++
		c.Tag("shared-balance-v-binary")
		var ok bool
		switch {
		case zero:
			ok = code != 0 && strings.Contains(stderr, "invalid price")
		case len(unconnected) > 0:
			ok = code != 0 && strings.Contains(stderr, "no price found")
		default:
			ok = code == 0
		}
		c.Monitor(stream, i, "knut balance -v on the include tree: fails exactly for a zero price (invalid price) or a booked commodity not connected to V (no price found)", in, ok,
			fmt.Sprintf("run %d env %v: exit %d stderr %q; zero price directives: %s; booked commodities not connected to %s: %v", run, env, code, c12FirstLine(stderr), c12ZeroDirectives(k), k.V, unconnected))
	}
}

// ---------------------------------------------------------------- stream filter: `knut balance -v V --csv -s .` with and without row filters

// A row filter (--commodity, --account) selects rows of the valued report; it never changes the price a position is valued at.
// The unfiltered report's cells must be quantity x the model's normalised price of the report date; every cell of a filtered
// report must be the same cell of the unfiltered report, and the Assets rows shown are exactly the selected ones.

type c12Position struct {
	Acct int // Assets:P<Acct>
	Com  string
	Qty  string
}

type c12FilterRun struct{ Commodity, Account string } // regexes, "" = flag not given

type c12FilterCase struct {
	c12Case
	Positions   []c12Position
	BookDay     int
	To          int // 0 = no --to
	Runs        []c12FilterRun
	Unconnected []string // booked commodities not connected to V when booked
	Mag         string   // stream magnitude: class of the (last drawn) long price literal
}

// c12MagPrice: a positive non-zero price literal of C02's magnitude generator (15-40 digits around 2^31, 2^53, 10^18, 2^63, 10^19,
// 2^64, 2^128, the point anywhere, leading zeros, long fractions, tiny values); the sign is dropped, zero is redrawn.
func c12MagPrice(r *RNG) (string, string) {
	for {
		lit, class := c02MagLiteral(r)
		lit = strings.TrimPrefix(lit, "-")
		if strings.Trim(lit, "0.") == "" || (class == "ordinary" && r.Chance(2, 3)) {
			continue
		}
		return lit, strings.ReplaceAll(class, "/neg", "")
	}
}

func c12FilterPrice(r *RNG) string {
	switch k := r.Intn(10); {
	case k < 3:
		return Pick(r, []string{"1", "2", "3", "5", "7", "10", "100", "4", "8", "0.5", "0.25", "1.25", "0.2", "0.1", "1.5", "0.125", "2.5"})
	case k < 5:
		return Pick(r, []string{"3", "7", "0.3", "0.7", "9", "11", "13", "0.03", "1.7", "6", "1.10", "0.95", "0.80"})
	case k < 7:
		return fmt.Sprintf("%d.%0*d", r.Intn(300), r.Range(1, 6), r.Range(1, 99999))
	case k == 7:
		return fmt.Sprintf("%d.%08d", r.Intn(50), r.Range(1, 99999999))
	case k == 8:
		return fmt.Sprintf("%d.%08d%d", r.Intn(50), r.Range(1, 99999999), r.Range(1, 99999))
	default:
		return fmt.Sprintf("%d.%02d", r.Range(1, 2000), r.Intn(100))
	}
}

// c12GenFilter: a price graph of 3-8 commodities (chains of length 2-4 from V, diamonds and ladders with two routes of equal
// length so that name order decides, cycles, trees, triangles; every pair quoted in a random direction or, a quarter of the
// cases each, all pairs quoted towards / away from the lower index), declared on one or two dates; positions of one to all
// of the commodities booked the day after in 1-3 asset accounts; 0-3 later re-quotes / new pairs (value adjustments); a
// report date (--to) on or after the booking date; 2-3 filtered runs (--commodity: one or several booked commodities
// anchored, one unanchored name, an intermediate commodity, everything; --account; both).
//
// mag (stream magnitude): one or two of the quotes (and a later re-quote now and then) carry a literal of c12MagPrice; V is
// mostly an end of such a pair and the other end is booked, half of the time with quantity 1, so that the report shows the
// declared price itself (or its reciprocal) next to the chained prices. Without mag no extra random draw is made.
func c12GenFilter(r *RNG, mag bool) c12FilterCase {
	n := r.Range(3, 6)
	if r.Chance(1, 5) {
		n = r.Range(7, 8)
	}
	shape := Pick(r, []string{"line", "line", "diamond", "diamond", "ladder", "cycle", "tree", "triangle", "star", "complete", "two-components"})
	if shape == "complete" && n > 5 {
		shape = "cycle"
	}
	if shape == "line" && n > 5 {
		n = r.Range(3, 5)
	}
	names := c12Names(r, n)
	k := c12FilterCase{c12Case: c12Case{Shape: shape + "/filter", Names: names}}
	base := 737000 + r.Intn(1000)
	dir := r.Intn(4) // 0, 1: random per pair; 2: lower index quoted in higher; 3: higher quoted in lower
	type pair struct{ a, b int }
	seen := map[pair]bool{}
	var pairs []pair
	for _, e := range c12Graph(r, shape, n) {
		a, b := e[0]%n, e[1]%n
		if a > b {
			a, b = b, a
		}
		if a == b || seen[pair{a, b}] {
			continue
		}
		seen[pair{a, b}] = true
		pairs = append(pairs, pair{a, b})
		if dir == 3 || (dir < 2 && r.Bool()) {
			a, b = b, a
		}
		k.Decls = append(k.Decls, c12Decl{Com: names[a], Price: c12FilterPrice(r), Tgt: names[b], Day: base - r.Intn(2)*r.Intn(2)})
	}
	for i := len(k.Decls) - 1; i > 0; i-- {
		j := r.Intn(i + 1)
		k.Decls[i], k.Decls[j] = k.Decls[j], k.Decls[i]
	}
	// V: an end of the chain / the corner of the diamond half of the time
	k.V = names[0]
	if r.Bool() {
		k.V = Pick(r, names)
	}
	magComs := map[string]bool{}
	if mag && len(k.Decls) > 0 {
		k.Shape = shape + "/magnitude"
		for j, m := 0, r.Range(1, 2); j < m; j++ {
			d := &k.Decls[r.Intn(len(k.Decls))]
			d.Price, k.Mag = c12MagPrice(r)
			magComs[d.Com], magComs[d.Tgt] = true, true
			if j == 0 && r.Chance(2, 3) {
				k.V = Pick(r, []string{d.Tgt, d.Tgt, d.Com})
			}
		}
	}
	// connected to V when the positions are booked
	parent := map[string]string{}
	var find func(x string) string
	find = func(x string) string {
		if p, ok := parent[x]; ok && p != x {
			root := find(p)
			parent[x] = root
			return root
		}
		return x
	}
	for _, d := range k.Decls {
		parent[find(d.Com)] = find(d.Tgt)
	}
	k.BookDay = base + 1
	nacct := r.Range(1, 3)
	all := r.Chance(1, 3)
	for _, c := range names {
		conn := find(c) == find(k.V)
		if (conn && (all || (mag && magComs[c]) || r.Bool())) || (!conn && r.Chance(1, 12)) {
			k.Positions = append(k.Positions, c12Position{Acct: r.Intn(nacct), Com: c, Qty: itoa(r.Range(1, 500))})
			if mag && magComs[c] && r.Bool() { // the price of one unit
				k.Positions[len(k.Positions)-1].Qty = "1"
			}
			if !conn {
				k.Unconnected = append(k.Unconnected, c)
			}
			if r.Chance(1, 6) { // a second lot, same or another account
				k.Positions = append(k.Positions, c12Position{Acct: r.Intn(nacct), Com: c, Qty: itoa(r.Range(1, 500))})
			}
		}
	}
	if len(k.Positions) == 0 {
		c := names[n-1]
		if find(c) != find(k.V) {
			c = k.V
		}
		k.Positions = append(k.Positions, c12Position{Acct: 0, Com: c, Qty: itoa(r.Range(1, 500))})
	}
	// later quotes: an existing pair again (either direction) or a new pair
	last := k.BookDay
	for j := r.Intn(4); j > 0 && len(pairs) > 0; j-- {
		p := Pick(r, pairs)
		if r.Chance(1, 4) {
			p = pair{r.Intn(n), r.Intn(n)}
			if p.a == p.b {
				continue
			}
		}
		a, b := p.a, p.b
		if r.Bool() {
			a, b = b, a
		}
		d := c12Decl{Com: names[a], Price: c12FilterPrice(r), Tgt: names[b], Day: k.BookDay + r.Range(1, 3)}
		if mag && r.Chance(1, 3) {
			d.Price, k.Mag = c12MagPrice(r)
		}
		if d.Day > last {
			last = d.Day
		}
		k.Decls = append(k.Decls, d)
	}
	if r.Chance(1, 3) {
		k.To = r.Range(k.BookDay, last+1)
	}
	// the filtered runs
	booked := []string{}
	isBooked := map[string]bool{}
	for _, p := range k.Positions {
		if !isBooked[p.Com] {
			isBooked[p.Com] = true
			booked = append(booked, p.Com)
		}
	}
	comRx := func() string {
		switch s := r.Intn(12); {
		case s < 5: // one booked commodity
			return "^" + Pick(r, booked) + "$"
		case s < 8: // several
			m := r.Range(1, 3)
			var xs []string
			for j := 0; j < m; j++ {
				xs = append(xs, Pick(r, booked))
			}
			return "^(" + strings.Join(xs, "|") + ")$"
		case s < 10: // unanchored: also selects names containing it
			return Pick(r, booked)
		case s == 10: // any commodity of the graph, booked or not
			return "^" + Pick(r, names) + "$"
		default:
			return "."
		}
	}
	acctRx := func() string {
		return Pick(r, []string{"P0", "P1", "P0|P2", "Assets:P" + itoa(r.Intn(nacct)) + "$", "^Assets", "Assets|Equity", "P[12]"})
	}
	for j := r.Range(2, 3); j > 0; j-- {
		var f c12FilterRun
		switch s := r.Intn(6); {
		case s < 4:
			f.Commodity = comRx()
		case s == 4:
			f.Account = acctRx()
		default:
			f.Commodity, f.Account = comRx(), acctRx()
		}
		k.Runs = append(k.Runs, f)
	}
	return k
}

func c12FilterJournal(k c12FilterCase) string {
	var b strings.Builder
	open := dayTime(k.BookDay - 5).Format("2006-01-02")
	fmt.Fprintf(&b, "%s open Equity:Opening\n", open)
	accts := map[int]bool{}
	for _, p := range k.Positions {
		if !accts[p.Acct] {
			accts[p.Acct] = true
			fmt.Fprintf(&b, "%s open Assets:P%d\n", open, p.Acct)
		}
	}
	for _, d := range k.Decls {
		fmt.Fprintf(&b, "%s price %s %s %s\n", dayTime(d.Day).Format("2006-01-02"), d.Com, d.Price, d.Tgt)
	}
	for _, p := range k.Positions {
		fmt.Fprintf(&b, "\n%s \"position\"\nEquity:Opening Assets:P%d %s %s\n", dayTime(k.BookDay).Format("2006-01-02"), p.Acct, p.Qty, p.Com)
	}
	return b.String()
}

// c12ParseReport reads the CSV of `balance -v V -s . --csv` with one date column: section/account/commodity -> cell.
// Total and Delta rows are sums over the rows shown and are left out.
func c12ParseReport(out string) (map[string]string, error) {
	cells := map[string]string{}
	section, acct := "", ""
	for n, line := range strings.Split(strings.TrimRight(out, "\n"), "\n") {
		f := strings.Split(line, ",")
		if len(f) != 3 {
			return nil, fmt.Errorf("line %d: %d fields: %q", n+1, len(f), line)
		}
		if n == 0 {
			continue
		}
		if f[0] != "" {
			acct = f[0]
		}
		if f[1] == "" && f[2] == "" {
			section = f[0]
			continue
		}
		if strings.HasPrefix(acct, "Total (") || acct == "Delta" {
			continue
		}
		key := section + "/" + acct + "/" + f[1]
		if _, dup := cells[key]; dup {
			return nil, fmt.Errorf("line %d: second row %s", n+1, key)
		}
		cells[key] = f[2]
	}
	return cells, nil
}

func c12DecEq(a, b string) bool {
	x, e1 := decimal.NewFromString(a)
	y, e2 := decimal.NewFromString(b)
	return e1 == nil && e2 == nil && x.Equal(y)
}

func (c *Ctx) c12FilterCaseRun(bt *Batch, stream string, i int, k c12FilterCase) {
	if c.KnutBin == "" || c.WorkDir == "" {
		return
	}
	text := c12FilterJournal(k)
	os.MkdirAll(c.WorkDir, 0o755)
	path := filepath.Join(c.WorkDir, "c12filter.knut")
	if err := os.WriteFile(path, []byte(text), 0o644); err != nil {
		panic(err)
	}
	common := []string{"balance", "-v", k.V, "--csv", "-s", ".", "--color=false"}
	if k.To != 0 {
		common = append(common, "--to", dayTime(k.To).Format("2006-01-02"))
	}
	in := map[string]any{"shape": k.Shape, "v": k.V, "journal": text, "command": "knut " + strings.Join(common, " ") + " journal.knut"}
	code, out, stderr := runKnut(c.KnutBin, 30*time.Second, nil, append(append([]string{}, common...), path)...)
	if code == -2 {
		c.Tag("balance-timeout-skipped")
		return
	}
	c.Evals++
	c.Tag("filter-balance-binary")
	if len(k.Unconnected) > 0 {
		c.Monitor(stream, i, "knut balance -v: fails (no price found) when a booked commodity is not connected to V", in,
			code != 0 && strings.Contains(stderr, "no price found"), fmt.Sprintf("exit %d stderr %q; not connected to %s: %v", code, c12FirstLine(stderr), k.V, k.Unconnected))
		c.Class("c12filter/" + k.Shape + "/unconnected")
		return
	}
	if !c.Monitor(stream, i, "knut balance -v: every booked commodity is connected to V, so the report is produced", in, code == 0, fmt.Sprintf("exit %d stderr %q", code, c12FirstLine(stderr))) {
		return
	}
	full, err := c12ParseReport(out)
	if !c.Monitor(stream, i, "knut balance -v --csv -s .: one row per account and commodity", in, err == nil, fmt.Sprintf("%v\n%s", err, out)) {
		return
	}
	// the implied prices are the model's normalised prices of the report date: cell = Valuate(total quantity)
	day := k.To
	if day == 0 {
		day = 1 << 30
	}
	var prefix []c12Decl
	for _, d := range k.Decls {
		if d.Day <= day {
			prefix = append(prefix, d)
		}
	}
	sort.SliceStable(prefix, func(a, b int) bool { return prefix[a].Day < prefix[b].Day })
	type lot struct {
		acct int
		com  string
	}
	totals := map[lot]int{}
	var lots []lot
	for _, p := range k.Positions {
		l := lot{p.Acct, p.Com}
		if _, ok := totals[l]; !ok {
			lots = append(lots, l)
		}
		q := 0
		fmt.Sscanf(p.Qty, "%d", &q)
		totals[l] += q
	}
	var qs []c12Query
	for _, l := range lots {
		qs = append(qs, c12Query{l.com, itoa(totals[l])})
	}
	bt.Add(func(model string) {
		parts := strings.Fields(model)
		if len(parts) != len(lots)+1 || parts[0] != "ok" {
			c.Monitor(stream, i, "the model values the positions", in, false, model)
			return
		}
		for j, l := range lots {
			pv := strings.SplitN(parts[j+1], "/", 2)
			key := fmt.Sprintf("Assets/P%d/%s", l.acct, l.com)
			cell, shown := full[key]
			ok := len(pv) == 2 && ((shown && c12DecEq(cell, pv[1])) || (!shown && c12DecEq(pv[1], "0")))
			c.Monitor(stream, i, "knut balance -v: the value of a position is quantity x the normalised price of the report date (priceOK on the report)", in, ok,
				fmt.Sprintf("%d %s in Assets:P%d: report %q (shown=%v), model price/value %s\n%s", totals[l], l.com, l.acct, cell, shown, parts[j+1], out))
		}
	}, "c12", Hex(k.V), c12DeclsField(prefix, false), c12QueriesField(qs), "0")
	// filtered runs: rows are selected, cells never change
	for _, f := range k.Runs {
		args := append([]string{}, common...)
		if f.Commodity != "" {
			args = append(args, "--commodity", f.Commodity)
		}
		if f.Account != "" {
			args = append(args, "--account", f.Account)
		}
		in2 := map[string]any{"case": in, "filtered": "knut " + strings.Join(args, " ") + " journal.knut"}
		code2, out2, stderr2 := runKnut(c.KnutBin, 30*time.Second, nil, append(args, path)...)
		if code2 == -2 {
			c.Tag("balance-timeout-skipped")
			continue
		}
		c.Evals++
		if !c.Monitor(stream, i, "a row filter never changes whether the positions can be valued", in2, code2 == 0, fmt.Sprintf("unfiltered exit 0, filtered exit %d stderr %q", code2, c12FirstLine(stderr2))) {
			continue
		}
		part, err := c12ParseReport(out2)
		if out2 == "" || strings.Count(out2, "\n") <= 1 {
			part, err = map[string]string{}, nil
		}
		if !c.Monitor(stream, i, "knut balance -v --csv -s .: one row per account and commodity", in2, err == nil, fmt.Sprintf("%v\n%s", err, out2)) {
			continue
		}
		var bad []string
		for key, cell := range part {
			if want, ok := full[key]; !ok || want != cell {
				bad = append(bad, fmt.Sprintf("%s: filtered %s, unfiltered %q", key, cell, want))
			}
		}
		sort.Strings(bad)
		c.Monitor(stream, i, "a row filter selects rows, it never changes the price used: every cell of the filtered report equals the cell of the unfiltered report", in2, len(bad) == 0,
			strings.Join(bad, "; ")+"\nunfiltered:\n"+out+"filtered:\n"+out2)
		// the Assets rows shown are exactly the selected ones
		crx, arx := c12Rx(f.Commodity), c12Rx(f.Account)
		var wrong []string
		for _, l := range lots {
			key := fmt.Sprintf("Assets/P%d/%s", l.acct, l.com)
			_, inFull := full[key]
			_, inPart := part[key]
			sel := crx.MatchString(l.com) && arx.MatchString(fmt.Sprintf("Assets:P%d", l.acct))
			if inPart != (inFull && sel) {
				wrong = append(wrong, fmt.Sprintf("%s selected=%v shown unfiltered=%v filtered=%v", key, sel, inFull, inPart))
			}
		}
		c.Monitor(stream, i, "a row filter shows exactly the selected positions", in2, len(wrong) == 0, strings.Join(wrong, "; ")+"\nunfiltered:\n"+out+"filtered:\n"+out2)
	}
	if k.Mag != "" {
		c.Class("c12magnitude/" + k.Mag)
	}
	c.Class(fmt.Sprintf("c12filter/%s/n%d/pos%s/to%v/later%v", k.Shape, len(k.Names), bucket(len(lots)), k.To != 0, len(prefix) > 0 && prefix[len(prefix)-1].Day > k.BookDay))
	if i < 1 {
		c.Sample(map[string]any{"stream": stream, "input": in, "impl": out})
	}
}

func c12Rx(s string) *regexp.Regexp {
	if s == "" {
		s = ".*"
	}
	return regexp.MustCompile(s)
}
