import Knut.Proofs.SyntaxRoundTrip
import Knut.Proofs.SyntaxExamples
import Knut.Proofs.SyntaxSem
/-!
# C08 — format preserves meaning and comments and is idempotent

`format text f` is the model of `printer.Format` / `syntax.FormatFile` applied to the tree `f` that the parser
returned for `text` (`none` = a slice bound was violated, i.e. Go's panic); `formatFile path text` is
`formatRunner.formatFile` (parse first, buffer the whole result, then replace the file).
"The same directives with identical fields" is equality of `viewDirective`: the kind of the directive and the
byte strings of its date, accounts, amounts, commodities, description/path, and — for transactions — of the
`@accrue` fields and the `@performance` targets, in field order (so the textual order of annotations is
normalised away, as the property allows). `text` ranges over all byte strings.
-/
namespace Knut.C08
open Knut Knut.Syntax Knut.Spec.Syntax Knut.Utf8

/-- **a file that does not parse is left exactly as it was**: the command's only write happens after a successful
parse (the write itself is `atomic.WriteFile`, C18). -/
theorem C08_unparseable_untouched {path : String} {text : Bytes} {e : Err} (h : parseText path text = .error e) :
    formatFile path text = .rejected e ∧ (formatFile path text).fileAfter text = text := by
  simp [formatFile, h, FormatOutcome.fileAfter]

/-- **formatting a file that parses never panics** (no `Extract()` and no gap slice is out of range), so the
command writes the formatted text. -/
theorem C08_format_total {path : String} {text : Bytes} {f : File} (h : parseText path text = .ok f) :
    ∃ out, format text f = some out ∧ formatFile path text = .written out := by
  obtain ⟨out, _, hf, _⟩ := roundtrip h
  exact ⟨out, hf, by simp [formatFile, h, hf]⟩

/-- **all text between directives is kept byte for byte**: the output is `gap₀ ++ r₁ ++ gap₁ ++ … ++ gapₙ` with the
input's own gap slices and `rᵢ` the rendering of directive `i` from the slices of its own fields. -/
theorem C08_gaps_verbatim {text : Bytes} {f : File} {out : Bytes} (h : format text f = some out) :
    ∃ padding rs, f.directives.mapM (printDirective text padding) = some rs ∧
      out = interleave (gapsOf text 0 (f.directives.map (·.range))) rs := by
  obtain ⟨padding, rs, _, h1, h2⟩ := format_shape h
  exact ⟨padding, rs, h1, h2⟩

/-- **the formatted text parses to the same sequence of directives with identical fields**, and the text outside
its directives is, gap by gap, the text outside the directives of the input. -/
theorem C08_reparse_same_fields {path : String} {text : Bytes} {f : File} {out : Bytes}
    (h : parseText path text = .ok f) (ho : format text f = some out) :
    ∃ f2, parseText path out = .ok f2 ∧
      f2.directives.mapM (viewDirective out) = f.directives.mapM (viewDirective text) ∧
      (f.directives.mapM (viewDirective text)).isSome = true ∧
      gapsOf out 0 (f2.directives.map (·.range)) = gapsOf text 0 (f.directives.map (·.range)) := by
  obtain ⟨out', f2, hf, hp, hv, hs, hg, _⟩ := roundtrip h
  rw [ho] at hf
  injection hf with hf
  subst hf
  exact ⟨f2, hp, hv, hs, hg⟩

/-- **formatting the result again changes nothing.** -/
theorem C08_idempotent {path : String} {text : Bytes} {f : File} {out : Bytes}
    (h : parseText path text = .ok f) (ho : format text f = some out) :
    ∃ f2, parseText path out = .ok f2 ∧ format out f2 = some out ∧ formatFile path out = .written out := by
  obtain ⟨out', f2, hf, hp, _, _, _, hi⟩ := roundtrip h
  rw [ho] at hf
  injection hf with hf
  subst hf
  exact ⟨f2, hp, hi, by simp [formatFile, hp, hi]⟩

/-- the whole property for the command: either the file parses, is replaced by a text that parses to the same
directives and fields, with the same gaps, and is a fixed point of `format`; or it does not parse and stays as it is. -/
theorem C08_command (path : String) (text : Bytes) :
    (∃ f out f2, parseText path text = .ok f ∧ formatFile path text = .written out ∧ parseText path out = .ok f2 ∧
        f2.directives.mapM (viewDirective out) = f.directives.mapM (viewDirective text) ∧
        gapsOf out 0 (f2.directives.map (·.range)) = gapsOf text 0 (f.directives.map (·.range)) ∧
        formatFile path out = .written out) ∨
    (∃ e, parseText path text = .error e ∧ (formatFile path text).fileAfter text = text) := by
  cases h : parseText path text with
  | error e => exact Or.inr ⟨e, rfl, (C08_unparseable_untouched h).2⟩
  | ok f =>
    obtain ⟨out, f2, hf, hp, hv, _, hg, hi⟩ := roundtrip h
    exact Or.inl ⟨f, out, f2, rfl, by simp [formatFile, h, hf], hp, hv, hg, by simp [formatFile, hp, hi]⟩

/-! ## The monitor

The theorems above speak about the typed field views (`viewDirective`); the monitor of the check evaluates
`formatOK` (`Spec/SyntaxFormat.lean`) on the two dumped trees: equality of the untyped `semFlat` (kinds and field
bytes in prefix order, which also shows the macro kind of an account and the `addons` node) and of the gaps. -/

/-- **the monitor's predicate and the theorems' notion of "same fields" coincide on parsed files**: for two texts
that parse, `formatOK` holds of the two trees iff the directives' field views agree and the gaps agree. (For a tree
the parser returned, the kind of an account node and the presence of the annotation nodes are functions of the field
bytes: `Proofs/SyntaxSem.lean`.) -/
theorem C08_monitor_iff {path : String} {text out : Bytes} {f f2 : File}
    (h : parseText path text = .ok f) (h2 : parseText path out = .ok f2) :
    formatOK text f.toNode out f2.toNode = true ↔
      (f2.directives.mapM (viewDirective out) = f.directives.mapM (viewDirective text) ∧
       gapsOf out 0 (f2.directives.map (·.range)) = gapsOf text 0 (f.directives.map (·.range))) :=
  formatOK_iff h h2

/-- **the monitor's predicate holds of the model**: the formatted text parses and `formatOK` holds between the tree of
the input and the tree of the output. -/
theorem C08_monitor_sound {path : String} {text : Bytes} {f : File} {out : Bytes}
    (h : parseText path text = .ok f) (ho : format text f = some out) :
    ∃ f2, parseText path out = .ok f2 ∧ formatOK text f.toNode out f2.toNode = true := by
  obtain ⟨f2, hp, hv, _, hg⟩ := C08_reparse_same_fields h ho
  exact ⟨f2, hp, (C08_monitor_iff h hp).mpr ⟨hv, hg⟩⟩

/-! ## Non-vacuity -/

/-- the monitor accepts the worked example against itself … -/
example : formatOK (bytesOf exText) (File.toNode ⟨⟨0, 23⟩, [⟨⟨3, 22⟩, .open ⟨⟨3, 22⟩, ⟨⟨3, 13⟩⟩, ⟨⟨19, 22⟩, false⟩⟩⟩]⟩)
    (bytesOf exText) (File.toNode ⟨⟨0, 23⟩, [⟨⟨3, 22⟩, .open ⟨⟨3, 22⟩, ⟨⟨3, 13⟩⟩, ⟨⟨19, 22⟩, false⟩⟩⟩]⟩) = true :=
  (C08_monitor_iff ex_parse ex_parse).mpr ⟨rfl, rfl⟩

/-- … `C08_monitor_sound` applies to it (the example is its own formatting) … -/
example : ∃ f2, parseText "j.knut" (bytesOf exText) = .ok f2 ∧
    formatOK (bytesOf exText) (File.toNode ⟨⟨0, 23⟩, [⟨⟨3, 22⟩, .open ⟨⟨3, 22⟩, ⟨⟨3, 13⟩⟩, ⟨⟨19, 22⟩, false⟩⟩⟩]⟩) (bytesOf exText) f2.toNode = true :=
  C08_monitor_sound ex_parse (by decide)

/-- … and the monitor rejects a tree whose account field points to other bytes -/
example : formatOK (bytesOf exText) (File.toNode ⟨⟨0, 23⟩, [⟨⟨3, 22⟩, .open ⟨⟨3, 22⟩, ⟨⟨3, 13⟩⟩, ⟨⟨19, 22⟩, false⟩⟩⟩]⟩)
    (bytesOf exText) (File.toNode ⟨⟨0, 23⟩, [⟨⟨3, 22⟩, .open ⟨⟨3, 22⟩, ⟨⟨3, 13⟩⟩, ⟨⟨21, 22⟩, false⟩⟩⟩]⟩) = false := by
  decide

/-- the worked example of C07 (a comment line and an `open` directive) is already formatted … -/
example : format (bytesOf "#c\n2020-01-01 open A:B\n")
    ⟨⟨0, 23⟩, [⟨⟨3, 22⟩, .open ⟨⟨3, 22⟩, ⟨⟨3, 13⟩⟩, ⟨⟨19, 22⟩, false⟩⟩⟩]⟩ = some (bytesOf "#c\n2020-01-01 open A:B\n") := by
  decide

/-- … and so is a fixed point of the command. -/
example : formatFile "j.knut" (bytesOf "#c\n2020-01-01 open A:B\n") = .written (bytesOf "#c\n2020-01-01 open A:B\n") := by
  obtain ⟨out, h1, h2⟩ := C08_format_total ex_parse
  have : format (bytesOf exText) ⟨⟨0, 23⟩, [⟨⟨3, 22⟩, .open ⟨⟨3, 22⟩, ⟨⟨3, 13⟩⟩, ⟨⟨19, 22⟩, false⟩⟩⟩]⟩ = some (bytesOf exText) := by
    decide
  rw [this] at h1
  injection h1 with h1
  rw [← h1] at h2
  exact h2

/-- the renderer normalises: one blank between the parts, accounts padded to the common width, amounts right-aligned -/
example : renderBooking 5 ⟨bytesOf "A", bytesOf "B:C", bytesOf "1.5", bytesOf "CHF"⟩ = bytesOf "A     B:C          1.5 CHF\n" := by
  have r1 : runeCount (bytesOf "A") = 1 := by simp [runeCount, decodeAll_ascii (bytesOf "A") (by decide)]; decide
  have r2 : runeCount (bytesOf "B:C") = 3 := by simp [runeCount, decodeAll_ascii (bytesOf "B:C") (by decide)]; decide
  have r3 : runeCount (bytesOf "1.5") = 3 := by simp [runeCount, decodeAll_ascii (bytesOf "1.5") (by decide)]; decide
  simp only [renderBooking, padRight, padLeft, r1, r2, r3]
  decide

/-- an unparseable file is rejected and untouched -/
example : ∃ e, formatFile "j.knut" [0x32, 0xff] = .rejected e := ⟨_, (C08_unparseable_untouched ex_invalid).1⟩

/-- `viewDirective` distinguishes directives: another account is another view -/
example : viewDirective (bytesOf "2020-01-01 open A:B") ⟨⟨0, 19⟩, .open ⟨⟨0, 19⟩, ⟨⟨0, 10⟩⟩, ⟨⟨16, 19⟩, false⟩⟩⟩ ≠
    viewDirective (bytesOf "2020-01-01 open A:C") ⟨⟨0, 19⟩, .open ⟨⟨0, 19⟩, ⟨⟨0, 10⟩⟩, ⟨⟨16, 19⟩, false⟩⟩⟩ := by decide

end Knut.C08
