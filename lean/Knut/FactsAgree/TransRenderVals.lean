import Knut.FactsAgree.TransRender
import Knut.FactsAgree.TransReportTotals
/-!
# The amounts `renderNode` hands to `render` are the model's cells

`renderNode` (not translated: a recursive method) computes `vals = n.Value.Amounts.SumBy(nil, KeyMapper{Date: Identity,
Commodity: IdentityIf(showCommodities)}.Build())` and calls `render`, which reads `vals[DateCommodityKey(date, commodity)]`.
`SumBy_cell_model`: for the amounts of a node (the `Add`s of its inserts, `TransReport.Rep`), every iteration order, that
lookup is `BalanceReport.cellAt` of the node's own entries — the `cell` argument of `BalanceReport.renderVals` in `nodeRows`
(and, for the totals, `TransReportTotals.logSum_cellAt`).
-/
namespace Knut.FactsAgree.TransRender
open Knut Knut.GoSem
open Knut.Generated.Go
open Knut.FactsAgree.TransAmountsSum Knut.FactsAgree.TransReport

/-- **the cells of a node**: `vals := SumBy(nil, mapper)` over the amounts of the inserts `L`, then
`vals[DateCommodityKey(d, commodity)]` = the model's `cellAt` of the entries of `L` -/
theorem SumBy_cell_model (cur : String → Bool) (L : Log) (hL : ∀ e ∈ L, e.1.Account ≠ GoZero.zero)
    (hcom : ∀ e ∈ L, e.1.Commodity = TransPosting.commodityGo cur e.1.Commodity.name ∧ e.1.Commodity.name ≠ "")
    (byCommodity : Bool) {order1 order2 : List amounts.Key} (h1 : order1.Perm (AMap.keys (amountsOf L)))
    (h2 : ∀ x, (∃ k ∈ AMap.keys (amountsOf L), mfR byCommodity k = x) → x ∈ order2) :
    ∃ vals, amounts.Amounts.SumBy (amountsOf L) none (pureFn (mfR byCommodity)) order1 order2 = GoSem.Outcome.ok vals ∧ WF vals ∧
      ∀ (c : Option Knut.Commodity), (∀ s, c = some s → s ≠ "") → ∀ d : Int, d ≠ 0 →
        AMap.get vals (amounts.DateCommodityKey d (comGo cur c)) 0 = BalanceReport.cellAt (esOf L) byCommodity c d := by
  obtain ⟨vals, hv, hw, hf⟩ := SumBy_agrees (amountsOf_wf L) none (some (mfR byCommodity)) h1
    (fun x ⟨k, hk, _, hkx⟩ => h2 x ⟨k, hk, hkx⟩)
  refine ⟨vals, hv, hw, fun c hc d hd => ?_⟩
  rw [← logSum_cellAt cur L hL hcom byCommodity c hc d hd]
  have hms : mappedSum (amountsOf L) ((none : Option (amounts.Key → Bool)).getD fun _ => true) ((some (mfR byCommodity)).getD id)
      (amounts.DateCommodityKey d (comGo cur c)) =
      logSum L (fun k => decide (mfR byCommodity k = amounts.DateCommodityKey d (comGo cur c))) := by
    unfold mappedSum
    rw [total_amountsOf]
    exact logSum_true_and _ _
  rw [← hms]
  by_cases hl : (∃ k ∈ AMap.keys (amountsOf L), ((none : Option (amounts.Key → Bool)).getD fun _ => true) k = true ∧
      ((some (mfR byCommodity)).getD id) k = amounts.DateCommodityKey d (comGo cur c)) ∧
      mappedSum (amountsOf L) ((none : Option (amounts.Key → Bool)).getD fun _ => true) ((some (mfR byCommodity)).getD id)
        (amounts.DateCommodityKey d (comGo cur c)) ≠ 0
  · exact get_eq_of_find? ((hf _).1 hl) 0
  · have hn := (hf _).2 hl
    have hg : AMap.get vals (amounts.DateCommodityKey d (comGo cur c)) 0 = 0 := by simp [AMap.get, hn]
    rw [hg]
    by_cases ht : ∃ k ∈ AMap.keys (amountsOf L), ((none : Option (amounts.Key → Bool)).getD fun _ => true) k = true ∧
        ((some (mfR byCommodity)).getD id) k = amounts.DateCommodityKey d (comGo cur c)
    · have : ¬ (mappedSum (amountsOf L) ((none : Option (amounts.Key → Bool)).getD fun _ => true) ((some (mfR byCommodity)).getD id)
          (amounts.DateCommodityKey d (comGo cur c)) ≠ 0) := fun h => hl ⟨ht, h⟩
      exact (Decidable.not_not.1 this).symm
    · exact (mappedSum_untouched ht).symm


/-! ## the commodities of a node -/

/-- the model's key of a logged call: (column date, commodity when shown) -/
def mkey (byCommodity : Bool) (k : amounts.Key) : Option Int × Option Knut.Commodity :=
  (if k.Date = 0 then none else some k.Date, if byCommodity then some k.Commodity.name else none)

theorem mkey_eq_iff (cur : String → Bool) (byCommodity : Bool) (k k' : amounts.Key)
    (hk : k.Commodity = TransPosting.commodityGo cur k.Commodity.name) (hk' : k'.Commodity = TransPosting.commodityGo cur k'.Commodity.name) :
    mkey byCommodity k = mkey byCommodity k' ↔ mfR byCommodity k = mfR byCommodity k' := by
  unfold mkey mfR
  have hd : ((if k.Date = 0 then none else some k.Date) = (if k'.Date = 0 then none else some k'.Date)) ↔ k.Date = k'.Date := by
    by_cases h1 : k.Date = 0 <;> by_cases h2 : k'.Date = 0 <;> simp [h1, h2]
    all_goals omega
  cases byCommodity with
  | true =>
    simp only [if_true, Prod.mk.injEq, hd, Option.some.injEq]
    constructor
    · rintro ⟨h1, h2⟩
      have : k.Commodity = k'.Commodity := by rw [hk, hk', h2]
      simp [h1, this]
    · intro h
      have h1 := congrArg amounts.Key.Date h
      have h2 := congrArg (fun x : amounts.Key => x.Commodity.name) h
      exact ⟨h1, h2⟩
  | false =>
    simp only [Bool.false_eq_true, if_false, Prod.mk.injEq, hd, and_true]
    constructor
    · intro h; simp [h]
    · intro h
      have h1 := congrArg amounts.Key.Date h
      exact h1

/-- the model's sum under the key of a logged call is the mapped sum of the Go code -/
theorem live_sum (cur : String → Bool) (L : Log) (hL : ∀ e ∈ L, e.1.Account ≠ GoZero.zero)
    (hcom : ∀ e ∈ L, e.1.Commodity = TransPosting.commodityGo cur e.1.Commodity.name ∧ e.1.Commodity.name ≠ "")
    (byCommodity : Bool) (k : amounts.Key) (hk : k.Commodity = TransPosting.commodityGo cur k.Commodity.name) :
    BalanceReport.sumAmounts ((esOf L).filter (fun e => decide (e.date = (mkey byCommodity k).1) &&
        decide ((if byCommodity then some e.commodity else none) = (mkey byCommodity k).2))) =
      logSum L (fun k' => decide (mfR byCommodity k' = mfR byCommodity k)) := by
  unfold BalanceReport.sumAmounts esOf
  induction L with
  | nil => rfl
  | cons e rest ih =>
    have hz := hL e List.mem_cons_self
    have he := (hcom e List.mem_cons_self).1
    have ih' := ih (fun x hx => hL x (List.mem_cons_of_mem _ hx)) (fun x hx => hcom x (List.mem_cons_of_mem _ hx))
    rw [logSum_cons, ← ih']
    simp only [List.filterMap_cons, TransQuery.entryOf, hz, if_false, List.filter_cons]
    have hiff := mkey_eq_iff cur byCommodity e.1 k he hk
    have hb : (decide ((if e.1.Date = 0 then none else some e.1.Date) = (mkey byCommodity k).1) &&
        decide ((if byCommodity then some e.1.Commodity.name else none) = (mkey byCommodity k).2)) =
        decide (mfR byCommodity e.1 = mfR byCommodity k) := by
      rw [← Bool.decide_and]
      apply decide_eq_decide.2
      rw [← hiff]
      unfold mkey
      exact Prod.mk.injEq _ _ _ _ ▸ Iff.rfl
    rw [hb]
    by_cases hm : mfR byCommodity e.1 = mfR byCommodity k
    · simp [hm]
    · simp [hm, Rat.zero_add]

theorem empty_le (s : String) : "" ≤ s := by
  apply String.not_lt.1
  rw [String.lt_iff]
  exact List.not_lt_nil _

theorem not_le_empty (s : String) (h : s ≠ "") : ¬ s ≤ "" := by
  apply String.not_le.2
  rw [String.lt_iff]
  cases hs : s.toList with
  | nil => exact absurd (String.toList_eq_nil_iff.1 hs) h
  | cons a rest => exact List.nil_lt_cons _ _

/-- a commodity of a mapped key: nil, or interned with a non-empty name -/
def GoodCom (cur : String → Bool) (g : commodity.Commodity) : Prop :=
  g = GoZero.zero ∨ (g.name ≠ "" ∧ g = TransPosting.commodityGo cur g.name)

theorem comOpt_le (cur : String → Bool) {a b : commodity.Commodity} (ha : GoodCom cur a) (hb : GoodCom cur b) :
    decide (a.name ≤ b.name) = ReportPerm.optLE (comOpt a) (comOpt b) := by
  unfold comOpt ReportPerm.optLE
  rcases ha with ha | ⟨ha1, _⟩
  · subst ha
    have : (GoZero.zero : commodity.Commodity).name = "" := rfl
    by_cases hbz : b = GoZero.zero
    · simp [hbz, this]
    · simp [hbz, this, empty_le]
  · have haz : a ≠ GoZero.zero := fun e => ha1 (by rw [e]; rfl)
    rcases hb with hb | ⟨hb1, _⟩
    · subst hb
      have : (GoZero.zero : commodity.Commodity).name = "" := rfl
      simp [haz, this, not_le_empty a.name ha1]
    · have hbz : b ≠ GoZero.zero := fun e => hb1 (by rw [e]; rfl)
      simp [haz, hbz]

theorem comOpt_inj (cur : String → Bool) {a b : commodity.Commodity} (ha : GoodCom cur a) (hb : GoodCom cur b)
    (h : comOpt a = comOpt b) : a = b := by
  unfold comOpt at h
  rcases ha with ha | ⟨ha1, ha2⟩
  · subst ha
    rcases hb with hb | ⟨hb1, _⟩
    · exact hb.symm
    · have hbz : b ≠ GoZero.zero := fun e => hb1 (by rw [e]; rfl)
      simp [hbz] at h
  · have haz : a ≠ GoZero.zero := fun e => ha1 (by rw [e]; rfl)
    rcases hb with hb | ⟨hb1, hb2⟩
    · subst hb; simp [haz] at h
    · have hbz : b ≠ GoZero.zero := fun e => hb1 (by rw [e]; rfl)
      simp only [haz, hbz, if_false, Option.some.injEq] at h
      rw [ha2, hb2, h]

theorem nodup_map_on {α β : Type} (f : α → β) (l : List α) (hn : l.Nodup) (hinj : ∀ a ∈ l, ∀ b ∈ l, f a = f b → a = b) :
    (l.map f).Nodup := by
  induction l with
  | nil => exact List.nodup_nil
  | cons x rest ih =>
    have hn' := List.nodup_cons.1 hn
    rw [List.map_cons, List.nodup_cons]
    refine ⟨?_, ih hn'.2 (fun a ha b hb => hinj a (List.mem_cons_of_mem _ ha) b (List.mem_cons_of_mem _ hb))⟩
    intro hm
    obtain ⟨y, hy, hxy⟩ := List.mem_map.1 hm
    have := hinj y (List.mem_cons_of_mem _ hy) x List.mem_cons_self hxy
    exact hn'.1 (this ▸ hy)

/-- **the commodities of a node**: the commodities of `vals := SumBy(nil, mapper)` over the amounts of the inserts `L`, sorted by
`CommoditiesSorted` (any iteration order), are — nil standing for "no commodity" — the model's `valsCommodities` of the entries
of `L`: the `coms` argument of `BalanceReport.renderVals` in `nodeRows` -/
theorem SumBy_coms_model (cur : String → Bool) (L : Log) (hL : ∀ e ∈ L, e.1.Account ≠ GoZero.zero)
    (hcom : ∀ e ∈ L, e.1.Commodity = TransPosting.commodityGo cur e.1.Commodity.name ∧ e.1.Commodity.name ≠ "")
    (byCommodity : Bool) {order1 order2 : List amounts.Key} (h1 : order1.Perm (AMap.keys (amountsOf L)))
    (h2 : ∀ x, (∃ k ∈ AMap.keys (amountsOf L), mfR byCommodity k = x) → x ∈ order2) :
    ∃ vals, amounts.Amounts.SumBy (amountsOf L) none (pureFn (mfR byCommodity)) order1 order2 = GoSem.Outcome.ok vals ∧
      ∀ order3 : List amounts.Key, order3.Perm (AMap.keys vals) →
        (amounts.Amounts.CommoditiesSorted vals order3).map comOpt = BalanceReport.valsCommodities (esOf L) byCommodity := by
  obtain ⟨vals, hv, hw, hf⟩ := SumBy_agrees (amountsOf_wf L) none (some (mfR byCommodity)) h1
    (fun x ⟨k, hk, _, hkx⟩ => h2 x ⟨k, hk, hkx⟩)
  refine ⟨vals, hv, fun order3 h3 => ?_⟩
  -- the keys of `vals`
  have hms : ∀ x, mappedSum (amountsOf L) ((none : Option (amounts.Key → Bool)).getD fun _ => true) ((some (mfR byCommodity)).getD id) x =
      logSum L (fun k => decide (mfR byCommodity k = x)) := by
    intro x; unfold mappedSum; rw [total_amountsOf]; exact logSum_true_and _ _
  have hkeys : ∀ x, x ∈ AMap.keys vals ↔ (∃ e ∈ L, mfR byCommodity e.1 = x) ∧ logSum L (fun k => decide (mfR byCommodity k = x)) ≠ 0 := by
    intro x
    have hlive : ((∃ k ∈ AMap.keys (amountsOf L), ((none : Option (amounts.Key → Bool)).getD fun _ => true) k = true ∧
        ((some (mfR byCommodity)).getD id) k = x) ∧
        mappedSum (amountsOf L) ((none : Option (amounts.Key → Bool)).getD fun _ => true) ((some (mfR byCommodity)).getD id) x ≠ 0) ↔
        ((∃ e ∈ L, mfR byCommodity e.1 = x) ∧ logSum L (fun k => decide (mfR byCommodity k = x)) ≠ 0) := by
      rw [hms x]
      apply and_congr_left'
      constructor
      · rintro ⟨k, hk, _, hkx⟩
        obtain ⟨e, he, hek⟩ := (amountsOf_keys L k).1 hk
        exact ⟨e, he, by rw [hek]; exact hkx⟩
      · rintro ⟨e, he, hex⟩
        exact ⟨e.1, (amountsOf_keys L e.1).2 ⟨e, he, rfl⟩, rfl, hex⟩
    rw [← hlive]
    constructor
    · intro hx
      apply Classical.byContradiction
      intro hn
      exact ((find?_eq_none vals x).1 ((hf x).2 hn)) hx
    · intro hl; exact mem_keys_of_find? ((hf x).1 hl)
  have hgood : ∀ x ∈ AMap.keys vals, GoodCom cur x.Commodity := by
    intro x hx
    obtain ⟨⟨e, he, hex⟩, _⟩ := (hkeys x).1 hx
    rw [← hex]
    unfold mfR
    cases byCommodity with
    | true => exact Or.inr ⟨(hcom e he).2, (hcom e he).1⟩
    | false => exact Or.inl rfl
  have hinj : ∀ k ∈ AMap.keys vals, ∀ k' ∈ AMap.keys vals, k.Commodity.name = k'.Commodity.name → k.Commodity = k'.Commodity := by
    intro k hk k' hk' hn
    apply comOpt_inj cur (hgood k hk) (hgood k' hk')
    rcases hgood k hk with h | ⟨h1, _⟩ <;> rcases hgood k' hk' with h' | ⟨h1', _⟩
    · rw [h, h']
    · rw [h] at hn; exact absurd hn.symm h1'
    · rw [h'] at hn; exact absurd hn h1
    · have z1 : k.Commodity ≠ GoZero.zero := fun e => h1 (by rw [e]; rfl)
      have z2 : k'.Commodity ≠ GoZero.zero := fun e => h1' (by rw [e]; rfl)
      simp [comOpt, z1, z2, hn]
  rw [CommoditiesSorted_agrees vals h3 hinj, ReportPerm.valsCommodities_eq]
  -- the two sorts
  have hmem : ∀ g ∈ ((AMap.keys vals).map (·.Commodity)).eraseDups, GoodCom cur g := by
    intro g hg
    rw [List.mem_eraseDups, List.mem_map] at hg
    obtain ⟨x, hx, rfl⟩ := hg
    exact hgood x hx
  rw [List.map_mergeSort (r := fun a b : commodity.Commodity => decide (a.name ≤ b.name)) (s := ReportPerm.optLE) (f := comOpt)
    (fun a ha b hb => comOpt_le cur (hmem a ha) (hmem b hb))]
  apply ReportPerm.sort_perm_eq _ ReportPerm.optLE_trans ReportPerm.optLE_total ReportPerm.optLE_antisymm
  rw [List.perm_ext_iff_of_nodup
    (nodup_map_on comOpt _ (ReportPerm.nodup_eraseDups _ _ (Nat.le_refl _)) (fun a ha b hb => comOpt_inj cur (hmem a ha) (hmem b hb)))
    (ReportPerm.nodup_eraseDups _ _ (Nat.le_refl _))]
  intro c
  simp only [List.mem_map, List.mem_eraseDups, List.mem_filter, decide_eq_true_eq]
  constructor
  · rintro ⟨g, ⟨x, hx, rfl⟩, rfl⟩
    obtain ⟨⟨e, he, hex⟩, hne⟩ := (hkeys x).1 hx
    have hz := hL e he
    have hent : TransQuery.entryOf e =
        some ⟨if e.1.Date = 0 then none else some e.1.Date, ⟨e.1.Account.segments⟩, e.1.Commodity.name, e.2⟩ := by
      simp [TransQuery.entryOf, hz]
    refine ⟨mkey byCommodity e.1, ⟨⟨_, List.mem_filterMap.2 ⟨e, he, hent⟩, rfl⟩, ?_⟩, ?_⟩
    · rw [live_sum cur L hL hcom byCommodity e.1 (hcom e he).1, hex]; exact hne
    · rw [← hex]; unfold mkey mfR comOpt
      cases byCommodity with
      | true =>
        have : e.1.Commodity ≠ GoZero.zero := fun h => (hcom e he).2 (by rw [h]; rfl)
        simp [this]
      | false => simp
  · rintro ⟨key, ⟨⟨x, hxm, hxk⟩, hlive⟩, hkc⟩
    obtain ⟨e, he, hxe⟩ := List.mem_filterMap.1 hxm
    have hz := hL e he
    simp only [TransQuery.entryOf, hz, if_false, Option.some.injEq] at hxe
    subst hxe
    have hkey : key = mkey byCommodity e.1 := by rw [← hxk]; rfl
    subst hkey
    rw [live_sum cur L hL hcom byCommodity e.1 (hcom e he).1] at hlive
    refine ⟨(mfR byCommodity e.1).Commodity, ⟨mfR byCommodity e.1, (hkeys _).2 ⟨⟨e, he, rfl⟩, hlive⟩, rfl⟩, ?_⟩
    rw [← hkc]; unfold mkey mfR comOpt
    cases byCommodity with
    | true =>
      have : e.1.Commodity ≠ GoZero.zero := fun h => (hcom e he).2 (by rw [h]; rfl)
      simp [this]
    | false => simp

/-- **the rows of a node against the model** (`BalanceReport.nodeRows`): `render` applied to `vals := SumBy(nil, mapper)` of the
amounts of the node's inserts `L` appends — read with `interp` — `renderVals … (valsCommodities mine byCom) (cellAt mine byCom)`
for `mine` = the entries of `L`: every iteration order of the three map ranges, end dates other than the zero date -/
theorem render_node_agrees (cur : String → Bool) (rc : RenderCfg) (rn : balance.Renderer) (t : table.TableLog) (indent : Nat) (name : String)
    (neg : Bool) (L : Log) (hL : ∀ e ∈ L, e.1.Account ≠ GoZero.zero)
    (hcom : ∀ e ∈ L, e.1.Commodity = TransPosting.commodityGo cur e.1.Commodity.name ∧ e.1.Commodity.name ≠ "")
    (byCommodity : Bool) {order1 order2 : List amounts.Key} (h1 : order1.Perm (AMap.keys (amountsOf L)))
    (h2 : ∀ x, (∃ k ∈ AMap.keys (amountsOf L), mfR byCommodity k = x) → x ∈ order2)
    (hdiff : rc.diff = rn.Diff) (hends : rc.endDates = date.Partition.EndDates rn.partition)
    (hnz : ∀ d ∈ date.Partition.EndDates rn.partition, d ≠ 0)
    (hval : rc.valuation = if rn.Valuation = GoZero.zero then none else some rn.Valuation.name)
    (hown : (interp t).own.length = table.TableLog.rows t)
    (hwidth : (interp t).tbl.width = 1 + (if rn.drawCommsColumn then 1 else 0) + rc.endDates.length) :
    ∃ vals, amounts.Amounts.SumBy (amountsOf L) none (pureFn (mfR byCommodity)) order1 order2 = GoSem.Outcome.ok vals ∧
      ∀ order3 : List amounts.Key, order3.Perm (AMap.keys vals) →
        (interp (balance.Renderer.render rn t indent name neg vals order3)).tbl.columns = (interp t).tbl.columns ∧
        (interp (balance.Renderer.render rn t indent name neg vals order3)).ok = (interp t).ok ∧
        (interp (balance.Renderer.render rn t indent name neg vals order3)).tbl.rows = (interp t).tbl.rows ++
          BalanceReport.renderVals rc rn.drawCommsColumn indent name neg (BalanceReport.valsCommodities (esOf L) byCommodity)
            (BalanceReport.cellAt (esOf L) byCommodity) := by
  obtain ⟨vals, hv, hcoms⟩ := SumBy_coms_model cur L hL hcom byCommodity h1 h2
  obtain ⟨vals', hv', _, hcell⟩ := SumBy_cell_model cur L hL hcom byCommodity h1 h2
  have : vals' = vals := by rw [hv] at hv'; cases hv'; rfl
  subst this
  refine ⟨vals', hv, fun order3 h3 => ?_⟩
  rw [← hcoms order3 h3]
  apply render_agrees rc rn t indent name neg vals' order3 (BalanceReport.cellAt (esOf L) byCommodity) hdiff hends hval h3 _ hown hwidth
  intro g hg d hd
  -- the commodity of a key of `vals` is nil or interned
  have hgood : GoodCom cur g := by
    have hmem : g ∈ ((AMap.keys vals').map (·.Commodity)) := by
      obtain ⟨_, hm⟩ := Commodities_agrees vals' h3
      have : g ∈ List.map Prod.fst (amounts.Amounts.Commodities vals' order3) := by
        unfold amounts.Amounts.CommoditiesSorted sortedKeys at hg
        exact (List.mergeSort_perm _ _).mem_iff.1 hg
      obtain ⟨k, hk, hkg⟩ := (hm g).1 this
      exact List.mem_map.2 ⟨k, hk, hkg⟩
    obtain ⟨x, hx, rfl⟩ := List.mem_map.1 hmem
    -- keys of vals are images of the mapper
    obtain ⟨r, hr, _, hf⟩ := SumBy_agrees (amountsOf_wf L) none (some (mfR byCommodity)) h1
      (fun x ⟨k, hk, _, hkx⟩ => h2 x ⟨k, hk, hkx⟩)
    have : r = vals' := by
      have hr' : amounts.Amounts.SumBy (amountsOf L) none (pureFn (mfR byCommodity)) order1 order2 = GoSem.Outcome.ok r := hr
      rw [hv] at hr'; cases hr'; rfl
    subst this
    have hlive : (∃ k ∈ AMap.keys (amountsOf L), ((none : Option (amounts.Key → Bool)).getD fun _ => true) k = true ∧
        ((some (mfR byCommodity)).getD id) k = x) := by
      apply Classical.byContradiction
      intro hn
      exact ((find?_eq_none r x).1 ((hf x).2 (fun h => hn h.1))) hx
    obtain ⟨k, hk, _, hkx⟩ := hlive
    obtain ⟨e, he, hek⟩ := (amountsOf_keys L k).1 hk
    have : x = mfR byCommodity e.1 := by rw [hek]; exact hkx.symm
    rw [this]
    unfold mfR
    cases byCommodity with
    | true => exact Or.inr ⟨(hcom e he).2, (hcom e he).1⟩
    | false => exact Or.inl rfl
  have hback : comGo cur (comOpt g) = g := by
    unfold comOpt comGo
    rcases hgood with h | ⟨h1', h2'⟩
    · simp [h]
    · have hz : g ≠ GoZero.zero := fun e => h1' (by rw [e]; rfl)
      simp only [hz, if_false]; exact h2'.symm
  have hc : ∀ s, comOpt g = some s → s ≠ "" := by
    intro s hs
    unfold comOpt at hs
    rcases hgood with h | ⟨h1', _⟩
    · simp [h] at hs
    · have hz : g ≠ GoZero.zero := fun e => h1' (by rw [e]; rfl)
      simp only [hz, if_false, Option.some.injEq] at hs
      rw [← hs]; exact h1'
  rw [← hcell (comOpt g) hc d (hnz d hd), hback]

end Knut.FactsAgree.TransRender
