import Knut.Model.JournalPrinter
import Knut.Proofs.Balance
/-!
# C09 — print emits a normal form that round-trips

`JournalPrinter.print` is the model of `journal.Print` (byte-exact against `knut print`, see the
correspondence check).  The full statement of the property is, with `load` the parser + model builder,

    print (load (print J)) = print J      and      balance (load (print J)) F = balance J F.

This file holds the semantic core that makes the printed form a *normal form* (below); the statement itself is proved
in the sibling modules: the text half in `Properties/C09Text.lean` (`C09_text_journal_fixpoint`: for every printable journal
the printed text loads back, through the parser model and the elaboration, to the directives `journal.Print` wrote, and
printing them again gives the same bytes), the commands on one file in `Properties/C09Journal.lean` (`C09_print_idempotent`,
`C09_file_reports_equal`: for EVERY input text), and the same for `Cmd.run`, the command model C14 compares with the
binary, on any file system and include tree, in `Properties/C09Cmd.lean` (`C09_cmd_print_idempotent`,
`C09_cmd_reports_equal`, `C09_cmd_verdict_equal`; `C09_elab_agrees` links the two elaboration models). Decimals:
`Properties/C09Decimal.lean`. Here:

* `C09_booking_normal_form` – `print` writes each booking from its debit-side posting as
  `other account quantity commodity`; rebuilding that booking yields exactly the same posting pair, for every
  original booking (negative, zero, swapped or not);
* `C09_reprint_same_line` – hence the re-read booking prints the same line again;
* `C09_printed_quantity_nonneg` – printed quantities are never negative (so re-reading never swaps accounts);
* `C09_targets_line` – the `@performance` line is printed iff targets are present (`nil` vs empty list
  are distinguished, as in the parser).

The same clauses are also decided on every run on the REAL binary by the monitors `print_output_accepted`,
`print_fixpoint`, `reports_equal` (instances of the theorems above on the implementation's output) and by the byte-exact
comparison of `knut print` with this model on the wire-form journal (`print`) and on the input text itself, rejected
texts included (`print_text`, stream `text`).
-/
namespace Knut.C09
open Knut Knut.JournalPrinter

/-- the debit-side posting of a built booking (the one `printTransaction` prints) -/
def printedPosting (cr dr : Account) (c : Commodity) (q : Rat) : Option Posting := (postingBuild cr dr c q)[1]?

theorem printed_exists (cr dr : Account) (c : Commodity) (q : Rat) :
    ∃ p, printedPosting cr dr c q = some p ∧ everyOther (postingBuild cr dr c q) = [p] := by
  unfold printedPosting postingBuild everyOther
  exact ⟨_, rfl, rfl⟩

/-- printed quantities are non-negative -/
theorem C09_printed_quantity_nonneg (cr dr : Account) (c : Commodity) (q : Rat) (p : Posting)
    (h : printedPosting cr dr c q = some p) : ¬ p.quantity < 0 := by
  unfold printedPosting postingBuild at h
  simp only [List.getElem?_cons_succ, List.getElem?_cons_zero, Option.some.injEq] at h
  subst h
  simp only
  by_cases hneg : q < 0
  · simp only [hneg, decide_true, Bool.true_or, if_true]
    intro hc
    have := Rat.neg_lt_neg hc
    rw [Rat.neg_neg, Rat.neg_zero] at this
    exact (Rat.not_lt.mpr (Rat.le_of_lt hneg)) this
  · have : (decide (q < 0) || (decide (q = 0) && decide ((0 : Rat) < 0))) = false := by
      simp [hneg, Rat.lt_irrefl]
    simp only [this, Bool.false_eq_true, if_false]
    exact hneg

/-- **normal form**: rebuilding the printed booking gives the same posting pair -/
theorem C09_booking_normal_form (cr dr : Account) (c : Commodity) (q : Rat) (p : Posting)
    (h : printedPosting cr dr c q = some p) :
    postingBuild p.other p.account p.commodity p.quantity = postingBuild cr dr c q := by
  have hnn := C09_printed_quantity_nonneg cr dr c q p h
  unfold printedPosting postingBuild at h
  simp only [List.getElem?_cons_succ, List.getElem?_cons_zero, Option.some.injEq] at h
  subst h
  unfold postingBuild
  simp only at hnn ⊢
  have hz : ¬ ((0 : Rat) < 0) := Rat.lt_irrefl
  by_cases hneg : q < 0
  · simp only [hneg, decide_true, Bool.true_or, if_true] at hnn ⊢
    first | done | simp [hnn, hz]
  · have hs : (decide (q < 0) || (decide (q = 0) && decide ((0 : Rat) < 0))) = false := by simp [hneg, hz]
    simp only [hs, Bool.false_eq_true, if_false] at hnn ⊢
    first | done | simp [hneg, hz]

/-- the re-read booking prints the same line -/
theorem C09_reprint_same_line (pad : Nat) (cr dr : Account) (c : Commodity) (q : Rat) (p : Posting)
    (h : printedPosting cr dr c q = some p) :
    (everyOther (postingBuild p.other p.account p.commodity p.quantity)).map (printPosting pad) =
      (everyOther (postingBuild cr dr c q)).map (printPosting pad) := by
  rw [C09_booking_normal_form cr dr c q p h]

/-- the `@performance` annotation line is printed exactly when targets are present (`nil` ≠ empty list) -/
theorem C09_targets_line (pad : Nat) (t : Transaction) :
    printTx pad t = (match t.targets with
      | some tg => "@performance(" ++ String.intercalate "," tg ++ ")\n"
      | none => "") ++ printTx pad { t with targets := none } := by
  unfold printTx
  cases t.targets <;> simp [String.append_assoc]

/-! Non-vacuity -/
example : printedPosting ⟨["Assets", "A"]⟩ ⟨["Expenses", "X"]⟩ "CHF" (-5) =
    some { account := ⟨["Assets", "A"]⟩, other := ⟨["Expenses", "X"]⟩, commodity := "CHF", quantity := 5, value := 0 } := by
  decide +kernel

end Knut.C09
