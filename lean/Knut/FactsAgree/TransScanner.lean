import Knut.Generated.TransScanner
import Knut.Syntax.Scanner
/-!
# The translated `lib/syntax/scanner` agrees with the model scanner (`Knut/Syntax/Scanner.lean`)

`Knut/Generated/TransScanner.lean` is regenerated from /repo's `scanner.go` on every run (`harness/trans_syntax*.go`; the meaning of
the Go primitives it uses is `Knut/GoSem/Syntax.lean`).  The Go scanner is `(text, Path, current, currentLen, offset)` and re-decodes
`text[offset:]` on every `Advance`; the model scanner is `St = (off, toks)` with the not yet consumed tokens.

**Simulation relation.**  For a scan of `text` the Go state that belongs to a model state `s` is the *function* `goScanner text path s`
(`offset = s.off`, `current` = rune of the first unread token resp. `EOF = -1`, `currentLen` = its width), and `s` must satisfy the
invariant `SimOK text s`: `s.off ≤ len(text)` and the unread tokens are exactly `decodeAll text[s.off:]` — or the scanner has been
advanced at the end of the text and holds Go's `(RuneError, 0)` (`[eofTok]`).  Every method is proved to map simulated states to
simulated states and to return the model's result:

  `Go.method … (goScanner text path s) … = ok (goResR text path s.off (model.method … s))   ∧   Post text (model.method … s)`

for **all** texts (arbitrary bytes), states in the invariant, runes, predicates that agree on the runes a scanner can hold
(`PredAgrees`), descriptions, and — for the methods with a loop — every `fuel` above the number of unread tokens (so `outOfFuel` and
the slice panics of `text[offset:]` are excluded).  `goResR` says what Go returns next to an error: `sc.Range()`.
Conversions (part of the statements): `goStr` (a model `String` as Go bytes), `goRune` (the model's `Nat` runes, `EOF = 0xFFFFFFFF`,
as Go's `int32`), `goRange`, `goErr` (the model's chain, innermost first, as Go's nested `directives.Error` values).
`ReadString`/`ReadAlternative` are stated for strings that `%q` prints unchanged (`Plain`: printable ASCII without `"` and `\`).
-/
namespace Knut.FactsAgree.TransScanner
open Knut Knut.GoSem Knut.Syntax Knut.Utf8
open Knut.Generated.Go

abbrev Bytes := List UInt8

/-- a model string as a Go string -/
abbrev goStr (s : String) : Syn.GoString := Syn.lit s

/-- a model rune (`Nat`, Go's `int32` read as `uint32`) as a Go rune -/
def goRune (r : Nat) : Int := if r < 2 ^ 31 then (r : Int) else (r : Int) - 2 ^ 32

def goRange (text : Bytes) (path : String) (r : Syntax.Range) : directives.Range :=
  { Start := r.start, End := r.stop, Path := goStr path, Text := text }

/-- one link of the chain around the error it wraps -/
def goFrame (text : Bytes) (path : String) : Frame → directives.GoError → directives.GoError
  | .at msg r, w => .Error (goRange text path r) (goStr msg) w
  | .zero, _ => .Error GoZero.zero GoZero.zero .nil
  | .eof, _ => .io_EOF

/-- a chain, outermost link first -/
def goErrRev (text : Bytes) (path : String) : List Frame → directives.GoError
  | [] => .nil
  | f :: inner => goFrame text path f (goErrRev text path inner)

/-- the Go error value of a model error chain (innermost first); `[]` is `nil` -/
def goErr (text : Bytes) (path : String) (e : Err) : directives.GoError := goErrRev text path e.reverse

@[simp] theorem goErr_nil (text : Bytes) (path : String) : goErr text path [] = .nil := rfl

@[simp] theorem goErr_snoc (text : Bytes) (path : String) (e : Err) (f : Frame) :
    goErr text path (e ++ [f]) = goFrame text path f (goErr text path e) := by
  simp [goErr, goErrRev]

theorem goErr_single (text : Bytes) (path : String) (f : Frame) :
    goErr text path [f] = goFrame text path f .nil := by
  simp [goErr, goErrRev]

theorem goErr_ne_nil (text : Bytes) (path : String) {e : Err} (h : e ≠ []) : goErr text path e ≠ .nil := by
  obtain ⟨e', f, rfl⟩ : ∃ e' f, e = e' ++ [f] := by
    refine ⟨e.dropLast, e.getLast h, ?_⟩
    exact (List.dropLast_concat_getLast h).symm
  rw [goErr_snoc]
  cases f <;> simp [goFrame]

/-- width of the current token (`currentLen`) -/
def curW (s : St) : Nat :=
  match s.toks with
  | [] => 0
  | t :: _ => t.bytes.length

/-- the Go scanner in the model state `s` of a scan of `text` -/
def goScanner (text : Bytes) (path : String) (s : St) : scanner.Scanner :=
  { text := text, Path := goStr path, current := goRune (cur s), currentLen := curW s, offset := s.off }

/-- **the simulation invariant**: the offset lies in the text, and the unread tokens are the decoding of `text[off:]` — or the
scanner has been advanced at the end of the text and holds Go's `(RuneError, 0)` -/
def SimOK (text : Bytes) (s : St) : Prop :=
  s.off ≤ text.length ∧ (s.toks = decodeAll (text.drop s.off) ∨ (s.toks = [eofTok] ∧ s.off = text.length))

def Res.errs {α} : Res α → Err
  | .ok _ _ => []
  | .err e _ => e

/-- what the next step needs of a result: the state is in the simulation, an error chain is not empty -/
def Post {α} (text : Bytes) (r : Res α) : Prop :=
  SimOK text r.st ∧ (∀ e s', r = .err e s' → e ≠ [])

theorem decodeRune_r_lt (bs : List UInt8) : (decodeRune bs).r < 0x200000 := by
  unfold decodeRune
  split
  · simp [runeError]
  · rename_i b0 rest
    have := b0.toNat_lt
    simp only
    repeat' split
    all_goals (simp only [runeError]; try omega)

theorem decodeAll_r_lt (bs : List UInt8) : ∀ t ∈ decodeAll bs, t.r < 0x200000 := by
  match bs with
  | [] => simp
  | b :: rest =>
    rw [decodeAll_cons]
    intro t ht
    rcases List.mem_cons.mp ht with h | h
    · rw [h]; exact decodeRune_r_lt _
    · exact decodeAll_r_lt _ t h
termination_by bs.length
decreasing_by
  have := decodeRune_width_pos b rest
  simp only [List.length_drop, List.length_cons]
  omega

/-- a non-empty decoding: its head is `decodeRune` of the bytes, its tail the decoding of what follows -/
theorem decodeAll_eq_cons {bs : List UInt8} {t : Tok} {rest : List Tok} (h : decodeAll bs = t :: rest) :
    bs ≠ [] ∧ t = decodeRune bs ∧ rest = decodeAll (bs.drop t.bytes.length) ∧ 1 ≤ t.bytes.length ∧ t.bytes.length ≤ bs.length := by
  cases bs with
  | nil => simp at h
  | cons b bs' =>
    rw [decodeAll_cons] at h
    injection h with h1 h2
    subst h1
    exact ⟨by simp, rfl, h2.symm, decodeRune_width_pos b bs', decodeRune_width_le _⟩


theorem goRune_of_lt {r : Nat} (h : r < 2 ^ 31) : goRune r = (r : Int) := by simp [goRune, h]

theorem goRune_EOF : goRune EOF = -1 := by decide

theorem SimOK.r_lt {text : Bytes} {s : St} (h : SimOK text s) : ∀ t ∈ s.toks, t.r < 0x200000 := by
  rcases h.2 with h2 | ⟨h2, _⟩
  · rw [h2]; exact decodeAll_r_lt _
  · rw [h2]; simp [eofTok, runeError]

theorem cur_cons (off : Nat) (t : Tok) (rest : List Tok) : cur ⟨off, t :: rest⟩ = t.r := rfl
theorem cur_nil (off : Nat) : cur ⟨off, []⟩ = EOF := rfl

theorem slice_drop (text : Bytes) (off : Nat) (h : off ≤ text.length) :
    slice text (off : Int) (text.length : Int) = .ok (text.drop off) := by
  unfold slice
  have : ¬ ((off : Int) < 0 ∨ (text.length : Int) < (off : Int) ∨ (text.length : Int) < (text.length : Int)) := by
    omega
  rw [if_neg this]
  simp [len]

/-- `Scanner.Advance` is `advance` -/
theorem Advance_agrees {text : Bytes} {path : String} {s : St} (h : SimOK text s) :
    scanner.Scanner.Advance (goScanner text path s) =
      .ok (goScanner text path (advance s).st, goErr text path (Res.errs (advance s))) ∧ Post text (advance s) := by
  obtain ⟨off, toks⟩ := s
  obtain ⟨hle, hk⟩ := h
  simp only at hle hk
  cases toks with
  | nil =>
    -- at EOF: Go decodes the empty rest
    have hoff : off = text.length := by
      rcases hk with hk | ⟨hk, _⟩
      · have : (text.drop off) = [] := by
          cases hd : text.drop off with
          | nil => rfl
          | cons b bs => rw [hd, decodeAll_cons] at hk; simp at hk
        simp at this; omega
      · simp at hk
    subst hoff
    refine ⟨?_, ⟨⟨Nat.le_refl _, Or.inr ⟨rfl, rfl⟩⟩, ?_⟩⟩
    · have hsl := slice_drop text text.length (Nat.le_refl _)
      have hg : goRune 65533 = 65533 := by decide
      simp [scanner.Scanner.Advance, scanner.Scanner.Offset, goScanner, cur_nil, cur_cons, goRune_EOF, curW, advance, Res.errs, Res.st, hsl,
        Outcome.bind, Syn.DecodeRuneInString, decodeRune, runeError, eofTok, goErr_single, goFrame, goRange, hg]
    · intro e s' he; simp [advance] at he; rw [← he.1]; simp
  | cons t rest =>
    have hr : t.r < 0x200000 := SimOK.r_lt (text := text) (s := ⟨off, t :: rest⟩) ⟨hle, hk⟩ t List.mem_cons_self
    have hcur : goRune t.r = (t.r : Int) := goRune_of_lt (by omega)
    rcases hk with hk | ⟨hk, hoff⟩
    · -- a real token
      obtain ⟨hne, ht, hrest, hw1, hw2⟩ := decodeAll_eq_cons hk.symm
      simp only [List.length_drop] at hw2
      have hle' : off + t.bytes.length ≤ text.length := by omega
      have hrest' : rest = decodeAll (text.drop (off + t.bytes.length)) := by rw [hrest, List.drop_drop]
      have hst : (advance ⟨off, t :: rest⟩).st = ⟨off + t.bytes.length, rest⟩ := advanceTok_st _ _ _
      refine ⟨?_, ⟨?_, ?_⟩⟩
      · by_cases hE : off + t.bytes.length = text.length
        · have hnil : rest = [] := by rw [hrest', hE]; simp
          subst hnil
          have hEi : (off : Int) + (t.bytes.length : Int) = (text.length : Int) := by omega
          simp [scanner.Scanner.Advance, goScanner, cur_cons, cur_nil, hcur, goRune_EOF, curW, advance, advanceTok, Res.errs, Res.st, hEi]
        · have hlt : off + t.bytes.length < text.length := by omega
          have hEi : ¬ ((off : Int) + (t.bytes.length : Int) = (text.length : Int)) := by omega
          have hsl := slice_drop text (off + t.bytes.length) hle'
          simp only [Int.natCast_add, len] at hsl
          cases rest with
          | nil =>
            exfalso
            cases hd : text.drop (off + t.bytes.length) with
            | nil => simp at hd; omega
            | cons b bs => rw [hd, decodeAll_cons] at hrest'; simp at hrest'
          | cons u rest' =>
            obtain ⟨_, hu, _, huw1, _⟩ := decodeAll_eq_cons hrest'.symm
            have hur := decodeRune_r_lt (text.drop (off + t.bytes.length))
            rw [← hu] at hur
            have hucur : goRune u.r = (u.r : Int) := goRune_of_lt (by omega)
            have hdec : Syn.DecodeRuneInString (text.drop (off + t.bytes.length)) = ((u.r : Int), (u.bytes.length : Int)) := by
              simp [Syn.DecodeRuneInString, ← hu]
            by_cases hinv : u.invalid = true
            · have h1 : u.r = 65533 ∧ u.bytes.length = 1 := by
                simpa [Tok.invalid, runeError] using hinv
              simp [scanner.Scanner.Advance, scanner.Scanner.Offset, goScanner, cur_cons, hcur, hucur, curW, advance, advanceTok, Res.errs, Res.st, hEi, hsl,
                Outcome.bind, hdec, hinv, h1.1, h1.2, goErr_single, goFrame, goRange, goStr]
              decide
            · have h1 : ¬ (u.r = 65533 ∧ u.bytes.length = 1) := by
                simpa [Tok.invalid, runeError] using hinv
              simp [scanner.Scanner.Advance, scanner.Scanner.Offset, goScanner, cur_cons, hcur, hucur, curW, advance, advanceTok, Res.errs, Res.st, hEi, hsl,
                Outcome.bind, hdec, hinv]
              have hb : u.bytes ≠ [] := by intro h; rw [h] at huw1; simp at huw1
              by_cases hx : u.r = 65533
              · have hw : ¬ ((u.bytes.length : Int) = 1) := by
                  intro h; exact h1 ⟨hx, by omega⟩
                simp [hx, hb, hw]
              · have hx' : ¬ ((u.r : Int) = 65533) := by omega
                simp [hx']
      · rw [hst]; exact ⟨hle', Or.inl hrest'⟩
      · intro e s' he
        simp only [advance, advanceTok] at he
        split at he
        · cases he
        · split at he
          · injection he with he1 _; rw [← he1]; simp
          · cases he
    · injection hk with hk1 hk2
      subst hk1 hk2 hoff
      have hg : goRune 65533 = 65533 := by decide
      refine ⟨?_, ⟨⟨Nat.le_refl _, Or.inl (by simp [Res.st, advance, advanceTok, eofTok])⟩, ?_⟩⟩
      · simp [scanner.Scanner.Advance, goScanner, cur_cons, cur_nil, goRune_EOF, curW, advance, advanceTok, Res.errs, Res.st, eofTok, runeError, hg]
      · intro e s' he; simp [advance, advanceTok] at he

/-! ### strings -/

@[simp] theorem lit_append (a b : String) : Syn.lit (a ++ b) = Syn.lit a ++ Syn.lit b := by
  simp [Syn.lit, String.toList_append]

theorem isValidChar_iff (r : Nat) : r.isValidChar ↔ (r < 0xD800 ∨ (0xDFFF < r ∧ r < 0x110000)) := by
  simp [Nat.isValidChar]

theorem lit_replacement : Syn.lit "�" = [0xEF, 0xBF, 0xBD] := by decide

/-- `%c` -/
theorem Fmt_c_goRune {r : Nat} (h : r < 2 ^ 32) : Syn.Fmt.c (goRune r) = goStr (runeStr r) := by
  unfold runeStr
  by_cases hv : r.isValidChar
  · have hv' := (isValidChar_iff r).mp hv
    have hlt : r < 2 ^ 31 := by omega
    rw [if_pos hv, goRune_of_lt hlt]
    have : ¬ ((r : Int) < 0) := by omega
    have hc : (Char.ofNat r).toNat = r := by
      unfold Char.ofNat
      rw [dif_pos hv]
      simp [Char.ofNatAux, Char.toNat]
    unfold Syn.Fmt.c goStr Syn.lit
    rw [if_neg this, String.toList_singleton]
    simp [hc]
  · have hv' : ¬ (r < 0xD800 ∨ (0xDFFF < r ∧ r < 0x110000)) := fun h => hv ((isValidChar_iff r).mpr h)
    rw [if_neg hv]
    unfold goStr
    rw [lit_replacement]
    unfold Syn.Fmt.c
    by_cases hlt : r < 2 ^ 31
    · rw [goRune_of_lt hlt, if_neg (by omega), Int.toNat_natCast]
      simp only [Syn.encodeRune]
      have h1 : ¬ r < 0x80 := by omega
      have h2 : ¬ r < 0x800 := by omega
      by_cases h3 : 0xD800 ≤ r ∧ r < 0xE000
      · simp [h1, h2, h3]
      · have h4 : ¬ r < 0x10000 := by omega
        have h5 : ¬ r < 0x110000 := by omega
        simp [h1, h2, h3, h4, h5]
    · have : goRune r < 0 := by unfold goRune; rw [if_neg hlt]; omega
      rw [if_pos this]; decide

theorem goRune_inj {a b : Nat} (ha : a < 2 ^ 32) (hb : b < 2 ^ 32) : goRune a = goRune b ↔ a = b := by
  unfold goRune
  constructor
  · intro h; split at h <;> split at h <;> omega
  · intro h; rw [h]

/-! ### the scanner's small methods on a simulated state -/

@[simp] theorem go_Current (text : Bytes) (path : String) (s : St) :
    scanner.Scanner.Current (goScanner text path s) = goRune (cur s) := rfl
@[simp] theorem go_current (text : Bytes) (path : String) (s : St) :
    (goScanner text path s).current = goRune (cur s) := rfl
@[simp] theorem go_Scope (text : Bytes) (path : String) (s : St) (d : Syn.GoString) :
    scanner.Scanner.Scope (goScanner text path s) d = ⟨d, s.off⟩ := rfl
@[simp] theorem go_Range (text : Bytes) (path : String) (s : St) (d : Syn.GoString) (start : Nat) :
    scanner.Scope.Range ⟨d, (start : Int)⟩ (goScanner text path s) = goRange text path ⟨start, s.off⟩ := rfl
@[simp] theorem go_Annotate (text : Bytes) (path : String) (s : St) (desc : String) (start : Nat) (e : Err) :
    scanner.Scope.Annotate ⟨goStr desc, (start : Int)⟩ (goErr text path e) (goScanner text path s) =
      goErr text path (annotate desc start e s) := by
  simp [scanner.Scope.Annotate, annotate, goFrame, rng]

theorem SimOK.cur_lt {text : Bytes} {s : St} (h : SimOK text s) : cur s < 2 ^ 32 := by
  unfold cur
  split
  · decide
  · rename_i t rest ht
    have := h.r_lt t (by rw [ht]; exact List.mem_cons_self)
    omega

theorem SimOK.cur_eof {text : Bytes} {s : St} (h : SimOK text s) : goRune (cur s) = -1 ↔ atEOF s = true := by
  unfold cur atEOF
  split
  · rename_i ht; simp [ht, goRune_EOF]
  · rename_i t rest ht
    have := h.r_lt t (by rw [ht]; exact List.mem_cons_self)
    rw [goRune_of_lt (by omega), ht]
    simp


/-- result of a scanner method that returns `(Range, error)`: on an error Go returns `sc.Range()`, the range from the
scope's start to the offset reached -/
def goResR (text : Bytes) (path : String) (start : Nat) : Res Syntax.Range → scanner.Scanner × directives.Range × directives.GoError
  | .ok x s' => (goScanner text path s', goRange text path x, .nil)
  | .err e s' => (goScanner text path s', goRange text path ⟨start, s'.off⟩, goErr text path e)

theorem Post_refl_err {α} {text : Bytes} {s : St} (h : SimOK text s) (e : Err) (he : e ≠ []) :
    Post text (Res.err e s : Res α) :=
  ⟨h, fun e' s' heq => by cases heq; exact he⟩

theorem Post_ok {α} {text : Bytes} {s : St} (h : SimOK text s) (a : α) : Post text (Res.ok a s) :=
  ⟨h, fun e' s' heq => by cases heq⟩

theorem advance_cases (s : St) : (∃ s', advance s = .ok () s') ∨ (∃ e s', advance s = .err e s') := by
  cases h : advance s with
  | ok a s' => exact Or.inl ⟨s', rfl⟩
  | err e s' => exact Or.inr ⟨e, s', rfl⟩

/-- `Scanner.ReadCharacter` is `readCharacter` -/
theorem ReadCharacter_agrees {text : Bytes} {path : String} {s : St} (h : SimOK text s) {r : Nat} (hr : r < 2 ^ 32) :
    scanner.Scanner.ReadCharacter (goScanner text path s) (goRune r) =
      .ok (goResR text path s.off (readCharacter r s)) ∧ Post text (readCharacter r s) := by
  have hA := Advance_agrees (path := path) h
  unfold scanner.Scanner.ReadCharacter readCharacter
  simp only [go_Scope, go_Current, go_current, go_Range, decide_eq_true_eq, h.cur_eof]
  by_cases hE : atEOF s = true
  · simp only [hE, if_true]
    refine ⟨?_, Post_refl_err h _ (by simp)⟩
    simp [goResR, goErr_single, goFrame, Fmt_c_goRune hr, rng]
  · simp only [hE, if_false]
    have hcr : (goRune (cur s) = goRune r) ↔ cur s = r := goRune_inj h.cur_lt hr
    by_cases hc : cur s = r
    · simp only [hc, bne_self_eq_false, Bool.false_eq_true, if_false, decide_true, Bool.not_true]
      rw [hA.1]
      rcases advance_cases s with ⟨s', ha⟩ | ⟨e, s', ha⟩
      · rw [ha] at hA ⊢
        simp only [Res.st, Res.errs, goErr_nil, Outcome.bind]
        exact ⟨by simp [goResR, rng], Post_ok hA.2.1 _⟩
      · rw [ha] at hA ⊢
        have hne := hA.2.2 e s' rfl
        simp only [Res.st, Res.errs, Outcome.bind, decide_eq_true_eq, goErr_ne_nil text path hne]
        exact ⟨by simp [goResR, rng, goFrame], Post_refl_err hA.2.1 _ (by simp)⟩
    · have : (cur s != r) = true := by simpa using hc
      simp only [this, if_true, hcr, hc, decide_false, Bool.not_false]
      refine ⟨?_, Post_refl_err h _ (by simp)⟩
      simp [goResR, goErr_single, goFrame, Fmt_c_goRune hr, Fmt_c_goRune h.cur_lt, rng]


/-- a Go predicate on runes and the model predicate agree on every rune a scanner can hold (decoded runes and EOF) -/
def PredAgrees (pred : Int → Bool) (p : Nat → Bool) : Prop :=
  ∀ r, (r < 0x200000 ∨ r = EOF) → pred (goRune r) = p r

theorem SimOK.cur_dom {text : Bytes} {s : St} (h : SimOK text s) : cur s < 0x200000 ∨ cur s = EOF := by
  unfold cur
  split
  · exact Or.inr rfl
  · rename_i t rest ht
    exact Or.inl (h.r_lt t (by rw [ht]; exact List.mem_cons_self))

/-- `Scanner.ReadCharacterWith` is `readCharacterWith` -/
theorem ReadCharacterWith_agrees {text : Bytes} {path : String} {s : St} (h : SimOK text s) (desc : String)
    {pred : Int → Bool} {p : Nat → Bool} (hp : PredAgrees pred p) :
    scanner.Scanner.ReadCharacterWith (goScanner text path s) (goStr desc) pred =
      .ok (goResR text path s.off (readCharacterWith desc p s)) ∧ Post text (readCharacterWith desc p s) := by
  have hA := Advance_agrees (path := path) h
  unfold scanner.Scanner.ReadCharacterWith readCharacterWith
  simp only [go_Scope, go_Current, go_current, go_Range, decide_eq_true_eq, h.cur_eof, hp _ h.cur_dom]
  by_cases hE : atEOF s = true
  · simp only [hE, if_true]
    refine ⟨?_, Post_refl_err h _ (by simp)⟩
    simp [goResR, goErr_single, goFrame, rng]
  · simp only [hE, if_false]
    by_cases hc : p (cur s) = true
    · simp only [hc, Bool.not_true, Bool.false_eq_true, if_false]
      rw [hA.1]
      rcases advance_cases s with ⟨s', ha⟩ | ⟨e, s', ha⟩
      · rw [ha] at hA ⊢
        simp only [Res.st, Res.errs, goErr_nil, Outcome.bind]
        exact ⟨by simp [goResR, rng], Post_ok hA.2.1 _⟩
      · rw [ha] at hA ⊢
        have hne := hA.2.2 e s' rfl
        simp only [Res.st, Res.errs, Outcome.bind, decide_eq_true_eq, goErr_ne_nil text path hne]
        exact ⟨by simp [goResR, rng, goFrame], Post_refl_err hA.2.1 _ (by simp)⟩
    · simp only [hc, Bool.not_false, if_true]
      refine ⟨?_, Post_refl_err h _ (by simp)⟩
      simp [goResR, goErr_single, goFrame, Fmt_c_goRune h.cur_lt, rng]


/-- outcome of a scanner loop whose body returns on an error: fall through with the state, or return `(sc.Range(), err)` -/
def flowR (text : Bytes) (path : String) (start : Nat) :
    Res Syntax.Range → Flow scanner.Scanner (scanner.Scanner × directives.Range × directives.GoError)
  | .ok _ s' => Flow.next (goScanner text path s')
  | .err e s' => Flow.ret (goScanner text path s', goRange text path ⟨start, s'.off⟩, goErr text path e)

theorem readWhileL_ok_range (p : Nat → Bool) (start : Nat) : ∀ (toks : List Tok) (off : Nat) (r : Syntax.Range) (s' : St),
    readWhileL p start off toks = .ok r s' → r = ⟨start, s'.off⟩ := by
  intro toks
  induction toks with
  | nil => intro off r s' h; simp [readWhileL] at h; rw [← h.1, ← h.2]
  | cons t rest ih =>
    intro off r s' h
    rw [readWhileL] at h
    split at h
    · split at h
      · exact ih _ _ _ h
      · cases h
    · injection h with h1 h2; rw [← h1, ← h2]

theorem ReadWhile_loop_agrees {text : Bytes} {path : String} {pred : Int → Bool} {p : Nat → Bool} (hp : PredAgrees pred p)
    (fuel : Nat) (d : Syn.GoString) (start : Nat) :
    ∀ (toks : List Tok) (off n : Nat), SimOK text ⟨off, toks⟩ → toks.length < n →
      scanner.Scanner.ReadWhile.loop1 fuel pred ⟨d, (start : Int)⟩ n (goScanner text path ⟨off, toks⟩) =
        .ok (flowR text path start (readWhileL p start off toks)) ∧ Post text (readWhileL p start off toks) := by
  intro toks
  induction toks with
  | nil =>
    intro off n h hn
    unfold scanner.Scanner.ReadWhile.loop1
    simp [cur_nil, goRune_EOF, readWhileL, flowR]
    exact Post_ok h _
  | cons t rest ih =>
    intro off n h hn
    have hr := h.r_lt t List.mem_cons_self
    have hne : ¬ (goRune t.r = -1) := by rw [goRune_of_lt (by omega)]; omega
    have hA := Advance_agrees (path := path) h
    unfold scanner.Scanner.ReadWhile.loop1
    rw [readWhileL]
    simp only [go_Current, cur_cons, hp t.r (Or.inl hr), hne, decide_false, Bool.not_false, Bool.and_true]
    by_cases hpt : p t.r = true
    · simp only [hpt, if_true]
      obtain ⟨n', rfl⟩ : ∃ n', n = n' + 1 := ⟨n - 1, by simp at hn; omega⟩
      simp only
      rw [hA.1]
      have hadv : advance ⟨off, t :: rest⟩ = advanceTok off t rest := rfl
      rw [hadv] at hA ⊢
      have hst := advanceTok_st off t rest
      cases hm : advanceTok off t rest with
      | ok u s' =>
        rw [hm] at hA hst
        simp only [Res.st] at hst
        subst hst
        simp only [Res.st, Res.errs, goErr_nil, Outcome.bind, decide_true, Bool.not_true, Bool.false_eq_true, if_false]
        exact ih _ _ hA.2.1 (by simp at hn; omega)
      | err e s' =>
        rw [hm] at hA
        have hnee := hA.2.2 e s' rfl
        simp only [Res.st, Res.errs, Outcome.bind, decide_eq_true_eq, goErr_ne_nil text path hnee, go_Range]
        exact ⟨by simp [flowR, goFrame, rng], Post_refl_err hA.2.1 _ (by simp)⟩
    · simp only [hpt, Bool.false_eq_true, if_false]
      exact ⟨by simp [flowR], Post_ok h _⟩


/-- `Scanner.ReadWhile` is `readWhile`, for every fuel above the number of unread tokens -/
theorem ReadWhile_agrees {text : Bytes} {path : String} {s : St} (h : SimOK text s) {fuel : Nat} (hf : s.toks.length < fuel)
    {pred : Int → Bool} {p : Nat → Bool} (hp : PredAgrees pred p) :
    scanner.Scanner.ReadWhile fuel (goScanner text path s) pred =
      .ok (goResR text path s.off (readWhile p s)) ∧ Post text (readWhile p s) := by
  obtain ⟨off, toks⟩ := s
  have hL := ReadWhile_loop_agrees (text := text) (path := path) hp fuel (Syn.lit "") off toks off fuel h hf
  unfold scanner.Scanner.ReadWhile readWhile
  simp only [go_Scope]
  rw [hL.1]
  refine ⟨?_, hL.2⟩
  cases hm : readWhileL p off off toks with
  | ok r s' =>
    have := readWhileL_ok_range p off toks off r s' hm
    subst this
    simp [flowR, goResR, Outcome.bind]
  | err e s' => simp [flowR, goResR, Outcome.bind]

theorem ReadWhile1_loop_eq (fuel : Nat) (pred : Int → Bool) (sc : scanner.Scope) :
    ∀ (n : Nat) (s : scanner.Scanner),
      scanner.Scanner.ReadWhile1.loop1 fuel pred sc n s = scanner.Scanner.ReadWhile.loop1 fuel pred sc n s := by
  intro n
  induction n with
  | zero => intro s; unfold scanner.Scanner.ReadWhile1.loop1 scanner.Scanner.ReadWhile.loop1; rfl
  | succ n ih =>
    intro s
    unfold scanner.Scanner.ReadWhile1.loop1 scanner.Scanner.ReadWhile.loop1
    simp only [ih]

/-- `Scanner.ReadWhile1` is `readWhile1` -/
theorem ReadWhile1_agrees {text : Bytes} {path : String} {s : St} (h : SimOK text s) {fuel : Nat} (hf : s.toks.length < fuel)
    (desc : String) {pred : Int → Bool} {p : Nat → Bool} (hp : PredAgrees pred p) :
    scanner.Scanner.ReadWhile1 fuel (goScanner text path s) (goStr desc) pred =
      .ok (goResR text path s.off (readWhile1 desc p s)) ∧ Post text (readWhile1 desc p s) := by
  unfold scanner.Scanner.ReadWhile1 readWhile1
  simp only [go_Scope, go_Current, go_Range, decide_eq_true_eq, h.cur_eof, hp _ h.cur_dom, ReadWhile1_loop_eq]
  by_cases hE : atEOF s = true
  · simp only [hE, if_true]
    refine ⟨?_, Post_refl_err h _ (by simp)⟩
    simp [goResR, goErr_single, goFrame, rng]
  · simp only [hE, if_false]
    by_cases hc : p (cur s) = true
    · simp only [hc, Bool.not_true, Bool.false_eq_true, if_false]
      obtain ⟨off, toks⟩ := s
      have hL := ReadWhile_loop_agrees (text := text) (path := path) hp fuel (Syn.lit "") off toks off fuel h hf
      rw [hL.1]
      refine ⟨?_, hL.2⟩
      cases hm : readWhileL p off off toks with
      | ok r s' =>
        have := readWhileL_ok_range p off toks off r s' hm
        subst this
        simp [flowR, goResR, Outcome.bind]
      | err e s' => simp [flowR, goResR, Outcome.bind]
    · simp only [hc, Bool.not_false, if_true]
      refine ⟨?_, Post_refl_err h _ (by simp)⟩
      simp [goResR, goErr_single, goFrame, Fmt_c_goRune h.cur_lt, rng]


theorem readUntilL_ok_range (desc : String) (p : Nat → Bool) (start : Nat) : ∀ (toks : List Tok) (off : Nat) (r : Syntax.Range) (s' : St),
    readUntilL desc p start off toks = .ok r s' → r = ⟨start, s'.off⟩ := by
  intro toks
  induction toks with
  | nil =>
    intro off r s' h
    simp only [readUntilL] at h
    split at h
    · injection h with h1 h2; rw [← h1, ← h2]
    · cases h
  | cons t rest ih =>
    intro off r s' h
    rw [readUntilL] at h
    split at h
    · injection h with h1 h2; rw [← h1, ← h2]
    · split at h
      · cases h
      · split at h
        · cases h
        · exact ih _ _ _ h

theorem ReadUntil_loop_agrees {text : Bytes} {path : String} {pred : Int → Bool} {p : Nat → Bool} (hp : PredAgrees pred p)
    (fuel : Nat) (desc : String) (d : Syn.GoString) (start : Nat) :
    ∀ (toks : List Tok) (off n : Nat), SimOK text ⟨off, toks⟩ → toks.length < n →
      scanner.Scanner.ReadUntil.loop1 fuel (goStr desc) pred ⟨d, (start : Int)⟩ n (goScanner text path ⟨off, toks⟩) =
        .ok (flowR text path start (readUntilL desc p start off toks)) ∧ Post text (readUntilL desc p start off toks) := by
  intro toks
  induction toks with
  | nil =>
    intro off n h hn
    have hA := Advance_agrees (path := path) h
    unfold scanner.Scanner.ReadUntil.loop1
    simp only [go_Current, cur_nil, goRune_EOF]
    have := hp EOF (Or.inr rfl)
    rw [goRune_EOF] at this
    rw [this, readUntilL]
    by_cases hpe : p EOF = true
    · simp only [hpe, Bool.not_true, Bool.false_eq_true, if_false, if_true]
      exact ⟨by simp [flowR], Post_ok h _⟩
    · simp only [hpe, Bool.not_false, if_true, Bool.false_eq_true, if_false]
      obtain ⟨n', rfl⟩ : ∃ n', n = n' + 1 := ⟨n - 1, by simp at hn; omega⟩
      simp only
      rw [hA.1]
      have hadv : advance ⟨off, []⟩ = .err [Frame.at "unexpected end of file" ⟨off, off⟩] ⟨off, [eofTok]⟩ := rfl
      rw [hadv] at hA ⊢
      simp only [Res.st, Res.errs, Outcome.bind, decide_eq_true_eq, goErr_ne_nil text path (List.cons_ne_nil _ _), go_Range]
      refine ⟨?_, Post_refl_err hA.2.1 _ (by simp)⟩
      simp [flowR, goErr, goErrRev, goFrame]
  | cons t rest ih =>
    intro off n h hn
    have hr := h.r_lt t List.mem_cons_self
    have hA := Advance_agrees (path := path) h
    unfold scanner.Scanner.ReadUntil.loop1
    rw [readUntilL]
    simp only [go_Current, cur_cons, hp t.r (Or.inl hr)]
    by_cases hpt : p t.r = true
    · simp only [hpt, Bool.not_true, Bool.false_eq_true, if_false, if_true]
      exact ⟨by simp [flowR], Post_ok h _⟩
    · simp only [hpt, Bool.not_false, if_true, Bool.false_eq_true, if_false]
      obtain ⟨n', rfl⟩ : ∃ n', n = n' + 1 := ⟨n - 1, by simp at hn; omega⟩
      simp only
      rw [hA.1]
      have hadv : advance ⟨off, t :: rest⟩ = advanceTok off t rest := rfl
      rw [hadv] at hA ⊢
      have hst := advanceTok_st off t rest
      cases hm : advanceTok off t rest with
      | ok u s' =>
        rw [hm] at hA hst
        simp only [Res.st] at hst
        subst hst
        have hs' : SimOK text ⟨off + t.bytes.length, rest⟩ := hA.2.1
        simp only [Res.st, Res.errs, goErr_nil, Outcome.bind, decide_true, Bool.not_true, Bool.false_eq_true, if_false,
          go_Current, decide_eq_true_eq, hs'.cur_eof, go_Range]
        cases rest with
        | nil =>
          simp only [atEOF, List.isEmpty_nil, if_true]
          exact ⟨by simp [flowR, goErr_single, goFrame, rng], Post_refl_err hs' _ (by simp)⟩
        | cons u rest' =>
          simp only [atEOF, List.isEmpty_cons, Bool.false_eq_true, if_false]
          exact ih _ _ hs' (by simp at hn ⊢; omega)
      | err e s' =>
        rw [hm] at hA
        have hnee := hA.2.2 e s' rfl
        simp only [Res.st, Res.errs, Outcome.bind, decide_eq_true_eq, goErr_ne_nil text path hnee, go_Range]
        exact ⟨by simp [flowR, goFrame, rng], Post_refl_err hA.2.1 _ (by simp)⟩

/-- `Scanner.ReadUntil` is `readUntil` -/
theorem ReadUntil_agrees {text : Bytes} {path : String} {s : St} (h : SimOK text s) {fuel : Nat} (hf : s.toks.length < fuel)
    (desc : String) {pred : Int → Bool} {p : Nat → Bool} (hp : PredAgrees pred p) :
    scanner.Scanner.ReadUntil fuel (goScanner text path s) (goStr desc) pred =
      .ok (goResR text path s.off (readUntil desc p s)) ∧ Post text (readUntil desc p s) := by
  obtain ⟨off, toks⟩ := s
  have hL := ReadUntil_loop_agrees (text := text) (path := path) hp fuel desc (Syn.lit "") off toks off fuel h hf
  unfold scanner.Scanner.ReadUntil readUntil
  simp only [go_Scope]
  rw [hL.1]
  refine ⟨?_, hL.2⟩
  cases hm : readUntilL desc p off off toks with
  | ok r s' =>
    have := readUntilL_ok_range desc p off toks off r s' hm
    subst this
    simp [flowR, goResR, Outcome.bind]
  | err e s' => simp [flowR, goResR, Outcome.bind]


/-! ### ReadString -/

/-- strings that `%q` prints between quotes unchanged -/
def Plain (str : String) : Prop := (goStr str).all Syn.Fmt.plainByte = true

instance (str : String) : Decidable (Plain str) := inferInstanceAs (Decidable ((goStr str).all Syn.Fmt.plainByte = true))

theorem Fmt_q_plain {str : String} (h : Plain str) : Syn.Fmt.q (goStr str) = .ok (goStr (quoteStr str)) := by
  unfold Syn.Fmt.q
  have h' : List.all (goStr str) Syn.Fmt.plainByte = true := h
  rw [if_pos h']
  have : Syn.lit "\"" = [0x22] := by decide
  simp [quoteStr, this]

/-- the token of a character -/
def charTok (c : Char) : Tok := ⟨c.toNat, Syn.encodeRune c.toNat⟩

theorem char_valid (c : Char) : Syn.validRune c.toNat := by
  have := c.valid
  simp only [UInt32.isValidChar, Nat.isValidChar] at this
  simp only [Syn.validRune, Char.toNat]
  omega

theorem encodeRune_length_pos (r : Nat) : 1 ≤ (Syn.encodeRune r).length := by
  unfold Syn.encodeRune
  repeat' split
  all_goals simp

theorem charTok_canon (c : Char) : (charTok c).canon :=
  ⟨fun rest => Syn.decode_encode _ (char_valid c) rest, encodeRune_length_pos _⟩

theorem flat_charToks (cs : List Char) : flat (cs.map charTok) = cs.flatMap (fun c => Syn.encodeRune c.toNat) := by
  induction cs with
  | nil => rfl
  | cons c cs ih => simp [charTok, ih]

/-- decoding a string constant gives its characters back -/
theorem decodeAll_lit (str : String) : decodeAll (goStr str) = str.toList.map charTok := by
  have := decodeAll_flat (str.toList.map charTok) (by
    intro t ht
    obtain ⟨c, _, rfl⟩ := List.mem_map.mp ht
    exact charTok_canon c)
  rw [flat_charToks] at this
  exact this

theorem runesFrom_snd (toks : List Tok) : ∀ off, (Syn.runesFrom off toks).map Prod.snd = toks.map (fun t => (t.r : Int)) := by
  induction toks with
  | nil => intro off; rfl
  | cons t ts ih => intro off; simp [Syn.runesFrom, ih]

theorem runes_lit_snd (str : String) : (Syn.runes (goStr str)).map Prod.snd = (runesOf str).map goRune := by
  unfold Syn.runes runesOf
  rw [runesFrom_snd, decodeAll_lit]
  simp only [List.map_map]
  apply List.map_congr_left
  intro c _
  have := char_valid c
  simp only [Syn.validRune] at this
  simp only [Function.comp, charTok]
  rw [goRune_of_lt (by omega)]

theorem ReadString_loop_agrees {text : Bytes} {path : String} (str : String) (hq : Plain str) (d : Syn.GoString) (start : Nat) :
    ∀ (rs : List Nat) (items : List (Int × Int)) (s : St), items.map Prod.snd = rs.map goRune → (∀ r ∈ rs, r < 2 ^ 32) →
      SimOK text s →
      scanner.Scanner.ReadString.range1 (goStr str) ⟨d, (start : Int)⟩ items (goScanner text path s) =
        .ok (flowR text path start (readStringL str start rs s)) ∧ Post text (readStringL str start rs s) ∧
        (∀ r s', readStringL str start rs s = .ok r s' → r = ⟨start, s'.off⟩) := by
  intro rs
  induction rs with
  | nil =>
    intro items s hi _ h
    have : items = [] := by simpa using hi
    subst this
    unfold scanner.Scanner.ReadString.range1
    simp only [readStringL]
    exact ⟨by simp [flowR], Post_ok h _, fun r s' hr => by cases hr; rfl⟩
  | cons ch chs ih =>
    intro items s hi hlt h
    cases items with
    | nil => simp at hi
    | cons el items' =>
      simp only [List.map_cons, List.cons.injEq] at hi
      have hA := Advance_agrees (path := path) h
      unfold scanner.Scanner.ReadString.range1
      simp only [readStringL, hi.1, go_Current, Fmt_q_plain hq, Outcome.bind, go_Range]
      have hch : ch < 2 ^ 32 := hlt ch List.mem_cons_self
      have hcr : (goRune ch = goRune (cur s)) ↔ ch = cur s := goRune_inj hch h.cur_lt
      by_cases hc : ch = cur s
      · have hb : (ch != cur s) = false := by simp [hc]
        simp only [hcr, hc, decide_true, Bool.not_true, Bool.false_eq_true, if_false, bne_self_eq_false]
        rw [hA.1]
        rcases advance_cases s with ⟨s', ha⟩ | ⟨e, s', ha⟩
        · rw [ha] at hA ⊢
          simp only [Res.st, Res.errs, goErr_nil, decide_true, Bool.not_true, Bool.false_eq_true, if_false]
          exact ih items' s' hi.2 (fun r hr => hlt r (List.mem_cons_of_mem _ hr)) hA.2.1
        · rw [ha] at hA ⊢
          have hne := hA.2.2 e s' rfl
          simp only [Res.st, Res.errs, decide_eq_true_eq, goErr_ne_nil text path hne, not_false_eq_true, decide_true, if_true]
          exact ⟨by simp [flowR, goFrame, rng], Post_refl_err hA.2.1 _ (by simp), fun r s'' hr => by cases hr⟩
      · have hb : (ch != cur s) = true := by simpa using hc
        simp only [hcr, hc, decide_false, Bool.not_false, if_true, hb]
        exact ⟨by simp [flowR, goErr_single, goFrame, rng], Post_refl_err h _ (by simp), fun r s'' hr => by cases hr⟩

/-- `Scanner.ReadString` is `readString` (for strings that `%q` leaves unchanged) -/
theorem ReadString_agrees {text : Bytes} {path : String} {s : St} (h : SimOK text s) (str : String) (hq : Plain str) :
    scanner.Scanner.ReadString (goScanner text path s) (goStr str) =
      .ok (goResR text path s.off (readString str s)) ∧ Post text (readString str s) := by
  have hlt : ∀ r ∈ runesOf str, r < 2 ^ 32 := by
    intro r hr
    obtain ⟨c, _, rfl⟩ := List.mem_map.mp hr
    have := char_valid c
    simp only [Syn.validRune] at this
    omega
  have hL := ReadString_loop_agrees (text := text) (path := path) str hq (Syn.lit "") s.off (runesOf str)
    (Syn.runes (goStr str)) s (runes_lit_snd str) hlt h
  unfold scanner.Scanner.ReadString readString
  simp only [go_Scope]
  rw [hL.1]
  refine ⟨?_, hL.2.1⟩
  cases hm : readStringL str s.off (runesOf str) s with
  | ok r s' =>
    have := hL.2.2 r s' hm
    subst this
    simp [flowR, goResR, Outcome.bind]
  | err e s' => simp [flowR, goResR, Outcome.bind]


/-! ### format, Backtrack, ReadAlternative -/

def tick (s : String) : String := "`" ++ s ++ "`"

theorem format_range_pos : ∀ (l : List String) (idx : Int) (b : Syn.GoString), idx ≠ 0 → 0 ≤ idx →
    scanner.format.range1 (l.map goStr) idx b = b ++ l.flatMap (fun s => goStr ", " ++ goStr (tick s)) := by
  intro l
  induction l with
  | nil => intro idx b _ _; simp [scanner.format.range1]
  | cons x xs ih =>
    intro idx b h0 h1
    simp only [List.map_cons, scanner.format.range1, h0, decide_false, Bool.not_false, if_true, Syn.Builder.WriteString]
    rw [ih (idx + 1) _ (by omega) (by omega)]
    simp [tick]

theorem lit_intercalate (x : String) (xs : List String) :
    goStr (", ".intercalate ((x :: xs).map tick)) = goStr (tick x) ++ xs.flatMap (fun s => goStr ", " ++ goStr (tick s)) := by
  unfold goStr Syn.lit
  rw [String.toList_intercalate]
  induction xs generalizing x with
  | nil => simp
  | cons y ys ih =>
    simp only [List.map_cons] at ih ⊢
    rw [List.intercalate_cons_cons]
    simp only [List.flatMap_append, List.flatMap_cons, ih y]
    simp

/-- `scanner.format` is `formatAlts` -/
theorem format_agrees (ss : List String) : scanner.format (ss.map goStr) = goStr (formatAlts ss) := by
  unfold scanner.format formatAlts
  have e : (fun s : String => "`" ++ s ++ "`") = tick := rfl
  rw [e]
  cases ss with
  | nil => simp [scanner.format.range1]; decide
  | cons x xs =>
    simp only [List.map_cons, scanner.format.range1, decide_true, Bool.not_true, Bool.false_eq_true, if_false,
      Syn.Builder.WriteString, Syn.Builder.String, GoSem.zero_list, List.nil_append]
    rw [format_range_pos xs _ _ (by omega) (by omega)]
    have := lit_intercalate x xs
    simp only [List.map_cons] at this
    simp only [lit_append, this]
    simp [tick]

theorem Backtrack_agrees {text : Bytes} {path : String} {s : St} (h : SimOK text s) (hE : atEOF s = false) (g : scanner.Scanner)
    (hg1 : g.text = text) (hg2 : g.Path = goStr path) :
    scanner.Scanner.Backtrack g (s.off : Int) = .ok (goScanner text path s) := by
  obtain ⟨off, toks⟩ := s
  obtain ⟨hle, hk⟩ := h
  simp only at hle hk
  unfold scanner.Scanner.Backtrack
  simp only [hg1, len]
  rw [slice_drop text off hle]
  cases toks with
  | nil => simp [atEOF] at hE
  | cons t rest =>
    rcases hk with hk | ⟨hk, hoff⟩
    · obtain ⟨_, ht, _, _, _⟩ := decodeAll_eq_cons hk.symm
      have hr := decodeRune_r_lt (text.drop off)
      rw [← ht] at hr
      simp [Outcome.bind, Syn.DecodeRuneInString, ← ht, goScanner, hg1, hg2, cur_cons, curW, goRune_of_lt (show t.r < 2 ^ 31 by omega)]
    · injection hk with hk1 hk2
      subst hk1 hk2 hoff
      simp [Outcome.bind, Syn.DecodeRuneInString, goScanner, hg1, hg2, cur_cons, curW, eofTok, decodeRune, runeError]
      decide


def Res.map {α β} (f : α → β) : Res α → Res β
  | .ok a s => .ok (f a) s
  | .err e s => .err e s

theorem Post_map {α β} {text : Bytes} (f : α → β) {r : Res α} (h : Post text r) : Post text (Res.map f r) := by
  cases r with
  | ok a s => exact Post_ok h.1 _
  | err e s => exact Post_refl_err h.1 e (h.2 e s rfl)

theorem readAltL_err (all : List String) (s : St) : ∀ (ss : List String) (e : Err) (s' : St),
    readAltL all s ss = .err e s' →
      e = [Frame.at ("unexpected input, want one of " ++ formatAlts all) (rng s.off s)] ∧ s' = s := by
  intro ss
  induction ss with
  | nil => intro e s' h; simp only [readAltL] at h; injection h with h1 h2; exact ⟨h1.symm, h2.symm⟩
  | cons t ts ih =>
    intro e s' h
    simp only [readAltL] at h
    split at h
    · cases h
    · exact ih e s' h

theorem ReadAlternative_loop_agrees {text : Bytes} {path : String} {s : St} (h : SimOK text s) (hE : atEOF s = false)
    (all : List String) (d : Syn.GoString) :
    ∀ (ss : List String) (e0 : Int), (∀ t ∈ ss, Plain t) →
      (∃ e1, scanner.Scanner.ReadAlternative.range1 ⟨d, (s.off : Int)⟩ (ss.map goStr) (goScanner text path s) e0 =
        .ok (match readAltL all s ss with
          | .ok (r, _) s' => Flow.ret (goScanner text path s', goRange text path r, .nil)
          | .err _ _ => Flow.next (goScanner text path s, e1))) ∧ Post text (readAltL all s ss) := by
  intro ss
  induction ss with
  | nil =>
    intro e0 _
    refine ⟨⟨e0, ?_⟩, Post_refl_err h _ (by simp)⟩
    simp [scanner.Scanner.ReadAlternative.range1, readAltL]
  | cons t ts ih =>
    intro e0 hq
    have hR := ReadString_agrees (path := path) h t (hq t List.mem_cons_self)
    simp only [List.map_cons, scanner.Scanner.ReadAlternative.range1, readAltL]
    rw [hR.1]
    cases hm : readString t s with
    | ok r s' =>
      rw [hm] at hR
      refine ⟨⟨e0, ?_⟩, Post_ok hR.2.1 _⟩
      simp [goResR, Outcome.bind]
    | err e s' =>
      rw [hm] at hR
      have hne := hR.2.2 e s' rfl
      have hB := Backtrack_agrees (path := path) h hE (goScanner text path s') rfl rfl
      simp only [goResR, Outcome.bind, decide_eq_true_eq, goErr_ne_nil text path hne, if_false, hB]
      exact ih _ (fun t ht => hq t (List.mem_cons_of_mem _ ht))

/-- `Scanner.ReadAlternative` is `readAlternative` (the model also returns the alternative that matched) -/
theorem ReadAlternative_agrees {text : Bytes} {path : String} {s : St} (h : SimOK text s) (ss : List String)
    (hq : ∀ t ∈ ss, Plain t) :
    scanner.Scanner.ReadAlternative (goScanner text path s) (ss.map goStr) =
      .ok (goResR text path s.off (Res.map Prod.fst (readAlternative ss s))) ∧ Post text (readAlternative ss s) := by
  unfold scanner.Scanner.ReadAlternative readAlternative
  simp only [go_Scope, go_current, go_Range, decide_eq_true_eq, h.cur_eof, format_agrees]
  by_cases hE : atEOF s = true
  · simp only [hE, if_true]
    refine ⟨?_, Post_refl_err h _ (by simp)⟩
    simp [goResR, Res.map, goErr_single, goFrame, rng]
  · simp only [hE, if_false]
    have hE' : atEOF s = false := by simpa using hE
    obtain ⟨⟨e1, hL⟩, hP⟩ := ReadAlternative_loop_agrees (path := path) h hE' ss (Syn.lit "") ss GoZero.zero hq
    rw [hL]
    refine ⟨?_, hP⟩
    cases hm : readAltL ss s ss with
    | ok rt s' =>
      obtain ⟨r, t⟩ := rt
      simp [goResR, Res.map, Outcome.bind]
    | err e s' =>
      -- the only error of the loop is the final one, in the state the call started in
      have := readAltL_err ss s ss e s' hm
      obtain ⟨rfl, rfl⟩ := this
      simp [goResR, Res.map, Outcome.bind, goErr_single, goFrame, rng]


/-! ### ReadN -/

theorem Fmt_d_nat (j : Nat) : Syn.Fmt.d ((j : Nat) : Int) = goStr (toString j) := rfl

theorem ReadN_loop_agrees {text : Bytes} {path : String} (fuel : Nat) (nn : Nat) (d : Syn.GoString) (start : Nat) :
    ∀ (k : Nat) (s : St) (m : Nat), k ≤ nn → SimOK text s → s.toks.length < m →
      scanner.Scanner.ReadN.loop1 fuel (nn : Int) ⟨d, (start : Int)⟩ m (goScanner text path s) ((nn - k : Nat) : Int) =
        .ok (match readNL nn start k s with
          | .ok _ s' => Flow.next (goScanner text path s', (nn : Int))
          | .err e s' => Flow.ret (goScanner text path s', goRange text path ⟨start, s'.off⟩, goErr text path e)) ∧
        Post text (readNL nn start k s) ∧ (∀ r s', readNL nn start k s = .ok r s' → r = ⟨start, s'.off⟩) := by
  intro k
  induction k with
  | zero =>
    intro s m _ h _
    unfold scanner.Scanner.ReadN.loop1
    simp only [Nat.sub_zero, Int.lt_irrefl, decide_false, Bool.false_eq_true, if_false, readNL]
    exact ⟨trivial, Post_ok h _, fun r s' hr => by cases hr; rfl⟩
  | succ k ih =>
    intro s m hk h hm
    have hA := Advance_agrees (path := path) h
    unfold scanner.Scanner.ReadN.loop1
    have hlt : ((nn - (k + 1) : Nat) : Int) < (nn : Int) := by omega
    simp only [hlt, decide_true, if_true, readNL]
    obtain ⟨m', rfl⟩ : ∃ m', m = m' + 1 := ⟨m - 1, by omega⟩
    simp only [go_current, decide_eq_true_eq, h.cur_eof, go_Range, Fmt_d_nat]
    by_cases hE : atEOF s = true
    · simp only [hE, if_true]
      refine ⟨?_, Post_refl_err h _ (by simp), fun r s' hr => by cases hr⟩
      simp [goErr, goErrRev, goFrame, rng]
    · simp only [hE, if_false, Bool.false_eq_true]
      rw [hA.1]
      have hE' : atEOF s = false := by simpa using hE
      have hlen := (advance_extS s hE').length_lt
      rcases advance_cases s with ⟨s', ha⟩ | ⟨e, s', ha⟩
      · rw [ha] at hA hlen ⊢
        simp only [Res.st] at hlen
        simp only [Res.st, Res.errs, goErr_nil, Outcome.bind, decide_true, Bool.not_true, Bool.false_eq_true, if_false]
        have hi : ((nn - (k + 1) : Nat) : Int) + 1 = ((nn - k : Nat) : Int) := by omega
        rw [hi]
        exact ih s' m' (by omega) hA.2.1 (by omega)
      · rw [ha] at hA ⊢
        have hne := hA.2.2 e s' rfl
        simp only [Res.st, Res.errs, Outcome.bind, decide_eq_true_eq, goErr_ne_nil text path hne, go_Range]
        exact ⟨by simp [goFrame, rng], Post_refl_err hA.2.1 _ (by simp), fun r s'' hr => by cases hr⟩

/-- `Scanner.ReadN` is `readN` -/
theorem ReadN_agrees {text : Bytes} {path : String} {s : St} (h : SimOK text s) {fuel : Nat} (hf : s.toks.length < fuel) (nn : Nat) :
    scanner.Scanner.ReadN fuel (goScanner text path s) (nn : Int) =
      .ok (goResR text path s.off (readN nn s)) ∧ Post text (readN nn s) := by
  have hL := ReadN_loop_agrees (text := text) (path := path) fuel nn (Syn.lit "") s.off nn s fuel (Nat.le_refl _) h hf
  unfold scanner.Scanner.ReadN readN
  simp only [go_Scope]
  have h0 : ((nn - nn : Nat) : Int) = 0 := by simp
  rw [h0] at hL
  rw [hL.1]
  refine ⟨?_, hL.2.1⟩
  cases hm : readNL nn s.off nn s with
  | ok r s' =>
    have := hL.2.2 r s' hm
    subst this
    simp [goResR, Outcome.bind]
  | err e s' => simp [goResR, Outcome.bind]


/-! ### New, and the first Advance (`start`) -/

theorem SimOK_start (text : Bytes) : SimOK text ⟨0, decodeAll text⟩ := ⟨Nat.zero_le _, Or.inl (by simp)⟩

/-- `scanner.New(text, path)` followed by `Advance()` is `start (decodeAll text)` -/
theorem New_Advance_agrees (text : Bytes) (path : String) :
    scanner.Scanner.Advance (scanner.New text (goStr path)) =
      .ok (goScanner text path (start (decodeAll text)).st, goErr text path (Res.errs (start (decodeAll text)))) ∧
    Post text (start (decodeAll text)) ∧ (start (decodeAll text)).st = ⟨0, decodeAll text⟩ := by
  have hst : (start (decodeAll text)).st = ⟨0, decodeAll text⟩ := by
    unfold start
    split
    · rename_i h; rw [h]; rfl
    · split <;> rfl
  refine ⟨?_, ⟨by rw [hst]; exact SimOK_start text, ?_⟩, hst⟩
  · cases hd : decodeAll text with
    | nil =>
      have : text = [] := by
        cases text with
        | nil => rfl
        | cons b bs => rw [decodeAll_cons] at hd; simp at hd
      subst this
      simp [scanner.Scanner.Advance, scanner.New, start, goScanner, cur_nil, goRune_EOF, curW, Res.st, Res.errs]
    | cons u rest =>
      obtain ⟨hne, hu, _, huw1, _⟩ := decodeAll_eq_cons hd
      have hlen : ¬ ((0 : Int) = (text.length : Int)) := by
        cases text with
        | nil => simp at hne
        | cons b bs => simp; omega
      have hsl := slice_drop text 0 (Nat.zero_le _)
      simp only [List.drop_zero, Int.natCast_zero] at hsl
      have hur := decodeRune_r_lt text
      rw [← hu] at hur
      have hucur : goRune u.r = (u.r : Int) := goRune_of_lt (by omega)
      have hdec : Syn.DecodeRuneInString text = ((u.r : Int), (u.bytes.length : Int)) := by
        simp [Syn.DecodeRuneInString, ← hu]
      have hb : u.bytes ≠ [] := by intro h; rw [h] at huw1; simp at huw1
      by_cases hinv : u.invalid = true
      · have h1 : u.r = 65533 ∧ u.bytes.length = 1 := by
          simpa [Tok.invalid, runeError] using hinv
        have hg : goRune 65533 = 65533 := by decide
        simp [scanner.Scanner.Advance, scanner.Scanner.Offset, scanner.New, start, goScanner, cur_cons, hucur, curW, Res.errs, Res.st, hlen, hsl,
          Outcome.bind, hdec, hinv, h1.1, h1.2, goErr_single, goFrame, goRange, hg]
      · have h1 : ¬ (u.r = 65533 ∧ u.bytes.length = 1) := by
          simpa [Tok.invalid, runeError] using hinv
        simp [scanner.Scanner.Advance, scanner.Scanner.Offset, scanner.New, start, goScanner, cur_cons, hucur, curW, Res.errs, Res.st, hlen, hsl,
          Outcome.bind, hdec, hinv]
        by_cases hx : u.r = 65533
        · have hw : ¬ ((u.bytes.length : Int) = 1) := by
            intro h; exact h1 ⟨hx, by omega⟩
          simp [hx, hb, hw]
        · have hx' : ¬ ((u.r : Int) = 65533) := by omega
          simp [hx']
  · intro e s' he
    unfold start at he
    split at he
    · cases he
    · split at he
      · injection he with he1 _; rw [← he1]; simp
      · cases he

end Knut.FactsAgree.TransScanner
