import Knut.FactsAgree.TransProcessAll
import Knut.FactsAgree.TransCheck
/-!
# The checker as a processor: `check.Checker.Check()` folded over ONE day by `Processor.Process` = the model's `Check.day`

`(*Checker).Check()` (lib/journal/check/check.go) returns `&journal.Processor{Open: ch.open, Posting: ch.posting, Balance: ch.balance,
Close: ch.close}` (and `DayEnd` only with `Write`, which the commands `balance` and `transcode` do not set).  The four methods are
translated (`Generated/TransCheck.lean`) and proved equal to the model's steps in `FactsAgree/TransCheck.lean`; here they are put into the
shape `TransProcess.processDay` expects (`checkProc`: hand-written, as `Proc` itself) and folded over a Go day that stands for a model day
(`DayRel`: every `Src` pointer arbitrary): `Check_day_agrees` — both succeed, in equivalent states (`StEquiv`), the day is left as it is;
or both fail.  `ord` is the iteration order of `range ch.quantities` in every call of `close`: ANY function of the state and the directive
that reaches every key of the map (`OrdOK`).

Generic: `forEachE_sim`, `forEachIn_sim` — the loops of `Processor.Process` over callbacks that leave their element unchanged simulate a
`foldlM` of the model when every single call does (`SimStep`).

That `knut check` and `knut print` hand `Process` exactly this ONE processor (`checker.Check()` / `check.Check()`) is pinned by
`FactsAgree/ProcOrderCheck` and `ProcOrderPrint` (`ProcOrder.checkOrder_eq`, `printOrder_eq`).
-/
namespace Knut.FactsAgree.TransProcessAll
open Knut Knut.GoSem
open Knut.Generated.Go
open Knut.FactsAgree.TransProcess Knut.FactsAgree.TransCheck
open Knut.FactsAgree.TransAccount (accountGo)
open Knut.FactsAgree.TransPosting (postingGo commodityGo)

/-- a Go call that may update the captured state `σ` and its element against a step of the model: both succeed — related states,
the element as it was —, or both fail -/
def SimStep {σ μ α ε' : Type} (R : σ → μ → Prop) (x : α) : GoSem.Outcome (σ × α × Option Error) → Except ε' μ → Prop
  | .ok (g', x', none), .ok st' => R g' st' ∧ x' = x
  | .ok (_, _, some _), .error _ => True
  | _, _ => False

variable {σ μ α β γ ε' : Type}

theorem SimStep.ok_of_ok {R : σ → μ → Prop} {x : α} {r : GoSem.Outcome (σ × α × Option Error)} {st' : μ}
    (h : SimStep (ε' := ε') R x r (.ok st')) : ∃ g', r = .ok (g', x, none) ∧ R g' st' := by
  rcases r with ⟨g', x', _ | e⟩ | m | _ <;> simp [SimStep] at h
  exact ⟨g', by rw [h.2], h.1⟩

theorem forEachE_sim (R : σ → μ → Prop) (E : α → β → Prop) (f : σ → α → GoSem.Outcome (σ × α × Option Error))
    (m : μ → β → Except ε' μ)
    (hstep : ∀ g st x y, R g st → E x y → SimStep R x (f g x) (m st y)) :
    ∀ (ys : List β) (xs done : List α) (g : σ) (st : μ), AllRel E xs ys → R g st →
      SimStep R (done ++ xs) (forEachE f g xs done) (ys.foldlM m st) := by
  intro ys
  induction ys with
  | nil =>
    intro xs done g st hr h
    cases hr
    simp [forEachE, SimStep, pure, Except.pure, h]
  | cons y ys ih =>
    intro xs done g st hr h
    cases hr with
    | cons hxy hrest =>
      rename_i x xs
      have h1 := hstep g st x y h hxy
      simp only [forEachE, List.foldlM_cons]
      revert h1
      generalize f g x = r
      cases hm : m st y with
      | error e => rcases r with ⟨g', x', _ | e'⟩ | msg | _ <;> simp [SimStep, GoSem.Outcome.bind, bind, Except.bind]
      | ok st1 =>
        rcases r with ⟨g', x', _ | e'⟩ | msg | _ <;> simp [SimStep, GoSem.Outcome.bind, bind, Except.bind]
        intro hg hx
        subst hx
        have := ih xs (done ++ [x']) g' st1 hrest hg
        simpa [SimStep] using this

theorem forEachIn_sim (R : σ → μ → Prop) (E : α → β → Prop) (f : σ → γ → α → GoSem.Outcome (σ × α × Option Error))
    (ctx : List α → γ) (m : μ → β → Except ε' μ)
    (hstep : ∀ g st c x y, R g st → E x y → SimStep R x (f g c x) (m st y)) :
    ∀ (ys : List β) (xs done : List α) (g : σ) (st : μ), AllRel E xs ys → R g st →
      SimStep R (done ++ xs) (forEachIn f ctx g xs done) (ys.foldlM m st) := by
  intro ys
  induction ys with
  | nil =>
    intro xs done g st hr h
    cases hr
    simp [forEachIn, SimStep, pure, Except.pure, h]
  | cons y ys ih =>
    intro xs done g st hr h
    cases hr with
    | cons hxy hrest =>
      rename_i x xs
      have h1 := hstep g st (ctx (done ++ x :: xs)) x y h hxy
      simp only [forEachIn, List.foldlM_cons]
      revert h1
      generalize f g (ctx (done ++ x :: xs)) x = r
      cases hm : m st y with
      | error e => rcases r with ⟨g', x', _ | e'⟩ | msg | _ <;> simp [SimStep, GoSem.Outcome.bind, bind, Except.bind]
      | ok st1 =>
        rcases r with ⟨g', x', _ | e'⟩ | msg | _ <;> simp [SimStep, GoSem.Outcome.bind, bind, Except.bind]
        intro hg hx
        subst hx
        have := ih xs (done ++ [x']) g' st1 hrest hg
        simpa [SimStep] using this

/-- a step of the day, then the rest -/
theorem andThen_sim {R : σ → μ → Prop} {f k : DayStep σ} {m1 : Except ε' μ} {m2 : μ → Except ε' μ} {g : σ} {d : journal.Day}
    (h1 : SimStep R d (f g d) m1) (h2 : ∀ g' st', R g' st' → SimStep R d (k g' d) (m2 st')) :
    SimStep R d ((f.andThen k) g d) (m1 >>= m2) := by
  unfold DayStep.andThen
  revert h1
  generalize f g d = r
  cases m1 with
  | error e => rcases r with ⟨g', x', _ | e'⟩ | msg | _ <;> simp [SimStep, GoSem.Outcome.bind, bind, Except.bind]
  | ok st1 =>
    rcases r with ⟨g', x', _ | e'⟩ | msg | _ <;> simp [SimStep, GoSem.Outcome.bind, bind, Except.bind]
    intro hg hx
    subst hx
    exact h2 g' st1 hg

theorem skip_sim {R : σ → μ → Prop} {g : σ} {st : μ} {d : journal.Day} (h : R g st) :
    SimStep (ε' := ε') R d (DayStep.skip g d) (.ok st) := by
  simp [DayStep.skip, SimStep, h]

/-! ### the relations between a Go day and a model day -/

def OpenRel (g : open_.Open) (o : Knut.Open) : Prop := g = openGo g.Src o
def CloseRel (g : close.Close) (c : Knut.Close) : Prop := g = closeGo g.Src c
def BalRel (cur : String → Bool) (g : assertion.Balance) (b : Knut.Balance) : Prop := g = balanceGo cur g.Src b
def AssertRel (cur : String → Bool) (g : assertion.Assertion) (a : Knut.Assertion) : Prop :=
  g.Date = a.date ∧ AllRel (BalRel cur) g.Balances a.balances

/-- a Go day stands for a model day: the same date, the directives of every kind one by one (all `Src` pointers arbitrary, the
descriptions and targets of transactions as `TRel` says) -/
structure DayRel (cur : String → Bool) (g : journal.Day) (d : Knut.Day) : Prop where
  date : g.Date = d.date
  prices : AllRel (PriceRel cur) g.Prices d.prices
  openings : AllRel OpenRel g.Openings d.openings
  transactions : AllRel (TRel cur) g.Transactions d.transactions
  assertions : AllRel (AssertRel cur) g.Assertions d.assertions
  closings : AllRel CloseRel g.Closings d.closings

/-! ### the checker -/

/-- the processor `ch.Check()` returns (default options: no `DayEnd`) -/
def checkProc (ord : check.Checker → close.Close → List amounts.Key) : Proc check.Checker :=
  { Open := some fun st o => .ok ((check.Checker.open_ st o).1, o, (check.Checker.open_ st o).2),
    Posting := some fun st t p => .ok ((check.Checker.posting st t p).1, p, (check.Checker.posting st t p).2),
    Balance := some fun st a b => .ok (st, b, check.Checker.balance st a b),
    Close := some fun st c => .ok ((check.Checker.close st c (ord st c)).1, c, (check.Checker.close st c (ord st c)).2) }

/-- the iteration order of `range ch.quantities` in a call of `close` reaches every key of the map -/
def OrdOK (ord : check.Checker → close.Close → List amounts.Key) : Prop :=
  ∀ g c k, (Knut.AMap.find? g.quantities k).isSome → k ∈ ord g c

/-- the state `Checker.Check()` starts from (default options) -/
def checkInit : check.Checker :=
  { Write := false, NoCheck := false, quantities := [], accounts := set.New, assertions := [] }

theorem checkInit_equiv (cur : String → Bool) : StEquiv cur checkInit {} := by
  refine ⟨rfl, ?_, ?_, ?_, ?_⟩
  · intro a; simp [checkInit, set.New, set.Set.Has]
  · intro p; simp [checkInit]
  · intro k hk; simp [checkInit] at hk
  · simp

/-- `Checker.posting` does not look at the transaction, `Checker.balance` not at the assertion (they only go into the error value,
of which the translation keeps the message) -/
theorem posting_irrel (g : check.Checker) (t t' : transaction.Transaction) (p : posting.Posting) :
    check.Checker.posting g t p = check.Checker.posting g t' p := rfl
theorem balance_irrel (g : check.Checker) (a a' : assertion.Assertion) (b : assertion.Balance) :
    check.Checker.balance g a b = check.Checker.balance g a' b := rfl

theorem check_open_sim (cur : String → Bool) (g : check.Checker) (st : CheckState) (x : open_.Open) (o : Knut.Open)
    (h : StEquiv cur g st) (hx : OpenRel x o) :
    SimStep (StEquiv cur) x (GoSem.Outcome.ok ((check.Checker.open_ g x).1, x, (check.Checker.open_ g x).2)) (Check.openAcc st o) := by
  have := open_agrees cur h x.Src o
  rw [← hx] at this
  revert this
  generalize check.Checker.open_ g x = r
  rcases r with ⟨g', _ | e⟩ <;> cases Check.openAcc st o <;> simp [SimStep]

theorem check_posting_sim (cur : String → Bool) (t : Knut.Transaction) (g : check.Checker) (st : CheckState)
    (c : transaction.Transaction) (x : posting.Posting) (p : Knut.Posting) (h : StEquiv cur g st) (hx : PRel cur x p) :
    SimStep (StEquiv cur) x (GoSem.Outcome.ok ((check.Checker.posting g c x).1, x, (check.Checker.posting g c x).2))
      (Check.posting st t p) := by
  have := posting_agrees cur h ⟨0⟩ ⟨0⟩ x.Src t p
  have hx' : x = postingGo cur x.Src p := hx
  rw [← hx', posting_irrel g _ c] at this
  revert this
  generalize check.Checker.posting g c x = r
  rcases r with ⟨g', _ | e⟩ <;> cases Check.posting st t p <;> simp [SimStep]

theorem check_balance_sim (cur : String → Bool) (a : Knut.Assertion) (g : check.Checker) (st : CheckState)
    (c : assertion.Assertion) (x : assertion.Balance) (b : Knut.Balance) (h : StEquiv cur g st) (hx : BalRel cur x b) :
    SimStep (StEquiv cur) x (GoSem.Outcome.ok (g, x, check.Checker.balance g c x)) (Check.balance st a b) := by
  have := balance_agrees cur h ⟨0⟩ x.Src a b
  have hx' : x = balanceGo cur x.Src b := hx
  rw [← hx', balance_irrel g _ c] at this
  revert this
  generalize check.Checker.balance g c x = r
  rcases r with _ | e <;> cases hm : Check.balance st a b <;> simp [SimStep]
  intro hst; subst hst; exact h

theorem check_close_sim (cur : String → Bool) {ord : check.Checker → close.Close → List amounts.Key} (ho : OrdOK ord)
    (g : check.Checker) (st : CheckState) (x : close.Close) (c : Knut.Close) (h : StEquiv cur g st) (hx : CloseRel x c) :
    SimStep (StEquiv cur) x
      (GoSem.Outcome.ok ((check.Checker.close g x (ord g x)).1, x, (check.Checker.close g x (ord g x)).2)) (Check.close st c) := by
  have := close_agrees cur h x.Src c (ord g x) (ho g x)
  rw [← hx] at this
  revert this
  generalize check.Checker.close g x (ord g x) = r
  rcases r with ⟨g', _ | e⟩ <;> cases Check.close st c <;> simp [SimStep]

/-- wrapping a loop over one field of the day -/
theorem field_sim {R : σ → μ → Prop} {l : List α} {r : GoSem.Outcome (σ × List α × Option Error)} {m : Except ε' μ}
    (d : journal.Day) (upd : journal.Day → List α → journal.Day) (hupd : upd d l = d) (h : SimStep R l r m) :
    SimStep R d (r.bind fun r => GoSem.Outcome.ok (r.1, upd d r.2.1, r.2.2)) m := by
  revert h
  cases m with
  | error e => rcases r with ⟨g', x', _ | e'⟩ | msg | _ <;> simp [SimStep, GoSem.Outcome.bind]
  | ok st1 =>
    rcases r with ⟨g', x', _ | e'⟩ | msg | _ <;> simp [SimStep, GoSem.Outcome.bind]
    intro hg hx
    subst hx
    exact ⟨hg, hupd⟩

/-- **the checker on one day**: `Processor.Process` with the four callbacks of `ch.Check()` = the model's `Check.day`, for every
admissible iteration order of `close`: both accept, the states equivalent and the day untouched, or both reject -/
theorem Check_day_agrees (cur : String → Bool) {ord : check.Checker → close.Close → List amounts.Key} (ho : OrdOK ord)
    {g : check.Checker} {st : CheckState} (h : StEquiv cur g st) (dg : journal.Day) (d : Knut.Day) (hd : DayRel cur dg d) :
    SimStep (StEquiv cur) dg (processDay (checkProc ord) g dg) (Check.day st d) := by
  unfold processDay Check.day
  have e0 : optStep (checkProc ord).DayStart = DayStep.skip := rfl
  have e6 : optStep (checkProc ord).DayEnd = DayStep.skip := rfl
  have e1 : pricesStep (checkProc ord) = DayStep.skip := rfl
  rw [e0, e1, e6]
  have hskip : ∀ (k : DayStep check.Checker) (g : check.Checker) (d : journal.Day), (DayStep.skip.andThen k) g d = k g d := by
    intro k g d; rfl
  rw [hskip, hskip]
  apply andThen_sim
  · -- openings
    have := forEachE_sim (StEquiv cur) OpenRel _ Check.openAcc (check_open_sim cur) d.openings dg.Openings [] g st hd.openings h
    exact field_sim dg (fun d l => { d with Openings := l }) rfl this
  · intro g1 st1 h1
    apply andThen_sim
    · -- transactions / postings
      have hT : ∀ (g : check.Checker) (st : CheckState) (x : transaction.Transaction) (t : Knut.Transaction),
          StEquiv cur g st → TRel cur x t →
          SimStep (StEquiv cur) x
            (postingsOf (fun st t p => GoSem.Outcome.ok ((check.Checker.posting st t p).1, p, (check.Checker.posting st t p).2)) g x)
            (t.postings.foldlM (fun st p => Check.posting st t p) st) := by
        intro g st x t hg hx
        have := forEachIn_sim (StEquiv cur) (PRel cur) _ (fun ps => ({ x with Postings := ps } : transaction.Transaction))
          (fun st p => Check.posting st t p) (fun g st c x p hg hx => check_posting_sim cur t g st c x p hg hx)
          t.postings x.Postings [] g st hx.2.2.1 hg
        unfold postingsOf
        revert this
        generalize forEachIn _ _ g x.Postings [] = r
        cases (t.postings.foldlM (fun st p => Check.posting st t p) st) with
        | error e => rcases r with ⟨g', x', _ | e'⟩ | msg | _ <;> simp [SimStep, GoSem.Outcome.bind]
        | ok st1 =>
          rcases r with ⟨g', x', _ | e'⟩ | msg | _ <;> simp [SimStep, GoSem.Outcome.bind]
          intro hg hx
          subst hx
          exact ⟨hg, rfl⟩
      have := forEachE_sim (StEquiv cur) (TRel cur) _ _ hT d.transactions dg.Transactions [] g1 st1 hd.transactions h1
      exact field_sim dg (fun d l => { d with Transactions := l }) rfl this
    · intro g2 st2 h2
      apply andThen_sim
      · -- assertions / balances
        have hA : ∀ (g : check.Checker) (st : CheckState) (x : assertion.Assertion) (a : Knut.Assertion),
            StEquiv cur g st → AssertRel cur x a →
            SimStep (StEquiv cur) x
              (balancesOf (fun st a b => GoSem.Outcome.ok (st, b, check.Checker.balance st a b)) g x)
              (a.balances.foldlM (fun st b => Check.balance st a b) st) := by
          intro g st x a hg hx
          have := forEachIn_sim (StEquiv cur) (BalRel cur) _ (fun bs => ({ x with Balances := bs } : assertion.Assertion))
            (fun st b => Check.balance st a b) (fun g st c x b hg hx => check_balance_sim cur a g st c x b hg hx)
            a.balances x.Balances [] g st hx.2 hg
          unfold balancesOf
          revert this
          generalize forEachIn _ _ g x.Balances [] = r
          cases (a.balances.foldlM (fun st b => Check.balance st a b) st) with
          | error e => rcases r with ⟨g', x', _ | e'⟩ | msg | _ <;> simp [SimStep, GoSem.Outcome.bind]
          | ok st1 =>
            rcases r with ⟨g', x', _ | e'⟩ | msg | _ <;> simp [SimStep, GoSem.Outcome.bind]
            intro hg hx
            subst hx
            exact ⟨hg, rfl⟩
        have := forEachE_sim (StEquiv cur) (AssertRel cur) _ _ hA d.assertions dg.Assertions [] g2 st2 hd.assertions h2
        exact field_sim dg (fun d l => { d with Assertions := l }) rfl this
      · intro g3 st3 h3
        have hE : ∀ (k : DayStep check.Checker) (g : check.Checker) (d : journal.Day), (k.andThen DayStep.skip) g d = k g d := by
          intro k g d
          unfold DayStep.andThen DayStep.skip
          rcases k g d with ⟨g', x', _ | e'⟩ | msg | _ <;> rfl
        rw [hE]
        have := forEachE_sim (StEquiv cur) CloseRel _ Check.close (check_close_sim cur ho) d.closings dg.Closings [] g3 st3
          hd.closings h3
        exact field_sim dg (fun d l => { d with Closings := l }) rfl this

end Knut.FactsAgree.TransProcessAll
