import Knut.Wire
import Knut.Model.Commands
/-! Driver op `c09printtext`: `knut print FILE` of the command model (`Cmd.run .print`) on a file system that holds the
given bytes as its only file. For a text without `include` directives this is `FromSyntax.printFile` of the bytes
(`Knut.C09.C09_cmd_print_is_printFile`); an `include` directive cannot be resolved and fails the load, as it does for the
binary when the harness writes the text alone into an empty directory. -/
namespace Knut.Driver.C09Cmd
open Knut Knut.Wire Knut.Commands Knut.Loader

def handle (fields : List String) : Option String :=
  match fields with
  | ["c09printtext", bytes] => some (
    match unhexBytes bytes with
    | none => "bad-op"
    | some b =>
      match Cmd.run .print (FileSys.ofList [("j.knut", b.toList)]) { path := "j.knut" } with
      | .ok out => "ok " ++ hexStr out
      | .error _ => "error"
      | .panic _ => "panic")
  | _ => none

end Knut.Driver.C09Cmd
