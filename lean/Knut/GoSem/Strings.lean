import Knut.GoSem.Basic
/-!
# Go strings for the translated code

A Go `string` is a byte string; the translated code handles valid UTF-8 text only, as a Lean
`String`.  `len(s)` is the number of UTF-8 bytes, `utf8.RuneCountInString` the number of code points.
-/
namespace Knut.GoSem.Strings

/-- `len(s)` -/
@[simp] def byteLen (s : String) : Int := (s.utf8ByteSize : Int)
/-- `utf8.RuneCountInString(s)` for valid UTF-8 -/
@[simp] def RuneCount (s : String) : Int := (s.length : Int)
/-- `strings.Repeat(s, n)` (panics for negative `n` in Go: callers in the subset pass lengths) -/
def Repeat (s : String) (n : Int) : String := String.join (List.replicate n.toNat s)
/-- the characters of `strings.ReplaceAll`: left to right, non-overlapping; `skip` characters of a matched occurrence are
still to be dropped -/
def replaceChars (old new : List Char) : List Char → Nat → List Char
  | [], _ => []
  | _ :: rest, skip + 1 => replaceChars old new rest skip
  | c :: rest, 0 =>
    if old.isPrefixOf (c :: rest) then new ++ replaceChars old new rest (old.length - 1)
    else c :: replaceChars old new rest 0

/-- `strings.ReplaceAll(s, old, new)` on valid UTF-8; an empty `old` matches before every character and at the end -/
def ReplaceAll (s old new : String) : String :=
  if old.isEmpty then String.ofList (new.toList ++ s.toList.flatMap (fun c => c :: new.toList))
  else String.ofList (replaceChars old.toList new.toList s.toList 0)
/-- `%d` / `strconv.Itoa` -/
@[simp] def itoa (n : Int) : String := toString n

end Knut.GoSem.Strings
