import Knut.Generated.TransBeancount
import Knut.GoSem.SortSlice
import Knut.FactsAgree.TransJPrinter
import Knut.Model.Beancount
import Knut.Proofs.LayoutPrint
import Knut.Proofs.Beancount
import Knut.Proofs.PrintSound
/-!
# The translated `beancount.Transcode` agrees with `Model/Beancount.lean`

`lib/journal/beancount/beancount.go` is regenerated into `Knut/Generated/TransBeancount.lean` on every run
(`harness/trans_units_beancount.go`).  The reading of the Go text (see there and `Knut/GoSem/{Fmt,Regexp,SortSlice}.lean`):

* the `io.Writer` is the text written so far; `fmt.Fprintf(w, …)` / `io.WriteString(w, s)` append the formatted text, no write error;
* `p := printer.New(w)` stores `w` in the printer: `p.writer` and `w` are one sink, kept equal after every assignment to either;
* `regexp.MustCompile("[^a-zA-Z]").ReplaceAllString(name, "X")` is `Regexp.replaceAllNonLetter`;
* `compare.Sort(day.Transactions, transaction.Compare)` is NOT stable: the sorting algorithm is the extra parameter `sort1` of the
  translated `Transcode` (the generated term is `sort1 transaction.Compare day.Transactions`); the theorems hold for EVERY `sort1`
  that meets `SortSliceOn` for this comparator on each day's transactions (a permutation in which no element is `Smaller` than one
  before it);
* `c == nil` reads "`c` is the zero commodity"; the registry never hands out such a pointer: `hv : v ≠ ""`.

Every theorem says: the translated function, on a writer that holds `w` and Go values that stand for model values (`Src` pointers
and `Targets` arbitrary), returns the writer `w ++ text` for the model's text and no error.

| Go | theorem | model |
|---|---|---|
| `stripNonAlphanum` | `stripNonAlphanum_agrees` | `Beancount.stripNonAlpha` |
| `writePosting` | `writePosting_agrees` | `Beancount.renderPosting` (the posting's VALUE) |
| `writeTrx` (+ loop) | `writeTrx_range1_agrees`, `writeTrx_agrees` | `Beancount.renderTx` |
| `transaction.Compare` on transactions with arbitrary `Src` pointers | `Compare_loop_TRelB`, `Compare_TRelB` | `cmpTx` (never a panic, never out of fuel) |
| the loops of `Transcode` over a day's openings / closings / transactions | `range2_agrees`, `range6_agrees`, `range5_agrees` | `opensText`, `closesText`, `txsText` |
| the loops that synthesise the opens (`openValAccounts`, `strings.HasPrefix`) | `range4_agrees`, `range3_agrees` (`SetRel`, `HasPrefix_agrees`) | `synthPs`, `synthTxs` (= `Beancount.synthStep/synthOpens`: `synthOpens_eq`) |
| `compare.Sort(day.Transactions, transaction.Compare)` | `sorted_of_spec` (every `sort1` with `SortSliceOn` yields a sorted permutation of the model's transactions), `dayTextOf_sorted` (every sorted permutation is written as the model's stable `sortTxs` is, and leaves the same accounts seen) | `sortTxs` |
| the loop over the days, `Transcode` | `range1_agrees`, **`Transcode_agrees`** | `daysText` (= the text of `entriesFrom`: `entriesFrom_text`), `Beancount.render v (Beancount.entries pds)` |
| `Transcode` on the processed journal of the model command | `Transcode_run_agrees` | the stdout of `Beancount.run (some v) ds` (build, `Sort`, `ComputePrices`, `check`, `Valuate`, entries, text) |

Invariants stated in the theorems (and nowhere hidden):
* `DayOK`: every date of the day is `DateOK` (`0 ≤ year`: `Time.Format` prints a sign before that, the model's `fmtDate` does not) and
  `AccountsByName`: among the postings of a day an account is determined by its name (the registry interns accounts by name) — only
  used to show that transactions which `transaction.Compare` cannot tell apart are written alike, whichever of them comes first
  (`AccountsByName_of_wf`: it holds when every account has non-empty segments without a colon);
* `v ≠ ""`: the commodity is not the zero value (`c == nil` is false).  For a nil `c` Go panics in `c.Name()`; the translation does not.
* `PDayRel`/`TRelB`: the Go day stands for the model's processed day; every `Src` pointer and the `Targets` are arbitrary.

Not expressed: that the in-place sort also reorders `day.Transactions` for the CALLER of `Transcode` (the translated function
returns the writer's text and the error only).
-/
namespace Knut.FactsAgree.TransBeancount
open Knut Knut.GoSem
open Knut.Generated.Go
open Knut.FactsAgree.TransAccount Knut.FactsAgree.TransPosting Knut.FactsAgree.TransTransaction
open Knut.FactsAgree.TransProcess (AllRel PRel AllRel_append AllRel_length)
open Knut.FactsAgree.TransCheck (openGo closeGo)
open Knut.FactsAgree.TransJournal (OpenRel CloseRel DirRel)
open Knut.FactsAgree.TransJPrinter (DateOK FormatISO_agrees Commodity_Name wrote PrintDirective_agrees printDirective)

/-! ## the prelude against the model's helpers -/

theorem join_map_singleton (cs : List Char) (f : Char → Char) :
    String.join (cs.map (fun c => String.singleton (f c))) = String.ofList (cs.map f) := by
  induction cs with
  | nil => rfl
  | cons c rest ih =>
    rw [List.map_cons, String.join_cons, ih]
    apply String.toList_injective
    simp

/-- **`regex.ReplaceAllString(name, "X")`** with `regex = [^a-zA-Z]` is the model's per-character replacement -/
theorem replaceAllNonLetter_X (s : String) : Regexp.replaceAllNonLetter s "X" = Beancount.stripNonAlpha s := by
  unfold Regexp.replaceAllNonLetter Beancount.stripNonAlpha
  rw [← join_map_singleton]
  congr 1
  apply List.map_congr_left
  intro c _
  unfold Regexp.isAsciiLetter
  by_cases h : (('a' ≤ c && c ≤ 'z') || ('A' ≤ c && c ≤ 'Z')) = true
  · simp only [h, if_true]
  · simp only [h, Bool.false_eq_true, if_false]; rfl

/-- **`stripNonAlphanum`** -/
theorem stripNonAlphanum_agrees (cur : String → Bool) (v : Knut.Commodity) :
    beancount.stripNonAlphanum (commodityGo cur v) = Beancount.stripNonAlpha v := by
  simp only [beancount.stripNonAlphanum, Commodity_Name, replaceAllNonLetter_X]

/-- a registry commodity is not the zero value (`c == nil` is false for it) -/
theorem commodityGo_ne_zero (cur : String → Bool) (v : Knut.Commodity) (hv : v ≠ "") :
    commodityGo cur v ≠ (GoZero.zero : commodity.Commodity) := by
  intro h
  have := congrArg commodity.Commodity.name h
  exact hv this

/-! ## `writePosting`, `writeTrx` -/

/-- **`writePosting`** with a valuation commodity: two blanks, the account, the posting's VALUE, the stripped commodity -/
theorem writePosting_agrees (cur : String → Bool) (w : String) (g : posting.Posting) (q : Knut.Posting) (v : Knut.Commodity)
    (hr : PRel cur g q) (hv : v ≠ "") :
    beancount.writePosting w g (commodityGo cur v) = (w ++ Beancount.renderPosting v q, none) := by
  unfold PRel at hr
  rw [hr]
  have hz := commodityGo_ne_zero cur v hv
  simp only [beancount.writePosting, hz, decide_false, Bool.false_eq_true, if_false, Writer.Write, Option.isSome_none,
    stripNonAlphanum_agrees, postingGo, Decimal.String, Beancount.renderPosting, String.append_assoc]
  rfl

/-- the text of the postings `writeTrx` writes -/
def postingLines (v : Knut.Commodity) (ps : List Knut.Posting) : String := String.join (ps.map (Beancount.renderPosting v))

/-- the loop of `writeTrx` over the postings -/
theorem writeTrx_range1_agrees (cur : String → Bool) (gt : transaction.Transaction) (v : Knut.Commodity) (hv : v ≠ "") :
    ∀ (gps : List posting.Posting) (ps : List Knut.Posting) (w : String), AllRel (PRel cur) gps ps →
      beancount.writeTrx.range1 gt (commodityGo cur v) gps w = .next (w ++ postingLines v ps) := by
  intro gps ps w h
  induction h generalizing w with
  | nil => simp [beancount.writeTrx.range1, postingLines]
  | @cons g q gs qs hg _ ih =>
    unfold beancount.writeTrx.range1
    simp only [writePosting_agrees cur w g q v hg hv, Option.isSome_none, Bool.false_eq_true, if_false, ih, postingLines,
      List.map_cons, String.join_cons, String.append_assoc]

/-- a Go transaction stands for the model transaction as far as `Transcode` reads it: date, description, postings (every `Src`
pointer and `Targets` arbitrary) -/
def TRelB (cur : String → Bool) (g : transaction.Transaction) (t : Knut.Transaction) : Prop :=
  g.Date = t.date ∧ g.Description = t.description ∧ AllRel (PRel cur) g.Postings t.postings

/-- **`writeTrx`**: the date, ` * `, the quoted description, the postings, an empty line -/
theorem writeTrx_agrees (cur : String → Bool) (w : String) (g : transaction.Transaction) (t : Knut.Transaction) (v : Knut.Commodity)
    (hr : TRelB cur g t) (hd : DateOK t.date) (hv : v ≠ "") :
    beancount.writeTrx w g (commodityGo cur v) = (w ++ Beancount.renderTx v t, none) := by
  obtain ⟨hdate, hdesc, hps⟩ := hr
  unfold beancount.writeTrx
  simp only [Writer.Write, Option.isSome_none, Bool.false_eq_true, if_false, hdate, hdesc, FormatISO_agrees _ hd,
    writeTrx_range1_agrees cur g v hv _ _ _ hps, Beancount.renderTx, postingLines, String.append_assoc]
  have e : ("\"\n" : String) = "\"" ++ "\n" := by decide
  rw [e, String.append_assoc]


/-! ## the model's entry list as text, day by day -/

def opensText (os : List Knut.Open) : String := String.join (os.map (fun o => JournalPrinter.printOpen o ++ "\n\n"))
def closesText (cs : List Knut.Close) : String := String.join (cs.map (fun c => JournalPrinter.printClose c ++ "\n\n"))
def txsText (v : Knut.Commodity) (ts : List Knut.Transaction) : String := String.join (ts.map (Beancount.renderTx v))

theorem opensText_append (a b : List Knut.Open) : opensText (a ++ b) = opensText a ++ opensText b := by
  simp [opensText, String.join_append]

theorem opensText_nil : opensText [] = "" := rfl
theorem opensText_cons (o : Knut.Open) (os : List Knut.Open) :
    opensText (o :: os) = JournalPrinter.printOpen o ++ ("\n\n" ++ opensText os) := by
  simp [opensText, String.append_assoc]
theorem closesText_nil : closesText [] = "" := rfl
theorem closesText_cons (c : Knut.Close) (cs : List Knut.Close) :
    closesText (c :: cs) = JournalPrinter.printClose c ++ ("\n\n" ++ closesText cs) := by
  simp [closesText, String.append_assoc]
theorem txsText_nil (v : Knut.Commodity) : txsText v [] = "" := rfl
theorem txsText_cons (v : Knut.Commodity) (t : Knut.Transaction) (ts : List Knut.Transaction) :
    txsText v (t :: ts) = Beancount.renderTx v t ++ txsText v ts := by
  simp [txsText]

/-- the synthesised opens of the postings of one transaction, first use first (the recursive form of `synthStep`) -/
def synthPs (date : Int) : List Knut.Account → List Knut.Posting → List Knut.Account × List Knut.Open
  | seen, [] => (seen, [])
  | seen, p :: ps =>
    if p.account.name.startsWith Beancount.valPrefix && !seen.contains p.account then
      ((synthPs date (p.account :: seen) ps).1, ⟨date, p.account⟩ :: (synthPs date (p.account :: seen) ps).2)
    else synthPs date seen ps

theorem foldl_synthStep (date : Int) (ps : List Knut.Posting) (seen : List Knut.Account) (acc : List Knut.Open) :
    ps.foldl (Beancount.synthStep date) (seen, acc) = ((synthPs date seen ps).1, acc ++ (synthPs date seen ps).2) := by
  induction ps generalizing seen acc with
  | nil => simp [synthPs]
  | cons p ps ih =>
    have step : Beancount.synthStep date (seen, acc) p =
        if p.account.name.startsWith Beancount.valPrefix && !seen.contains p.account then
          (p.account :: seen, acc ++ [⟨date, p.account⟩]) else (seen, acc) := rfl
    rw [List.foldl_cons, step]
    unfold synthPs
    by_cases h : (p.account.name.startsWith Beancount.valPrefix && !seen.contains p.account) = true
    · simp only [h, if_true, ih, List.append_assoc, List.singleton_append]
    · simp only [h, Bool.false_eq_true, if_false, ih]

/-- the synthesised opens of a day's transactions -/
def synthTxs : List Knut.Account → List Knut.Transaction → List Knut.Account × List Knut.Open
  | seen, [] => (seen, [])
  | seen, t :: ts =>
    ((synthTxs (synthPs t.date seen t.postings).1 ts).1,
      (synthPs t.date seen t.postings).2 ++ (synthTxs (synthPs t.date seen t.postings).1 ts).2)

theorem foldl_synthTxs (ts : List Knut.Transaction) (seen : List Knut.Account) (acc : List Knut.Open) :
    ts.foldl (fun acc t => t.postings.foldl (Beancount.synthStep t.date) acc) (seen, acc) =
      ((synthTxs seen ts).1, acc ++ (synthTxs seen ts).2) := by
  induction ts generalizing seen acc with
  | nil => simp [synthTxs]
  | cons t ts ih =>
    rw [List.foldl_cons, foldl_synthStep, ih]
    simp [synthTxs, List.append_assoc]

theorem synthOpens_eq (seen : List Knut.Account) (ts : List Knut.Transaction) : Beancount.synthOpens seen ts = synthTxs seen ts := by
  unfold Beancount.synthOpens
  rw [foldl_synthTxs]
  simp

/-- the text of one day for the transactions in the order `sts` (the model sorts them itself: `dayText_sortTxs`) -/
def dayTextOf (v : Knut.Commodity) (seen : List Knut.Account) (d : Beancount.ProcDay) (sts : List Knut.Transaction) : String :=
  opensText d.openings ++ opensText (synthTxs seen sts).2 ++ txsText v sts ++ closesText d.closings

theorem join_map_opening (v : Knut.Commodity) (os : List Knut.Open) :
    String.join ((os.map Beancount.BEntry.opening).map (Beancount.renderEntry v)) = opensText os := by
  simp [opensText, List.map_map, Function.comp_def, Beancount.renderEntry]

theorem join_map_closing (v : Knut.Commodity) (cs : List Knut.Close) :
    String.join ((cs.map Beancount.BEntry.closing).map (Beancount.renderEntry v)) = closesText cs := by
  simp [closesText, List.map_map, Function.comp_def, Beancount.renderEntry]

theorem join_map_tx (v : Knut.Commodity) (ts : List Knut.Transaction) :
    String.join ((ts.map Beancount.BEntry.tx).map (Beancount.renderEntry v)) = txsText v ts := by
  simp [txsText, List.map_map, Function.comp_def, Beancount.renderEntry]

/-- the text of the entries of one day -/
theorem dayEntries_text (v : Knut.Commodity) (seen : List Knut.Account) (d : Beancount.ProcDay) :
    String.join ((Beancount.dayEntries seen d).2.map (Beancount.renderEntry v)) =
      dayTextOf v seen d (JournalPrinter.sortTxs d.transactions) ∧
    (Beancount.dayEntries seen d).1 = (synthTxs seen (JournalPrinter.sortTxs d.transactions)).1 := by
  unfold Beancount.dayEntries dayTextOf
  simp only [synthOpens_eq, List.map_append, String.join_append, join_map_opening, join_map_closing, join_map_tx, and_self]

/-- the text of the entries from a day on -/
def daysText (v : Knut.Commodity) : List Knut.Account → List Beancount.ProcDay → String
  | _, [] => ""
  | seen, d :: rest =>
    dayTextOf v seen d (JournalPrinter.sortTxs d.transactions) ++
      daysText v (synthTxs seen (JournalPrinter.sortTxs d.transactions)).1 rest

theorem entriesFrom_text (v : Knut.Commodity) (pds : List Beancount.ProcDay) (seen : List Knut.Account) :
    String.join ((Beancount.entriesFrom seen pds).map (Beancount.renderEntry v)) = daysText v seen pds := by
  induction pds generalizing seen with
  | nil => rfl
  | cons d rest ih =>
    simp only [Beancount.entriesFrom, List.map_append, String.join_append, (dayEntries_text v seen d).1, (dayEntries_text v seen d).2,
      ih, daysText]

/-- `Beancount.render` of the entry list: the option line and the days -/
theorem render_entries (v : Knut.Commodity) (pds : List Beancount.ProcDay) :
    Beancount.render v (Beancount.entries pds) = "option \"operating_currency\" \"" ++ v ++ "\"\n\n" ++ daysText v [] pds := by
  unfold Beancount.render Beancount.entries
  rw [entriesFrom_text]


/-! ## the loops of `Transcode` over the openings and closings of a day -/

theorem printDirective_opening (pad : Nat) (o : Knut.Open) : printDirective pad (.opening o) = JournalPrinter.printOpen o := rfl
theorem printDirective_closing (pad : Nat) (c : Knut.Close) : printDirective pad (.closing c) = JournalPrinter.printClose c := rfl

/-- the loop over `day.Openings`: every open through the printer, then an empty line through the writer -/
theorem range2_agrees (cur : String → Bool) (day : journal.Day) :
    ∀ (gos : List open_.Open) (os : List Knut.Open) (w : String) (p : printer.Printer), AllRel OpenRel gos os →
      (∀ o ∈ os, DateOK o.date) → p.writer = w →
      ∃ p' : printer.Printer, beancount.Transcode.range2 day gos w p = .ok (.next (w ++ opensText os, p')) ∧
        p'.writer = w ++ opensText os := by
  intro gos os w p h
  induction h generalizing w p with
  | nil =>
    intro _ hw
    exact ⟨p, by simp [beancount.Transcode.range2, opensText_nil], by simp [opensText_nil, hw]⟩
  | @cons g o gs os hg _ ih =>
    intro hd hw
    have hdo : DateOK o.date := hd o List.mem_cons_self
    have hdir : DirRel cur (.Open g) (.opening o) := hg
    obtain ⟨p', h1, h2⟩ := ih (w ++ (JournalPrinter.printOpen o ++ "\n\n"))
      { wrote p (JournalPrinter.printOpen o) with writer := w ++ (JournalPrinter.printOpen o ++ "\n\n") }
      (fun x hx => hd x (List.mem_cons_of_mem _ hx)) rfl
    simp only [String.append_assoc] at h1 h2
    refine ⟨p', ?_, ?_⟩
    · unfold beancount.Transcode.range2
      simp only [PrintDirective_agrees cur p (.Open g) (.opening o) hdir hdo, printDirective_opening, Outcome.bind,
        Option.isSome_none, Bool.false_eq_true, if_false, Writer.Write, TransJPrinter.wrote_writer, hw, opensText_cons,
        String.append_assoc]
      exact h1
    · simp only [h2, opensText_cons]

/-- the loop over `day.Closings` -/
theorem range6_agrees (cur : String → Bool) (day : journal.Day) :
    ∀ (gcs : List close.Close) (cs : List Knut.Close) (w : String) (p : printer.Printer), AllRel CloseRel gcs cs →
      (∀ c ∈ cs, DateOK c.date) → p.writer = w →
      ∃ p' : printer.Printer, beancount.Transcode.range6 day gcs w p = .ok (.next (w ++ closesText cs, p')) ∧
        p'.writer = w ++ closesText cs := by
  intro gcs cs w p h
  induction h generalizing w p with
  | nil =>
    intro _ hw
    exact ⟨p, by simp [beancount.Transcode.range6, closesText_nil], by simp [closesText_nil, hw]⟩
  | @cons g c gs cs hg _ ih =>
    intro hd hw
    have hdc : DateOK c.date := hd c List.mem_cons_self
    have hdir : DirRel cur (.Close g) (.closing c) := hg
    obtain ⟨p', h1, h2⟩ := ih (w ++ (JournalPrinter.printClose c ++ "\n\n"))
      { wrote p (JournalPrinter.printClose c) with writer := w ++ (JournalPrinter.printClose c ++ "\n\n") }
      (fun x hx => hd x (List.mem_cons_of_mem _ hx)) rfl
    simp only [String.append_assoc] at h1 h2
    refine ⟨p', ?_, ?_⟩
    · unfold beancount.Transcode.range6
      simp only [PrintDirective_agrees cur p (.Close g) (.closing c) hdir hdc, printDirective_closing, Outcome.bind,
        Option.isSome_none, Bool.false_eq_true, if_false, Writer.Write, TransJPrinter.wrote_writer, hw, closesText_cons,
        String.append_assoc]
      exact h1
    · simp only [h2, closesText_cons]

/-- the loop that writes the day's transactions -/
theorem range5_agrees (cur : String → Bool) (day : journal.Day) (v : Knut.Commodity) (hv : v ≠ "") :
    ∀ (gts : List transaction.Transaction) (ts : List Knut.Transaction) (w : String) (p : printer.Printer),
      AllRel (TRelB cur) gts ts → (∀ t ∈ ts, DateOK t.date) → p.writer = w →
      ∃ p' : printer.Printer, beancount.Transcode.range5 (commodityGo cur v) day gts w p = .ok (.next (w ++ txsText v ts, p')) ∧
        p'.writer = w ++ txsText v ts := by
  intro gts ts w p h
  induction h generalizing w p with
  | nil =>
    intro _ hw
    exact ⟨p, by simp [beancount.Transcode.range5, txsText_nil], by simp [txsText_nil, hw]⟩
  | @cons g t gs ts hg _ ih =>
    intro hd hw
    obtain ⟨p', h1, h2⟩ := ih (w ++ Beancount.renderTx v t) { p with writer := w ++ Beancount.renderTx v t }
      (fun x hx => hd x (List.mem_cons_of_mem _ hx)) rfl
    simp only [String.append_assoc] at h1 h2
    refine ⟨p', ?_, ?_⟩
    · unfold beancount.Transcode.range5
      simp only [writeTrx_agrees cur w g t v hg (hd t List.mem_cons_self) hv, Option.isSome_none, Bool.false_eq_true, if_false,
        txsText_cons]
      exact h1
    · simp only [h2, txsText_cons]

/-! ## the synthesised opens: `openValAccounts` against the model's list of accounts seen -/

/-- **`strings.HasPrefix`** is `String.startsWith` -/
theorem HasPrefix_agrees (s pre : String) : Strings.HasPrefix s pre = s.startsWith pre := by
  rw [Bool.eq_iff_iff]
  simp only [Strings.HasPrefix, List.isPrefixOf_iff_prefix, String.startsWith_string_iff]

theorem accountGo_inj {a b : Knut.Account} (h : accountGo a = accountGo b) : a = b := by
  have := congrArg account.Account.segments h
  cases a; cases b
  simpa [accountGo] using this

theorem Account_Name (a : Knut.Account) : account.Account.Name (accountGo a) = a.name := rfl

/-- the Go set `openValAccounts` holds exactly the accounts of the model's list -/
def SetRel (s : set.Set account.Account) (seen : List Knut.Account) : Prop :=
  ∀ a : Knut.Account, set.Set.Has s (accountGo a) = seen.contains a

theorem SetRel_new : SetRel (set.New : set.Set account.Account) [] := by
  intro a
  simp [set.New, set.Set.Has]

theorem SetRel_add {s : set.Set account.Account} {seen : List Knut.Account} (h : SetRel s seen) (a : Knut.Account) :
    SetRel (set.Set.Add s (accountGo a)) (a :: seen) := by
  intro b
  rw [TransCheck.Has_set, h b, List.contains_cons]
  by_cases e : a = b
  · subst e; simp
  · have e2 : ¬ accountGo a = accountGo b := fun h => e (accountGo_inj h)
    have e3 : (b == a) = false := by simpa using fun h : b = a => e h.symm
    simp [e2, e3]

/-- the loop over the postings of one transaction: an open (and an empty line) for every account under `Equity:Valuation:` that
is not in `openValAccounts` yet, which is added -/
theorem range4_agrees (cur : String → Bool) (trx : transaction.Transaction) (hd : DateOK trx.Date) :
    ∀ (gps : List posting.Posting) (ps : List Knut.Posting) (w : String) (p : printer.Printer) (s : set.Set account.Account)
      (seen : List Knut.Account), AllRel (PRel cur) gps ps → p.writer = w → SetRel s seen →
      ∃ (p' : printer.Printer) (s' : set.Set account.Account),
        beancount.Transcode.range4 trx gps w p s = .ok (.next (w ++ opensText (synthPs trx.Date seen ps).2, p', s')) ∧
        p'.writer = w ++ opensText (synthPs trx.Date seen ps).2 ∧ SetRel s' (synthPs trx.Date seen ps).1 := by
  intro gps ps w p s seen h
  induction h generalizing w p s seen with
  | nil =>
    intro hw hs
    exact ⟨p, s, by simp [beancount.Transcode.range4, synthPs, opensText_nil], by simp [synthPs, opensText_nil, hw], hs⟩
  | @cons g q gs qs hg _ ih =>
    intro hw hs
    have hacc : g.Account = accountGo q.account := by unfold PRel at hg; rw [hg]; rfl
    have hcond : (Strings.HasPrefix (account.Account.Name g.Account) "Equity:Valuation:" && !(set.Set.Has s g.Account)) =
        (q.account.name.startsWith Beancount.valPrefix && !seen.contains q.account) := by
      rw [hacc, Account_Name, HasPrefix_agrees, hs q.account]; rfl
    unfold beancount.Transcode.range4 synthPs
    simp only [hcond]
    by_cases hc : (q.account.name.startsWith Beancount.valPrefix && !seen.contains q.account) = true
    · have hdir : DirRel cur (.Open ({ Src := GoZero.zero, Date := trx.Date, Account := g.Account } : open_.Open))
          (.opening ⟨trx.Date, q.account⟩) := by
        show OpenRel _ _
        unfold OpenRel openGo
        rw [hacc]
      obtain ⟨p', s', h1, h2, h3⟩ := ih (w ++ (JournalPrinter.printOpen ⟨trx.Date, q.account⟩ ++ "\n\n"))
        { wrote p (JournalPrinter.printOpen ⟨trx.Date, q.account⟩) with
            writer := w ++ (JournalPrinter.printOpen ⟨trx.Date, q.account⟩ ++ "\n\n") }
        (set.Set.Add s g.Account) (q.account :: seen) rfl (by rw [hacc]; exact SetRel_add hs q.account)
      simp only [String.append_assoc] at h1 h2
      refine ⟨p', s', ?_, ?_, ?_⟩
      · simp only [hc, if_true, PrintDirective_agrees cur p _ _ hdir hd, printDirective_opening, Outcome.bind,
          Option.isSome_none, Bool.false_eq_true, if_false, Writer.Write, TransJPrinter.wrote_writer, hw, opensText_cons,
          String.append_assoc]
        exact h1
      · simp only [hc, if_true, h2, opensText_cons]
      · simp only [hc, if_true]; exact h3
    · obtain ⟨p', s', h1, h2, h3⟩ := ih w p s seen hw hs
      refine ⟨p', s', ?_, ?_, ?_⟩
      · simp only [hc, Bool.false_eq_true, if_false]; exact h1
      · simp only [hc, Bool.false_eq_true, if_false]; exact h2
      · simp only [hc, Bool.false_eq_true, if_false]; exact h3

/-- the loop over the day's (sorted) transactions that synthesises the opens -/
theorem range3_agrees (cur : String → Bool) (day : journal.Day) :
    ∀ (gts : List transaction.Transaction) (ts : List Knut.Transaction) (w : String) (p : printer.Printer)
      (s : set.Set account.Account) (seen : List Knut.Account), AllRel (TRelB cur) gts ts → (∀ t ∈ ts, DateOK t.date) →
      p.writer = w → SetRel s seen →
      ∃ (p' : printer.Printer) (s' : set.Set account.Account),
        beancount.Transcode.range3 day gts w p s = .ok (.next (w ++ opensText (synthTxs seen ts).2, p', s')) ∧
        p'.writer = w ++ opensText (synthTxs seen ts).2 ∧ SetRel s' (synthTxs seen ts).1 := by
  intro gts ts w p s seen h
  induction h generalizing w p s seen with
  | nil =>
    intro _ hw hs
    exact ⟨p, s, by simp [beancount.Transcode.range3, synthTxs, opensText_nil], by simp [synthTxs, opensText_nil, hw], hs⟩
  | @cons g t gs ts hg _ ih =>
    intro hd hw hs
    obtain ⟨hdate, _, hps⟩ := hg
    have hdt : DateOK g.Date := by rw [hdate]; exact hd t List.mem_cons_self
    obtain ⟨p1, s1, a1, a2, a3⟩ := range4_agrees cur g hdt g.Postings t.postings w p s seen hps hw hs
    rw [hdate] at a1 a2 a3
    obtain ⟨p', s', h1, h2, h3⟩ := ih (w ++ opensText (synthPs t.date seen t.postings).2) p1 s1
      (synthPs t.date seen t.postings).1 (fun x hx => hd x (List.mem_cons_of_mem _ hx)) a2 a3
    simp only [String.append_assoc] at h1 h2
    refine ⟨p', s', ?_, ?_, ?_⟩
    · unfold beancount.Transcode.range3
      simp only [a1, Outcome.bind, synthTxs, opensText_append]
      exact h1
    · simp only [synthTxs, opensText_append, h2]
    · simp only [synthTxs]; exact h3

/-! ## `transaction.Compare` on transactions with arbitrary `Src` pointers -/

theorem AllRel_drop_cons {α β : Type} {R : α → β → Prop} {as : List α} {b : β} {bs : List β} {i : Nat}
    (h : AllRel R (as.drop i) (b :: bs)) :
    ∃ hi : i < as.length, R as[i] b ∧ AllRel R (as.drop (i + 1)) bs := by
  have hl := AllRel_length h
  have hi : i < as.length := by simp at hl; omega
  rw [List.drop_eq_getElem_cons hi] at h
  cases h with
  | cons h1 h2 => exact ⟨hi, h1, h2⟩

theorem AllRel_drop_nil {α β : Type} {R : α → β → Prop} {as : List α} {i : Nat} (h : AllRel R (as.drop i) ([] : List β)) :
    as.length ≤ i := by
  have hl := AllRel_length h
  simp at hl; omega

/-- the loop of `transaction.Compare` (as `TransTransaction.Compare_loop_agrees`, for postings with arbitrary `Src` pointers) -/
theorem Compare_loop_TRelB (cur : String → Bool) (t u : transaction.Transaction) :
    ∀ (ps qs : List Knut.Posting) (i : Nat) (fuel : Nat),
      AllRel (PRel cur) (t.Postings.drop i) ps → AllRel (PRel cur) (u.Postings.drop i) qs → ps.length ≤ fuel →
      transaction.Compare.loop1 t u fuel (i : Int) =
        if (ps.zip qs).all (fun pq => JournalPrinter.cmpPosting pq.1 pq.2 == .eq) then
          GoSem.Outcome.ok (Flow.next ((i + min ps.length qs.length : Nat) : Int))
        else GoSem.Outcome.ok (Flow.ret (ordGo (JournalPrinter.cmpPostings ps qs))) := by
  intro ps
  induction ps with
  | nil =>
    intro qs i fuel hp hq hf
    have hlen := AllRel_drop_nil hp
    unfold transaction.Compare.loop1
    have : ¬ ((i : Int) < (t.Postings.length : Int)) := by omega
    simp [this]
  | cons p ps ih =>
    intro qs i fuel hp hq hf
    obtain ⟨hpl, hpi, hp'⟩ := AllRel_drop_cons hp
    cases qs with
    | nil =>
      have hlen := AllRel_drop_nil hq
      unfold transaction.Compare.loop1
      have h2 : ¬ ((i : Int) < (u.Postings.length : Int)) := by omega
      simp [h2]
    | cons q qs =>
      obtain ⟨hql, hqi, hq'⟩ := AllRel_drop_cons hq
      unfold PRel at hpi hqi
      cases fuel with
      | zero => simp at hf
      | succ n =>
        unfold transaction.Compare.loop1
        have h1 : ((i : Int) < (t.Postings.length : Int)) := by omega
        have h2 : ((i : Int) < (u.Postings.length : Int)) := by omega
        simp only [len, h1, h2, decide_true, Bool.and_self, if_true]
        rw [index_ok _ _ (by omega) (by simpa using hpl), index_ok _ _ (by omega) (by simpa using hql)]
        have e1 : posting.Compare t.Postings[i] u.Postings[i] = ordGo (JournalPrinter.cmpPosting p q) := by
          have := posting_Compare_agrees cur t.Postings[i].Src u.Postings[i].Src p q
          rw [← hpi, ← hqi] at this
          exact this
        clear hpi hqi
        simp only [GoSem.Outcome.bind, Int.toNat_natCast, e1]
        have ihh := ih qs (i + 1) n hp' hq' (by simpa using hf)
        by_cases hc : JournalPrinter.cmpPosting p q = .eq
        · have e : ((i : Int) + 1) = ((i + 1 : Nat) : Int) := by omega
          simp only [hc, ordGo, decide_true, Bool.not_true, Bool.false_eq_true, if_false, e, ihh]
          simp only [List.zip_cons_cons, List.all_cons, hc, beq_self_eq_true, Bool.true_and, JournalPrinter.cmpPostings,
            Ordering.then, List.length_cons]
          have : i + 1 + min ps.length qs.length = i + min (ps.length + 1) (qs.length + 1) := by omega
          rw [this]
        · have : ordGo (JournalPrinter.cmpPosting p q) ≠ 0 := by simpa using hc
          simp only [this, decide_false, Bool.not_false, if_true]
          have hb : (JournalPrinter.cmpPosting p q == Ordering.eq) = false := by simpa using hc
          simp only [List.zip_cons_cons, List.all_cons, hb, Bool.false_and, Bool.false_eq_true, if_false,
            JournalPrinter.cmpPostings]
          cases hcp : JournalPrinter.cmpPosting p q <;> simp_all [Ordering.then]

/-- **`transaction.Compare`** on Go transactions that stand for model transactions is the model's `cmpTx`: it never panics and never
runs out of fuel -/
theorem Compare_TRelB (cur : String → Bool) (g h : transaction.Transaction) (t u : Knut.Transaction)
    (hg : TRelB cur g t) (hh : TRelB cur h u) :
    transaction.Compare g h = GoSem.Outcome.ok (ordGo (JournalPrinter.cmpTx t u)) := by
  obtain ⟨gd, gs, gp⟩ := hg
  obtain ⟨hd, hs, hp⟩ := hh
  unfold transaction.Compare JournalPrinter.cmpTx
  simp only [gd, gs, hd, hs, compare_Time_agrees, cmpOrdered_string, ordGo_then, JournalPrinter.cmpStr]
  have z : ordGo .eq = 0 := rfl
  have glen := AllRel_length gp
  have hlen := AllRel_length hp
  by_cases h1 : compare t.date u.date = .eq
  · by_cases h2 : compare t.description u.description = .eq
    · have hl := Compare_loop_TRelB cur g h t.postings u.postings 0 (fuelLt 0 (len g.Postings)) (by simpa using gp)
        (by simpa using hp) (by simp [fuelLt, len, glen])
      simp only [Int.natCast_zero] at hl
      simp only [h1, h2, z, decide_true, Bool.not_true, Bool.false_eq_true, if_false, if_true, hl]
      by_cases hall : (t.postings.zip u.postings).all (fun pq => JournalPrinter.cmpPosting pq.1 pq.2 == .eq) = true
      · simp only [hall, if_true, GoSem.Outcome.bind, cmpPostings_all_eq _ _ hall, len, glen, hlen]
      · simp only [hall, Bool.false_eq_true, if_false, GoSem.Outcome.bind]
    · have : ordGo (compare t.description u.description) ≠ 0 := by simpa using h2
      simp [h1, z, this]
  · have : ordGo (compare t.date u.date) ≠ 0 := by simpa using h1
    simp [this]

/-! ## the unstable sort: every sorted rearrangement of a day's transactions writes the text of the model's stable sort -/

theorem AllRel_perm {α β : Type} {R : α → β → Prop} {as' as : List α} (hp : as'.Perm as) :
    ∀ {bs : List β}, AllRel R as bs → ∃ bs', AllRel R as' bs' ∧ bs'.Perm bs := by
  induction hp with
  | nil => intro bs h; exact ⟨bs, h, List.Perm.refl _⟩
  | cons x _ ih =>
    intro bs h
    cases h with
    | cons h1 h2 =>
      obtain ⟨bs', a1, a2⟩ := ih h2
      exact ⟨_ :: bs', .cons h1 a1, List.Perm.cons _ a2⟩
  | swap x y l =>
    intro bs h
    cases h with
    | cons h1 h2 =>
      cases h2 with
      | cons h3 h4 => exact ⟨_ :: _ :: _, .cons h3 (.cons h1 h4), List.Perm.swap _ _ _⟩
  | trans _ _ ih1 ih2 =>
    intro bs h
    obtain ⟨bm, a1, a2⟩ := ih2 h
    obtain ⟨bs', b1, b2⟩ := ih1 a1
    exact ⟨bs', b1, b2.trans a2⟩

theorem AllRel_pairwise {α β : Type} {R : α → β → Prop} {P : α → α → Prop} {Q : β → β → Prop}
    (hpq : ∀ a a' b b', R a b → R a' b' → P a a' → Q b b') :
    ∀ {as : List α} {bs : List β}, AllRel R as bs → as.Pairwise P → bs.Pairwise Q := by
  intro as bs h
  induction h with
  | nil => intro _; exact List.Pairwise.nil
  | @cons a b as bs hab hrest ih =>
    intro hp
    have hp' := List.pairwise_cons.mp hp
    refine List.pairwise_cons.mpr ⟨?_, ih hp'.2⟩
    intro b' hb'
    -- b' stands for some a' of `as`
    have : ∀ {as : List α} {bs : List β}, AllRel R as bs → ∀ b' ∈ bs, ∃ a' ∈ as, R a' b' := by
      intro as bs h
      induction h with
      | nil => intro b' hb'; cases hb'
      | cons h1 _ ih =>
        intro b' hb'
        rcases List.mem_cons.mp hb' with e | e
        · subst e; exact ⟨_, List.mem_cons_self, h1⟩
        · obtain ⟨a', ha', hr⟩ := ih b' e
          exact ⟨a', List.mem_cons_of_mem _ ha', hr⟩
    obtain ⟨a', ha', hr⟩ := this hrest b' hb'
    exact hpq a a' b b' hab hr (hp'.1 a' ha')

/-- the rearrangement `compare.Sort(day.Transactions, transaction.Compare)` chooses stands for a sorted permutation of the model's
transactions -/
theorem sorted_of_spec (cur : String → Bool) (sort1 : (transaction.Transaction → transaction.Transaction → GoSem.Outcome Int) → List transaction.Transaction → List transaction.Transaction)
    (gts : List transaction.Transaction) (hs : SortSliceOn sort1 transaction.Compare (GoSem.Outcome.ok (-1)) gts)
    (ts : List Knut.Transaction) (h : AllRel (TRelB cur) gts ts) :
    ∃ sts, AllRel (TRelB cur) (sort1 transaction.Compare gts) sts ∧ sts.Perm ts ∧ sts.Pairwise (fun a b => JournalPrinter.leTx a b = true) := by
  obtain ⟨hperm, hsorted⟩ := hs
  obtain ⟨sts, a1, a2⟩ := AllRel_perm hperm h
  refine ⟨sts, a1, a2, AllRel_pairwise ?_ a1 hsorted⟩
  intro a a' b b' hab hab' hne
  rw [Compare_TRelB cur a' a b' b hab' hab] at hne
  have h1 : JournalPrinter.cmpTx b' b ≠ .lt := by
    intro e; rw [e] at hne; exact hne rfl
  rw [JournalPrinter.leTx_isLE, Std.OrientedCmp.eq_swap (cmp := JournalPrinter.cmpTx) (a := b) (b := b')]
  cases hc : JournalPrinter.cmpTx b' b with
  | lt => exact absurd hc h1
  | eq => rfl
  | gt => rfl

/-- two transactions that `Transcode` cannot tell apart: they differ in their `@performance` targets at most -/
def TEq (t u : Knut.Transaction) : Prop := t.date = u.date ∧ t.description = u.description ∧ t.postings = u.postings

/-- one account per name among the accounts of these transactions (what the registry guarantees: accounts are interned by name) -/
def AccountsByName (ts : List Knut.Transaction) : Prop :=
  ∀ t ∈ ts, ∀ u ∈ ts, ∀ p ∈ t.postings, ∀ q ∈ u.postings,
    (p.account.name = q.account.name → p.account = q.account) ∧ (p.other.name = q.other.name → p.other = q.other)

theorem cmpPosting_eq_eq {p q : Knut.Posting} (h : JournalPrinter.cmpPosting p q = .eq)
    (ha : p.account.name = q.account.name → p.account = q.account) (ho : p.other.name = q.other.name → p.other = q.other) :
    p = q := by
  unfold JournalPrinter.cmpPosting at h
  obtain ⟨h1, h⟩ := Ordering.then_eq_eq.mp h
  obtain ⟨h2, h⟩ := Ordering.then_eq_eq.mp h
  obtain ⟨h3, h⟩ := Ordering.then_eq_eq.mp h
  obtain ⟨h4, h5⟩ := Ordering.then_eq_eq.mp h
  obtain ⟨a, o, c, qt, vl⟩ := p
  obtain ⟨a', o', c', qt', vl'⟩ := q
  simp only at h1 h2 h3 h4 h5 ha ho
  have e1 := ha (Layout.cmpAccount_eq_name h1)
  have e2 := ho (Layout.cmpAccount_eq_name h2)
  have e3 := Layout.cmpRat_eq_eq h3
  have e4 := Layout.cmpRat_eq_eq h4
  have e5 := Layout.cmpStr_eq h5
  subst e1 e2 e3 e4 e5
  rfl

theorem cmpPostings_eq_eq : ∀ {ps qs : List Knut.Posting}, JournalPrinter.cmpPostings ps qs = .eq →
    (∀ p ∈ ps, ∀ q ∈ qs, (p.account.name = q.account.name → p.account = q.account) ∧
      (p.other.name = q.other.name → p.other = q.other)) → ps = qs
  | [], [], _, _ => rfl
  | [], _ :: _, h, _ => by cases h
  | _ :: _, [], h, _ => by cases h
  | p :: ps, q :: qs, h, hinj => by
    simp only [JournalPrinter.cmpPostings] at h
    obtain ⟨h1, h2⟩ := Ordering.then_eq_eq.mp h
    have e1 := cmpPosting_eq_eq h1 (hinj p List.mem_cons_self q List.mem_cons_self).1 (hinj p List.mem_cons_self q List.mem_cons_self).2
    have e2 := cmpPostings_eq_eq h2 (fun p' hp' q' hq' => hinj p' (List.mem_cons_of_mem _ hp') q' (List.mem_cons_of_mem _ hq'))
    rw [e1, e2]

theorem cmpTx_eq_TEq {ts : List Knut.Transaction} (hinj : AccountsByName ts) {t u : Knut.Transaction} (ht : t ∈ ts) (hu : u ∈ ts)
    (h : JournalPrinter.cmpTx t u = .eq) : TEq t u := by
  unfold JournalPrinter.cmpTx at h
  obtain ⟨h1, h⟩ := Ordering.then_eq_eq.mp h
  obtain ⟨h2, h3⟩ := Ordering.then_eq_eq.mp h
  exact ⟨Int.compare_eq_eq.mp h1, Layout.cmpStr_eq h2, cmpPostings_eq_eq h3 (hinj t ht u hu)⟩

theorem forall₂_mem_imp {α : Type} {R S : α → α → Prop} : ∀ {l1 l2 : List α}, List.Forall₂ R l1 l2 →
    (∀ a ∈ l1, ∀ b ∈ l2, R a b → S a b) → List.Forall₂ S l1 l2
  | _, _, .nil, _ => .nil
  | _, _, .cons h t, himp =>
    .cons (himp _ List.mem_cons_self _ List.mem_cons_self h)
      (forall₂_mem_imp t (fun a ha b hb => himp a (List.mem_cons_of_mem _ ha) b (List.mem_cons_of_mem _ hb)))

theorem synthTxs_TEq : ∀ {l1 l2 : List Knut.Transaction}, List.Forall₂ TEq l1 l2 → ∀ seen, synthTxs seen l1 = synthTxs seen l2
  | _, _, .nil, _ => rfl
  | _, _, .cons h t, seen => by
    obtain ⟨e1, _, e3⟩ := h
    simp only [synthTxs, e1, e3, synthTxs_TEq t]

theorem txsText_TEq (v : Knut.Commodity) : ∀ {l1 l2 : List Knut.Transaction}, List.Forall₂ TEq l1 l2 → txsText v l1 = txsText v l2
  | _, _, .nil => rfl
  | _, _, .cons h t => by
    obtain ⟨e1, e2, e3⟩ := h
    simp only [txsText_cons, txsText_TEq v t, Beancount.renderTx, e1, e2, e3]

/-- **every sorted permutation of a day's transactions is written as the model's stable sort is**, and leaves the same accounts seen -/
theorem dayTextOf_sorted (v : Knut.Commodity) (seen : List Knut.Account) (d : Beancount.ProcDay) (sts : List Knut.Transaction)
    (hperm : sts.Perm d.transactions) (hsorted : sts.Pairwise (fun a b => JournalPrinter.leTx a b = true))
    (hinj : AccountsByName d.transactions) :
    dayTextOf v seen d sts = dayTextOf v seen d (JournalPrinter.sortTxs d.transactions) ∧
      synthTxs seen sts = synthTxs seen (JournalPrinter.sortTxs d.transactions) := by
  have hp2 : sts.Perm (JournalPrinter.sortTxs d.transactions) := hperm.trans (Beancount.sortTxs_perm d.transactions).symm
  have hpt := Layout.sorted_perm_pointwise JournalPrinter.leTx JournalPrinter.leTx_trans Layout.leTx_refl sts
    (JournalPrinter.sortTxs d.transactions) hsorted (JournalPrinter.sortTxs_sorted d.transactions) hp2
  have hteq : List.Forall₂ TEq sts (JournalPrinter.sortTxs d.transactions) := by
    refine forall₂_mem_imp hpt ?_
    intro a ha b hb hab
    exact cmpTx_eq_TEq hinj (hperm.subset ha) ((Beancount.mem_sortTxs _ _).mp hb) (Layout.cmpTx_eq_of_le hab.1 hab.2)
  refine ⟨?_, synthTxs_TEq hteq seen⟩
  unfold dayTextOf
  rw [synthTxs_TEq hteq seen, txsText_TEq v hteq]

/-! ## the loop over the days and `Transcode` -/

/-- a Go day stands for the processed model day, as far as `Transcode` reads it -/
structure PDayRel (cur : String → Bool) (g : journal.Day) (d : Beancount.ProcDay) : Prop where
  openings : AllRel OpenRel g.Openings d.openings
  transactions : AllRel (TRelB cur) g.Transactions d.transactions
  closings : AllRel CloseRel g.Closings d.closings

/-- what the theorems presuppose of a processed day: dates from year 0 on (`Time.Format` prints a sign before that, the model does
not), and one account per name among the postings of the day (the registry interns accounts by name) -/
structure DayOK (d : Beancount.ProcDay) : Prop where
  openDates : ∀ o ∈ d.openings, DateOK o.date
  txDates : ∀ t ∈ d.transactions, DateOK t.date
  closeDates : ∀ c ∈ d.closings, DateOK c.date
  accounts : AccountsByName d.transactions

/-- the loop of `Transcode` over the days: opens, synthesised opens, transactions, closes of every day, for every rearrangement
`sort1` the unstable sort may choose -/
theorem range1_agrees (cur : String → Bool) (sort1 : (transaction.Transaction → transaction.Transaction → GoSem.Outcome Int) → List transaction.Transaction → List transaction.Transaction)
    (j : journal.Journal) (v : Knut.Commodity) (hv : v ≠ "") :
    ∀ (gds : List journal.Day) (pds : List Beancount.ProcDay) (w : String) (p : printer.Printer) (s : set.Set account.Account)
      (seen : List Knut.Account), AllRel (PDayRel cur) gds pds →
      (∀ g ∈ gds, SortSliceOn sort1 transaction.Compare (GoSem.Outcome.ok (-1)) g.Transactions) →
      (∀ d ∈ pds, DayOK d) → p.writer = w → SetRel s seen →
      ∃ (p' : printer.Printer) (s' : set.Set account.Account),
        beancount.Transcode.range1 sort1 j (commodityGo cur v) gds w p s = .ok (.next (w ++ daysText v seen pds, p', s')) := by
  intro gds pds w p s seen h
  induction h generalizing w p s seen with
  | nil =>
    intro _ _ _ _
    exact ⟨p, s, by simp [beancount.Transcode.range1, daysText]⟩
  | @cons g d gs ds hg _ ih =>
    intro hs hok hw hss
    have hd := hok d List.mem_cons_self
    -- the openings
    obtain ⟨p1, a1, a2⟩ := range2_agrees cur g g.Openings d.openings w p hg.openings hd.openDates hw
    -- the sort
    obtain ⟨sts, b1, b2, b3⟩ := sorted_of_spec cur sort1 g.Transactions (hs g List.mem_cons_self) d.transactions hg.transactions
    have hdts : ∀ t ∈ sts, DateOK t.date := fun t ht => hd.txDates t (b2.subset ht)
    obtain ⟨e1, e2⟩ := dayTextOf_sorted v seen d sts b2 b3 hd.accounts
    -- the synthesised opens
    obtain ⟨p2, s2, c1, c2, c3⟩ := range3_agrees cur { g with Transactions := sort1 transaction.Compare g.Transactions } (sort1 transaction.Compare g.Transactions) sts
      (w ++ opensText d.openings) p1 s seen b1 hdts a2 hss
    -- the transactions
    obtain ⟨p3, d1, d2⟩ := range5_agrees cur { g with Transactions := sort1 transaction.Compare g.Transactions } v hv (sort1 transaction.Compare g.Transactions) sts
      (w ++ opensText d.openings ++ opensText (synthTxs seen sts).2) p2 b1 hdts c2
    -- the closings
    obtain ⟨p4, f1, f2⟩ := range6_agrees cur { g with Transactions := sort1 transaction.Compare g.Transactions } g.Closings d.closings
      (w ++ opensText d.openings ++ opensText (synthTxs seen sts).2 ++ txsText v sts) p3 hg.closings hd.closeDates d2
    -- the remaining days
    obtain ⟨p', s', g1⟩ := ih (w ++ opensText d.openings ++ opensText (synthTxs seen sts).2 ++ txsText v sts ++ closesText d.closings)
      p4 s2 (synthTxs seen sts).1 (fun x hx => hs x (List.mem_cons_of_mem _ hx)) (fun x hx => hok x (List.mem_cons_of_mem _ hx)) f2 c3
    refine ⟨p', s', ?_⟩
    have e3 : daysText v seen (d :: ds) = dayTextOf v seen d sts ++ daysText v (synthTxs seen sts).1 ds := by
      simp only [daysText]
      rw [← e1, ← e2]
    simp only [String.append_assoc] at c1 d1 f1 g1
    unfold beancount.Transcode.range1
    simp only [a1, Outcome.bind, c1, d1, f1, g1, e3, dayTextOf, String.append_assoc]

/-- **`beancount.Transcode`**: on a writer that holds `w`, for a journal whose days stand for the processed days `pds` and a valuation
commodity `v`, the text written is `w` followed by `Beancount.render v (Beancount.entries pds)` and no error is returned — for EVERY
sorting algorithm `sort1` that leaves each day's transactions as a permutation in which no transaction is `Smaller` than one before
it (`SortSliceOn`: what the unstable `compare.Sort` guarantees); the translated function never panics -/
theorem Transcode_agrees (cur : String → Bool) (w : String) (j : journal.Journal) (pds : List Beancount.ProcDay) (v : Knut.Commodity)
    (sort1 : (transaction.Transaction → transaction.Transaction → GoSem.Outcome Int) → List transaction.Transaction → List transaction.Transaction)
    (hs : ∀ g ∈ j.Days, SortSliceOn sort1 transaction.Compare (GoSem.Outcome.ok (-1)) g.Transactions)
    (hj : AllRel (PDayRel cur) j.Days pds) (hok : ∀ d ∈ pds, DayOK d) (hv : v ≠ "") :
    beancount.Transcode w j (commodityGo cur v) sort1 = .ok (w ++ Beancount.render v (Beancount.entries pds), none) := by
  obtain ⟨p', s', h⟩ := range1_agrees cur sort1 j v hv j.Days pds
    (w ++ ("option \"operating_currency\" \"" ++ (v ++ ("\"" ++ "\n\n")))) (printer.New (w ++ ("option \"operating_currency\" \"" ++ (v ++ ("\"" ++ "\n\n")))))
    set.New [] hj hs hok rfl SetRel_new
  unfold beancount.Transcode
  simp only [Writer.Write, Option.isSome_none, Bool.false_eq_true, if_false, Commodity_Name, String.append_assoc, h, Outcome.bind,
    render_entries]
  have e : ("\"\n\n" : String) = "\"" ++ "\n\n" := by decide
  rw [e]
  simp only [String.append_assoc]

/-- the same for a sorting algorithm that keeps the guarantee of `sort.Slice` on every slice -/
theorem Transcode_agrees_spec (cur : String → Bool) (w : String) (j : journal.Journal) (pds : List Beancount.ProcDay) (v : Knut.Commodity)
    (sort1 : (transaction.Transaction → transaction.Transaction → GoSem.Outcome Int) → List transaction.Transaction → List transaction.Transaction)
    (hs : SortSliceSpec sort1 transaction.Compare (GoSem.Outcome.ok (-1)))
    (hj : AllRel (PDayRel cur) j.Days pds) (hok : ∀ d ∈ pds, DayOK d) (hv : v ≠ "") :
    beancount.Transcode w j (commodityGo cur v) sort1 = .ok (w ++ Beancount.render v (Beancount.entries pds), none) :=
  Transcode_agrees cur w j pds v sort1 (fun g _ => hs g.Transactions) hj hok hv

/-- a sufficient condition for `AccountsByName`: the accounts are what the registry makes of their names (non-empty segments
without a colon: splitting the name gives the segments back) -/
theorem AccountsByName_of_wf (ts : List Knut.Transaction)
    (h : ∀ t ∈ ts, ∀ p ∈ t.postings, (p.account.segments ≠ [] ∧ ∀ s ∈ p.account.segments, ':' ∉ s.toList) ∧
      (p.other.segments ≠ [] ∧ ∀ s ∈ p.other.segments, ':' ∉ s.toList)) : AccountsByName ts := by
  intro t ht u hu p hp q hq
  obtain ⟨⟨a1, a2⟩, ⟨o1, o2⟩⟩ := h t ht p hp
  obtain ⟨⟨b1, b2⟩, ⟨r1, r2⟩⟩ := h u hu q hq
  constructor
  · intro e
    rw [← FromSyntax.ofName_name p.account a1 a2, ← FromSyntax.ofName_name q.account b1 b2, e]
  · intro e
    rw [← FromSyntax.ofName_name p.other o1 o2, ← FromSyntax.ofName_name q.other r1 r2, e]

/-- **the stdout of the model's `knut transcode -v v`** (`Beancount.run`: build, `Sort`, `ComputePrices`, `check`, `Valuate`, entry list,
text) **is what the translated `Transcode` writes** into an empty writer, for a Go journal that stands for the model's processed days -/
theorem Transcode_run_agrees (cur : String → Bool) (j : journal.Journal) (ds : List Knut.Directive) (pds : List Beancount.ProcDay)
    (v : Knut.Commodity)
    (sort1 : (transaction.Transaction → transaction.Transaction → GoSem.Outcome Int) → List transaction.Transaction → List transaction.Transaction)
    (hs : ∀ g ∈ j.Days, SortSliceOn sort1 transaction.Compare (GoSem.Outcome.ok (-1)) g.Transactions)
    (hp : Beancount.process v (Builder.ofList ds).build = .ok pds)
    (hj : AllRel (PDayRel cur) j.Days pds) (hok : ∀ d ∈ pds, DayOK d) (hvalid : Beancount.validCommodity v = true) :
    ∃ text, Beancount.run (some v) ds = .ok text ∧
      beancount.Transcode "" j (commodityGo cur v) sort1 = .ok (text, none) := by
  have hv : v ≠ "" := by
    intro e; subst e; simp [Beancount.validCommodity] at hvalid
  have hne : v.isEmpty = false := by
    unfold Beancount.validCommodity at hvalid
    simp only [Bool.and_eq_true, Bool.not_eq_true'] at hvalid
    exact hvalid.1
  refine ⟨Beancount.render v (Beancount.entries pds), ?_, ?_⟩
  · simp [Beancount.run, hne, hvalid, Beancount.transcodeEntries, hp, Except.map]
  · have := Transcode_agrees cur "" j pds v sort1 hs hj hok hv
    simpa using this

/-! ## non-vacuity: the translated definitions evaluated on a concrete processed day -/

/-- one day with an open, two valued transactions in the wrong order (the "algorithm" reverses them) that post to an account under
`Equity:Valuation:` (opened once, on first use), and a close; the commodity `C4F` is written `CXF`; the VALUES are written -/
example :
    beancount.Transcode ""
      ⟨[{ (GoZero.zero : journal.Day) with
          Date := 738885
          Openings := [⟨⟨0⟩, 738885, accountGo ⟨["Assets", "Bank"]⟩⟩]
          Transactions := [
            ⟨⟨1⟩, 738885, "b", [⟨⟨2⟩, -2, -5, accountGo ⟨["Equity", "Valuation", "X"]⟩, accountGo ⟨["Assets", "Bank"]⟩, ⟨"USD", true⟩⟩,
                                ⟨⟨2⟩, 2, 5, accountGo ⟨["Assets", "Bank"]⟩, accountGo ⟨["Equity", "Valuation", "X"]⟩, ⟨"USD", true⟩⟩], none⟩,
            ⟨⟨1⟩, 738885, "a", [⟨⟨2⟩, -1, -3, accountGo ⟨["Equity", "Valuation", "X"]⟩, accountGo ⟨["Assets", "Bank"]⟩, ⟨"USD", true⟩⟩,
                                ⟨⟨2⟩, 1, 3, accountGo ⟨["Assets", "Bank"]⟩, accountGo ⟨["Equity", "Valuation", "X"]⟩, ⟨"USD", true⟩⟩], none⟩]
          Closings := [⟨⟨0⟩, 738885, accountGo ⟨["Assets", "Bank"]⟩⟩] }]⟩
      ⟨"C4F", true⟩ (fun _ xs => xs.reverse)
    = .ok ("option \"operating_currency\" \"C4F\"\n\n2024-01-01 open Assets:Bank\n\n2024-01-01 open Equity:Valuation:X\n\n" ++
        "2024-01-01 * \"a\"\n  Equity:Valuation:X -3 CXF\n  Assets:Bank 3 CXF\n\n" ++
        "2024-01-01 * \"b\"\n  Equity:Valuation:X -5 CXF\n  Assets:Bank 5 CXF\n\n2024-01-01 close Assets:Bank\n\n", none) := by
  decide +kernel

/-! ### … and the hypotheses of `Transcode_agrees` on that day, all at once -/

private def exBank : Knut.Account := ⟨["Assets", "Bank"]⟩
private def exVal : Knut.Account := ⟨["Equity", "Valuation", "X"]⟩
private def exTa : Knut.Transaction := ⟨738885, "a", [⟨exVal, exBank, "USD", -1, -3⟩, ⟨exBank, exVal, "USD", 1, 3⟩], none⟩
private def exTb : Knut.Transaction := ⟨738885, "b", [⟨exVal, exBank, "USD", -2, -5⟩, ⟨exBank, exVal, "USD", 2, 5⟩], none⟩
private def exDay : Beancount.ProcDay := ⟨738885, [⟨738885, exBank⟩], [exTb, exTa], [⟨738885, exBank⟩]⟩
private def exCur : String → Bool := fun _ => true
private def exGo : journal.Day :=
  { (GoZero.zero : journal.Day) with
    Date := 738885
    Openings := [openGo ⟨0⟩ ⟨738885, exBank⟩]
    Transactions := [txGo exCur ⟨1⟩ ⟨2⟩ exTb, txGo exCur ⟨1⟩ ⟨2⟩ exTa]
    Closings := [closeGo ⟨0⟩ ⟨738885, exBank⟩] }

/-- the Go transaction `txGo` builds stands for its model transaction -/
theorem TRelB_txGo (cur : String → Bool) (s1 s2 : Ref) (t : Knut.Transaction) : TRelB cur (txGo cur s1 s2 t) t :=
  ⟨rfl, rfl, TransProcess.AllRel_map _ (fun p => TransProcess.PRel_postingGo cur s2 p) t.postings⟩

/-- every hypothesis of `Transcode_agrees` holds for the day above and the "algorithm" that reverses the slice (which happens to
sort it): the theorem is not vacuous -/
example : beancount.Transcode "" ⟨[exGo]⟩ (commodityGo exCur "C4F") (fun _ xs => xs.reverse) =
    .ok ("" ++ Beancount.render "C4F" (Beancount.entries [exDay]), none) := by
  refine Transcode_agrees exCur "" ⟨[exGo]⟩ [exDay] "C4F" (fun _ xs => xs.reverse) ?_ ?_ ?_ (by decide)
  · intro g hg
    have e : g = exGo := by simpa using hg
    subst e
    refine ⟨List.reverse_perm _, ?_⟩
    show List.Pairwise _ [txGo exCur ⟨1⟩ ⟨2⟩ exTa, txGo exCur ⟨1⟩ ⟨2⟩ exTb]
    refine List.pairwise_cons.mpr ⟨?_, List.pairwise_cons.mpr ⟨by simp, List.Pairwise.nil⟩⟩
    intro b hb
    have e : b = txGo exCur ⟨1⟩ ⟨2⟩ exTb := by simpa using hb
    subst e
    rw [Compare_TRelB exCur _ _ exTb exTa (TRelB_txGo exCur ⟨1⟩ ⟨2⟩ exTb) (TRelB_txGo exCur ⟨1⟩ ⟨2⟩ exTa)]
    decide +kernel
  · exact .cons ⟨.cons rfl .nil, .cons (TRelB_txGo exCur ⟨1⟩ ⟨2⟩ exTb) (.cons (TRelB_txGo exCur ⟨1⟩ ⟨2⟩ exTa) .nil), .cons rfl .nil⟩ .nil
  · intro d hd
    have e : d = exDay := by simpa using hd
    subst e
    refine ⟨?_, ?_, ?_, ?_⟩
    · intro o ho
      have e : o = ⟨738885, exBank⟩ := by simpa [exDay] using ho
      subst e; show (0 : Int) ≤ Date.year 738885; decide +kernel
    · intro t ht
      have e : t = exTb ∨ t = exTa := by simpa [exDay] using ht
      rcases e with e | e <;> subst e <;> (show (0 : Int) ≤ Date.year 738885) <;> decide +kernel
    · intro c hc
      have e : c = ⟨738885, exBank⟩ := by simpa [exDay] using hc
      subst e; show (0 : Int) ≤ Date.year 738885; decide +kernel
    · show AccountsByName [exTb, exTa]
      unfold AccountsByName
      decide +kernel

end Knut.FactsAgree.TransBeancount
