package main

// Constructs of the Go→Lean translator that the TABLE RENDERERS (lib/common/table: TextRenderer.Render, renderCell, minLengthCell,
// createSep, CSVRenderer.Render, the builder methods of *Table / *Row) need (builder trans12).
//
//   type cell interface { isSep() bool }
//                        an interface with an UNEXPORTED method can only be implemented by types of its own package: a CLOSED SUM with one
//                        constructor per named non-interface type of the package whose VALUE method set implements it (a type of which
//                        only the pointer implements it: rejected).  There is no constructor for nil: the translator checks that no nil
//                        and no value of another type can become a `cell` in the package (closedSumCheck: the type name occurs only as
//                        a parameter type, as the element type of a slice-typed struct field / parameter, and in `make([]cell, 0, n)`;
//                        no untyped nil of the type; every value converted to it is a struct value of an alternative; no re-slicing of a
//                        []cell, which could reach the zeroed capacity).  Other packages cannot build one: the fields are unexported.
//   c.isSep()            a call of an interface method on a closed sum: the DISPATCH function `cell.isSep`, a match over the constructors
//                        that calls the translated method of each alternative (all of them must be translated functions).
//   switch t := c.(type) on a closed sum: a `match`; a clause with several types is repeated per constructor with the variable bound to the
//                        interface value (as Go types it); without a default clause the constructors not named fall through.  What follows a
//                        type switch all of whose constructors return is unreachable and not translated (renderCell's `return fmt.Errorf`).
//   textCell{…} as cell  the constructor of the alternative.

import (
	"go/ast"
	"go/token"
	"go/types"
	"sort"
	"strconv"
	"strings"
)

func init() {
	for _, u := range trUnits {
		if u.mod == "Table" {
			u.funcs = append(u.funcs,
				"textCell.isSep", "numberCell.isSep", "percentCell.isSep", "SeparatorCell.isSep", "emptyCell.isSep", "createSep",
				"padLeft", "writeString", "writeStrings", "writeSpace", "TextRenderer.minLengthCell", "TextRenderer.renderCell", "TextRenderer.Render",
				"CSVRenderer.renderCell", "CSVRenderer.Render", "New",
				"Table.Width", "Row.addCell", "Row.AddEmpty", "Row.AddText", "Row.AddDecimal", "Row.AddPercent", "Row.AddIndented",
				"Table.AddRow", "Table.AddSeparatorRow", "Table.AddEmptyRow", "Row.FillEmpty")
			if u.agree == nil {
				u.agree = map[string]string{}
			}
			for _, f := range u.funcs[2:] {
				u.agree[f] = "TableRender"
			}
		}
	}
}

// ---------------------------------------------------------------------------------------------- closed sums

// isClosedSum: a named interface type of a translated package with at least one unexported method
func (t *trTranslator) isClosedSum(n *types.Named) bool {
	if n == nil || n.Obj().Pkg() == nil || t.unitOfPkg(n.Obj().Pkg()) == nil {
		return false
	}
	it, ok := n.Underlying().(*types.Interface)
	if !ok {
		return false
	}
	for i := 0; i < it.NumMethods(); i++ {
		if !it.Method(i).Exported() {
			return true
		}
	}
	return false
}

// closedSumAlts: the alternatives of a closed sum: the named non-interface types of the package whose values implement it
func (t *trTranslator) closedSumAlts(n *types.Named) ([]trSumAlt, bool) {
	if !t.isClosedSum(n) {
		return nil, false
	}
	it := n.Underlying().(*types.Interface)
	scope := n.Obj().Pkg().Scope()
	var alts []trSumAlt
	for _, nm := range scope.Names() {
		tn, ok := scope.Lookup(nm).(*types.TypeName)
		if !ok || tn.IsAlias() {
			continue
		}
		nt, ok := tn.Type().(*types.Named)
		if !ok || nt.TypeParams() != nil {
			continue
		}
		if _, isIface := nt.Underlying().(*types.Interface); isIface {
			continue
		}
		if types.Implements(nt, it) {
			alts = append(alts, trSumAlt{trMangle(tn.Name()), nt})
		}
	}
	sort.Slice(alts, func(i, j int) bool { return alts[i].ctor < alts[j].ctor })
	return alts, true
}

var trClosedSumChecked = map[types.Object]*trReject{}

// closedSumCheck: no nil and no value of a type that is not an alternative can become a value of the interface type n inside its
// package (outside of it nothing can: see the head of this file).  Syntactic, conservative; the first violation is the rejection.
func (t *trTranslator) closedSumCheck(n *types.Named, pos token.Pos) {
	if rj, done := trClosedSumChecked[n.Obj()]; done {
		if rj != nil {
			panic(*rj)
		}
		return
	}
	var rj *trReject
	func() {
		defer func() {
			if r := recover(); r != nil {
				if x, ok := r.(trReject); ok {
					rj = &x
					return
				}
				panic(r)
			}
		}()
		t.closedSumCheck1(n)
	}()
	trClosedSumChecked[n.Obj()] = rj
	if rj != nil {
		panic(*rj)
	}
}

func (t *trTranslator) closedSumCheck1(n *types.Named) {
	p := t.l.pkgs[n.Obj().Pkg().Path()]
	if p == nil {
		trFail(n.Obj().Pos(), "closed sum %s: package not loaded", n.Obj().Name())
	}
	name := n.Obj().Name()
	it := n.Underlying().(*types.Interface)
	alts, _ := t.closedSumAlts(n)
	isAlt := func(ty types.Type) bool {
		for _, a := range alts {
			if types.Identical(a.typ, ty) {
				return true
			}
		}
		return false
	}
	// a type of which only the pointer implements the interface has no constructor
	scope := n.Obj().Pkg().Scope()
	for _, nm := range scope.Names() {
		if tn, ok := scope.Lookup(nm).(*types.TypeName); ok && !tn.IsAlias() {
			if nt, ok := tn.Type().(*types.Named); ok && nt.TypeParams() == nil {
				if _, isIface := nt.Underlying().(*types.Interface); !isIface && !types.Implements(nt, it) && types.Implements(types.NewPointer(nt), it) {
					trFail(tn.Pos(), "closed sum %s: only the pointer type *%s implements it: outside the subset", name, tn.Name())
				}
			}
		}
	}
	isSlice := func(ty types.Type) bool {
		s, ok := ty.Underlying().(*types.Slice)
		return ok && types.Identical(s.Elem(), n)
	}
	// converted: a value of static type `from` used where `n` is expected
	converted := func(e ast.Expr) {
		tv, ok := p.info.Types[e]
		if !ok || tv.Type == nil {
			trFail(e.Pos(), "closed sum %s: an expression without a type is used as a %s", name, name)
		}
		if tv.IsNil() {
			trFail(e.Pos(), "closed sum %s: nil is used as a %s: outside the subset", name, name)
		}
		if types.Identical(tv.Type, n) || isAlt(tv.Type) {
			return
		}
		trFail(e.Pos(), "closed sum %s: a value of type %s is converted to it: not a struct value of one of its alternatives", name, tv.Type)
	}
	for _, f := range p.files {
		var stack []ast.Node
		ast.Inspect(f, func(nd ast.Node) bool {
			if nd == nil {
				stack = stack[:len(stack)-1]
				return true
			}
			stack = append(stack, nd)
			parent := func(k int) ast.Node {
				if len(stack) > k {
					return stack[len(stack)-1-k]
				}
				return nil
			}
			switch x := nd.(type) {
			case *ast.Ident:
				if tv, ok := p.info.Types[x]; ok && tv.IsNil() && tv.Type != nil && types.Identical(tv.Type, n) {
					trFail(x.Pos(), "closed sum %s: nil is used as a %s: outside the subset", name, name)
				}
				if p.info.Uses[x] != n.Obj() {
					break
				}
				// where may the type name occur?
				inParams := func(fieldAt int) bool {
					fl, ok := parent(fieldAt + 1).(*ast.FieldList)
					if !ok {
						return false
					}
					ft, ok := parent(fieldAt + 2).(*ast.FuncType)
					return ok && ft.Params == fl
				}
				switch pp := parent(1).(type) {
				case *ast.Field:
					if pp.Type == x && inParams(1) {
						return true // a parameter of the type
					}
				case *ast.ArrayType:
					if pp.Len == nil && pp.Elt == x {
						switch q := parent(2).(type) {
						case *ast.Field:
							if q.Type == pp {
								if inParams(2) {
									return true // a parameter []cell
								}
								if fl, ok := parent(3).(*ast.FieldList); ok {
									if st, ok := parent(4).(*ast.StructType); ok && st.Fields == fl {
										return true // a struct field []cell (zero value: the nil slice, no elements)
									}
								}
							}
						case *ast.CallExpr:
							if id, ok := q.Fun.(*ast.Ident); ok && id.Name == "make" && len(q.Args) >= 2 && q.Args[0] == pp {
								if _, isB := p.info.Uses[id].(*types.Builtin); isB {
									if tv := p.info.Types[q.Args[1]]; tv.Value != nil && tv.Value.ExactString() == "0" {
										return true // make([]cell, 0, n): no elements
									}
								}
							}
						}
					}
				}
				trFail(x.Pos(), "closed sum %s: this use of the type name could make a nil %s (allowed: parameter types, []%s as a struct field or parameter, make([]%s, 0, n))", name, name, name, name)
			case *ast.SliceExpr:
				if tv, ok := p.info.Types[x.X]; ok && tv.Type != nil && isSlice(tv.Type) {
					trFail(x.Pos(), "closed sum %s: re-slicing a []%s could reach the zeroed capacity: outside the subset", name, name)
				}
			case *ast.CallExpr:
				if id, ok := x.Fun.(*ast.Ident); ok && id.Name == "clear" && len(x.Args) == 1 {
					if _, isB := p.info.Uses[id].(*types.Builtin); isB {
						if tv, ok := p.info.Types[x.Args[0]]; ok && tv.Type != nil && isSlice(tv.Type) {
							trFail(x.Pos(), "closed sum %s: clear of a []%s makes its elements nil: outside the subset", name, name)
						}
					}
				}
				tv, ok := p.info.Types[x.Fun]
				if !ok || tv.Type == nil || tv.IsType() {
					break
				}
				sig, ok := tv.Type.Underlying().(*types.Signature)
				if !ok {
					break
				}
				for i, a := range x.Args {
					var pt types.Type
					switch {
					case sig.Variadic() && i >= sig.Params().Len()-1:
						pt = sig.Params().At(sig.Params().Len() - 1).Type()
						if x.Ellipsis == token.NoPos {
							pt = pt.(*types.Slice).Elem()
						}
					case i < sig.Params().Len():
						pt = sig.Params().At(i).Type()
					}
					if pt != nil && types.Identical(pt, n) {
						converted(a)
					}
				}
			case *ast.AssignStmt:
				if len(x.Lhs) == len(x.Rhs) {
					for i, l := range x.Lhs {
						if tv, ok := p.info.Types[l]; ok && tv.Type != nil && types.Identical(tv.Type, n) {
							converted(x.Rhs[i])
						}
					}
				}
			case *ast.CompositeLit:
				if tv, ok := p.info.Types[x]; ok && tv.Type != nil {
					if st, ok := tv.Type.Underlying().(*types.Struct); ok {
						for i, el := range x.Elts {
							var ft types.Type
							val := el
							if kv, ok := el.(*ast.KeyValueExpr); ok {
								val = kv.Value
								if id, ok := kv.Key.(*ast.Ident); ok {
									for j := 0; j < st.NumFields(); j++ {
										if st.Field(j).Name() == id.Name {
											ft = st.Field(j).Type()
										}
									}
								}
							} else if i < st.NumFields() {
								ft = st.Field(i).Type()
							}
							if ft != nil && types.Identical(ft, n) {
								converted(val)
							}
						}
					}
				}
			}
			return true
		})
	}
}

// closedSumDecl: the inductive type of a closed sum
func (t *trTranslator) closedSumDecl(u *trUnit, n *types.Named, pos token.Pos) bool {
	alts, ok := t.closedSumAlts(n)
	if !ok {
		return false
	}
	obj := n.Obj()
	if len(alts) == 0 {
		trFail(pos, "closed sum %s: no type of the package implements it", obj.Name())
	}
	t.closedSumCheck(n, pos)
	name := trMangle(obj.Name())
	var b strings.Builder
	b.WriteString("/-- Go: `type " + obj.Name() + " " + n.Underlying().String() + "` (" + t.l.relPos(obj.Pos()) + "): an interface with an unexported method, a CLOSED SUM of\n" +
		"the types of its package that implement it; no constructor for nil (checked: no nil and no other type can become a `" + obj.Name() + "`) -/\ninductive " + name + " where\n")
	for _, a := range alts {
		b.WriteString("  | " + a.ctor + " (v : " + t.leanType(u, a.typ, pos) + ")\n")
	}
	b.WriteString("  deriving DecidableEq, Repr\n")
	t.decls[u] = append(t.decls[u], b.String())
	return true
}

// typeSwitchClosed: switch t := x.(type) over a closed sum
func (c *trCtx) typeSwitchClosed(x *ast.TypeSwitchStmt, n *types.Named, subj ast.Expr, bound bool, k trK) trLines {
	lt := c.leanType(n, x.Pos())
	alts := c.t.implementers(n)
	sv := c.expr(subj)
	pre := c.takePre()
	if _, isID := trUnparen(subj).(*ast.Ident); !isID {
		trFail(x.Pos(), "type switch on an expression that is not a variable is outside the subset")
	}
	clauseOf := map[string]*ast.CaseClause{}
	var deflt *ast.CaseClause
	for _, cl := range x.Body.List {
		cc := cl.(*ast.CaseClause)
		if cc.List == nil {
			deflt = cc
			continue
		}
		for _, e := range cc.List {
			ct := c.typeOf(e)
			ctor := ""
			for _, a := range alts {
				if types.Identical(a.typ, ct) {
					ctor = a.ctor
				}
			}
			if ctor == "" {
				trFail(e.Pos(), "case %s: not an alternative of the closed sum %s", ct, n.Obj().Name())
			}
			if clauseOf[ctor] != nil {
				trFail(e.Pos(), "duplicate case %s", ct)
			}
			clauseOf[ctor] = cc
		}
	}
	out := trLines{"match " + sv + " with"}
	for _, a := range alts {
		cc := clauseOf[a.ctor]
		if cc == nil {
			cc = deflt
		}
		vn := "_"
		var body trLines
		switch {
		case cc == nil:
			body = k()
		case len(cc.List) == 1:
			if bound {
				if o := c.info().Implicits[cc]; o != nil {
					vn = c.local(o)
				}
			}
			body = c.stmts(cc.Body, k)
		default:
			// several types (or the default clause): the variable has the type and the value of the subject
			if bound {
				if o := c.info().Implicits[cc]; o != nil {
					c.names[o] = sv
				}
			}
			body = c.stmts(cc.Body, k)
		}
		out = append(out, "| "+lt+"."+a.ctor+" "+vn+" =>")
		out = append(out, body.indent(2)...)
	}
	return trWrapPre(pre, out)
}

// ---------------------------------------------------------------------------------------------- dynamic dispatch

type trDispatch struct {
	iface *types.Named
	meth  *types.Func
	impls []*trFunc
	alts  []trSumAlt
}

var trDispatchOf = map[*trFunc]*trDispatch{}

// addDispatchFuncs: for every method of a closed sum all of whose alternatives have a translated method of that name: the dispatch
// function, registered under the interface's method (so that `c.m()` is an ordinary call of a translated function)
func (t *trTranslator) addDispatchFuncs() {
	trDispatchOf = map[*trFunc]*trDispatch{}
	trClosedSumChecked = map[types.Object]*trReject{}
	for _, u := range t.units {
		p := t.l.pkgs[trKnutPath+u.pkg]
		if p == nil || p.tpkg == nil {
			continue
		}
		scope := p.tpkg.Scope()
		for _, nm := range scope.Names() {
			tn, ok := scope.Lookup(nm).(*types.TypeName)
			if !ok {
				continue
			}
			n, ok := tn.Type().(*types.Named)
			if !ok || !t.isClosedSum(n) {
				continue
			}
			alts, _ := t.closedSumAlts(n)
			it := n.Underlying().(*types.Interface)
			for i := 0; i < it.NumExplicitMethods(); i++ {
				m := it.ExplicitMethod(i)
				d := &trDispatch{iface: n, meth: m, alts: alts}
				for _, a := range alts {
					obj, _, _ := types.LookupFieldOrMethod(a.typ, false, p.tpkg, m.Name())
					fo, _ := obj.(*types.Func)
					if fo == nil || t.funcs[fo.Origin()] == nil {
						d = nil
						break
					}
					d.impls = append(d.impls, t.funcs[fo.Origin()])
				}
				if d == nil || len(alts) == 0 {
					continue
				}
				decl := &ast.FuncDecl{Name: ast.NewIdent(m.Name()), Type: &ast.FuncType{Func: m.Pos(), Params: &ast.FieldList{}}}
				f := &trFunc{unit: u, pkg: p, decl: decl, obj: m, leanName: trMangle(tn.Name()) + "." + trMangle(m.Name())}
				t.funcs[m] = f
				t.byUnit[u] = append(t.byUnit[u], f)
				trDispatchOf[f] = d
				if am := u.agreeMod(d.impls[0].leanName); am != u.mod {
					if u.agree == nil {
						u.agree = map[string]string{}
					}
					u.agree[f.leanName] = am // its agreement theorem lives with those of the methods it dispatches to
				}
			}
		}
	}
}

// translateDispatch: def I.m (x : I) (params…) : R := match x with | I.A v => A.m v params… | …
func (t *trTranslator) translateDispatch(f *trFunc, d *trDispatch) {
	pos := d.meth.Pos()
	sig := d.meth.Type().(*types.Signature)
	if sig.Variadic() {
		trFail(pos, "variadic interface method is outside the subset")
	}
	lt := t.leanType(f.unit, d.iface, pos)
	params := []string{"(x : " + lt + ")"}
	var args []string
	for i := 0; i < sig.Params().Len(); i++ {
		pn := "a" + itoa(i+1)
		params = append(params, "("+pn+" : "+t.leanType(f.unit, sig.Params().At(i).Type(), pos)+")")
		args = append(args, pn)
	}
	f.resType = t.leanType(f.unit, sig.Results(), pos)
	ret := f.resType
	if f.effect {
		ret = "Outcome " + ret
	}
	lines := trLines{"match x with"}
	for i, a := range d.alts {
		g := d.impls[i]
		if len(g.mut) > 0 || g.norder > 0 {
			trFail(pos, "%s: the method of %s assigns through its receiver or has extra parameters: outside the subset", f.leanName, a.ctor)
		}
		call := t.qname(f.unit, g.unit, g.leanName) + " " + strings.Join(append([]string{"v"}, args...), " ")
		if f.effect && !g.effect {
			call = "Outcome.ok (" + call + ")"
		}
		lines = append(lines, "| "+lt+"."+a.ctor+" v => "+call)
	}
	f.text = "/-- Go: a call of the interface method `" + d.iface.Obj().Name() + "." + d.meth.Name() + "` (" + t.l.relPos(pos) + "): dispatch over the closed sum -/\n" +
		"def " + f.leanName + " " + strings.Join(params, " ") + " : " + ret + " :=\n" + lines.indent(2).String() + "\n"
}

// ---------------------------------------------------------------------------------------------- the builder log and package table itself

// builderCallFromOutside: a call of a method of *table.Table / *table.Row from another package is a call on a write-only builder
// object (trans_builder.go), not a call of the translated method
func (t *trTranslator) builderCallFromOutside(info *types.Info, fo *types.Func) bool {
	if fo.Pkg() == nil || fo.Pkg().Path() != trTablePath {
		return false
	}
	p := t.l.pkgs[trTablePath]
	return p == nil || p.info != info
}

// ---------------------------------------------------------------------------------------------- ambient state: color.NoColor, float formatting
//
//   color.NoColor        (github.com/fatih/color v1.15.0) a PACKAGE VARIABLE that Render writes and (*color.Color).Fprintf reads: explicit
//                        state.  Every function that writes it, calls Color.Fprintf or calls such a function has the extra parameter
//                        `color_State : Color.State` (the variable, and whether NO_COLOR was set when the process started, which
//                        color.New captures in package-level initialisers); `color.NoColor = e` rebinds it, calls pass it on, loops
//                        and joins carry it like a local.  That the variable KEEPS the value after the function returns is not part
//                        of the translated result.
//   red.Fprintf(w, f, …) `Color.Fprintf color_State red w text`: with colour off (NoColor or NO_COLOR) fmt.Fprintf, else the escape
//                        sequence of the colour's parameters, the text, the reset sequence; `var red = color.New(color.FgRed)` is
//                        `Color.New [31]`.
//   %f of a float64      `%[width][.prec]f` (digits or `*`): NOT given a meaning: the text is `fmtFloat spec stars x` for an extra parameter
//                        `fmtFloat : Fmt.FloatFmt` (the verb as written, the `*` operands, the EXACT value): the agreement theorems hold
//                        for every such function (the model has no percent cells).  One parameter per function, passed on to callees.

type trAmbient struct {
	obj  *types.Var
	typ  string
	need map[*trFunc]int // 0 unknown, 1 in progress, 2 no, 3 yes
}

var trAmbColor = &trAmbient{obj: types.NewVar(token.Pos(1), nil, "color_State", types.Typ[types.Bool]), typ: "Color.State"}
var trAmbFloat = &trAmbient{obj: types.NewVar(token.Pos(2), nil, "fmtFloat", types.Typ[types.Bool]), typ: "Fmt.FloatFmt"}
var trAmbients = []*trAmbient{trAmbColor, trAmbFloat}

const trColorPath = "github.com/fatih/color"

// trAmbientType: the Lean type of an ambient state variable
var trSynthVarType = map[types.Object]string{}
var trAliasKeyObj = map[*trAlias]*types.Var{}

func trAmbientType(o types.Object) (string, bool) {
	if t, ok := trSynthVarType[o]; ok {
		return t, true
	}
	for _, a := range trAmbients {
		if a.obj == o {
			return a.typ, true
		}
	}
	return "", false
}

func init() {
	trFlowJoin[trTablePath+".TextRenderer.Render"] = true // the `if … { return err }` of Render join in Flow: every loop is translated once
	trStubEnsure(trColorPath, "import \"io\"", "import \"io\"")
	trStubEnsure(trColorPath, "type Attribute int", `type Attribute int
const (
	FgBlack Attribute = iota + 30
	FgRed
	FgGreen
	FgYellow
	FgBlue
	FgMagenta
	FgCyan
	FgWhite
)
type Color struct{ _ int }
var NoColor bool
func New(value ...Attribute) *Color
func (c *Color) Fprintf(w io.Writer, format string, a ...interface{}) (n int, err error)`)
	trOpaque["*"+trColorPath+".Color"] = "Color"
	trStubEnsure("encoding/csv", "import \"io\"", "import \"io\"")
	trStubEnsure("encoding/csv", "type Writer struct", `type Writer struct{ _ int }
func NewWriter(w io.Writer) *Writer
func (w *Writer) Write(record []string) error
func (w *Writer) Flush()
func (w *Writer) Error() error`)
	trOpaque["*encoding/csv.Writer"] = "Csv.Writer"
	trPrims["encoding/csv.NewWriter"] = trPrim{lean: "Csv.NewWriter"}
	trPrims["(*encoding/csv.Writer).Write"] = trPrim{lean: "Csv.Writer.Write", mutRecv: true, results: true}
	trPrims["(*encoding/csv.Writer).Flush"] = trPrim{lean: "Csv.Writer.Flush", mutRecv: true}
	trPrims["(*encoding/csv.Writer).Error"] = trPrim{lean: "Csv.Writer.Error"} // pure: the sticky error of the writer (none over an in-memory sink)
}

// trTableImports: the prelude modules of this file, when the generated text uses them
func trTableImports(text string) string {
	s := ""
	if strings.Contains(text, "Color.") || strings.Contains(text, "Fmt.FloatFmt") || strings.Contains(text, "makeSlice") || strings.Contains(text, "Slices.") {
		s += "import Knut.GoSem.TableFmt\n"
	}
	if strings.Contains(text, "Csv.") {
		s += "import Knut.GoSem.Csv\n"
	}
	return s
}

func trIsColorFprintf(info *types.Info, x *ast.CallExpr) bool {
	sel, ok := trUnparen(x.Fun).(*ast.SelectorExpr)
	if !ok {
		return false
	}
	s, ok := info.Selections[sel]
	if !ok || s.Kind() != types.MethodVal {
		return false
	}
	fo, _ := s.Obj().(*types.Func)
	return fo != nil && fo.FullName() == "(*"+trColorPath+".Color).Fprintf"
}

// trNoColorLhs: the expression is the package variable color.NoColor
func trIsNoColorVar(info *types.Info, e ast.Expr) bool {
	sel, ok := trUnparen(e).(*ast.SelectorExpr)
	if !ok {
		return false
	}
	if _, isSel := info.Selections[sel]; isSel {
		return false
	}
	v, ok := info.Uses[sel.Sel].(*types.Var)
	return ok && v.Pkg() != nil && v.Pkg().Path() == trColorPath && v.Name() == "NoColor"
}

// trFloatVerb: the constant format of this fmt call has a verb `f`
func trFloatFormat(info *types.Info, x *ast.CallExpr) bool {
	sel, ok := trUnparen(x.Fun).(*ast.SelectorExpr)
	if !ok {
		return false
	}
	at := -1
	if s, isSel := info.Selections[sel]; isSel {
		if fo, _ := s.Obj().(*types.Func); fo != nil && fo.FullName() == "(*"+trColorPath+".Color).Fprintf" {
			at = 1
		}
	} else if fo, _ := info.Uses[sel.Sel].(*types.Func); fo != nil {
		switch fo.FullName() {
		case "fmt.Sprintf":
			at = 0
		case "fmt.Fprintf":
			at = 1
		}
	}
	if at < 0 || at >= len(x.Args) {
		return false
	}
	tv := info.Types[x.Args[at]]
	if tv.Value == nil {
		return false
	}
	format := strings.Trim(tv.Value.ExactString(), "\"")
	for i := 0; i < len(format); i++ {
		if format[i] != '%' {
			continue
		}
		i++
		for i < len(format) && strings.IndexByte("-+# 0123456789.*", format[i]) >= 0 {
			i++
		}
		if i < len(format) && format[i] == 'f' {
			return true
		}
	}
	return false
}

// direct: the node uses the ambient state by itself
func (a *trAmbient) direct(info *types.Info, n ast.Node) bool {
	switch x := n.(type) {
	case *ast.CallExpr:
		if a == trAmbColor && trIsColorFprintf(info, x) {
			return true
		}
		if a == trAmbFloat && trFloatFormat(info, x) {
			return true
		}
	case *ast.AssignStmt:
		if a == trAmbColor {
			for _, l := range x.Lhs {
				if trIsNoColorVar(info, l) {
					return true
				}
			}
		}
	}
	return false
}

// needs: the function uses the ambient state, by itself or through the translated functions it calls
func (t *trTranslator) ambientNeeds(a *trAmbient, f *trFunc) bool {
	if a.need == nil {
		a.need = map[*trFunc]int{}
	}
	switch a.need[f] {
	case 1, 2:
		return false
	case 3:
		return true
	}
	a.need[f] = 1
	res := false
	if d := trDispatchOf[f]; d != nil {
		for _, g := range d.impls {
			if t.ambientNeeds(a, g) {
				res = true
			}
		}
	} else if f.decl != nil && f.decl.Body != nil {
		ast.Inspect(f.decl.Body, func(n ast.Node) bool {
			if n != nil && a.direct(f.pkg.info, n) {
				res = true
			}
			return true
		})
		if !res {
			for _, g := range t.callees(f) {
				if g != f && t.ambientNeeds(a, g) {
					res = true
				}
			}
		}
	}
	if res {
		a.need[f] = 3
	} else {
		a.need[f] = 2
	}
	return res
}

// ambientDeclare: the ambient parameters of the function being translated (called before its body is translated)
func (c *trCtx) ambientDeclare() {
	for _, a := range trAmbients {
		if c.t.ambientNeeds(a, c.fn) {
			n := a.obj.Name()
			c.used[n] = true
			c.names[a.obj] = n
			c.norder++
			c.extraParams = append(c.extraParams, "("+n+" : "+a.typ+")")
			c.extraTypes = append(c.extraTypes, a.typ)
		}
	}
}

// ambientExtra: an extra parameter of a callee that is an ambient state: the caller's own
func (c *trCtx) ambientExtra(ty string) (string, bool) {
	for _, a := range trAmbients {
		if a.typ == ty {
			n, ok := c.names[a.obj]
			if !ok {
				trFail(c.fn.decl.Pos(), "internal: the ambient parameter %s is not declared in %s", a.typ, c.fn.leanName)
			}
			return n, true
		}
	}
	return "", false
}

// ambientUsed: the ambient objects a node reads or writes (for the free variables and the state of loops and joins)
func (c *trCtx) ambientUsed(n ast.Node, assignedOnly bool) []types.Object {
	var res []types.Object
	if id, ok := n.(*ast.Ident); ok && !assignedOnly && c.aliases != nil {
		if al := c.aliases[c.info().Uses[id]]; al != nil && al.slice {
			res = append(res, trAliasKeyObj[al]) // the index of an alias into a slice goes where the alias goes
		}
	}
	for _, a := range trAmbients {
		if _, known := c.names[a.obj]; !known {
			continue
		}
		switch x := n.(type) {
		case *ast.AssignStmt:
			if a == trAmbColor {
				for _, l := range x.Lhs {
					if trIsNoColorVar(c.info(), l) {
						res = append(res, a.obj)
					}
				}
			}
		case *ast.CallExpr:
			if assignedOnly {
				continue
			}
			if a.direct(c.info(), x) {
				res = append(res, a.obj)
			} else if tf, _ := c.calleeOf(x); tf != nil && c.t.ambientNeeds(a, tf) {
				res = append(res, a.obj)
			}
		}
	}
	return res
}

// ambientStore: `color.NoColor = e`
func (c *trCtx) ambientStore(lhs ast.Expr, val string, pos token.Pos) (name, typ, term string, ok bool) {
	if !trIsNoColorVar(c.info(), lhs) {
		return "", "", "", false
	}
	n, known := c.names[trAmbColor.obj]
	if !known {
		trFail(pos, "internal: color.NoColor is assigned in a function without the ambient parameter")
	}
	return n, trAmbColor.typ, "{ " + n + " with NoColor := " + val + " }", true
}

// colorCall: color.New(attrs…) in the initialiser of a package variable
func (c *trCtx) colorCall(x *ast.CallExpr) (string, bool) {
	fo := c.calledFunc(x)
	if fo == nil || fo.FullName() != trColorPath+".New" {
		return "", false
	}
	if c.fn.decl != nil {
		trFail(x.Pos(), "color.New outside the initialiser of a package variable is outside the subset (it reads NO_COLOR when it runs)")
	}
	var args []string
	for _, a := range x.Args {
		tv := c.info().Types[a]
		if tv.Value == nil {
			trFail(a.Pos(), "color.New with a non-constant attribute is outside the subset")
		}
		args = append(args, "("+tv.Value.ExactString()+" : Int)")
	}
	return "(Color.New [" + strings.Join(args, ", ") + "])", true
}

// colorFprintf: `n, err = red.Fprintf(w, f, …)` for an io.Writer variable w: w is rebound, the results are (len(text), nil)
func (c *trCtx) colorFprintf(call *ast.CallExpr, lhs []ast.Expr, define bool, k trK) (trLines, bool) {
	if !trIsColorFprintf(c.info(), call) {
		return nil, false
	}
	w := call.Args[0]
	if !trIsWriter(c.typeOf(w)) || trBaseIdent(w) == nil {
		trFail(call.Pos(), "the writer of this call is not an io.Writer variable or field: outside the subset")
	}
	sel := trUnparen(call.Fun).(*ast.SelectorExpr)
	col := c.expr(sel.X)
	text := c.sprintf(call, 1)
	if len(lhs) != 0 && len(lhs) != 2 {
		trFail(call.Pos(), "call of %s with 2 results assigned to %d targets", trSrc(call.Fun), len(lhs))
	}
	st, _ := c.ambientExtra(trAmbColor.typ)
	wv := c.expr(w)
	pre := c.takePre()
	r := c.fresh("r")
	if define {
		for _, l := range lhs {
			c.declare(l)
		}
	}
	targets := append([]ast.Expr{w}, lhs...)
	var body func(i int) trLines
	body = func(i int) trLines {
		if i == len(targets) {
			return k()
		}
		proj := r + strings.Repeat(".2", i)
		if i < 2 {
			proj += ".1"
		}
		return c.store(targets[i], proj, call.Pos(), func() trLines { return body(i + 1) })
	}
	return trWrapPre(pre, trLet(r, "", trOne("(Color.Fprintf "+st+" "+col+" "+wv+" "+text+")"), body(0))), true
}

// floatSprintf: the text of a format with a verb `f` (fmt.Sprintf: at = 0; Fprintf: at = 1); ok = false: no such verb
func (c *trCtx) floatSprintf(x *ast.CallExpr, at int) (string, bool) {
	if !trFloatFormat(c.info(), x) {
		return "", false
	}
	tv := c.info().Types[x.Args[at]]
	format := ""
	if tv.Value != nil {
		format = trConstString(tv)
	}
	if x.Ellipsis != token.NoPos {
		trFail(x.Pos(), "call with … is outside the subset")
	}
	ff, _ := c.ambientExtra(trAmbFloat.typ)
	ops := x.Args[at+1:]
	arg := 0
	next := func() ast.Expr {
		if arg >= len(ops) {
			trFail(x.Pos(), "format %q: missing operand", format)
		}
		arg++
		return ops[arg-1]
	}
	var parts []string
	lit := ""
	flush := func() {
		if lit != "" {
			parts = append(parts, trLeanStr(lit))
			lit = ""
		}
	}
	for i := 0; i < len(format); i++ {
		if format[i] != '%' {
			lit += string(format[i])
			continue
		}
		i++
		if i >= len(format) {
			trFail(x.Pos(), "format %q ends in %%", format)
		}
		if format[i] == '%' {
			lit += "%"
			continue
		}
		start := i - 1
		var stars []string
		star := func() {
			o := next()
			if !trIsInt(c.typeOf(o)) {
				trFail(o.Pos(), "format %q: the operand of * is not an integer", format)
			}
			stars = append(stars, c.expr(o))
			i++
		}
		digits := func() {
			for i < len(format) && format[i] >= '0' && format[i] <= '9' {
				i++
			}
		}
		if i < len(format) && format[i] == '*' {
			star()
		} else {
			if i < len(format) && format[i] == '0' {
				trFail(x.Pos(), "format %q: the flag 0 is outside the subset", format)
			}
			digits()
		}
		if i < len(format) && format[i] == '.' {
			i++
			if i < len(format) && format[i] == '*' {
				star()
			} else {
				digits()
			}
		}
		if i >= len(format) || format[i] != 'f' {
			trFail(x.Pos(), "format %q: next to a verb f only literal text, %%%% and verbs f are in the subset", format)
		}
		o := next()
		if !trIsFloat(c.typeOf(o)) {
			trFail(o.Pos(), "format %q: %%f with an operand of type %s is outside the subset", format, c.typeOf(o))
		}
		flush()
		parts = append(parts, "("+ff+" "+trLeanStr(format[start:i+1])+" ["+strings.Join(stars, ", ")+"] "+c.expr(o)+")")
	}
	flush()
	if arg != len(ops) {
		trFail(x.Pos(), "format %q: extra operands", format)
	}
	if len(parts) == 1 {
		return parts[0], true
	}
	return "(" + strings.Join(parts, " ++ ") + ")", true
}

func trConstString(tv types.TypeAndValue) string {
	s := tv.Value.ExactString()
	if u, err := strconv.Unquote(s); err == nil {
		return u
	}
	return strings.Trim(s, "\"")
}

// ---------------------------------------------------------------------------------------------- encoding/csv
//
//   writer := csv.NewWriter(w)   the io.Writer parameter is MOVED into the csv.Writer (it is used nowhere else): `Csv.Writer` = the sink and
//                        the text that is PENDING in its buffer.  `writer.Write(rec)` appends the line of the record to the pending text
//                        (no error: the default comma is valid, the sink is an in-memory text), `writer.Flush()` passes it to the sink.
//                        Where the function returns, the sink is `Csv.Writer.dropped writer`: the sink alone — exact when at most one
//                        buffer (4096 bytes) is pending; beyond that bufio has passed a part on (which part depends on the writer
//                        underneath): the distinct outcome `Csv.droppedBeyond`, nothing is claimed.

// csvMovedField: csv.NewWriter moves its writer into the field `sink`
func trCsvMovedField(fo *types.Func) string {
	if fo != nil && fo.FullName() == "encoding/csv.NewWriter" {
		return "sink"
	}
	return ""
}

// csvDropped: the value of the moved io.Writer parameter where the function returns
func (c *trCtx) csvDropped(m types.Object) (string, bool) {
	mv := c.writerMove
	if mv == nil || mv.param != m {
		return "", false
	}
	n, ok := c.names[mv.local]
	if !ok || c.leanType(mv.local.Type(), mv.local.Pos()) != "Csv.Writer" {
		return "", false
	}
	return c.hoist("Csv.Writer.dropped "+n, mv.local.Pos()), true
}

// ---------------------------------------------------------------------------------------------- r.table = nil, variadic New

// tableNilStore: `r.table = nil` for the field TextRenderer.table (a *Table that Render sets at entry and clears at exit, read by nothing
// else): nil is the ZERO Table, as for the pointers interned by a registry; a method call on it does not panic in this reading
func (c *trCtx) tableNil(e ast.Expr, ty types.Type) (string, bool) {
	p, ok := ty.(*types.Pointer)
	if !ok || !trNamedIs(p, trTablePath, "Table") || c.unit() != c.t.unitOf[trTablePath] {
		return "", false
	}
	return "(GoZero.zero : " + c.leanType(ty, e.Pos()) + ")", true
}

// trVariadicOK: variadic functions that are translated (the variadic parameter is the slice it is inside the function; no translated
// caller passes arguments to it)
var trVariadicOK = map[string]bool{trTablePath + ".New": true}

// ---------------------------------------------------------------------------------------------- make([]T, n)

// makeSliceLen: make([]T, n) with a length that is not the constant 0: n zero values; a negative length panics
func (c *trCtx) makeSliceLen(x *ast.CallExpr) (string, bool) {
	ty := c.typeOf(x)
	s, ok := ty.Underlying().(*types.Slice)
	if !ok || len(x.Args) != 2 {
		return "", false
	}
	et := c.leanType(s.Elem(), x.Pos())
	return c.hoist("makeSlice (α := "+et+") "+c.expr(x.Args[1]), x.Pos()), true
}

// trTableEffect: the node needs the Outcome monad: make([]T, n), a csv.Writer (whose sink is read through Csv.Writer.dropped)
func trTableEffect(info *types.Info, n ast.Node) bool {
	if cl, ok := n.(*ast.CompositeLit); ok {
		// a literal that gives a capacity-tracked field (the capacity of make([]T, 0, n): a negative n panics)
		if tv, ok := info.Types[cl]; ok && tv.Type != nil {
			st := tv.Type.Underlying()
			if p, ok := st.(*types.Pointer); ok {
				st = p.Elem().Underlying()
			}
			if u, ok := st.(*types.Struct); ok && len(cl.Elts) > 0 {
				for i := 0; i < u.NumFields(); i++ {
					if trCapFieldOf(tv.Type, u.Field(i).Name()) {
						return true
					}
				}
			}
		}
		return false
	}
	call, ok := n.(*ast.CallExpr)
	if !ok {
		return false
	}
	if id, ok := call.Fun.(*ast.Ident); ok && id.Name == "cap" {
		if _, isB := info.Uses[id].(*types.Builtin); isB {
			return true
		}
	}
	if id, ok := call.Fun.(*ast.Ident); ok && id.Name == "make" && len(call.Args) == 2 {
		if _, isB := info.Uses[id].(*types.Builtin); isB {
			if tv, ok := info.Types[call]; ok && tv.Type != nil {
				if _, isSlice := tv.Type.Underlying().(*types.Slice); isSlice {
					return true
				}
			}
		}
	}
	if sel, ok := call.Fun.(*ast.SelectorExpr); ok {
		if fo, _ := info.Uses[sel.Sel].(*types.Func); fo != nil && fo.FullName() == "encoding/csv.NewWriter" {
			return true
		}
	}
	return false
}

// ---------------------------------------------------------------------------------------------- range over a slice that the body writes

// rangeSelfWrite: `for i, v := range xs` is translated as a loop over xs AS IT WAS at loop entry; Go reads xs[i] when iteration i
// starts.  The two agree unless the body stores into an element of xs that a LATER iteration reads: an assignment `xs[e] = …` in the
// body is accepted only for `e` = the loop's own key variable (Render's third width pass); every other one is rejected.
func (c *trCtx) rangeSelfWrite(x *ast.RangeStmt) {
	if _, ok := c.typeOfOrNil(x.X).Underlying().(*types.Slice); !ok {
		return
	}
	src := trSrcText(c.t.l.fset, x.X)
	var key types.Object
	if id, ok := x.Key.(*ast.Ident); ok && id.Name != "_" {
		key = c.info().Defs[id]
	}
	ast.Inspect(x.Body, func(n ast.Node) bool {
		var lhs []ast.Expr
		switch s := n.(type) {
		case *ast.AssignStmt:
			lhs = s.Lhs
		case *ast.IncDecStmt:
			lhs = []ast.Expr{s.X}
		case *ast.FuncLit:
			return false
		}
		for _, l := range lhs {
			for {
				// xs[e] = …, xs[e].f = …, xs[e][k] = …
				switch y := trUnparen(l).(type) {
				case *ast.SelectorExpr:
					l = y.X
					continue
				case *ast.IndexExpr:
					if trSrcText(c.t.l.fset, y.X) == src {
						id, isID := trUnparen(y.Index).(*ast.Ident)
						if !isID || key == nil || c.info().Uses[id] != key {
							trFail(l.Pos(), "the body of this range loop stores into an element of the slice it ranges over at an index that is not the loop's key: a later iteration would read it (the translation ranges over the slice as it was)")
						}
					}
					l = y.X
					continue
				}
				break
			}
		}
		return true
	})
}

// ---------------------------------------------------------------------------------------------- the capacity of Row.cells
//
//   cap(r.cells)         for the struct fields of trCapFields the CAPACITY of the slice is tracked in a companion field `<f>_cap : Option Int`:
//                        `make([]T, 0, n)` stored there (directly, or through a local of the same declaration that is defined by it) has
//                        the capacity `n` (a negative one panics); `x.f = append(x.f, v…)` keeps it while the new length fits and makes
//                        it UNKNOWN (`none`) otherwise — the runtime decides the capacity of the reallocated array; the zero value has
//                        capacity 0.  `cap(x.f)` of an unknown capacity is the distinct outcome `Slices.capUnknown` (nothing is claimed,
//                        as the hand model's `fillEmpty` answers `none`).  Every other store into such a field is rejected.

var trCapFields = map[string]bool{trTablePath + ".Row.cells": true}

func trCapFieldOf(ty types.Type, field string) bool {
	if p, ok := ty.Underlying().(*types.Pointer); ok {
		ty = p.Elem()
	}
	n, ok := ty.(*types.Named)
	return ok && n.Obj().Pkg() != nil && trCapFields[n.Obj().Pkg().Path()+"."+n.Obj().Name()+"."+field]
}

// capSel: the expression is a selection x.f of a capacity-tracked field: (x, f)
func (c *trCtx) capSel(e ast.Expr) (*ast.SelectorExpr, bool) {
	sel, ok := trUnparen(e).(*ast.SelectorExpr)
	if !ok {
		return nil, false
	}
	s, ok := c.info().Selections[sel]
	if !ok || s.Kind() != types.FieldVal || !trCapFieldOf(s.Recv(), sel.Sel.Name) {
		return nil, false
	}
	return sel, true
}

// capBuiltin: cap(x.f)
func (c *trCtx) capBuiltin(x *ast.CallExpr) (string, bool) {
	sel, ok := c.capSel(x.Args[0])
	if !ok {
		return "", false
	}
	return c.hoist("Slices.capE "+c.expr(sel.X)+"."+trMangle(sel.Sel.Name)+"_cap", x.Pos()), true
}

// capAssign: x.f = append(x.f, v…) for a capacity-tracked field
func (c *trCtx) capAssign(x *ast.AssignStmt, k trK) (trLines, bool) {
	if len(x.Lhs) != 1 || len(x.Rhs) != 1 {
		return nil, false
	}
	sel, ok := c.capSel(x.Lhs[0])
	if !ok {
		return nil, false
	}
	call, isCall := trUnparen(x.Rhs[0]).(*ast.CallExpr)
	var id *ast.Ident
	if isCall {
		id, _ = call.Fun.(*ast.Ident)
	}
	if x.Tok != token.ASSIGN || id == nil || id.Name != "append" || call.Ellipsis != token.NoPos || len(call.Args) < 2 ||
		trSrcText(c.t.l.fset, call.Args[0]) != trSrcText(c.t.l.fset, x.Lhs[0]) {
		trFail(x.Pos(), "the capacity of %s is tracked: only `x.f = append(x.f, v…)` may store into it", trSrc(x.Lhs[0]))
	}
	f := trMangle(sel.Sel.Name)
	base := c.expr(sel.X)
	var els []string
	for _, a := range call.Args[1:] {
		els = append(els, c.exprAs(a, c.typeOf(x.Lhs[0]).Underlying().(*types.Slice).Elem()))
	}
	pre := c.takePre()
	val := "{ " + base + " with " + f + " := (" + base + "." + f + " ++ [" + strings.Join(els, ", ") + "]), " + f + "_cap := (Slices.appendCap " +
		base + "." + f + "_cap ((len " + base + "." + f + ") + (" + itoa(len(els)) + " : Int))) }"
	k = c.writeBack(x.Lhs[0], k)
	name, ty, term := c.storeTerm(sel.X, val, x.Pos())
	pre = append(pre, c.takePre()...)
	return trWrapPre(pre, trLet(name, ty, trOne(term), k())), true
}

// capLiteral: the capacity of the value given to a capacity-tracked field in a composite literal ("" = the field is not given)
func (c *trCtx) capLiteral(e ast.Expr) string {
	mk := func(e ast.Expr) (string, bool) {
		call, ok := trUnparen(e).(*ast.CallExpr)
		if !ok {
			return "", false
		}
		id, ok := call.Fun.(*ast.Ident)
		if !ok || id.Name != "make" || len(call.Args) != 3 {
			return "", false
		}
		if _, isB := c.info().Uses[id].(*types.Builtin); !isB {
			return "", false
		}
		if tv := c.info().Types[call.Args[1]]; tv.Value == nil || tv.Value.ExactString() != "0" {
			return "", false
		}
		return c.hoist("Slices.makeCap "+c.expr(call.Args[2]), call.Pos()), true
	}
	if s, ok := mk(e); ok {
		return s
	}
	// a local of the same declaration (var ( cells = make(…); row = &Row{cells} )) or of the statement before, defined once by such a make
	if id, ok := trUnparen(e).(*ast.Ident); ok {
		if v, ok := c.info().Uses[id].(*types.Var); ok {
			var def ast.Expr
			var defStmt ast.Node
			count := 0
			ast.Inspect(c.fn.decl.Body, func(n ast.Node) bool {
				switch s := n.(type) {
				case *ast.AssignStmt:
					for i, l := range s.Lhs {
						if lid, ok := l.(*ast.Ident); ok && (c.info().Defs[lid] == v || c.info().Uses[lid] == v) {
							count++
							if len(s.Lhs) == len(s.Rhs) {
								def, defStmt = s.Rhs[i], s
							}
						}
					}
				case *ast.DeclStmt:
					if gd, ok := s.Decl.(*ast.GenDecl); ok {
						for _, sp := range gd.Specs {
							if vs, ok := sp.(*ast.ValueSpec); ok {
								for i, nm := range vs.Names {
									if c.info().Defs[nm] == v {
										count++
										if len(vs.Values) == len(vs.Names) {
											def, defStmt = vs.Values[i], s
										}
									}
								}
							}
						}
					}
				}
				return true
			})
			if count == 1 && def != nil && defStmt.Pos() <= e.Pos() && e.End() <= defStmt.End() {
				if s, ok := mk(def); ok {
					return s
				}
			}
		}
	}
	trFail(e.Pos(), "the capacity of this field is tracked: its value in a literal must be `make([]T, 0, n)` (or a local of the same declaration defined by it)")
	return ""
}

// ---------------------------------------------------------------------------------------------- a *T that is returned AND stored in a slice of its receiver
//
//   func (t *Table) AddRow() *Row { …; row = &Row{…}; t.rows = append(t.rows, row); return row }
//                        returns a pointer to the LAST element of `t.rows`: in `r := t.AddRow()` the variable `r` is an ALIAS of
//                        `t.rows[len(t.rows)-1]` (its index is bound right after the call); every assignment through `r` — a field
//                        store or a call of a method that assigns through its receiver — is followed by the write-back
//                        `t.rows[index] = r` (no run-time index operation in Go: the two are one object).  Appends to `t.rows` keep
//                        the index valid; any other store into that field in the function of the alias is rejected.

type trSliceAliasRet struct {
	field string
}

// aliasSliceRetOf: does the method return a pointer it has just appended to a slice field of its receiver?
func (t *trTranslator) aliasSliceRetOf(f *trFunc) *trSliceAliasRet {
	if f == nil || f.decl == nil || f.decl.Recv == nil || f.decl.Body == nil || trDispatchOf[f] != nil {
		return nil
	}
	info := f.pkg.info
	sig := f.obj.Type().(*types.Signature)
	if sig.Results().Len() != 1 {
		return nil
	}
	if _, isPtr := sig.Results().At(0).Type().(*types.Pointer); !isPtr {
		return nil
	}
	var retObj types.Object
	nret := 0
	ast.Inspect(f.decl.Body, func(n ast.Node) bool {
		if r, ok := n.(*ast.ReturnStmt); ok {
			nret++
			if len(r.Results) == 1 {
				if id, ok := trUnparen(r.Results[0]).(*ast.Ident); ok {
					retObj = info.Uses[id]
				}
			}
		}
		return true
	})
	if nret != 1 || retObj == nil {
		return nil
	}
	field := ""
	nstore := 0
	ast.Inspect(f.decl.Body, func(n ast.Node) bool {
		as, ok := n.(*ast.AssignStmt)
		if !ok || len(as.Lhs) != 1 || len(as.Rhs) != 1 {
			return true
		}
		sel, ok := trUnparen(as.Lhs[0]).(*ast.SelectorExpr)
		if !ok {
			return true
		}
		rid, ok := trUnparen(sel.X).(*ast.Ident)
		if !ok || info.Uses[rid] != sig.Recv() {
			return true
		}
		call, ok := trUnparen(as.Rhs[0]).(*ast.CallExpr)
		if !ok || len(call.Args) != 2 {
			return true
		}
		if id, ok := call.Fun.(*ast.Ident); !ok || id.Name != "append" {
			return true
		}
		if aid, ok := trUnparen(call.Args[1]).(*ast.Ident); ok && info.Uses[aid] == retObj &&
			trSrcText(t.l.fset, call.Args[0]) == trSrcText(t.l.fset, as.Lhs[0]) {
			field = sel.Sel.Name
			nstore++
		}
		return true
	})
	if nstore != 1 {
		return nil
	}
	return &trSliceAliasRet{field: field}
}

// sliceAliasRegister: after `x := recv.M(…)` with M as above: x is an alias of recv.<field>[len-1]
func (c *trCtx) sliceAliasRegister(call *ast.CallExpr, tf *trFunc, recv ast.Expr, lhs []ast.Expr, define bool, k trK) trK {
	sa := c.t.aliasSliceRetOf(tf)
	if sa == nil || len(lhs) == 0 {
		return k
	}
	rid, ok := trUnparen(recv).(*ast.Ident)
	lid, ok2 := lhs[0].(*ast.Ident)
	if !ok || !ok2 || len(lhs) != 1 || !define {
		trFail(call.Pos(), "%s returns a pointer into a slice of its receiver: only `x := recv.%s(…)` with variables is in the subset", tf.leanName, tf.decl.Name.Name)
	}
	ro := c.info().Uses[rid]
	// no other store into the aliased field in this function
	ast.Inspect(c.fn.decl.Body, func(n ast.Node) bool {
		if as, ok := n.(*ast.AssignStmt); ok {
			for _, l := range as.Lhs {
				for {
					switch y := trUnparen(l).(type) {
					case *ast.IndexExpr:
						l = y.X
						continue
					}
					break
				}
				if sel, ok := trUnparen(l).(*ast.SelectorExpr); ok && sel.Sel.Name == sa.field {
					if id, ok := trUnparen(sel.X).(*ast.Ident); ok && c.info().Uses[id] == ro {
						trFail(as.Pos(), "%s.%s is stored into here while %s points into it: outside the subset", rid.Name, sa.field, lid.Name)
					}
				}
			}
		}
		return true
	})
	// the alias is used as the base of a selection only (x.f, x.M(…)): returned, stored or passed on it would be a third name
	{
		lo := c.info().Defs[lid]
		var stack []ast.Node
		ast.Inspect(c.fn.decl.Body, func(n ast.Node) bool {
			if n == nil {
				stack = stack[:len(stack)-1]
				return true
			}
			stack = append(stack, n)
			if id, ok := n.(*ast.Ident); ok && c.info().Uses[id] == lo {
				sel, isSel := stack[len(stack)-2].(*ast.SelectorExpr)
				if !isSel || sel.X != id {
					trFail(id.Pos(), "%s points into %s.%s: it may only be used as x.f or x.M(…) (returned, stored or passed on it would be another name of the element)", lid.Name, rid.Name, sa.field)
				}
			}
			return true
		})
	}
	return func() trLines {
		lo := c.info().Defs[lid]
		key := c.fresh("key")
		if c.aliases == nil {
			c.aliases = map[types.Object]*trAlias{}
		}
		al := &trAlias{recvName: c.names[ro], recvObj: ro, field: sa.field, key: key, slice: true}
		c.aliases[lo] = al
		// the index is a Lean local without a Go variable: a synthetic object makes it a free variable of the loops that use the alias
		ko := types.NewVar(call.Pos(), nil, key, types.Typ[types.Int])
		c.names[ko] = key
		trSynthVarType[ko] = "Nat"
		trAliasKeyObj[al] = ko
		return trLet(key, "Nat", trOne("("+c.names[ro]+"."+trMangle(sa.field)+".length - 1)"), k())
	}
}

// sliceWriteBack: the assignment went through the alias: recv.<field>[key] = x
func (c *trCtx) sliceWriteBack(al *trAlias, o types.Object, k trK) trK {
	return func() trLines {
		rn := c.names[al.recvObj]
		rt := c.leanType(al.recvObj.Type(), o.Pos())
		f := trMangle(al.field)
		return trLet(rn, rt, trOne("{ "+rn+" with "+f+" := ("+rn+"."+f+".set "+al.key+" "+c.names[o]+") }"), k())
	}
}

// aliasThrough: a call of a method that assigns through its receiver, on an alias into a slice: the write-back follows
func (c *trCtx) aliasThrough(target ast.Expr, k trK) trK {
	id, ok := trUnparen(target).(*ast.Ident)
	if !ok || c.aliases == nil {
		return k
	}
	o := c.info().Uses[id]
	if al := c.aliases[o]; al != nil && al.slice {
		return c.sliceWriteBack(al, o, k)
	}
	return k
}

// capGiven: the capacity part of a composite literal for the capacity-tracked field number i
func (c *trCtx) capGiven(x *ast.CompositeLit, i int, given bool) string {
	if !given {
		return "(some 0)"
	}
	st := c.typeOf(x).Underlying()
	if p, ok := st.(*types.Pointer); ok {
		st = p.Elem().Underlying()
	}
	u := st.(*types.Struct)
	for j, el := range x.Elts {
		if kv, ok := el.(*ast.KeyValueExpr); ok {
			if kv.Key.(*ast.Ident).Name == u.Field(i).Name() {
				return c.capLiteral(kv.Value)
			}
		} else if j == i {
			return c.capLiteral(el)
		}
	}
	return "(some 0)"
}

// trFuelMayPanic: functions whose loop bound may panic (FillEmpty: `i < cap(r.cells)`)
var trFuelMayPanic = map[string]bool{trTablePath + ".Row.FillEmpty": true}
