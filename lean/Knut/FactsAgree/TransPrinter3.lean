import Knut.FactsAgree.TransPrinter2
import Knut.Properties.C08
/-!
# The translated format printer, part 3: with C08's totality theorem

`C08_format_total` (over the model: formatting a parsed file never violates a slice bound) and the agreement theorems
`goSyntaxParse_agrees`, `Format_agrees` together say about the definitions **generated from the Go source**: for every byte string,
parse + format in the translation never panics and never runs out of fuel; it either returns the parser's error chain with nothing
written, or writes exactly the model's formatted text with a nil error.
-/
namespace Knut.FactsAgree.TransPrinter
open Knut Knut.GoSem Knut.Syntax Knut.Utf8
open Knut.Generated.Go
open Knut.FactsAgree.TransScanner Knut.FactsAgree.TransParser

/-- for a text that parses, `syntax.FormatFile` on the translated parser's tree succeeds and writes the model's output -/
theorem FormatFile_parsed (text : Bytes) (path : String) (f : Syntax.File) (hp : parseText path text = .ok f) (w : Bytes) :
    ∃ out, format text f = some out ∧ goFormatFile w (goFile text path f) = .ok (w ++ out, .nil) := by
  obtain ⟨out, hf, _⟩ := Knut.C08.C08_format_total hp
  refine ⟨out, hf, ?_⟩
  rw [Format_agrees text path f hp w, hf]
  rfl

/-- **parse + format in the translation is total**: for every byte string and every fuel above its token count the outcome is `ok`
(no panic, no `outOfFuel`): the formatted text of the model with a nil error, or the parser's error chain and an empty buffer -/
theorem goFormatRun_total (text : Bytes) (path : String) (fuel : Nat) (hf : (decodeAll text).length < fuel) :
    (∃ f out, parseText path text = .ok f ∧ format text f = some out ∧ goFormatRun fuel text path = .ok (out, .nil)) ∨
    (∃ e, parseText path text = .error e ∧ e ≠ [] ∧ goFormatRun fuel text path = .ok ([], goErr text path e)) := by
  have h := formatFile_agrees text path fuel hf
  cases hp : parseText path text with
  | ok f =>
    obtain ⟨out, hfm, hw⟩ := Knut.C08.C08_format_total hp
    rw [hw] at h
    exact Or.inl ⟨f, out, rfl, hfm, h⟩
  | error e =>
    have hr : formatFile path text = .rejected e := by simp [formatFile, hp]
    rw [hr] at h
    exact Or.inr ⟨e, rfl, h.1, h.2⟩

end Knut.FactsAgree.TransPrinter
