import Knut.Proofs.LayoutElab
import Knut.Proofs.LayoutFactor
import Knut.Proofs.Loader
/-!
# The loader on a layout tree (C05, constructive side)

`journalOf_layout`: for a layout tree `t` (`Spec/LayoutSpec.lean`) whose directives are printable, whose include
spellings resolve to the paths of the included files and whose files have pairwise different cleaned paths, the file
system that holds the rendered files loads, from the root, exactly `t.journal`: the directives file by file, depth first.
-/
namespace Knut.Layout
open Knut Knut.Loader Knut.Commands Knut.FromSyntax Knut.Syntax Knut.Utf8

/-! ### the items of one file as a flat list -/

def LItems.flat : LItems → List FItem
  | .nil => []
  | .dir x rest => .inl x :: rest.flat
  | .inc sp _ rest => .inr sp :: rest.flat

theorem LItems.text_flat (pad : Nat) : ∀ (items : LItems), items.text pad = String.join (items.flat.map (FItem.text pad))
  | .nil => rfl
  | .dir x rest => by
    simp only [LItems.text, LItems.flat, List.map_cons, join_cons, FItem.text]
    rw [LItems.text_flat pad rest]
  | .inc sp _ rest => by
    simp only [LItems.text, LItems.flat, List.map_cons, join_cons, FItem.text]
    rw [LItems.text_flat pad rest]

theorem LItems.own_flat : ∀ (items : LItems),
    items.own = items.flat.filterMap FItem.dir?
  | .nil => rfl
  | .dir x rest => by simp only [LItems.own, LItems.flat, List.filterMap_cons, FItem.dir?]; rw [LItems.own_flat rest]
  | .inc sp _ rest => by simp only [LItems.own, LItems.flat, List.filterMap_cons, FItem.dir?]; rw [LItems.own_flat rest]

theorem LItems.incs_flat : ∀ (items : LItems),
    items.incs.map (·.1) = items.flat.filterMap FItem.inc?
  | .nil => rfl
  | .dir x rest => by simp only [LItems.incs, LItems.flat, List.filterMap_cons, FItem.inc?]; rw [LItems.incs_flat rest]
  | .inc sp _ rest => by simp only [LItems.incs, LItems.flat, List.filterMap_cons, List.map_cons, FItem.inc?]; rw [LItems.incs_flat rest]

theorem LItems.flat_good : ∀ (items : LItems), (∀ x ∈ items.own, PrintableDir x) → (∀ i ∈ items.incs, '"' ∉ i.1.toList) →
    ∀ i ∈ items.flat, i.Good
  | .nil, _, _ => by intro i hi; cases hi
  | .dir x rest, h1, h2 => by
    intro i hi
    simp only [LItems.flat, List.mem_cons] at hi
    rcases hi with rfl | hi
    · exact h1 x (by simp [LItems.own])
    · exact LItems.flat_good rest (fun y hy => h1 y (by simp [LItems.own, hy])) (fun j hj => h2 j (by simpa [LItems.incs] using hj)) i hi
  | .inc sp c rest, h1, h2 => by
    intro i hi
    simp only [LItems.flat, List.mem_cons] at hi
    rcases hi with rfl | hi
    · exact h2 (sp, c) (by simp [LItems.incs])
    · exact LItems.flat_good rest (fun y hy => h1 y (by simpa [LItems.own] using hy))
        (fun j hj => h2 j (by simp [LItems.incs, hj])) i hi

/-! ### one file -/

/-- what the proof needs of one file of the layout on the file system `fs` -/
def NodeOK (fs : FileSys) (pad : Nat) (n : Path × LItems) : Prop :=
  fs.read n.1 = some (fileBytes (n.2.text pad)) ∧ (∀ x ∈ n.2.own, PrintableDir x) ∧
    ∀ i ∈ n.2.incs, '"' ∉ i.1.toList ∧ resolve n.1 i.1 = i.2.path

theorem node_loads (pad : Nat) (p : Path) (items : LItems) (h1 : ∀ x ∈ items.own, PrintableDir x)
    (h2 : ∀ i ∈ items.incs, '"' ∉ i.1.toList) :
    ∃ f, parseForLoader p (fileBytes (items.text pad)) =
        { includes := items.incs.map (·.1), result := .ok (fileBytes (items.text pad), f) } ∧
      elabFile (fileBytes (items.text pad), f) = .ok items.own := by
  have hb : fileBytes (items.text pad) = strBytes (String.join (items.flat.map (FItem.text pad))) := by
    unfold fileBytes; rw [strBytes_toUTF8, LItems.text_flat]
  rw [hb]
  obtain ⟨f, hp, he, hi⟩ := file_loads pad p items.flat (items.flat_good h1 h2)
  refine ⟨f, ?_, ?_⟩
  · rw [parseForLoader_ok hp, hi, LItems.incs_flat]
  · rw [he, LItems.own_flat]

/-! ### `journalOfFiles` of concatenations -/

theorem journalOfFiles_nil : journalOfFiles [] = .ok [] := rfl

theorem journalOfFiles_cons {pf : LoadedFile} {files : List LoadedFile} {xs ys : List Directive}
    (h1 : elabFile pf.2 = .ok xs) (h2 : journalOfFiles files = .ok ys) : journalOfFiles (pf :: files) = .ok (xs ++ ys) := by
  unfold journalOfFiles at h2 ⊢
  rw [List.mapM_cons, h1]
  cases hm : files.mapM (fun pf => elabFile pf.2) with
  | error e => rw [hm] at h2; cases h2
  | ok zs =>
    rw [hm] at h2
    cases h2
    rfl

theorem journalOfFiles_cons_inv {pf : LoadedFile} {files : List LoadedFile} {zs : List Directive}
    (h : journalOfFiles (pf :: files) = .ok zs) :
    ∃ xs ys, elabFile pf.2 = .ok xs ∧ journalOfFiles files = .ok ys ∧ zs = xs ++ ys := by
  unfold journalOfFiles at h ⊢
  rw [List.mapM_cons] at h
  cases h1 : elabFile pf.2 with
  | error e => rw [h1] at h; cases h
  | ok xs =>
    rw [h1] at h
    cases hm : files.mapM (fun pf => elabFile pf.2) with
    | error e => rw [hm] at h; cases h
    | ok ws =>
      rw [hm] at h
      cases h
      exact ⟨xs, ws.flatten, rfl, rfl, rfl⟩

theorem journalOfFiles_append : ∀ {a b : List LoadedFile} {xs ys : List Directive},
    journalOfFiles a = .ok xs → journalOfFiles b = .ok ys → journalOfFiles (a ++ b) = .ok (xs ++ ys)
  | [], b, xs, ys, h1, h2 => by cases h1; exact h2
  | pf :: a, b, xs, ys, h1, h2 => by
    obtain ⟨x1, x2, e1, e2, rfl⟩ := journalOfFiles_cons_inv h1
    rw [List.cons_append, List.append_assoc]
    exact journalOfFiles_cons e1 (journalOfFiles_append e2 h2)

/-! ### the recursion -/

theorem inChain_false {anc : List Path} {file : Path} (h : ∀ a ∈ anc, pathClean a ≠ pathClean file) :
    inChain anc file = false := by
  unfold inChain
  rw [Bool.eq_false_iff]
  intro hc
  obtain ⟨a, ha, he⟩ := List.any_eq_true.mp hc
  exact h a ha (by simpa using he)

mutual
theorem load_tree (fs : FileSys) (pad : Nat) : ∀ (t : LTree), (∀ n ∈ t.nodes, NodeOK fs pad n) →
    (t.nodes.map (fun n => pathClean n.1)).Nodup →
    ∀ anc : List Path, (∀ a ∈ anc, ∀ n ∈ t.nodes, pathClean a ≠ pathClean n.1) →
    ∃ files, loadRec fs parseForLoader t.path anc = .ok files ∧ journalOfFiles files = .ok t.journal
  | .node p items, hok, hnd, anc, hanc => by
    have hn : (p, items) ∈ (LTree.node p items).nodes := by simp [LTree.nodes]
    obtain ⟨hread, hdirs, hincs⟩ := hok _ hn
    obtain ⟨f, hparse, helab⟩ := node_loads pad p items hdirs (fun i hi => (hincs i hi).1)
    have hc : inChain anc p = false := inChain_false (fun a ha => hanc a ha _ hn)
    simp only [LTree.nodes, List.map_cons, List.nodup_cons] at hnd
    have hanc' : ∀ a ∈ anc ++ [p], ∀ n ∈ items.childNodes, pathClean a ≠ pathClean n.1 := by
      intro a ha n hnm
      rcases List.mem_append.mp ha with ha | ha
      · exact hanc a ha n (by simp [LTree.nodes, hnm])
      · simp only [List.mem_singleton] at ha
        subst ha
        intro e
        exact hnd.1 (List.mem_map.mpr ⟨n, hnm, e.symm⟩)
    obtain ⟨files, hcol, hj⟩ := load_items fs pad items (fun n hnm => hok n (by simp [LTree.nodes, hnm])) hnd.2 p (anc ++ [p])
      (fun i hi => (hincs i hi).2) hanc'
    refine ⟨(p, (fileBytes (items.text pad), f)) :: files, ?_, ?_⟩
    · rw [LTree.path, loadRec_read _ _ _ _ _ hc hread]
      simp only [body, hparse, List.map_map]
      have : ((fun inc => loadRec fs parseForLoader (resolve p inc) (anc ++ [p])) ∘ fun (x : String × LTree) => x.1) =
          fun i => loadRec fs parseForLoader (resolve p i.1) (anc ++ [p]) := rfl
      rw [this, hcol]
    · have := journalOfFiles_cons (pf := (p, (fileBytes (items.text pad), f))) helab hj
      simpa [LTree.journal, LTree.nodes] using this
theorem load_items (fs : FileSys) (pad : Nat) : ∀ (items : LItems), (∀ n ∈ items.childNodes, NodeOK fs pad n) →
    (items.childNodes.map (fun n => pathClean n.1)).Nodup →
    ∀ (parent : Path) (anc : List Path), (∀ i ∈ items.incs, resolve parent i.1 = i.2.path) →
    (∀ a ∈ anc, ∀ n ∈ items.childNodes, pathClean a ≠ pathClean n.1) →
    ∃ files, Loader.collect (items.incs.map (fun i => loadRec fs parseForLoader (resolve parent i.1) anc)) = .ok files ∧
      journalOfFiles files = .ok (items.childNodes.flatMap (fun n => n.2.own))
  | .nil, _, _, _, _, _, _ => ⟨[], rfl, rfl⟩
  | .dir x rest, hok, hnd, parent, anc, hres, hanc => by
    simp only [LItems.childNodes, LItems.incs] at hok hnd hres hanc ⊢
    exact load_items fs pad rest hok hnd parent anc hres hanc
  | .inc sp c rest, hok, hnd, parent, anc, hres, hanc => by
    simp only [LItems.childNodes, LItems.incs, List.map_append, List.nodup_append, List.mem_append, List.mem_cons,
      List.flatMap_append, List.map_cons] at hok hnd hres hanc ⊢
    obtain ⟨f1, h1, j1⟩ := load_tree fs pad c (fun n hn => hok n (Or.inl hn)) hnd.1 anc (fun a ha n hn => hanc a ha n (Or.inl hn))
    obtain ⟨f2, h2, j2⟩ := load_items fs pad rest (fun n hn => hok n (Or.inr hn)) hnd.2.1 parent anc
      (fun i hi => hres i (Or.inr hi)) (fun a ha n hn => hanc a ha n (Or.inr hn))
    have e : resolve parent sp = c.path := hres (sp, c) (Or.inl rfl)
    refine ⟨f1 ++ f2, ?_, journalOfFiles_append j1 j2⟩
    simp only [Loader.collect, e, h1, h2]
end

/-! ### the file system of the layout -/

theorem lookup_of_nodup {α β : Type} [BEq α] [LawfulBEq α] : ∀ {l : List (α × β)} {a : α} {b : β},
    (l.map (·.1)).Nodup → (a, b) ∈ l → l.lookup a = some b
  | [], _, _, _, h => by cases h
  | (k, v) :: rest, a, b, hnd, h => by
    simp only [List.map_cons, List.nodup_cons] at hnd
    rcases List.mem_cons.mp h with e | hr
    · cases e; simp
    · have hne : a ≠ k := by
        intro e
        exact hnd.1 (List.mem_map.mpr ⟨(a, b), hr, e⟩)
      rw [List.lookup_cons]
      have : (a == k) = false := by simpa using hne
      rw [this]
      exact lookup_of_nodup hnd.2 hr

theorem nodup_of_map {α β : Type} (g : α → β) : ∀ {l : List α}, (l.map g).Nodup → l.Nodup
  | [], _ => List.nodup_nil
  | a :: l, h => by
    simp only [List.map_cons, List.nodup_cons] at h ⊢
    exact ⟨fun ha => h.1 (List.mem_map.mpr ⟨a, ha, rfl⟩), nodup_of_map g h.2⟩

/-- the file system made of exactly the files of the layout holds every file under its path, provided the paths are
pairwise different -/
theorem fs_reads (pad : Nat) (t : LTree) (hpaths : (t.nodes.map (fun n => pathClean n.1)).Nodup) :
    ∀ n ∈ t.nodes, (t.fs pad).read n.1 = some (fileBytes (n.2.text pad)) := by
  have hnd : ((t.files pad).map (·.1)).Nodup := by
    have h1 : (t.nodes.map (·.1)).Nodup := by
      have : t.nodes.map (fun n => pathClean n.1) = (t.nodes.map (·.1)).map pathClean := by rw [List.map_map]; rfl
      rw [this] at hpaths
      exact nodup_of_map pathClean hpaths
    simpa [LTree.files, List.map_map, Function.comp_def] using h1
  intro n hn
  show (t.files pad).lookup n.1 = _
  exact lookup_of_nodup hnd (List.mem_map.mpr ⟨n, hn, rfl⟩)

/-- **the journal of a layout**: every file system that holds the rendered files of the layout under their paths (and
whatever else) loads, from the root, the directives of the layout file by file, depth first -/
theorem journalOf_layout (pad : Nat) (t : LTree) (fs : FileSys)
    (hfs : ∀ n ∈ t.nodes, fs.read n.1 = some (fileBytes (n.2.text pad)))
    (hdirs : ∀ x ∈ t.journal, PrintableDir x)
    (hedges : ∀ e ∈ t.edges, '"' ∉ e.2.1.toList ∧ resolve e.1 e.2.1 = e.2.2)
    (hpaths : (t.nodes.map (fun n => pathClean n.1)).Nodup) :
    journalOf fs t.path = .ok t.journal := by
  have hok : ∀ n ∈ t.nodes, NodeOK fs pad n := by
    intro n hn
    refine ⟨hfs n hn, ?_, ?_⟩
    · intro x hx
      exact hdirs x (List.mem_flatMap.mpr ⟨n, hn, hx⟩)
    · intro i hi
      exact hedges (n.1, i.1, i.2.path) (List.mem_flatMap.mpr ⟨n, hn, List.mem_map.mpr ⟨i, hi, rfl⟩⟩)
  obtain ⟨files, hl, hj⟩ := load_tree fs pad t hok hpaths [] (by intro a ha; cases ha)
  unfold journalOf load
  rw [hl]
  exact hj

/-! ### the journal is a permutation of the reading order -/

mutual
theorem journal_perm_reading : ∀ (t : LTree), t.journal.Perm t.reading
  | .node p items => by
    have := childJournal_perm items
    simp only [LTree.journal, LTree.nodes, List.flatMap_cons, LTree.reading]
    exact this
theorem childJournal_perm : ∀ (items : LItems),
    (items.own ++ items.childNodes.flatMap (fun n => n.2.own)).Perm items.reading
  | .nil => List.Perm.refl _
  | .dir x rest => by
    simp only [LItems.own, LItems.childNodes, LItems.reading, List.cons_append]
    exact (childJournal_perm rest).cons x
  | .inc sp c rest => by
    simp only [LItems.own, LItems.childNodes, LItems.reading, List.flatMap_append]
    have h1 := journal_perm_reading c
    have h2 := childJournal_perm rest
    unfold LTree.journal at h1
    -- own(rest) ++ (J(c) ++ CJ(rest)) ~ J(c) ++ (own(rest) ++ CJ(rest))
    refine List.Perm.trans ?_ (h1.append h2)
    rw [← List.append_assoc, ← List.append_assoc]
    exact List.Perm.append_right _ List.perm_append_comm
end

end Knut.Layout
