import Knut.FactsAgree.TransImportSwisscard2
/-!
# `ch.swisscard2`, run level: the translated `readBooking` folded as `parser.parse` folds it = `Import.Swisscard2.run`

`cmd/importer/swisscard2/swisscard2.go`:

```go
func (p *parser) parse() error {
	p.reader.TrimLeadingSpace = true
	p.reader.FieldsPerRecord = 12
	if err := p.readHeader(); err != nil { return err }       // readHeader: `_, err := p.reader.Read(); return err`
	for {
		err := p.readBooking()
		if err == io.EOF { return nil }
		if err != nil { return err }
	}
}
```

The loop is NOT translated (an endless `for` around a reader): `parse` below is its hand-written transcription, a fold of the
TRANSLATED `swisscard2.parser.readBooking` (`Generated/TransImportSwisscard2.lean`, regenerated on every run) over what the
`encoding/csv.Reader` delivers.  The reader stays an `ext`: its successive results are the list `reads` (`deliveries recs`), and when the
list is used up it delivers `io.EOF` (`eof`).  `deliver r`: with `FieldsPerRecord = 12` the reader returns a record of another length
together with `csv.ErrFieldCount`.  `MustGet(r[währung])` runs once per record: the callee as a function of its argument,
`ext2 : String → Commodity`; `TBDAccount()` always returns the one interned account `ext3`.

**`run_agrees`**: for every list of records, from a parser whose builder stands for the empty model builder:
`Swisscard2.run = ok ds` ↦ `parse` returns nil, and the builder stands for the model builder with `ds` added in order;
`error` ↦ `parse` returns an error; `panic` ↦ some twelve-field record has an invalid commodity name (`MustGet` panics inside the
untranslated call).  No `outOfFuel`, no index panic.

`loop_agrees` is the same statement for the loop alone from any parser state whose builder stands for a model builder `b`
(`mapRows (row acct)`); `readBooking_error_ne_eof`: the errors `readBooking` makes itself do not end the loop as `io.EOF` does.
-/
namespace Knut.FactsAgree.TransImportSwisscard2Run
open Knut Knut.GoSem
open Knut.Generated.Go
open Knut.FactsAgree.TransAccount Knut.FactsAgree.TransPosting Knut.FactsAgree.TransJournal Knut.FactsAgree.TransImportSwisscard2

/-- `io.EOF` -/
def eof : Error := ⟨"EOF"⟩
/-- `csv.ErrFieldCount` (as `encoding/csv` wraps it in a `*csv.ParseError`) -/
def errFieldCount : Error := ⟨"wrong number of fields"⟩

/-- what `p.reader.Read()` returns for the record `r` when `FieldsPerRecord = 12` -/
def deliver (r : List String) : List String × Option Error := (r, if r.length = 12 then none else some errFieldCount)

/-- the successive results of `p.reader.Read()` on a file whose records are `recs` (then `io.EOF`: `readAt`) -/
def deliveries (recs : List (List String)) : List (List String × Option Error) := recs.map deliver

/-- the `for` loop of `parse`: `reads` = the results of the reader still to come, `io.EOF` after them -/
def loop (ext2 : String → commodity.Commodity) (ext3 : account.Account) :
    swisscard2.parser → List (List String × Option Error) → GoSem.Outcome (swisscard2.parser × Option Error)
  | p, [] =>
    GoSem.Outcome.bind (swisscard2.parser.readBooking p ([], some eof) (ext2 "") ext3) (fun (p', err) =>
      if err = some eof then .ok (p', none) else .ok (p', err))   -- unreachable: the reader's EOF comes back as it is
  | p, rd :: reads =>
    GoSem.Outcome.bind (swisscard2.parser.readBooking p rd (ext2 (rd.1.getD 4 "")) ext3) (fun (p', err) =>
      if err = some eof then .ok (p', none)
      else if err.isSome then .ok (p', err)
      else loop ext2 ext3 p' reads)

/-- `parser.parse`: `readHeader` (first result of the reader; its error, `io.EOF` included, is returned), then the loop -/
def parse (ext2 : String → commodity.Commodity) (ext3 : account.Account) (p : swisscard2.parser) :
    List (List String × Option Error) → GoSem.Outcome (swisscard2.parser × Option Error)
  | [] => .ok (p, some eof)
  | hd :: reads => if hd.2.isSome then .ok (p, hd.2) else loop ext2 ext3 p reads

theorem foldl_add_append (b : Knut.Builder) (xs ys : List Knut.Directive) :
    (xs ++ ys).foldl Knut.Builder.add b = ys.foldl Knut.Builder.add (xs.foldl Knut.Builder.add b) := List.foldl_append

/-- an error that `readBooking` makes itself (date, amount) is never `io.EOF` -/
theorem readBooking_error_ne_eof (p : swisscard2.parser) (r : List String) (hr : r.length = 12) (ext2 : commodity.Commodity)
    (ext3 : account.Account) (q : swisscard2.parser) (e : Error)
    (h : swisscard2.parser.readBooking p (r, none) ext2 ext3 = .ok (q, some e)) : e ≠ eof := by
  obtain ⟨f0, f1, f2, f3, f4, f5, f6, f7, f8, f9, f10, f11, rfl⟩ := len12 hr
  revert h
  unfold swisscard2.parser.readBooking
  simp only [Option.isSome_none, Bool.false_eq_true, if_false, index, swisscard2.transaktionsdatum, swisscard2.betrag,
    swisscard2.beschreibung, swisscard2.Händler, swisscard2.händlerKategorie, swisscard2.kartennummer,
    swisscard2.registrierteKategorie, swisscard2.debitKredit, GoSem.Outcome.bind]
  simp
  split
  · intro h; simp at h; rw [← h.2]; decide
  · split
    · intro h; simp at h; rw [← h.2]; decide
    · intro h; simp at h

/-- the loop of `parse` on the deliveries of `rows` is `mapRows (row acct) rows` -/
theorem loop_agrees (cur : String → Bool) (acct : Knut.Account) (ext2 : String → commodity.Commodity) (ext3 : account.Account)
    (h2 : ∀ s, Import.validCommodity s = true → ext2 s = commodityGo cur s) (h3 : ext3 = accountGo Import.tbd) :
    ∀ (rows : List Import.Rec) (p : swisscard2.parser) (b : Knut.Builder), BEquiv cur p.builder b → p.account = accountGo acct →
    match Import.mapRows (Import.Swisscard2.row acct) rows with
    | .ok ds => ∃ p', loop ext2 ext3 p (deliveries rows) = .ok (p', none) ∧ p'.account = p.account ∧
        BEquiv cur p'.builder (ds.foldl Knut.Builder.add b)
    | .error => ∃ p' e, loop ext2 ext3 p (deliveries rows) = .ok (p', some e)
    | .panic => ∃ r ∈ rows, r.length = 12 ∧ Import.validCommodity (Import.fldD r 4) = false := by
  intro rows
  induction rows with
  | nil =>
    intro p b hb _
    refine ⟨p, ?_, rfl, hb⟩
    simp [deliveries, loop, readBooking_reader_error, GoSem.Outcome.bind]
  | cons r rows ih =>
    intro p b hb hacct
    by_cases hr : r.length = 12
    · have hrow := readBooking_agrees cur p b acct r hb hacct hr (ext2 (Import.fldD r 4)) ext3 (h2 _) h3
      have hd : deliver r = (r, none) := by simp [deliver, hr]
      have hg : r.getD 4 "" = Import.fldD r 4 := by simp [Import.fldD]
      unfold Import.mapRows
      cases hrw : Import.Swisscard2.row acct r with
      | ok ds =>
        rw [hrw] at hrow
        obtain ⟨p1, hp1, hacc1, hb1⟩ := hrow
        have ih' := ih p1 _ hb1 (hacc1.trans hacct)
        have hl : loop ext2 ext3 p (deliveries (r :: rows)) = loop ext2 ext3 p1 (deliveries rows) := by
          simp only [deliveries, List.map_cons, hd]
          rw [loop]
          simp only [hg, hp1, GoSem.Outcome.bind]
          simp
        rw [hl]
        cases hm : Import.mapRows (Import.Swisscard2.row acct) rows with
        | ok ds' =>
          rw [hm] at ih'
          obtain ⟨p', hp', hacc', hb'⟩ := ih'
          refine ⟨p', hp', hacc'.trans hacc1, ?_⟩
          simpa [foldl_add_append] using hb'
        | error => rw [hm] at ih'; exact ih'
        | panic =>
          rw [hm] at ih'
          obtain ⟨r', hr', h'⟩ := ih'
          exact ⟨r', List.mem_cons_of_mem _ hr', h'⟩
      | error =>
        rw [hrw] at hrow
        obtain ⟨e, he⟩ := hrow
        show ∃ p' e, _ = _
        have hee : e ≠ eof := readBooking_error_ne_eof p r hr _ _ p e he
        refine ⟨p, e, ?_⟩
        simp only [deliveries, List.map_cons, hd]
        rw [loop]
        simp only [hg, he, GoSem.Outcome.bind]
        simp [hee]
      | panic =>
        rw [hrw] at hrow
        exact ⟨r, List.mem_cons_self, hr, hrow⟩
    · have hrw : Import.Swisscard2.row acct r = .error := by simp [Import.Swisscard2.row, hr]
      have hd : deliver r = (r, some errFieldCount) := by simp [deliver, hr]
      unfold Import.mapRows
      rw [hrw]
      refine ⟨p, errFieldCount, ?_⟩
      simp only [deliveries, List.map_cons, hd]
      rw [loop]
      simp only [readBooking_reader_error, GoSem.Outcome.bind]
      simp [errFieldCount, eof]

/-- **`parser.parse`** of `ch.swisscard2` over the records of a file = `Import.Swisscard2.run` -/
theorem run_agrees (cur : String → Bool) (acct : Knut.Account) (ext2 : String → commodity.Commodity) (ext3 : account.Account)
    (h2 : ∀ s, Import.validCommodity s = true → ext2 s = commodityGo cur s) (h3 : ext3 = accountGo Import.tbd)
    (recs : List Import.Rec) (p : swisscard2.parser) (b : Knut.Builder) (hb : BEquiv cur p.builder b) (hacct : p.account = accountGo acct) :
    match Import.Swisscard2.run acct recs with
    | .ok ds => ∃ p', parse ext2 ext3 p (deliveries recs) = .ok (p', none) ∧ p'.account = p.account ∧
        BEquiv cur p'.builder (ds.foldl Knut.Builder.add b)
    | .error => ∃ p' e, parse ext2 ext3 p (deliveries recs) = .ok (p', some e)
    | .panic => ∃ r ∈ recs.tail, r.length = 12 ∧ Import.validCommodity (Import.fldD r 4) = false := by
  cases recs with
  | nil => exact ⟨p, eof, rfl⟩
  | cons hd rows =>
    unfold Import.Swisscard2.run
    by_cases hh : hd.length = 12
    · have hd' : deliver hd = (hd, none) := by simp [deliver, hh]
      have hp : parse ext2 ext3 p (deliveries (hd :: rows)) = loop ext2 ext3 p (deliveries rows) := by
        simp [deliveries, parse, hd']
      simp only [hh, ne_eq, not_true_eq_false, if_false, hp, List.tail_cons]
      exact loop_agrees cur acct ext2 ext3 h2 h3 rows p b hb hacct
    · simp only [hh, ne_eq, not_false_eq_true, if_true]
      exact ⟨p, errFieldCount, by simp [deliveries, parse, deliver, hh]⟩

/-- non-vacuity: a header and one booking record, from the fresh builder -/
example : ∃ ds, Import.Swisscard2.run ⟨["Assets", "Card"]⟩ [["h0", "h1", "h2", "h3", "h4", "h5", "h6", "h7", "h8", "h9", "h10", "h11"],
      ["01.02.2023", "a", "b", "c", "CHF", "12.50", "", "", "Debit", "", "k", "l"]] = .ok ds ∧
    ∃ p', parse (commodityGo (fun _ => true)) (accountGo Import.tbd) ⟨accountGo ⟨["Assets", "Card"]⟩, journal.New⟩
        (deliveries [["h0", "h1", "h2", "h3", "h4", "h5", "h6", "h7", "h8", "h9", "h10", "h11"],
          ["01.02.2023", "a", "b", "c", "CHF", "12.50", "", "", "Debit", "", "k", "l"]]) = .ok (p', none) ∧
      BEquiv (fun _ => true) p'.builder (Knut.Builder.ofList ds) := by
  have h := run_agrees (fun _ => true) ⟨["Assets", "Card"]⟩ (commodityGo (fun _ => true)) (accountGo Import.tbd) (fun _ _ => rfl) rfl
    [["h0", "h1", "h2", "h3", "h4", "h5", "h6", "h7", "h8", "h9", "h10", "h11"],
      ["01.02.2023", "a", "b", "c", "CHF", "12.50", "", "", "Debit", "", "k", "l"]]
    ⟨accountGo ⟨["Assets", "Card"]⟩, journal.New⟩ {} (New_agrees _) rfl
  have hok : (match Import.Swisscard2.run ⟨["Assets", "Card"]⟩ [["h0", "h1", "h2", "h3", "h4", "h5", "h6", "h7", "h8", "h9", "h10", "h11"],
      ["01.02.2023", "a", "b", "c", "CHF", "12.50", "", "", "Debit", "", "k", "l"]] with | .ok _ => true | _ => false) = true := by
    decide +kernel
  revert h hok
  cases Import.Swisscard2.run ⟨["Assets", "Card"]⟩ [["h0", "h1", "h2", "h3", "h4", "h5", "h6", "h7", "h8", "h9", "h10", "h11"],
      ["01.02.2023", "a", "b", "c", "CHF", "12.50", "", "", "Debit", "", "k", "l"]] with
  | ok ds => exact fun h _ => ⟨ds, rfl, h.imp fun p' h => ⟨h.1, h.2.2⟩⟩
  | error => simp
  | panic => simp

end Knut.FactsAgree.TransImportSwisscard2Run
