package main

// Stream "flagmix" of C14: the flags of the report commands IN COMBINATION.
//
// C14 quantifies over "any flag values". The streams `special` and `flags` draw the window flags and one hostile
// value at a time; the flags that transform the accounts and commodities of a report (-m with levels 0-3, suffixes,
// regexes and several rules, --remap, --account, --commodity, -s) never met each other there, so a failure that needs
// two of them (a level-0 -m rule hands a nil account to whatever runs after it; a remapped name no longer matches a
// filter; ...) was out of reach. Here every case is one run of balance (two thirds), portfolio weights or portfolio
// returns with a flag vector drawn by the generator C01-C03 use for balance (GenBalFlags), on which two to four
// drawn features are then forced on: pairs, triples and quadruples of
//
//	-m level 0 | -m level 1-3 (with suffix) | several -m rules in a drawn order | --remap (1-3 regexes) |
//	--account | --commodity | -s | -v | --from/--to (also inverted) | --last | an interval | --diff | --close=false |
//	--csv | -a | -k | --digits (also negative)
//
// The journal is one of C14's boundary journals (c14Special) or an ordinary generated journal (valid, or with one
// mutation / dropped prices / accruals), in one file or spread over included files; the patterns are built from the
// account and commodity names that occur in it, so that the rules do hit accounts of the report. A fifth of the cases
// replace one pattern by a regex outside the family the model implements (".", "(?i)…", classes, an empty regex) or a
// -m level far above the depth of any account: these are monitored only.
//
// Evaluation is that of every C14 run (runC14): the Lean predicate failsCleanly (no crash trace, exit 0 or a
// diagnostic, a failing report leaves stdout empty) via c14mon, memory_bounded, and - where Cmd.run models the flags
// (balance with patterns of the simple family; portfolio with window flags only) - the outcome class against c14run.

import (
	"fmt"
	"path"
	"regexp"
	"sort"
	"strings"
	"time"
)

var c14MixAccountRe = regexp.MustCompile(`(?:Assets|Liabilities|Equity|Income|Expenses)(?::[^\s:"]+)+`)
var c14MixComRe = regexp.MustCompile(`[0-9] ([A-Za-z][A-Za-z0-9]*)\b`)

// c14MixNames: a journal of opens and prices that carries the account names, commodities and valid dates which occur
// in a text (GenBalFlags and genPattern draw from these).
func c14MixNames(text string) *Journal {
	j := &Journal{}
	day := 737000
	var days []int
	for _, m := range c14DateRe.FindAllString(text, -1) {
		if t, err := time.Parse("2006-01-02", m); err == nil {
			days = append(days, dayNum(t))
		}
	}
	sort.Ints(days)
	if len(days) > 0 {
		day = days[0]
	}
	seen := map[string]bool{}
	for _, a := range c14MixAccountRe.FindAllString(text, -1) {
		if !seen[a] {
			seen[a] = true
			j.Dirs = append(j.Dirs, JDir{Kind: 'o', Date: day, Account: a})
		}
	}
	for _, m := range c14MixComRe.FindAllStringSubmatch(text, -1) {
		if c := m[1]; !seen["c:"+c] && c != "open" && c != "price" {
			seen["c:"+c] = true
			j.Dirs = append(j.Dirs, JDir{Kind: 'p', Date: day, Com: c, Target: c, Price: "1"})
		}
	}
	if len(days) > 0 {
		j.Dirs = append(j.Dirs, JDir{Kind: 'o', Date: days[len(days)-1], Account: "Assets:A"})
	}
	return j
}

// regexes Go accepts which lie outside the family the model implements
var c14MixWild = []string{".", ".*", "", "(?i)assets", "(?i)EXPENSES:", "[A-Z][a-z]+:", "^[^:]+$", "^$", ":", "\\pL+", "(Assets|Expenses):.*", "s$", "^.{0,6}$", "a|"}

// the features forced onto a drawn vector; the flags that map and filter accounts weigh double
var c14MixFeatures = []string{"map0", "map0", "mapN", "mapN", "mapMany", "remap", "remap", "acc", "acc", "com", "show", "val", "window", "last", "interval", "diff",
	"noclose", "csv", "sort", "k", "digits"}

type c14MixPlan struct {
	Journal  string   `json:"journal"`
	Features []string `json:"features_forced"`
	Wild     string   `json:"unmodelled_value,omitempty"`
}

func c14GenFlagMix(c *Ctx, i int) *c14Case {
	r := c.Rng("flagmix", i)
	tc := &c14Case{Stream: "flagmix", Index: i, Model: true, Path: "main.knut"}
	plan := c14MixPlan{}
	tc.Cmd = Pick(r, []string{"balance", "balance", "balance", "balance", "weights", "returns"})
	portfolio := tc.Cmd != "balance"

	// ---- the journal
	val := ""
	if portfolio || r.Chance(1, 2) {
		val = c14Val(r)
	}
	var names *Journal
	lo, hi := 737000, 738000
	zeroTime := false
	if r.Chance(2, 5) {
		sp := c14Special[r.Intn(len(c14Special)-1)] // (the last one, many-days, is built by the stream special)
		plan.Journal = "special:" + sp.name
		// a date 0001-01-01 (or before) in the journal: the recorded findings transaction-dated-0001-01-01 and
		// accrual-window-starting-0001-01-01. A panic there is accepted only where the model predicts it, so these
		// journals get the modelled flag vectors only: balance, patterns of the model's family
		zeroTime = strings.Contains(sp.text, "0001-01-01") || strings.Contains(sp.text, "0000-")
		if zeroTime && portfolio {
			tc.Cmd, portfolio = "balance", false
		}
		if val != "" {
			val = Pick(r, []string{"CHF", "CHF", "USD"})
		}
		tc.Files = []c14File{{Rel: "main.knut", Data: sp.text}}
		names = c14MixNames(sp.text)
	} else {
		j, _, _ := c14Journal(r, val)
		names = j
		nfiles := Pick(r, []int{1, 1, 2, 3})
		plan.Journal = fmt.Sprintf("generated:%d-files", nfiles)
		if nfiles == 1 {
			text, _ := j.Text()
			tc.Files = []c14File{{Rel: "main.knut", Data: text}}
		} else {
			parts := c14Split(r, j, nfiles)
			lr := c.Rng("flagmix/bytes", i)
			rels := []string{"main.knut"}
			incs := make([][]string, nfiles)
			for k := 1; k < nfiles; k++ {
				rel := path.Join(Pick(r, []string{".", "sub"}), fmt.Sprintf("f%d.knut", k))
				from := r.Intn(k)
				inc := rel
				if path.Dir(rels[from]) == "sub" {
					inc = "../" + rel
				}
				incs[from] = append(incs[from], inc)
				rels = append(rels, rel)
			}
			for k := 0; k < nfiles; k++ {
				tc.Files = append(tc.Files, c14File{Rel: rels[k], Data: c14Text(parts[k], incs[k], "", r, lr)})
			}
		}
	}
	for _, d := range names.Dirs {
		lo, hi = min(lo, d.Date), max(hi, d.Date)
	}
	if len(names.Dirs) == 0 {
		names = &Journal{Dirs: []JDir{{Kind: 'o', Date: 737000, Account: "Assets:A"}, {Kind: 'o', Date: 737100, Account: "Expenses:B"}, {Kind: 'p', Date: 737000, Com: "CHF", Target: "CHF"}}}
	}
	accounts, coms := journalNames(names)
	tc.Kind = strings.SplitN(plan.Journal, ":", 2)[0]

	// ---- the flag vector: drawn as for C01-C03, then two to four features forced on
	f := GenBalFlags(r, names, val, BalGenOpts{Valued: val != ""})
	pat := func() string { return genPattern(r, accounts) }
	several := func(one func() string) []string {
		ps := []string{one()}
		for r.Chance(1, 3) && len(ps) < 3 {
			ps = append(ps, one())
		}
		return ps
	}
	rule := func(level int) MapRuleF {
		m := MapRuleF{Level: level}
		if r.Chance(1, 2) {
			m.Suffix = r.Range(1, 3)
		}
		if r.Chance(3, 4) {
			m.Regex = pat()
		}
		return m
	}
	addRule := func(m MapRuleF) {
		if r.Bool() { // the first matching rule decides: in front of the drawn rules or behind them
			f.Map = append([]MapRuleF{m}, f.Map...)
		} else {
			f.Map = append(f.Map, m)
		}
	}
	nf := Pick(r, []int{2, 2, 2, 3, 3, 4})
	chosen := map[string]bool{}
	for len(chosen) < nf {
		chosen[Pick(r, c14MixFeatures)] = true
	}
	for _, ft := range c14MixFeatures { // (in the fixed order of the list: replayable)
		if !chosen[ft] {
			continue
		}
		chosen[ft] = false
		plan.Features = append(plan.Features, ft)
		switch ft {
		case "map0":
			addRule(rule(0))
		case "mapN":
			addRule(rule(r.Range(1, 3)))
		case "mapMany":
			for k, n := 0, r.Range(2, 4); k < n; k++ {
				addRule(rule(r.Range(0, 3)))
			}
		case "remap":
			f.Remap = several(pat)
		case "acc":
			f.Acc = several(pat)
		case "com":
			if len(coms) > 0 {
				f.Com = several(func() string { return "^" + Pick(r, coms) + "$" })
			}
		case "show":
			if f.Val != "" {
				f.Show = several(pat)
			}
		case "val":
			if f.Val == "" {
				f.Val = Pick(r, append([]string{"CHF"}, coms...))
			}
		case "window":
			f.From, f.To = lo+r.Range(-5, (hi-lo)/2+3), hi+r.Range(-(hi-lo)/2-3, 40)
			if r.Chance(1, 6) {
				f.From, f.To = f.To+1, f.From
			}
		case "last":
			f.Last = Pick(r, []int{1, 2, 3, 7, -1, -r.Range(2, 1000), 1 << 40})
		case "interval":
			f.Interval = r.Range(1, 5)
		case "diff":
			f.Diff = true
		case "noclose":
			f.NoClose = true
		case "csv":
			f.CSV = true
		case "sort":
			f.SortAlpha = true
		case "k":
			f.Thousands = true
		case "digits":
			f.Digits = Pick(r, []int{1, 2, 3, 8, 17, 40, -1, -3, -40})
		}
	}
	// the flag parser accepts 0001-01-01 .. 9999-12-31 only (0 stands for "flag absent")
	if f.From < 0 || f.From > maxDay {
		f.From = 1
	}
	if f.To < 0 || f.To > maxDay {
		f.To = maxDay
	}
	// keep the number of periods moderate (the report is as wide as the window has periods; a fine interval over
	// centuries is the recorded finding calendar-wide-window-memory, which the stream slow exhibits)
	start, end := lo, max(hi, today())
	if f.From != 0 {
		start = f.From
	}
	if f.To != 0 {
		end = f.To
	}
	span := end - start
	if f.Interval == 1 && span > 3000 {
		f.Interval = 3
	}
	if f.Interval == 2 && span > 20000 {
		f.Interval = 5
	}
	if f.Interval == 3 && span > 300000 {
		f.Interval = 5
	}

	// ---- a value outside the model's regex family / far above any account depth: monitors only
	if r.Chance(1, 5) && !zeroTime {
		tc.Model = false
		w := Pick(r, c14MixWild)
		plan.Wild = w
		switch k := r.Intn(5); {
		case k == 0 && len(f.Map) > 0:
			f.Map[r.Intn(len(f.Map))].Regex = w
		case k == 1 && len(f.Remap) > 0:
			f.Remap[r.Intn(len(f.Remap))] = w
		case k == 2 && len(f.Acc) > 0:
			f.Acc[r.Intn(len(f.Acc))] = w
		case k == 3 && len(f.Map) > 0:
			m := &f.Map[r.Intn(len(f.Map))]
			m.Level, m.Suffix = Pick(r, []int{9, 100, 2147483647}), Pick(r, []int{0, 1, 50})
			plan.Wild = fmt.Sprintf("-m level %d suffix %d", m.Level, m.Suffix)
		default:
			f.Remap = append(f.Remap, w)
		}
	}
	tc.Bal = &f
	tc.Val = f.Val

	// ---- argv
	if !portfolio {
		tc.buildArgv()
	} else {
		tc.buildArgv() // -v, --from, --to, --last, interval, path
		p := tc.Argv[len(tc.Argv)-1]
		a := tc.Argv[:len(tc.Argv)-1]
		extra := false
		for _, s := range f.Acc {
			a, extra = append(a, "--account", s), true
		}
		for _, s := range f.Com {
			a, extra = append(a, "--commodity", s), true
		}
		if tc.Cmd == "weights" {
			for _, m := range (BalFlags{Map: f.Map}).Args()[1:] { // (-m <rule> pairs; [0] is --color=false)
				a, extra = append(a, m), true
			}
			if f.CSV {
				a = append(a, "--csv")
			}
			if f.SortAlpha {
				a = append(a, "-a")
			}
			if f.Thousands {
				a = append(a, "-k")
			}
			if f.Digits != 0 {
				a = append(a, "--digits", itoa(f.Digits))
			}
		}
		tc.Argv = append(a, p)
		if extra {
			tc.Model = false // portfolioClass models the window and the valuation only
		}
	}
	tc.Tags = append(tc.Tags, "flagmix:cmd:"+tc.Cmd, fmt.Sprintf("flagmix:features:%d", len(plan.Features)))
	for a := 0; a < len(plan.Features); a++ {
		tc.Tags = append(tc.Tags, "flagmix:has:"+plan.Features[a])
		for b := a + 1; b < len(plan.Features); b++ {
			tc.Tags = append(tc.Tags, "flagmix:pair:"+plan.Features[a]+"+"+plan.Features[b])
		}
	}
	if len(f.Map) > 0 && len(f.Remap) > 0 {
		tc.Tags = append(tc.Tags, "flagmix:vector:map+remap")
	}
	if plan.Wild != "" {
		tc.Tags = append(tc.Tags, "flagmix:unmodelled-value")
	}
	tc.Kind += "/" + strings.Join(plan.Features[:min(2, len(plan.Features))], "+")
	return tc
}
